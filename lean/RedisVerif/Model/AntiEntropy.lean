import RedisVerif.Model.NMap
import RedisVerif.Model.Crdt
import RedisVerif.Model.HashBytes

/-
  M8 (anti-entropy half) — model of the Merkle digest and of one digest-driven sync exchange.

  Anchors: /repo/src/replication/anti_entropy.rs (`KeyDigest::{new, bucket}`,
  `MerkleNode::{empty, from_digests, combine}`, `StateDigest::{from_state, differs_from,
  divergent_buckets}`, `AntiEntropyManager::get_keys_in_buckets`),
  `AntiEntropyManager::{process_peer_digest, create_sync_request, handle_sync_request}` (the
  message protocol), /repo/src/simulator/multi_node.rs (`MultiNodeSimulation::run_anti_entropy_sync`,
  `SimulatedNode::apply_remote_deltas` → `ShardReplicaState::apply_remote_delta`).

  * SipHash (`DefaultHasher`) is NOT re-implemented: `Hasher` bundles the three ways the code
    uses it as abstract functions (the driver instantiates them with the real hash values
    carried by the op lines).
  * A state is `HashMap<String, ReplicatedValue>` → `NMap RV` (keys = injective key codes).
    Wherever the code ITERATES the map the iteration order is an explicit parameter
    `π : List Nat` (the keys in the order the real map yields them).
  * `vs : ValueStream` is what `KeyDigest::new` feeds to the value hasher: `pinnedStream` (outer
    stamp + live LWW bytes, the code before the `fix:` commit) or `canonicalStream` (everything
    that distinguishes two values, in canonical order — the current tree).
  * `sortBucket` selects between the code as it is (`false`: bucket digests are folded in
    iteration order) and the suggested patch (`true`: each bucket's digests are sorted by
    `(key_hash, value_hash)` before folding).
-/
namespace RedisVerif
namespace AE

/-- the three uses of `DefaultHasher` -/
structure Hasher where
  /-- `key.hash(&mut DefaultHasher::new()); finish()` for a key (given by its key code) -/
  key : Nat → Nat
  /-- the value hasher, as a function of the stream of words fed to it (`ValueStream`) -/
  val : List Nat → Nat
  /-- a stream of `u64` words: `from_digests` (`key_hash, value_hash` per digest) and
      `combine` (`left.hash, right.hash`) -/
  words : List Nat → Nat

/-- `KeyDigest` -/
structure KeyDigest where
  keyHash : Nat
  valueHash : Nat
  timestamp : Nat
  deriving DecidableEq, Repr, Inhabited

/-! ### what `KeyDigest::new` feeds to the value hasher

  Every variable-length part is length-prefixed and every alternative is tagged, as Rust's
  `Hash` impls for slices / `Vec` / `Option` / tuples do; the model's canonical (sorted) maps and
  sets stand for "visited in sorted order". -/

def serList {α : Type} (f : α → List Nat) (l : List α) : List Nat := l.length :: l.flatMap f

def serBytes (b : Bytes) : List Nat := serList (fun x => [x]) b

def serOptBytes : Option Bytes → List Nat
  | none => [0]
  | some b => 1 :: serBytes b

def serStamp (s : Stamp) : List Nat := [s.time, s.rid]

def serLww (r : Lww) : List Nat := serOptBytes r.value ++ (serStamp r.ts ++ [if r.tomb then 1 else 0])

def serCounts (m : NMap Nat) : List Nat := serList (fun p => [p.1, p.2]) m

def serNSet (s : NSet) : List Nat := serList (fun k => [k]) s

def serCrdt : Crdt → List Nat
  | .lww r => 0 :: serLww r
  | .gcounter c => 1 :: serCounts c
  | .pncounter p n => 2 :: (serCounts p ++ serCounts n)
  | .gset s => 3 :: serNSet s
  | .orset e nx => 4 :: (serList (fun p => p.1 :: serNSet p.2) e ++ serCounts nx)
  | .hash h => 5 :: serList (fun p => p.1 :: serLww p.2) h

def serOptNat : Option Nat → List Nat
  | none => [0]
  | some n => [1, n]

def serOptCounts : Option (NMap Nat) → List Nat
  | none => [0]
  | some m => 1 :: serCounts m

/-- a value stream: what is fed to the value hasher for a replicated value -/
abbrev ValueStream := RV → List Nat

/-- the value stream of the pinned code: outer stamp, and the live LWW bytes if there are any
    (`time.hash; replica_id.hash; if let Some(v) = value.get() { v.as_bytes().hash }`) -/
def pinnedStream : ValueStream := fun v =>
  serStamp v.ts ++ (match v.get with | none => [] | some b => serBytes b)

/-- the value stream of `canonical_hash` (since the `fix:` commit recorded in
    known_findings.json): outer stamp, CRDT kind and full content, vector clock, expiry,
    replication factor -/
def canonicalStream : ValueStream := fun v =>
  serStamp v.ts ++ (serCrdt v.crdt ++ (serOptCounts v.vc ++ (serOptNat v.expiry ++ serOptNat v.rf)))

/-! ### the BYTES `canonical_hash` writes into the `DefaultHasher`

  `canonicalStream` above is the shape of the stream (one word per hashed item); `byteStream` is
  the stream itself, byte for byte, as Rust's `Hash` impls produce it (`Model/HashBytes.lean`):
  what `sip13` of it returns is compared with the real `KeyDigest::new(..).value_hash` for every
  value of every run.  `kb` decodes a string code (set element, hash field name) into its bytes
  (`HB.keyStr` in the driver).  Differences to the word stream that matter:
  * a `String` is hashed as its bytes followed by `0xff` — NOT length-prefixed: unambiguous only
    because a UTF-8 string never contains `0xff` (`StrSafe`);
  * `Vec<&String>` / the OR-set elements / the hash fields are `sort_unstable`d by the strings'
    BYTES (`String: Ord`), not in the (length-first) order of the model's key codes. -/

open HB in
/-- `lww(r, h)`: `r.value.as_ref().map(|v| v.as_bytes()).hash(h);
    (r.timestamp.time, r.timestamp.replica_id.0, r.tombstone).hash(h)` -/
def bLww (r : Lww) : List Nat :=
  (match r.value with
    | none => le64 0
    | some b => le64 1 ++ (le64 b.length ++ b))
  ++ (le64 r.ts.time ++ (le64 r.ts.rid ++ [if r.tomb then 1 else 0]))

open HB in
/-- the sorted tag list of one OR-set element: `Vec<(u64, u64)>` of `(replica_id, sequence)`; a
    tag code is `replica_id * 2^64 + sequence`, the canonical set is in code order =
    `(replica_id, sequence)` order -/
def bTags (t : NSet) : List Nat :=
  le64 t.length ++ t.flatMap fun c => le64 (c / 2 ^ 64) ++ le64 (c % 2 ^ 64)

/-- entries keyed by a string, `sort_unstable`d by the string's bytes -/
def sortByStr {β : Type} (kb : Nat → List Nat) (m : List (Nat × β)) : List (List Nat × β) :=
  HB.isort (fun a b => HB.bytesLe a.1 b.1) (m.map fun p => (kb p.1, p.2))

/-- one string-keyed entry: the string (`0xff`-terminated), then its payload -/
def strEntry {β : Type} (g : β → List Nat) (p : List Nat × β) : List Nat := (p.1 ++ [255]) ++ g p.2

open HB in
def bCrdt (kb : Nat → List Nat) : Crdt → List Nat
  | .lww r => 0 :: bLww r
  | .gcounter c => 1 :: pairsBytes c
  | .pncounter p n => 2 :: (pairsBytes p ++ pairsBytes n)
  | .gset s =>
    let strs := isort bytesLe (s.map kb)
    3 :: (le64 strs.length ++ strs.flatMap fun b => b ++ [255])
  | .orset e nx =>
    let es := sortByStr kb e
    4 :: ((le64 es.length ++ es.flatMap (strEntry bTags)) ++ pairsBytes nx)
  | .hash h =>
    let fs := sortByStr kb h
    5 :: (le64 fs.length ++ fs.flatMap (strEntry bLww))

open HB in
/-- the bytes `canonical_hash(value, h)` writes: `(time, replica).hash; <tag>u8.hash; <content>;
    vector_clock.is_some().hash; [counts(vc)]; (expiry_ms, replication_factor).hash` -/
def byteStream (kb : Nat → List Nat) : ValueStream := fun v =>
  le64 v.ts.time ++ (le64 v.ts.rid ++ (bCrdt kb v.crdt ++
    ((match v.vc with
      | none => [0]
      | some m => 1 :: pairsBytes m) ++ (optU64 v.expiry ++ optU8 v.rf))))

/-- the three uses of `DefaultHasher` as ONE byte-stream hash `sip`:
    * `key.hash(h)` → the key's bytes and `0xff`;
    * `canonical_hash(value, h)` → the value hasher is `sip` itself (on `byteStream`);
    * `from_digests` / `combine` → every `u64` word as 8 little-endian bytes -/
def sipHasher (sip : List Nat → Nat) (kb : Nat → List Nat) : Hasher :=
  { key := fun k => sip (HB.strBytes kb k)
    val := sip
    words := fun ws => sip (ws.flatMap HB.le64) }

/-- the value stream of the current tree -/
def currentStream : ValueStream := byteStream HB.keyStr

/-- the hasher of the current tree: SipHash-1-3 with the zero key (`DefaultHasher::new()`) -/
def currentHasher : Hasher := sipHasher Sip.sip13 HB.keyStr

/-- `KeyDigest::new(key, value)` -/
def keyDigest (H : Hasher) (vs : ValueStream) (k : Nat) (v : RV) : KeyDigest :=
  { keyHash := H.key k, valueHash := H.val (vs v), timestamp := v.ts.time }

/-- `KeyDigest::bucket(depth)`: `(key_hash as usize) % (1 << depth)` -/
def bucketOf (depth : Nat) (d : KeyDigest) : Nat := d.keyHash % 2 ^ depth

/-- `MerkleNode` -/
structure MerkleNode where
  hash : Nat
  count : Nat
  maxTs : Nat
  deriving DecidableEq, Repr, Inhabited

def MerkleNode.empty : MerkleNode := ⟨0, 0, 0⟩

/-- insertion sort of `(key_hash, value_hash)` pairs, lexicographic -/
def pairLe (a b : Nat × Nat) : Bool := a.1 < b.1 || (a.1 == b.1 && a.2 ≤ b.2)

def insertPair (e : Nat × Nat) : List (Nat × Nat) → List (Nat × Nat)
  | [] => [e]
  | x :: xs => if pairLe e x then e :: x :: xs else x :: insertPair e xs

def sortPairs (l : List (Nat × Nat)) : List (Nat × Nat) := l.foldr insertPair []

/-- the `(key_hash, value_hash)` pairs of a bucket in the order they are fed to the hasher -/
def hashedPairs (sortBucket : Bool) (ds : List KeyDigest) : List (Nat × Nat) :=
  let ps := ds.map fun d => (d.keyHash, d.valueHash)
  if sortBucket then sortPairs ps else ps

/-- `MerkleNode::from_digests` (preceded, when `sortBucket`, by the sort of the patch) -/
def fromDigests (H : Hasher) (sortBucket : Bool) (ds : List KeyDigest) : MerkleNode :=
  if ds.isEmpty then MerkleNode.empty
  else
    { hash := H.words ((hashedPairs sortBucket ds).flatMap fun p => [p.1, p.2])
      count := ds.length
      maxTs := ds.foldl (fun m d => max m d.timestamp) 0 }

/-- `MerkleNode::combine` -/
def combine (H : Hasher) (l r : MerkleNode) : MerkleNode :=
  if l.count = 0 ∧ r.count = 0 then MerkleNode.empty
  else { hash := H.words [l.hash, r.hash], count := l.count + r.count, maxTs := max l.maxTs r.maxTs }

/-- `StateDigest` (without `replica_id` / `generation`, which no comparison reads) -/
structure StateDigest where
  rootHash : Nat
  keyCount : Nat
  maxTs : Nat
  buckets : List MerkleNode
  deriving DecidableEq, Repr, Inhabited

/-- `keys.iter()` in iteration order `π` -/
def iter (π : List Nat) (s : NMap RV) : List (Nat × RV) :=
  π.filterMap fun k => (NMap.get s k).map fun v => (k, v)

/-- `π` is an iteration order of `s`: every key exactly once -/
def ValidOrder (π : List Nat) (s : NMap RV) : Prop := π.Perm (NMap.keys s)

instance (π : List Nat) (s : NMap RV) : Decidable (ValidOrder π s) := by
  unfold ValidOrder; infer_instance

/-- the root fold of `from_state`: `combined = buckets[0]; for node in &buckets[1..] { combine }` -/
def rootOf (H : Hasher) : List MerkleNode → MerkleNode
  | [] => MerkleNode.empty
  | b :: rest => rest.foldl (combine H) b

/-- the key digests that `from_state` pushes into bucket `b`, in push order -/
def bucketDigests (H : Hasher) (vs : ValueStream) (depth : Nat) (π : List Nat) (s : NMap RV) (b : Nat) :
    List KeyDigest :=
  ((iter π s).map fun p => keyDigest H vs p.1 p.2).filter fun d => bucketOf depth d == b

/-- `StateDigest::from_state(keys, _, _, depth)` -/
def fromState (H : Hasher) (sortBucket : Bool) (vs : ValueStream) (depth : Nat) (π : List Nat)
    (s : NMap RV) : StateDigest :=
  let buckets := (List.range (2 ^ depth)).map fun b => fromDigests H sortBucket (bucketDigests H vs depth π s b)
  let root := rootOf H buckets
  { rootHash := root.hash, keyCount := root.count, maxTs := root.maxTs, buckets := buckets }

/-! ## efficient evaluation of the model in the compiled driver (proof-backed `csimp`)

  The definitions in `Model/AntiEntropy.lean` transcribe the code; evaluated literally they
  recompute the key digests per bucket and index lists by position (quadratic in the number of
  buckets, 2^18 and more).  The compiler is told to use the variants below, which are PROVED equal. -/

def fromStateFast (H : Hasher) (sortBucket : Bool) (vs : ValueStream) (depth : Nat) (π : List Nat)
    (s : NMap RV) : StateDigest :=
  let m := 2 ^ depth
  let tagged := (iter π s).map fun p => let d := keyDigest H vs p.1 p.2; (d.keyHash % m, d)
  let buckets := (List.range m).map fun b =>
    fromDigests H sortBucket ((tagged.filter fun t => t.1 == b).map (·.2))
  let root := rootOf H buckets
  { rootHash := root.hash, keyCount := root.count, maxTs := root.maxTs, buckets := buckets }

@[csimp] theorem fromState_eq_fast : @fromState = @fromStateFast := by
  funext H sb vs depth π s
  unfold fromState fromStateFast bucketDigests
  simp only [List.filter_map, List.map_map]
  rfl

/-- `StateDigest::differs_from` -/
def differsFrom (a b : StateDigest) : Bool := a.rootHash != b.rootHash

/-- `StateDigest::divergent_buckets` (incl. the handling of digests of different depth) -/
def divergentBuckets (a b : StateDigest) : List Nat :=
  let len := min a.buckets.length b.buckets.length
  let common := (List.range len).filter fun i => a.buckets[i]? != b.buckets[i]?
  let extra (x : StateDigest) := ((List.range x.buckets.length).drop len).filter fun i =>
    match x.buckets[i]? with
    | some n => n.count > 0
    | none => false
  common ++ extra a ++ extra b

theorem zipIdx_filter_map {α : Type} (q : α → Bool) (l : List α) (k : Nat) :
    ((l.zipIdx k).filter (fun p => q p.1)).map (·.2)
      = (List.range' k l.length).filter (fun i => match l[i - k]? with | some x => q x | none => false) := by
  induction l generalizing k with
  | nil => rfl
  | cons x xs ih =>
    rw [List.zipIdx_cons, List.length_cons, List.range'_succ, List.filter_cons, List.filter_cons]
    have htail : (List.range' (k + 1) xs.length).filter
        (fun i => match (x :: xs)[i - k]? with | some y => q y | none => false)
        = (List.range' (k + 1) xs.length).filter
        (fun i => match xs[i - (k + 1)]? with | some y => q y | none => false) := by
      apply List.filter_congr
      intro i hi
      rw [List.mem_range'_1] at hi
      have : i - k = (i - (k + 1)) + 1 := by omega
      rw [this, List.getElem?_cons_succ]
    simp only [Nat.sub_self, List.getElem?_cons_zero]
    rw [htail, ← ih (k + 1)]
    cases q x <;> simp

def divergentBucketsFast (a b : StateDigest) : List Nat :=
  let len := min a.buckets.length b.buckets.length
  let common := (((a.buckets.zip b.buckets).zipIdx 0).filter (fun p => p.1.1 != p.1.2)).map (·.2)
  let extra (x : StateDigest) := (((x.buckets.drop len).zipIdx len).filter (fun p => decide (p.1.count > 0))).map (·.2)
  common ++ extra a ++ extra b

@[csimp] theorem divergentBuckets_eq_fast : @divergentBuckets = @divergentBucketsFast := by
  funext a b
  unfold divergentBuckets divergentBucketsFast
  simp only []
  have hcommon : (List.range (min a.buckets.length b.buckets.length)).filter (fun i => a.buckets[i]? != b.buckets[i]?)
      = (((a.buckets.zip b.buckets).zipIdx 0).filter (fun p => p.1.1 != p.1.2)).map (·.2) := by
    rw [zipIdx_filter_map (fun p : MerkleNode × MerkleNode => p.1 != p.2), List.length_zip, List.range_eq_range']
    apply List.filter_congr
    intro i hi
    rw [List.mem_range'_1] at hi
    have h1 : i < a.buckets.length := by omega
    have h2 : i < b.buckets.length := by omega
    have hz : (a.buckets.zip b.buckets)[i - 0]? = some (a.buckets[i], b.buckets[i]) := by
      rw [Nat.sub_zero, List.getElem?_zip_eq_some]
      exact ⟨List.getElem?_eq_getElem h1, List.getElem?_eq_getElem h2⟩
    rw [hz, List.getElem?_eq_getElem h1, List.getElem?_eq_getElem h2]
    by_cases he : a.buckets[i] = b.buckets[i]
    · simp [he]
    · have e1 : (some a.buckets[i] != some b.buckets[i]) = true := by
        rw [bne_iff_ne]; intro h; exact he (Option.some.inj h)
      have e2 : (a.buckets[i] != b.buckets[i]) = true := bne_iff_ne.mpr he
      rw [e1]
      exact e2.symm
  have hextra : ∀ x : StateDigest,
      (((List.range x.buckets.length).drop (min a.buckets.length b.buckets.length)).filter fun i =>
        match x.buckets[i]? with
        | some n => decide (n.count > 0)
        | none => false)
      = (((x.buckets.drop (min a.buckets.length b.buckets.length)).zipIdx (min a.buckets.length b.buckets.length)).filter
          (fun p => decide (p.1.count > 0))).map (·.2) := by
    intro x
    rw [zipIdx_filter_map (fun n : MerkleNode => decide (n.count > 0)), List.range_eq_range', List.drop_range',
      List.length_drop]
    simp only [Nat.mul_one, Nat.zero_add]
    apply List.filter_congr
    intro i hi
    rw [List.mem_range'_1] at hi
    rw [List.getElem?_drop]
    have : min a.buckets.length b.buckets.length + (i - min a.buckets.length b.buckets.length) = i := by omega
    rw [this]
    cases hx : x.buckets[i]? <;> simp
  rw [hcommon]
  congr 1
  · congr 1
    exact hextra a
  · exact hextra b

/-- how `get_keys_in_buckets` arranges the selected entries before applying the limit -/
abbrev Arrange := List (Nat × RV) → List (Nat × RV)

/-- stable insertion sort of entries by key under a key order `le` (in the driver: byte-wise
    `String::cmp` on the decoded keys — NOT the order of the key codes) -/
def insertByKey (le : Nat → Nat → Bool) (e : Nat × RV) : List (Nat × RV) → List (Nat × RV)
  | [] => [e]
  | x :: xs => if le e.1 x.1 then e :: x :: xs else x :: insertByKey le e xs

def sortByKey (le : Nat → Nat → Bool) : Arrange := fun l => l.foldr (insertByKey le) []

/-- the two versions of `get_keys_in_buckets` -/
inductive SimOrder where
  | mapOrder   -- `.filter(..).take(limit)` in map iteration order (before fix dc1be9d)
  | keyOrder   -- `.filter(..).collect(); sort_by(key); .take(limit)` (since fix dc1be9d)
  deriving DecidableEq, Repr

def arrangeOf (so : SimOrder) (le : Nat → Nat → Bool) : Arrange :=
  match so with
  | .mapOrder => fun l => l
  | .keyOrder => sortByKey le

def currentSimOrder : SimOrder := .keyOrder

/-- `AntiEntropyManager::get_keys_in_buckets` (the simulator path):
    `keys.iter().filter(bucket ∈ buckets)`, arranged by `arr`, `.take(limit)` -/
def getKeysInBuckets (arr : Arrange) (H : Hasher) (vs : ValueStream) (depth limit : Nat) (π : List Nat)
    (s : NMap RV) (buckets : List Nat) : List (Nat × RV) :=
  (arr ((iter π s).filter fun p => buckets.contains (bucketOf depth (keyDigest H vs p.1 p.2)))).take limit

/-- compiled form: the bucket of an entry needs its KEY hash only (the literal transcription builds
    the whole `KeyDigest`, i.e. also hashes the value, for every entry of every filter) -/
def getKeysInBucketsFast (arr : Arrange) (H : Hasher) (_vs : ValueStream) (depth limit : Nat) (π : List Nat)
    (s : NMap RV) (buckets : List Nat) : List (Nat × RV) :=
  (arr ((iter π s).filter fun p => buckets.contains (H.key p.1 % 2 ^ depth))).take limit

@[csimp] theorem getKeysInBuckets_eq_fast : @getKeysInBuckets = @getKeysInBucketsFast := by
  funext arr H vs depth limit π s buckets
  rfl

/-- `ShardReplicaState::apply_remote_delta` on `replicated_keys` (the Lamport clock and the
    executor write-through of `SimulatedNode::apply_remote_deltas` are not part of the state
    the digests are computed from) -/
def applyDelta (s : NMap RV) (d : Nat × RV) : NMap RV :=
  match NMap.get s d.1 with
  | some loc => NMap.insert d.1 (RV.merge loc d.2) s
  | none => NMap.insert d.1 d.2 s

def applyDeltas (s : NMap RV) (ds : List (Nat × RV)) : NMap RV := ds.foldl applyDelta s

/-- which bucket-fold the current tree uses -/
def currentSortBucket : Bool := true

/-- the crosswise application of `run_anti_entropy_sync`: both delta sets are computed from the
    pre-states (`get_keys_in_buckets` on either side), then `node_b` applies `deltas_a` and
    `node_a` applies `deltas_b` -/
def exchange (arr : Arrange) (H : Hasher) (vs : ValueStream) (depth limit : Nat) (πa πb : List Nat)
    (a b : NMap RV) (div : List Nat) : NMap RV × NMap RV :=
  let deltasA := getKeysInBuckets arr H vs depth limit πa a div
  let deltasB := getKeysInBuckets arr H vs depth limit πb b div
  (applyDeltas a deltasB, applyDeltas b deltasA)

/-- `MultiNodeSimulation::run_anti_entropy_sync(node_a, node_b)` on the two `replicated_keys` maps -/
def syncRoundWith (arr : Arrange) (H : Hasher) (sortBucket : Bool) (vs : ValueStream) (depth limit : Nat)
    (πa πb : List Nat) (a b : NMap RV) : NMap RV × NMap RV :=
  let da := fromState H sortBucket vs depth πa a
  let db := fromState H sortBucket vs depth πb b
  if differsFrom da db then
    let div := divergentBuckets da db
    if !div.isEmpty then exchange arr H vs depth limit πa πb a b div
    else (a, b)
  else (a, b)

/-! ### the message protocol: `process_peer_digest` → `create_sync_request` →
    `handle_sync_request` → the requester merges the response -/

/-- in which order `handle_sync_request` applies the bucket filter and the per-round limit -/
inductive RespOrder where
  | filterThenTake   -- `.filter(bucket ∈ requested).take(max_keys_per_sync)` (the code as it is)
  | takeThenFilter   -- `.take(max_keys_per_sync).filter(..)`: the limit cuts the ITERATION, not the answer
  deriving DecidableEq, Repr

/-- the deltas of `AntiEntropyManager::handle_sync_request(request, our_keys)`:
    `requested_buckets = Some(buckets)` → the keys of those buckets, `None` → all keys; at most
    `max_keys_per_sync`, in map iteration order `π` -/
def responseKeysWith (ord : RespOrder) (H : Hasher) (vs : ValueStream) (depth limit : Nat) (π : List Nat)
    (s : NMap RV) (requested : Option (List Nat)) : List (Nat × RV) :=
  match requested with
  | none => (iter π s).take limit
  | some buckets =>
    let inReq := fun (p : Nat × RV) => buckets.contains (bucketOf depth (keyDigest H vs p.1 p.2))
    match ord with
    | .filterThenTake => ((iter π s).filter inReq).take limit
    | .takeThenFilter => ((iter π s).take limit).filter inReq

def responseKeysWithFast (ord : RespOrder) (H : Hasher) (_vs : ValueStream) (depth limit : Nat) (π : List Nat)
    (s : NMap RV) (requested : Option (List Nat)) : List (Nat × RV) :=
  match requested with
  | none => (iter π s).take limit
  | some buckets =>
    let inReq := fun (p : Nat × RV) => buckets.contains (H.key p.1 % 2 ^ depth)
    match ord with
    | .filterThenTake => ((iter π s).filter inReq).take limit
    | .takeThenFilter => ((iter π s).take limit).filter inReq

@[csimp] theorem responseKeysWith_eq_fast : @responseKeysWith = @responseKeysWithFast := by
  funext ord H vs depth limit π s requested
  cases requested <;> rfl

def currentRespOrder : RespOrder := .filterThenTake

/-- one pull: the requester (state `r`, order `πr`) compares digests with the peer (`p`, `πp`)
    (`process_peer_digest`), asks for the divergent buckets (or, `full`, for the whole state:
    `create_sync_request(.., buckets = None)`), the peer answers (`handle_sync_request`) and the
    requester merges every delta of the answer (`apply_remote_delta`).
    Returns (digests differ, requested buckets, answered keys, new requester state). -/
def pullWith (ord : RespOrder) (H : Hasher) (sortBucket : Bool) (vs : ValueStream) (depth limit : Nat)
    (full : Bool) (πr πp : List Nat) (r p : NMap RV) : Bool × List Nat × List (Nat × RV) × NMap RV :=
  let dr := fromState H sortBucket vs depth πr r
  let dp := fromState H sortBucket vs depth πp p
  if differsFrom dr dp then
    let div := divergentBuckets dr dp
    let resp := responseKeysWith ord H vs depth limit πp p (if full then none else some div)
    (true, div, resp, applyDeltas r resp)
  else (false, [], [], r)

/-- a digest-side clamp of the tree depth (`None` = the current tree: no clamp; `Some c` = the
    seeded defect class "the digest materialises at most 2^c buckets" while the key filters keep
    bucketing with the configured depth) -/
def digestDepth (clamp : Option Nat) (depth : Nat) : Nat :=
  match clamp with
  | none => depth
  | some c => min depth c

/-- `pullWith .filterThenTake` with the digests built at `digestDepth clamp depth` and the
    responder's key filter at `depth` -/
def pullClamped (clamp : Option Nat) (H : Hasher) (sortBucket : Bool) (vs : ValueStream) (depth limit : Nat)
    (πr πp : List Nat) (r p : NMap RV) : Bool × List Nat × List (Nat × RV) × NMap RV :=
  let dr := fromState H sortBucket vs (digestDepth clamp depth) πr r
  let dp := fromState H sortBucket vs (digestDepth clamp depth) πp p
  if differsFrom dr dp then
    let div := divergentBuckets dr dp
    let resp := responseKeysWith .filterThenTake H vs depth limit πp p (some div)
    (true, div, resp, applyDeltas r resp)
  else (false, [], [], r)

/-- how a configured `merkle_tree_depth` becomes the depth in effect -/
inductive DepthBound where
  | unbounded            -- `1 << depth` at every use (before fix c51a674)
  | capped (max : Nat)   -- `bucket_count(depth) = 1 << depth.min(MAX_MERKLE_TREE_DEPTH)`, the one
                         -- function through which digest construction and `KeyDigest::bucket` go
  deriving DecidableEq, Repr

/-- the depth every model function of this file is to be called with: digest, divergent-bucket
    list and both key filters receive the SAME effective depth -/
def effectiveDepth (b : DepthBound) (depth : Nat) : Nat :=
  match b with
  | .unbounded => depth
  | .capped m => min depth m

/-- `MAX_MERKLE_TREE_DEPTH` -/
def currentDepthBound : DepthBound := .capped 20

/-- `AntiEntropyConfig::keys_per_sync() = max_keys_per_sync.max(1)` (since fix 7f2c849; before it
    the configured limit was used as it is) -/
def effectiveLimit (atLeastOne : Bool) (limit : Nat) : Nat := if atLeastOne then max limit 1 else limit

def currentLimitAtLeastOne : Bool := true

/-- what allocating the bucket vector of `StateDigest::from_state` does for a configured
    `merkle_tree_depth` (a plain `usize`) on a 64-bit target.  Unbounded: `vec![..; 1 << depth]` —
    a shift amount ≥ 64 panics when the crate is built with overflow checks (as the verification
    harness builds it) and wraps modulo 64 otherwise; a vector of more than `isize::MAX` bytes
    (24 bytes per bucket) panics with "capacity overflow"; below that the allocation is attempted
    (and aborts the process when the memory is not there — not modelled). -/
inductive DigestAlloc where
  | buckets (n : Nat)
  | capacityOverflowPanic
  | shiftOverflowPanic
  deriving DecidableEq, Repr

def digestAlloc (b : DepthBound) (overflowChecks : Bool) (depth : Nat) : DigestAlloc :=
  let d := effectiveDepth b depth
  if overflowChecks && d ≥ 64 then .shiftOverflowPanic
  else
    let n := 2 ^ (d % 64)
    if 24 * n > 2 ^ 63 - 1 then .capacityOverflowPanic else .buckets n

/-- the digest / the sync round of the current tree -/
def digest (H : Hasher) (depth : Nat) (π : List Nat) (s : NMap RV) : StateDigest :=
  fromState H currentSortBucket currentStream depth π s

def syncRound (le : Nat → Nat → Bool) (H : Hasher) (depth limit : Nat) (πa πb : List Nat) (a b : NMap RV) :
    NMap RV × NMap RV :=
  syncRoundWith (arrangeOf currentSimOrder le) H currentSortBucket currentStream depth limit πa πb a b

def pull (H : Hasher) (depth limit : Nat) (full : Bool) (πr πp : List Nat) (r p : NMap RV) :
    Bool × List Nat × List (Nat × RV) × NMap RV :=
  pullWith currentRespOrder H currentSortBucket currentStream depth limit full πr πp r p

/-! ## `AntiEntropyManager` as a state machine (session 3)

  The message protocol with its bookkeeping: digests are MESSAGES (they carry the sender's replica
  id and generation and may be processed late), a request names the buckets the requester found
  divergent when it processed the peer's digest, the responder answers from its CURRENT state and
  the requester merges into its CURRENT state — whatever happened in between. -/

/-- a `StateDigest` as sent: with `replica_id` and `generation` -/
structure TDigest where
  rid : Nat
  generation : Nat
  d : StateDigest
  deriving DecidableEq, Repr, Inhabited

/-- `AntiEntropyManager` (`pending_requests` / `pending_responses` have no producer in src/: they
    stay empty and are not modelled) -/
structure Mgr where
  rid : Nat
  generation : Nat
  depth : Nat          -- `config.merkle_tree_depth` as configured
  limit : Nat          -- `config.max_keys_per_sync` as configured
  interval : Nat       -- `config.sync_interval_ms`
  autoSync : Bool      -- `config.auto_sync_on_heal`
  peerDigests : NMap TDigest
  divergentPeers : NSet
  lastSync : NMap Nat
  deriving DecidableEq, Repr, Inhabited

def Mgr.new (rid depth limit interval : Nat) (autoSync : Bool) : Mgr :=
  { rid := rid, generation := 0, depth := depth, limit := limit, interval := interval, autoSync := autoSync,
    peerDigests := [], divergentPeers := [], lastSync := [] }

/-- `on_local_write` -/
def Mgr.onLocalWrite (m : Mgr) : Mgr := { m with generation := m.generation + 1 }

/-- `generate_digest(keys)` -/
def Mgr.generateDigest (H : Hasher) (m : Mgr) (π : List Nat) (s : NMap RV) : TDigest :=
  ⟨m.rid, m.generation, digest H (effectiveDepth currentDepthBound m.depth) π s⟩

/-- `current_time - last_sync >= sync_interval_ms` on `u64`: a clock that went backwards
    underflows (a panic with overflow checks, a wrap-around — "due" — without) -/
inductive Due where
  | yes | no | underflow
  deriving DecidableEq, Repr

def dueAt (interval last now : Nat) : Due :=
  if now < last then .underflow else if now - last ≥ interval then .yes else .no

/-- `should_sync(peer, current_time)` -/
def Mgr.shouldSync (m : Mgr) (peer now : Nat) : Due :=
  match m.lastSync.get peer with
  | some t => dueAt m.interval t now
  | none => .yes

/-- `process_peer_digest(peer_digest, our_digest)` -/
def Mgr.processPeerDigest (m : Mgr) (peer ours : TDigest) : Mgr × Option (List Nat) :=
  if differsFrom ours.d peer.d then
    ({ m with divergentPeers := NSet.insert peer.rid m.divergentPeers, peerDigests := NMap.insert peer.rid peer m.peerDigests },
      some (divergentBuckets ours.d peer.d))
  else
    ({ m with divergentPeers := m.divergentPeers.filter (fun x => x != peer.rid), peerDigests := NMap.insert peer.rid peer m.peerDigests },
      none)

/-- `SyncRequest` -/
structure Request where
  fromR : Nat
  toR : Nat
  digest : TDigest
  buckets : Option (List Nat)
  deriving DecidableEq, Repr, Inhabited

/-- `create_sync_request(peer, our_digest, buckets, current_time)` -/
def Mgr.createSyncRequest (m : Mgr) (peer : Nat) (ours : TDigest) (buckets : Option (List Nat)) (now : Nat) :
    Mgr × Request :=
  ({ m with lastSync := NMap.insert peer now m.lastSync }, ⟨m.rid, peer, ours, buckets⟩)

/-- `SyncResponse` (the deltas as `(key, value)`; `source_replica` of every delta is `fromR`) -/
structure Response where
  fromR : Nat
  deltas : List (Nat × RV)
  digest : TDigest
  deriving DecidableEq, Repr, Inhabited

/-- `handle_sync_request(request, our_keys)`: answer from the CURRENT state, then
    `process_peer_digest(request.digest, &our_digest)` -/
def Mgr.handleSyncRequest (H : Hasher) (m : Mgr) (req : Request) (π : List Nat) (s : NMap RV) : Mgr × Response :=
  let ours := m.generateDigest H π s
  let deltas := responseKeysWith currentRespOrder H currentStream (effectiveDepth currentDepthBound m.depth)
    (effectiveLimit currentLimitAtLeastOne m.limit) π s req.buckets
  ((m.processPeerDigest req.digest ours).1, ⟨m.rid, deltas, ours⟩)

/-- `on_partition_healed(peer)` -/
def Mgr.onPartitionHealed (m : Mgr) (peer : Nat) : Mgr :=
  if m.autoSync then { m with divergentPeers := NSet.insert peer m.divergentPeers, lastSync := NMap.erase peer m.lastSync }
  else m

/-- `peers_needing_sync(current_time)` as a SET (the divergent peers come out of a `HashSet`):
    the divergent peers and every peer whose last request is at least `sync_interval_ms` old;
    `none` = the `u64` subtraction underflows for some peer -/
def Mgr.peersNeedingSync (m : Mgr) (now : Nat) : Option NSet :=
  if m.lastSync.any (fun p => decide (now < p.2)) then none
  else some ((m.lastSync.filter (fun p => decide (now - p.2 ≥ m.interval))).foldl (fun acc p => NSet.insert p.1 acc) m.divergentPeers)

end AE
end RedisVerif
