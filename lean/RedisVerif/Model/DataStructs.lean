import RedisVerif.Model.Redis

/-
  `Model.DataStructs` — TRANSCRIPTIONS of `src/redis/data/list.rs` (`RedisList`) and
  `src/redis/data/sds.rs` (`SDS`), the containers behind the list and string commands.
  `Props/C01Data.lean` proves that they refine what `Model.Redis` (the specification) uses:
  `RedisList::range / get / set / trim` = `slice ∘ lrangeNorm`, `listIdx`, `List.set`; the
  inline / heap representation of `SDS` is unobservable through `as_bytes` and `append` / `resize`
  are concatenation / zero padding, with the representation boundary (23 bytes) stated exactly.

  isize arithmetic is modelled in `Int`: every sum is `len + (negative index)` with `0 ≤ len`,
  which cannot leave isize.  No imports outside core.
-/
namespace RedisVerif.DataStructs
open RedisVerif.Redis

/-! ## RedisList (`items: VecDeque<SDS>`) -/

abbrev RList := List BS

def RList.lpush (l : RList) (v : BS) : RList := v :: l
def RList.rpush (l : RList) (v : BS) : RList := l ++ [v]

def RList.lpop : RList → Option BS × RList
  | [] => (none, [])
  | x :: xs => (some x, xs)

def RList.rpop (l : RList) : Option BS × RList :=
  match l.getLast? with
  | none => (none, l)
  | some x => (some x, l.dropLast)

/-- the index normalisation shared by `range` and `trim`: `(s, e)` as isize values -/
def normStart (len : Nat) (start : Int) : Int :=
  if start < 0 then max ((len : Int) + start) 0 else min start len

def normStop (len : Nat) (stop : Int) : Int :=
  if stop < 0 then max ((len : Int) + stop) (-1) else min stop ((len : Int) - 1)

/-- `range(start, stop)` -/
def RList.range (l : RList) (start stop : Int) : List BS :=
  if normStart l.length start > normStop l.length stop ∨ normStart l.length start ≥ l.length then []
  else (l.drop (normStart l.length start).toNat).take
         (normStop l.length stop - normStart l.length start + 1).toNat

/-- `get(index)` (LINDEX) -/
def RList.get (l : RList) (index : Int) : Option BS :=
  let idx := if index < 0 then (l.length : Int) + index else index
  if idx < 0 ∨ idx ≥ l.length then none else l[idx.toNat]?

/-- `set(index, value)` (LSET): `none` = `Err("ERR index out of range")` -/
def RList.set (l : RList) (index : Int) (v : BS) : Option RList :=
  let idx := if index < 0 then (l.length : Int) + index else index
  if idx < 0 ∨ idx ≥ l.length then none else some (List.set l idx.toNat v)

/-- `trim(start, stop)` (LTRIM) -/
def RList.trim (l : RList) (start stop : Int) : RList :=
  if l.length = 0 then l
  else if normStart l.length start > normStop l.length stop ∨ normStart l.length start ≥ l.length then []
  else (l.drop (normStart l.length start).toNat).take
         (normStop l.length stop - normStart l.length start + 1).toNat

/-! ## SDS (`enum SDS { Inline { len: u8, data: [u8; 23] }, Heap(Vec<u8>) }`) -/

/-- `SSO_MAX_LEN` -/
def ssoMax : Nat := 23

inductive Sds
  | inline (len : Nat) (data : List Nat)
  | heap (data : List Nat)
  deriving DecidableEq, Repr

def zeros (n : Nat) : List Nat := List.replicate n 0

/-- `SDS::new(data)` (`from_str` is the same on the bytes of the string) -/
def Sds.new (b : List Nat) : Sds :=
  if b.length ≤ ssoMax then .inline b.length (b ++ zeros (ssoMax - b.length)) else .heap b

def Sds.len : Sds → Nat
  | .inline len _ => len
  | .heap d => d.length

def Sds.isEmpty (s : Sds) : Bool := s.len == 0

/-- `as_bytes()` (`&data[..len]`) -/
def Sds.asBytes : Sds → List Nat
  | .inline len d => d.take len
  | .heap d => d

def Sds.isInline : Sds → Bool
  | .inline _ _ => true
  | .heap _ => false

/-- `resize(new_len)`: grow to at least `new_len`, zero-filling -/
def Sds.resize (s : Sds) (n : Nat) : Sds :=
  if s.len ≥ n then s
  else if n ≤ ssoMax then
    match s with
    | .inline len d => .inline n (d.take len ++ zeros (n - len) ++ d.drop n)
    | .heap d => .heap (d ++ zeros (n - d.length))
  else
    match s with
    | .inline len d => .heap (d.take len ++ zeros (n - len))
    | .heap d => .heap (d ++ zeros (n - d.length))

/-- `append(other)` -/
def Sds.append (s o : Sds) : Sds :=
  if s.len + o.len ≤ ssoMax then
    match s with
    | .inline len d => .inline (len + o.len) (d.take len ++ o.asBytes ++ d.drop (len + o.len))
    | .heap d => .heap (d ++ o.asBytes)
  else .heap (s.asBytes ++ o.asBytes)

/-- what `verify_invariants` asserts of an inline value, plus the array length -/
def Sds.Wf : Sds → Prop
  | .inline len d => len ≤ ssoMax ∧ d.length = ssoMax
  | .heap _ => True

instance : DecidablePred Sds.Wf := fun s => by cases s <;> unfold Sds.Wf <;> infer_instance

end RedisVerif.DataStructs
