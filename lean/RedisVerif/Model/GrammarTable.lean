import RedisVerif.Model.Grammar
import RedisVerif.Model.GrammarDesc
import RedisVerif.Lemmas.Grammar
import RedisVerif.Lemmas.GrammarShape

/-
  M7 / GrammarTable — the command tables (one `Spec` per command name) of the three grammars and
  the parsers over them.  Custom bodies carry their keyword-variant relation together with its
  soundness proof (`Lemmas/Grammar.lean`), so that `parse_case_insensitive` is proved once over
  the table.  Imports core + RedisVerif modules only (linked into the native driver).
-/
namespace RedisVerif.Grammar

/-! ## custom bodies with their keyword-variant relation and its soundness proof -/
namespace CB
open Bodies

def set : CustomBody := ⟨Bodies.set, prefixV 2 (optVariant setOpts), Sound.set, Desc.set, Shape.set, Fin.set, Chk.set⟩
def luaSet : CustomBody := ⟨Bodies.luaSet, prefixV 2 (optVariant luaSetOpts), Sound.luaSet, Desc.luaSet, Shape.luaSet, Fin.luaSet, Chk.luaSet⟩
def expire (c : Bytes) : CustomBody :=
  ⟨Bodies.expire c, prefixV 2 (optVariant expireOpts), Sound.expire c, Desc.expire c, Shape.expire c, Fin.expire c, Chk.expire c⟩
def getex : CustomBody := ⟨Bodies.getex, prefixV 1 (optVariant getexOpts), Sound.getex, Desc.getex, Shape.getex, Fin.getex, Chk.getex⟩
def zrangebyscore (off cnt : Arg) (m : Lit) (u : Fmt) : CustomBody :=
  ⟨Bodies.zrangebyscore off cnt m u, prefixV 3 (optVariant (zrbsOpts off cnt m)), Sound.zrangebyscore off cnt m u,
   Desc.zrangebyscore off cnt m u, Shape.zrangebyscore off cnt m u, Fin.zrangebyscore off cnt m u, Chk.zrangebyscore off cnt m u⟩
def scan (c : Bytes) (withKey : Bool) (u : Fmt) : CustomBody :=
  ⟨Bodies.scan c withKey u, prefixV (if withKey then 2 else 1) (optVariant scanOptTbl), Sound.scan c withKey u,
   Desc.scan c withKey u, Shape.scan c withKey u, Fin.scan c withKey u, Chk.scan c withKey u⟩
def sort : CustomBody := ⟨Bodies.sort, prefixV 1 (optVariant sortOpts), Sound.sort, Desc.sort, Shape.sort, Fin.sort, Chk.sort⟩
def zadd (score : Arg) : CustomBody :=
  ⟨Bodies.zadd score, prefixV 1 (flagsVariant zaddFlags), Sound.zadd score, Desc.zadd score, Shape.zadd score, Fin.zadd score, Chk.zadd score⟩
def lmove : CustomBody := ⟨Bodies.lmove, prefixV 2 wordsVariant, Sound.lmove, Desc.lmove, Shape.lmove, Fin.lmove, Chk.lmove⟩
def zrange (c : Bytes) : CustomBody := ⟨Bodies.zrange c, prefixV 3 wordsVariant, Sound.zrange c, Desc.zrange c, Shape.zrange c, Fin.zrange c, Chk.zrange c⟩
def command : CustomBody := ⟨Bodies.command, headVariant, Sound.command, Desc.command, Shape.command, Fin.command, Chk.command⟩
def aclDryrun : CustomBody := ⟨Bodies.aclDryrun, prefixV 1 headVariant, Sound.aclDryrun, Desc.aclDryrun, Shape.aclDryrun, Fin.aclDryrun, Chk.aclDryrun⟩
def aclLog : CustomBody := ⟨Bodies.aclLog, wordsVariant, Sound.aclLog, Desc.aclLog, Shape.aclLog, Fin.aclLog, Chk.aclLog⟩
-- bodies without keyword positions
def ping := CustomBody.plain Desc.ping Bodies.ping Shape.ping Fin.ping Chk.ping
def select := CustomBody.plain Desc.select Bodies.select Shape.select Fin.select Chk.select
def auth := CustomBody.plain Desc.auth Bodies.auth Shape.auth Fin.auth Chk.auth
def eval (c : Bytes) (l : Lit) := CustomBody.plain (Desc.eval c l) (Bodies.eval c l) (Shape.eval c l) (Fin.eval c l) (Chk.eval c l)
def setex (px : Bool) := CustomBody.plain (Desc.setex px) (Bodies.setex px) (Shape.setex px) (Fin.setex px) (Chk.setex px)
def spop := CustomBody.plain Desc.spop Bodies.spop Shape.spop Fin.spop Chk.spop
def setrange := CustomBody.plain Desc.setrange Bodies.setrange Shape.setrange Fin.setrange Chk.setrange
def setbit := CustomBody.plain Desc.setbit Bodies.setbit Shape.setbit Fin.setbit Chk.setbit
def getbit := CustomBody.plain Desc.getbit Bodies.getbit Shape.getbit Fin.getbit Chk.getbit
def incrbyfloat := CustomBody.plain Desc.incrbyfloat Bodies.incrbyfloat Shape.incrbyfloat Fin.incrbyfloat Chk.incrbyfloat
def optStr (c : Bytes) := CustomBody.plain (Desc.optStr c) (Bodies.optStr c) (Shape.optStr c) (Fin.optStr c) (Chk.optStr c)
def aclGenpass := CustomBody.plain Desc.aclGenpass Bodies.aclGenpass Shape.aclGenpass Fin.aclGenpass Chk.aclGenpass
def stub (text : Bytes) := CustomBody.plain (Desc.stub text) (fun _ => .ok ⟨s2b "Unknown", [.s text]⟩) (Shape.stub text) (Fin.stub text) (Chk.stub text)
def luaExpire := CustomBody.plain Desc.luaExpire Bodies.luaExpire Shape.luaExpire Fin.luaExpire Chk.luaExpire
def luaZrange := CustomBody.plain Desc.luaZrange Bodies.luaZrange Shape.luaZrange Fin.luaZrange Chk.luaZrange

end CB

open Bodies in
def configSubs : List Spec :=
  [ fixed "GET" "ConfigGet" (wrongArgs "config|get") [aStr],
    fixed "SET" "ConfigSet" (wrongArgs "config|set") [aStr, aStr],
    const "RESETSTAT" "ConfigResetStat" ]

open Bodies in
def aclSubs : List Spec :=
  [ const "WHOAMI" "AclWhoami", const "LIST" "AclList", const "USERS" "AclUsers",
    fixed "GETUSER" "AclGetUser" (s2b "ACL GETUSER requires 1 argument") [aStr],
    manySpec "SETUSER" "AclSetUser" 1 (s2b "ACL SETUSER requires at least 1 argument") [aStr] aStr,
    manySpec "DELUSER" "AclDelUser" 1 (s2b "ACL DELUSER requires at least 1 argument") [] aStr,
    customSpec "CAT" .any [] (CB.optStr (s2b "AclCat")),
    customSpec "GENPASS" .any [] CB.aclGenpass,
    customSpec "DRYRUN" (.atLeast 2) (wrongArgs "acl|dryrun") CB.aclDryrun,
    customSpec "LOG" (.between 0 1) (wrongArgs "acl|log") CB.aclLog,
    -- stubs for unimplemented ACL sub-commands (both parsers)
    customSpec "HELP" .any [] (CB.stub (s2b "ACL HELP")),
    customSpec "LOAD" .any [] (CB.stub (s2b "ACL LOAD")),
    customSpec "SAVE" .any [] (CB.stub (s2b "ACL SAVE")) ]

def scriptSubs : List Spec :=
  [ fixed "LOAD" "ScriptLoad" (s2b "SCRIPT LOAD requires 1 argument") [aStr],
    manySpec "EXISTS" "ScriptExists" 1 (s2b "SCRIPT EXISTS requires at least 1 argument") [] aStr,
    const "FLUSH" "ScriptFlush" ]

def functionSubs : List Spec := [ const "FLUSH" "FunctionFlush" ]

def clientSubs : List Spec :=
  [ fixed "SETNAME" "ClientSetName" (wrongArgs "client|setname") [aStr],
    const "GETNAME" "ClientGetName", const "ID" "ClientId", const "INFO" "ClientInfo" ]

def objectSubs : List Spec :=
  [ const "HELP" "ObjectHelp",
    fixed "ENCODING" "ObjectEncoding" (wrongArgs "object|encoding") [aStr],
    fixed "REFCOUNT" "ObjectRefCount" (wrongArgs "object|refcount") [aStr],
    fixed "IDLETIME" "ObjectIdleTime" (wrongArgs "object|idletime") [aStr],
    fixed "FREQ" "ObjectFreq" (wrongArgs "object|freq") [aStr] ]

def debugSubs : List Spec :=
  [ fixed "SLEEP" "DebugSleep" (wrongArgs "debug|sleep") [aFlt],
    fixed "OBJECT" "DebugObject" (wrongArgs "debug|object") [aStr] ]

/-- `Command::Unknown(format!("{fam} {sub}"))` -/
def unknownSub (fam : String) (sub : Bytes) (_ : List Bytes) : Res :=
  .ok ⟨s2b "Unknown", [.s (s2b fam ++ 32 :: sub)]⟩

def debugDflt (sub : Bytes) (rest : List Bytes) : Res :=
  match rest with
  | [] => .ok ⟨s2b "DebugSet", [.s sub, .s []]⟩
  | v :: _ => .ok ⟨s2b "DebugSet", [.s sub, .s (lossy v)]⟩

open Bodies in
def table : List Entry :=
  [ .cmd (customSpec "PING" .any [] CB.ping),
    .cmd (const "INFO" "Info"), .cmd (const "TIME" "Time"), .cmd (const "DBSIZE" "DbSize"),
    .family (s2b "CONFIG") (wrongArgs "config") configSubs
      (fun sub _ => .error (.body (.fmt .configUnknown (lower sub)))),
    .cmd (customSpec "SELECT" (.exact 1) (wrongArgs "select") CB.select),
    .cmd (fixed "ECHO" "Echo" (wrongArgs "echo") [aSds]),
    .cmd (customSpec "AUTH" (.between 1 2) (s2b "AUTH requires 1 or 2 arguments") CB.auth),
    .family (s2b "ACL") (s2b "ACL requires a subcommand") aclSubs
      (fun sub _ => .error (.body (.fmt .unknownAcl sub))),
    .cmd (const "FLUSHDB" "FlushDb"), .cmd (const "FLUSHALL" "FlushAll"),
    .cmd (const "MULTI" "Multi"), .cmd (const "EXEC" "Exec"), .cmd (const "DISCARD" "Discard"),
    .cmd (manySpec "WATCH" "Watch" 1 (reqAtLeast "WATCH" 1) [] aStr),
    .cmd (const "UNWATCH" "Unwatch"),
    .cmd (customSpec "EVAL" (.atLeast 2) (reqAtLeast "EVAL" 2) (CB.eval (s2b "Eval") .evalKeys)),
    .cmd (customSpec "EVALSHA" (.atLeast 2) (reqAtLeast "EVALSHA" 2) (CB.eval (s2b "EvalSha") .evalshaKeys)),
    .family (s2b "SCRIPT") (s2b "SCRIPT requires a subcommand") scriptSubs
      (fun sub _ => .error (.body (.fmt .unknownScript sub))),
    .cmd (fixed "GET" "Get" (wrongArgs "get") [aStr]),
    .cmd (customSpec "SET" (.atLeast 2) (reqAtLeast "SET" 2) CB.set),
    .cmd (customSpec "SETEX" (.exact 3) (req "SETEX" 3) (CB.setex false)),
    .cmd (fixed "SETNX" "SetNx" (req "SETNX" 2) [aStr, aSds]),
    .cmd (manySpec "DEL" "Del" 1 (reqAtLeast "DEL" 1) [] aStr),
    .cmd (manySpec "EXISTS" "Exists" 1 (reqAtLeast "EXISTS" 1) [] aStr),
    .cmd (fixed "TYPE" "TypeOf" (req "TYPE" 1) [aStr]),
    .cmd (fixed "KEYS" "Keys" (req "KEYS" 1) [aStr]),
    .cmd (customSpec "EXPIRE" (.atLeast 2) (reqAtLeast "EXPIRE" 2) (CB.expire (s2b "Expire"))),
    .cmd (customSpec "PEXPIRE" (.atLeast 2) (reqAtLeast "PEXPIRE" 2) (CB.expire (s2b "PExpire"))),
    .cmd (fixed "EXPIREAT" "ExpireAt" (req "EXPIREAT" 2) [aStr, aInt]),
    .cmd (fixed "PEXPIREAT" "PExpireAt" (req "PEXPIREAT" 2) [aStr, aInt]),
    .cmd (fixed "TTL" "Ttl" (req "TTL" 1) [aStr]),
    .cmd (fixed "PTTL" "Pttl" (req "PTTL" 1) [aStr]),
    .cmd (fixed "PERSIST" "Persist" (req "PERSIST" 1) [aStr]),
    .cmd (fixed "INCR" "Incr" (wrongArgs "incr") [aStr]),
    .cmd (fixed "DECR" "Decr" (wrongArgs "decr") [aStr]),
    .cmd (fixed "INCRBY" "IncrBy" (wrongArgs "incrby") [aStr, aInt]),
    .cmd (fixed "DECRBY" "DecrBy" (wrongArgs "decrby") [aStr, aInt]),
    .cmd (fixed "APPEND" "Append" (req "APPEND" 2) [aStr, aSds]),
    .cmd (fixed "GETSET" "GetSet" (req "GETSET" 2) [aStr, aSds]),
    .cmd (fixed "STRLEN" "StrLen" (req "STRLEN" 1) [aStr]),
    .cmd (manySpec "MGET" "MGet" 1 (reqAtLeast "MGET" 1) [] aStr),
    .cmd { name := s2b "MSET", arity := .evenAtLeast 2, arityErr := wrongArgs "mset", body := .pairs (s2b "MSet") [] aStr aSds },
    .cmd { name := s2b "MSETNX", arity := .evenAtLeast 2, arityErr := wrongArgs "msetnx", body := .pairs (s2b "MSetNx") [] aStr aSds },
    .cmd (manySpec "LPUSH" "LPush" 2 (reqAtLeast "LPUSH" 2) [aStr] aSds),
    .cmd (manySpec "RPUSH" "RPush" 2 (reqAtLeast "RPUSH" 2) [aStr] aSds),
    .cmd (fixed "LPOP" "LPop" (req "LPOP" 1) [aStr]),
    .cmd (fixed "RPOP" "RPop" (req "RPOP" 1) [aStr]),
    .cmd (fixed "LRANGE" "LRange" (req "LRANGE" 3) [aStr, aInt, aInt]),
    .cmd (fixed "LLEN" "LLen" (req "LLEN" 1) [aStr]),
    .cmd (fixed "LINDEX" "LIndex" (req "LINDEX" 2) [aStr, aInt]),
    .cmd (fixed "LSET" "LSet" (req "LSET" 3) [aStr, aInt, aSds]),
    .cmd (fixed "LTRIM" "LTrim" (req "LTRIM" 3) [aStr, aInt, aInt]),
    .cmd (fixed "RPOPLPUSH" "RPopLPush" (req "RPOPLPUSH" 2) [aStr, aStr]),
    .cmd (customSpec "LMOVE" (.exact 4) (req "LMOVE" 4) CB.lmove),
    .cmd (manySpec "SADD" "SAdd" 2 (reqAtLeast "SADD" 2) [aStr] aSds),
    .cmd (fixed "SMEMBERS" "SMembers" (req "SMEMBERS" 1) [aStr]),
    .cmd (fixed "SISMEMBER" "SIsMember" (req "SISMEMBER" 2) [aStr, aSds]),
    .cmd (manySpec "SREM" "SRem" 2 (reqAtLeast "SREM" 2) [aStr] aSds),
    .cmd (fixed "SCARD" "SCard" (req "SCARD" 1) [aStr]),
    .cmd (customSpec "SPOP" (.between 1 2) (s2b "SPOP requires 1 or 2 arguments") CB.spop),
    .cmd { name := s2b "HSET", arity := .oddAtLeast 3, arityErr := s2b "HSET requires key and field-value pairs", body := .pairs (s2b "HSet") [aStr] aSds aSds },
    .cmd (fixed "HGET" "HGet" (req "HGET" 2) [aStr, aSds]),
    .cmd (fixed "HGETALL" "HGetAll" (req "HGETALL" 1) [aStr]),
    .cmd (fixed "HINCRBY" "HIncrBy" (req "HINCRBY" 3) [aStr, aSds, aInt]),
    .cmd (manySpec "HDEL" "HDel" 2 (reqAtLeast "HDEL" 2) [aStr] aSds),
    .cmd (fixed "HKEYS" "HKeys" (req "HKEYS" 1) [aStr]),
    .cmd (fixed "HVALS" "HVals" (req "HVALS" 1) [aStr]),
    .cmd (fixed "HLEN" "HLen" (req "HLEN" 1) [aStr]),
    .cmd (fixed "HEXISTS" "HExists" (req "HEXISTS" 2) [aStr, aSds]),
    .cmd (customSpec "ZADD" (.atLeast 3) (s2b "ZADD requires key and score-member pairs") (CB.zadd aFlt)),
    .cmd (customSpec "ZRANGE" (.between 3 4) (s2b "ZRANGE requires 3 or 4 arguments") (CB.zrange (s2b "ZRange"))),
    .cmd (customSpec "ZREVRANGE" (.between 3 4) (s2b "ZREVRANGE requires 3 or 4 arguments") (CB.zrange (s2b "ZRevRange"))),
    .cmd (fixed "ZSCORE" "ZScore" (req "ZSCORE" 2) [aStr, aSds]),
    .cmd (manySpec "ZREM" "ZRem" 2 (reqAtLeast "ZREM" 2) [aStr] aSds),
    .cmd (fixed "ZRANK" "ZRank" (req "ZRANK" 2) [aStr, aSds]),
    .cmd (fixed "ZCARD" "ZCard" (req "ZCARD" 1) [aStr]),
    .cmd (fixed "ZCOUNT" "ZCount" (req "ZCOUNT" 3) [aStr, aStr, aStr]),
    .cmd (customSpec "ZRANGEBYSCORE" (.atLeast 3) (reqAtLeast "ZRANGEBYSCORE" 3)
            (CB.zrangebyscore aInt aInt .limitMissing .unknownZrbs)),
    .cmd (customSpec "SCAN" (.atLeast 1) (reqAtLeast "SCAN" 1) (CB.scan (s2b "Scan") false .unknownScan)),
    .cmd (customSpec "HSCAN" (.atLeast 2) (reqAtLeast "HSCAN" 2) (CB.scan (s2b "HScan") true .unknownHscan)),
    .cmd (customSpec "ZSCAN" (.atLeast 2) (reqAtLeast "ZSCAN" 2) (CB.scan (s2b "ZScan") true .unknownZscan)),
    .family (s2b "FUNCTION") (wrongArgs "function") functionSubs (unknownSub "FUNCTION"),
    .cmd (customSpec "COMMAND" .any [] CB.command),
    .family (s2b "CLIENT") (wrongArgs "client") clientSubs (unknownSub "CLIENT"),
    .family (s2b "OBJECT") (wrongArgs "object") objectSubs (unknownSub "OBJECT"),
    .family (s2b "DEBUG") (wrongArgs "debug") debugSubs debugDflt,
    .cmd (fixed "GETRANGE" "GetRange" (req "GETRANGE" 3) [aStr, aInt, aInt]),
    .cmd (fixed "SUBSTR" "GetRange" (req "GETRANGE" 3) [aStr, aInt, aInt]),
    .cmd (customSpec "SETRANGE" (.exact 3) (req "SETRANGE" 3) CB.setrange),
    .cmd (customSpec "SETBIT" (.exact 3) (wrongArgs "setbit") CB.setbit),
    .cmd (customSpec "GETBIT" (.exact 2) (wrongArgs "getbit") CB.getbit),
    .cmd (customSpec "GETEX" (.atLeast 1) (wrongArgs "getex") CB.getex),
    .cmd (fixed "GETDEL" "GetDel" (req "GETDEL" 1) [aStr]),
    .cmd (customSpec "INCRBYFLOAT" (.exact 2) (wrongArgs "incrbyfloat") CB.incrbyfloat),
    .cmd (customSpec "PSETEX" (.exact 3) (req "PSETEX" 3) (CB.setex true)),
    .cmd (fixed "EXPIRETIME" "ExpireTime" (req "EXPIRETIME" 1) [aStr]),
    .cmd (fixed "PEXPIRETIME" "PExpireTime" (req "PEXPIRETIME" 1) [aStr]),
    .cmd (manySpec "UNLINK" "Del" 1 (reqAtLeast "UNLINK" 1) [] aStr),
    .cmd (fixed "WAIT" "Wait" (req "WAIT" 2) [aInt, aInt]),
    .cmd (customSpec "SORT" (.atLeast 1) (wrongArgs "sort") CB.sort),
    .cmd (const "RANDOMKEY" "RandomKey"),
    .cmd (fixed "RENAME" "Rename" (wrongArgs "rename") [aStr, aStr]),
    .cmd (fixed "RENAMENX" "RenameNx" (wrongArgs "renamenx") [aStr, aStr]) ]

/-- `Command::from_resp` on an array of bulk strings -/
def parseCmd : List Bytes → Res := parseWith table

/-! ## what `from_resp_zero_copy` does differently

  Both lists are empty since the fixes that aligned the LPUSH/RPUSH/SADD arity texts and copied the
  ACL HELP/LOAD/SAVE stubs into `from_resp`; the shape is kept so that a future divergence of the
  two copies is recorded here (and refutes `parsers_agree` again). -/

/-- arity error texts that differ in the zero-copy parser -/
def zcArityErr : List (Bytes × Bytes) := []

/-- ACL sub-commands only the zero-copy parser knows -/
def zcAclStubs : List Bytes := []

/-- `Command::from_resp_zero_copy` expressed as the differences to `parseCmd` -/
def parseCmdZc (frame : List Bytes) : Res :=
  match frame with
  | [] => parseCmd frame
  | name :: args =>
    let stub : Option Bytes := match args with
      | sub :: _ => if kw name = s2b "ACL" ∧ zcAclStubs.contains (kw sub) then some (kw sub) else none
      | [] => none
    match stub with
    | some sub => .ok ⟨s2b "Unknown", [.s (s2b "ACL " ++ sub)]⟩
    | none =>
      match parseCmd frame with
      | .error (.arity t) =>
        match zcArityErr.lookup (kw name) with
        | some t' => .error (.arity t')
        | none => .error (.arity t)
      | r => r

/-! ## the redis.call / redis.pcall translator (`parse_lua_command_bytes`) -/

def luaKey (name : String) (ctor : String) : Spec :=
  fixed name ctor (req name 1) [aStr]



open Bodies in
def luaTable : List Entry :=
  [ .cmd (luaKey "GET" "Get"),
    .cmd (customSpec "SET" (.atLeast 2) (reqAtLeast "SET" 2) CB.luaSet),
    .cmd (manySpec "DEL" "Del" 1 (reqAtLeast "DEL" 1) [] aStr),
    .cmd (luaKey "INCR" "Incr"), .cmd (luaKey "DECR" "Decr"),
    .cmd (fixed "INCRBY" "IncrBy" (req "INCRBY" 2) [aStr, aIntE .luaIncrbyInt]),
    .cmd (fixed "HGET" "HGet" (req "HGET" 2) [aStr, aSds]),
    .cmd { name := s2b "HSET", arity := .oddAtLeast 3, arityErr := s2b "HSET requires key and field-value pairs", body := .pairs (s2b "HSet") [aStr] aSds aSds },
    .cmd (manySpec "HDEL" "HDel" 2 (s2b "HDEL requires key and at least 1 field") [aStr] aSds),
    .cmd (manySpec "LPUSH" "LPush" 2 (s2b "LPUSH requires key and at least 1 value") [aStr] aSds),
    .cmd (manySpec "RPUSH" "RPush" 2 (s2b "RPUSH requires key and at least 1 value") [aStr] aSds),
    .cmd (luaKey "LPOP" "LPop"), .cmd (luaKey "RPOP" "RPop"), .cmd (luaKey "LLEN" "LLen"),
    .cmd (manySpec "SADD" "SAdd" 2 (s2b "SADD requires key and at least 1 member") [aStr] aSds),
    .cmd (manySpec "SREM" "SRem" 2 (s2b "SREM requires key and at least 1 member") [aStr] aSds),
    .cmd (luaKey "SMEMBERS" "SMembers"),
    .cmd (manySpec "EXISTS" "Exists" 1 (reqAtLeast "EXISTS" 1) [] aStr),
    .cmd (customSpec "EXPIRE" (.exact 2) (req "EXPIRE" 2) CB.luaExpire),
    .cmd (luaKey "TTL" "Ttl"), .cmd (luaKey "TYPE" "TypeOf"),
    .cmd (fixed "HINCRBY" "HIncrBy" (req "HINCRBY" 3) [aStr, aSds, aIntE .luaHincrbyInt]),
    .cmd (fixed "LRANGE" "LRange" (req "LRANGE" 3) [aStr, aIntE .luaLrangeStart, aIntE .luaLrangeStop]),
    .cmd (fixed "RPOPLPUSH" "RPopLPush" (req "RPOPLPUSH" 2) [aStr, aStr]),
    .cmd (customSpec "LMOVE" (.exact 4) (req "LMOVE" 4) CB.lmove),
    .cmd (luaKey "HGETALL" "HGetAll"),
    .cmd (fixed "SISMEMBER" "SIsMember" (req "SISMEMBER" 2) [aStr, aSds]),
    .cmd (customSpec "ZADD" (.atLeast 3) (s2b "ZADD requires key and score-member pairs")
            (CB.zadd { kind := .flt, onErr := some .luaZaddScore })),
    .cmd (manySpec "ZREM" "ZRem" 2 (s2b "ZREM requires key and at least 1 member") [aStr] aSds),
    .cmd (customSpec "ZRANGE" (.exact 3) (req "ZRANGE" 3) CB.luaZrange),
    .cmd (fixed "ZSCORE" "ZScore" (req "ZSCORE" 2) [aStr, aSds]),
    .cmd (luaKey "ZCARD" "ZCard"),
    .cmd (fixed "ZCOUNT" "ZCount" (req "ZCOUNT" 3) [aStr, aStr, aStr]),
    .cmd (customSpec "ZRANGEBYSCORE" (.atLeast 3) (reqAtLeast "ZRANGEBYSCORE" 3)
            (CB.zrangebyscore (aIntE .luaLimitOffset) (aIntE .luaLimitCount)
              .luaLimitMissing .unknownZrbs)) ]

/-- `parse_lua_command_bytes`: a name the translator does not list is an error -/
def parseLua : List Bytes → Res
  | [] => .error (.body (.lit .luaEmpty))
  | name :: args =>
    match findEntry luaTable (kw name) with
    | none => .error (.unknown (kw name))
    | some _ => parseWith luaTable (name :: args)


end RedisVerif.Grammar
