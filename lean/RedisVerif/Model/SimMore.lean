/-
  Further whole-harness models (session 3).  As everywhere in C20 the model PREDICTS, from
  (seed, configuration) alone, what the real harness prints; every place where the REAL code can
  read a hidden input is an explicit parameter here, so that Props/C20 can state what is
  independent of it:

  * `RedisDSTSimulation` (`simulator/dst_integration.rs`) over the `DSTSimulation` model of
    `SimHarness`: the iteration order `pi` of `CrashSimulator::node_states` (inherited), the
    key sampler as a step function taken from the real `ZipfianGenerator::sample` (`keyOf`).
  * `ScenarioBuilder::{run, run_with_eviction}` / `SimulationHarness::execute`
    (`simulator/harness.rs`): the command executor is an abstract parameter `exec` (it is where a
    wall-clock read — `ACL GENPASS` — or an arbitrary pick — `SPOP` — would enter); predicted: the
    invoke / complete time of every operation.
  * `StreamingWorkload` / `CompactionWorkload` (`streaming/dst.rs`, `streaming/compaction_dst.rs`)
    and the harness loop around them with an abstract store step `store` (where the wall clock of
    `ProductionClock` / `created_at_ms`, real sleeps and the BUGGIFY context enter); predicted: the
    operation sequence.
  * `HashDSTHarness::check_invariants` / `SetDSTHarness::check_invariants`: the harness's shadow
    `HashSet` is iterated in an order `pi`; the data structure under test is an abstract
    implementation `impl`.
-/
import RedisVerif.Model.SimHarness

namespace RedisVerif.SimMore
open RedisVerif RedisVerif.SimRng RedisVerif.SimHarness

/-! ## RedisDSTSimulation -/

/-- how a key index is drawn: uniform over `n` keys, or the real Zipfian sampler as a step
    function of its one draw `v = gen_range(0, 10^6)`: `#{ b ∈ bounds | b ≤ v }` -/
inductive KeyDist where
  | uniform (n : Nat)
  | zipf (bounds : List Nat)
  deriving Repr

structure RCfg where
  dst : DstCfg
  /-- `true`: `step()` by hand without the time limit, plus one extra `random_operation()` -/
  manual : Bool
  dist : KeyDist
  deriving Repr

structure RSt (σ : Type) where
  d : Dst σ
  /-- per node: key index ↦ value index (what `SimulatedNode::get` returns) -/
  stores : List (NMap Nat)
  opId : Nat := 0
  reads : Nat := 0
  writes : Nat := 0
  /-- `key_values`: a `HashMap` of which only `len()` is ever read -/
  uniq : NSet := []
  /-- `RecordedOperation`s, newest first -/
  hist : List String := []

section
variable {σ : Type} (S : Sampler σ)

def genKey (dist : KeyDist) (g : σ) : Except String (Nat × σ) :=
  match dist with
  | .uniform n => S.range 0 n g
  | .zipf bounds => do
    let (v, g) ← S.range 0 1000000 g
    pure ((bounds.filter (· ≤ v)).length, g)

def runningNodes (nodes : List NState) : List Nat :=
  (List.range nodes.length).filter fun i => nodes.getD i .running == .running

def opLine (id node : Nat) (kind key : String) (value : String) (t : Nat) (result : String) : String :=
  s!"RecordedOperation \{ id: {id}, node_id: {node}, op_type: {kind}, key: \"{key}\", value: {value}, start_time: VirtualTime({t}), end_time: Some(VirtualTime({t})), result: {result} }"

/-- `random_operation()` -/
def randomOperation (c : RCfg) (s : RSt σ) : Except String (RSt σ) := do
  let (opType, g) ← S.range 0 10 s.d.g
  let running := runningNodes s.d.nodes
  if running.isEmpty then
    pure { s with d := { s.d with g := g } }
  else
    let (ri, g) ← S.range 0 running.length g
    let node := running.getD ri 0
    let (key, g) ← genKey S c.dist g
    if opType < 7 then
      let res := match ((s.stores.getD node []).get key) with
        | some v => s!"Success(Some(\"value{v}\"))"
        | none => "Success(None)"
      let id := s.opId + 1
      pure { s with d := { s.d with g := g }, opId := id, reads := s.reads + 1,
                    hist := opLine id node "Read" s!"key{key}" "None" s.d.now res :: s.hist }
    else
      let (v, g) ← S.range 0 10000 g
      let id := s.opId + 1
      pure { s with d := { s.d with g := g }, opId := id, writes := s.writes + 1,
                    stores := s.stores.set node (NMap.insert key v (s.stores.getD node [])),
                    uniq := NSet.insert key s.uniq,
                    hist := opLine id node "Write" s!"key{key}" s!"Some(\"value{v}\")" s.d.now "Success(None)" :: s.hist }

def repeatM {α : Type} (f : α → Except String α) : Nat → α → Except String α
  | 0, a => pure a
  | n + 1, a => do let a ← f a; repeatM f n a

/-- `RedisDSTSimulation::step`: crash loop, `inner.step()`, five random operations -/
def redisStep (c : RCfg) (pi : List Nat) (s : RSt σ) : Except String (RSt σ) := do
  let d ← crashLoop S c.dst s.d
  let d ← dstStep S c.dst pi d
  repeatM (randomOperation S c) 5 { s with d := d }

def redisLoop (c : RCfg) (pi : List Nat) : Nat → RSt σ → Except String (RSt σ)
  | 0, s => pure s
  | fuel + 1, s => do
    let s ← redisStep S c pi s
    if c.manual then
      let s ← randomOperation S c s
      redisLoop c pi fuel s
    else if s.d.now ≥ c.dst.maxTime then pure s else redisLoop c pi fuel s

def redisInit (c : RCfg) (g : σ) : Except String (RSt σ) := do
  let d ← dstInit S c.dst g
  pure { d := d, stores := List.replicate c.dst.n [] }

/-- the trace lines of one run (history, result, stats) -/
def redisLines (c : RCfg) (pi : List Nat) (ops : Nat) (g : σ) : Except String (List String) := do
  let s0 ← redisInit S c g
  let s ← redisLoop S c pi ops s0
  let total := s.d.ops + s.reads + s.writes
  let byType := ",".intercalate ((if s.reads > 0 then [s!"Read={s.reads}"] else []) ++ (if s.writes > 0 then [s!"Write={s.writes}"] else []))
  let res := s!"result time={s.d.now} ops={total} crashes={s.d.crashes} recoveries={s.d.recoveries} by_type={byType}"
  let stats := s!"stats SimulationStats \{ total_operations: {total}, total_time_ms: {s.d.now}, crashes: {s.d.crashes}, recoveries: {s.d.recoveries}, writes: {s.writes}, unique_keys: {s.uniq.length} } converged=true"
  pure (s.hist.reverse ++ [res, stats])

end

/-- answer line of a predicted trace: digest and last line -/
def answer : Except String (List String) → String
  | .error e => e
  | .ok lines => s!"{traceDigest lines} | {lines.getLastD ""}"

def runRedisDst (seed ops : Nat) (c : RCfg) (pi : List Nat) : Except String (List String) :=
  redisLines chacha c pi ops (Rng.new seed.toUInt64)

/-! ## ScenarioBuilder / SimulationHarness: timing -/

structure ScOp where
  time : Nat
  client : Nat
  deriving Repr, DecidableEq

/-- `ops.sort_by_key(|op| op.time)`: stable -/
def insByTime (x : ScOp) : List ScOp → List ScOp
  | [] => [x]
  | y :: ys => if x.time < y.time then x :: y :: ys else y :: insByTime x ys

def sortByTime (l : List ScOp) : List ScOp := l.foldl (fun acc x => insByTime x acc) []

structure ScCfg where
  buggify : Bool
  prob : F64
  /-- 0 = `run()`, otherwise `run_with_eviction(interval)` -/
  evictMs : Nat

/-- one executed operation: client, invoke time, complete time, reply -/
structure ScRec (ρ : Type) where
  client : Nat
  inv : Nat
  done : Nat
  reply : ρ

structure ScSt (ε ρ : Type) where
  rng : Rng
  now : Nat := 0
  ex : ε
  recs : List (ScRec ρ) := []

section
variable {ε ρ : Type}
-- the command executor: state, index of the operation in the script, virtual time ↦ state, reply.
-- Whatever hidden input the real executor might read is inside this parameter.
variable (exec : ε → Nat → Nat → ε × ρ)

/-- `SimulationHarness::execute` at script position `idx` -/
def scExecute (c : ScCfg) (idx client : Nat) (s : ScSt ε ρ) : ScSt ε ρ :=
  let inv := s.now
  let (now, rng) :=
    if c.buggify then
      let (b, r) := detGenBool c.prob s.rng
      if b then let (d, r) := detGenRange 1 10 r; (inv + d, r) else (inv, r)
    else (inv, s.rng)
  let (ex, reply) := exec s.ex idx now
  { rng := rng, now := now, ex := ex, recs := ⟨client, inv, now, reply⟩ :: s.recs }

/-- `ScenarioBuilder::run` -/
def scRun (c : ScCfg) (ops : List (Nat × ScOp)) (s : ScSt ε ρ) : ScSt ε ρ :=
  ops.foldl (fun s (p : Nat × ScOp) => scExecute exec c p.1 p.2.client { s with now := p.2.time }) s

/-- `ScenarioBuilder::run_with_eviction` (the eviction itself only touches the executor: `evict`) -/
def scEvictLoop (evict : ε → Nat → ε) (c : ScCfg) (maxTime : Nat) :
    Nat → List (Nat × ScOp) → Nat → ScSt ε ρ → ScSt ε ρ
  | 0, _, _, s => s
  | fuel + 1, ops, nextEv, s =>
    match ops, decide (nextEv ≤ maxTime) with
    | [], false => s
    | (i, op) :: rest, true =>
      if op.time ≤ nextEv then
        scEvictLoop evict c maxTime fuel rest nextEv (scExecute exec c i op.client { s with now := op.time })
      else
        scEvictLoop evict c maxTime fuel ops (nextEv + c.evictMs) { s with now := nextEv, ex := evict s.ex nextEv }
    | [], true =>
      if s.now < maxTime then
        scEvictLoop evict c maxTime fuel [] (nextEv + c.evictMs) { s with now := nextEv, ex := evict s.ex nextEv }
      else s
    | (i, op) :: rest, false =>
      scEvictLoop evict c maxTime fuel rest nextEv (scExecute exec c i op.client { s with now := op.time })

def enumOps (l : List ScOp) : List (Nat × ScOp) := (List.range l.length).zip l

/-- `ops.last().map(|op| op.time).unwrap_or(ZERO)` of the sorted script -/
def lastTime (script : List ScOp) : Nat :=
  match (sortByTime script).getLast? with
  | some o => o.time
  | none => 0

/-- a whole scenario: the records in execution order and the final time -/
def scenario (evict : ε → Nat → ε) (seed : Nat) (c : ScCfg) (script : List ScOp) (e0 : ε) : List (ScRec ρ) × Nat :=
  let ops := enumOps (sortByTime script)
  let s0 : ScSt ε ρ := { rng := Rng.new seed.toUInt64, ex := e0 }
  let s :=
    if c.evictMs == 0 then scRun exec c ops s0
    else
      scEvictLoop exec evict c (lastTime script) (script.length + lastTime script / c.evictMs + 3) ops c.evictMs s0
  (s.recs.reverse, s.now)

end

def timing {ρ : Type} (r : List (ScRec ρ) × Nat) : List (Nat × Nat × Nat) × Nat :=
  (r.1.map fun x => (x.client, x.inv, x.done), r.2)

/-- the predicted trace: the executor plays no role in it (`Unit`) -/
def runScenario (seed : Nat) (c : ScCfg) (script : List ScOp) : Except String (List String) :=
  let (recs, now) := timing (scenario (ε := Unit) (ρ := Unit) (fun _ _ _ => ((), ())) (fun _ _ => ()) seed c script ())
  let lines := ((List.range recs.length).zip recs).map fun (k, (cl, inv, done)) => s!"{k + 1} c{cl} inv={inv} done={done}"
  let res := s!"result now={now} history={recs.length}"
  .ok (lines ++ [res])

/-! ## StreamingWorkload / CompactionWorkload -/

inductive WOp where
  /-- `CrashRecover` (streaming) / `Compact` (compaction): the first probability band -/
  | first
  | flush
  | write (key : Nat)
  | delete (key : Nat)
  deriving Repr, DecidableEq

def nextU64 : M Nat := fun r => let (v, r) := r.nextU64; .ok (v.toNat, r)

/-- `(x as f64 / u64::MAX as f64) < p`, exact (as `detGenBool`) -/
def rollLt (x : Nat) (p : F64) : Bool :=
  if p.isNaN then false else if p.neg then false else if p.isInf then true else p.natLtScaled (roundU64ToF64 x) 64

/-- `next_operation()`: one raw word, then (for a write / delete) a key draw and a Bernoulli(0.1) -/
def nextOperation (p1 p12 : F64) : M WOp := do
  let x ← nextU64
  if rollLt x p1 then pure .first
  else if rollLt x p12 then pure .flush
  else
    let key ← range 0 100
    if (← bool bits_0_1) then pure (.delete key) else pure (.write key)

def workloadOps (p1 p12 : F64) : Nat → M (List WOp)
  | 0 => pure []
  | n + 1 => do let o ← nextOperation p1 p12; let rest ← workloadOps p1 p12 n; pure (o :: rest)

/-- the lines c20_more.rs prints from the real workload object; `valueOf k` is the value text of
    the k-th operation (`value_0` for streaming — its counter is never advanced —, `value_<k>`
    for compaction) -/
def workloadLines (valueOf : Nat → String) (rid : Nat) : Nat → Nat → List WOp → List String
  | _, ts, [] => [s!"result next_ts={ts + 1}"]
  | k, ts, .first :: rest => s!"{k} first" :: workloadLines valueOf rid (k + 1) ts rest
  | k, ts, .flush :: rest => s!"{k} flush" :: workloadLines valueOf rid (k + 1) ts rest
  | k, ts, .write key :: rest => s!"{k} write {key} {valueOf k} ts={ts + 1} rid={rid}" :: workloadLines valueOf rid (k + 1) (ts + 1) rest
  -- `make_delete_delta`: the clock starts at `next_timestamp()` and `ReplicatedValue::delete` ticks
  -- it once more, so the tombstone carries `ts + 2` while the workload's counter advances by one
  -- (the next delta gets the same Lamport time as this tombstone) — transcribed as it is
  | k, ts, .delete key :: rest => s!"{k} delete {key} ts={ts + 2} rid={rid} tomb=true" :: workloadLines valueOf rid (k + 1) (ts + 1) rest

def runWorkload (compaction : Bool) (seed ops p1 p12 rid : Nat) : Except String (List String) :=
  match (workloadOps (F64.ofBits p1) (F64.ofBits p12) ops).run (Rng.new seed.toUInt64) with
  | .error e => .error e
  | .ok (l, _) => .ok (workloadLines (fun k => if compaction then s!"value_{k}" else "value_0") rid 1 0 l)

/-- the harness loop around a workload: every step takes the next workload operation and hands it
    to the persistence / store side, which is an arbitrary state machine here (`store`): whatever
    it reads (wall clock, BUGGIFY context, real sleeps) it cannot influence WHICH operation comes
    next.  Returns the history (operation, outcome). -/
def harnessLoop {τ ω : Type} (store : τ → WOp → τ × ω) : List WOp → τ → List (WOp × ω)
  | [], _ => []
  | o :: rest, t => let (t, out) := store t o; (o, out) :: harnessLoop store rest t

/-! ## `check_invariants` of hash_dst / set_dst with the shadow's iteration order explicit -/

/-- what the harness can ask the data structure under test -/
structure Impl where
  len : Nat
  isEmpty : Bool
  exists_ : Nat → Bool
  getSome : Nat → Bool
  keys : NSet

/-- `HashDSTHarness::check_invariants`: `expected` is the shadow `HashSet<String>`, `pi` lists it in
    the order the two `for field in &self.expected_fields` loops visit it, `fmt` renders a
    difference (`{:?}` of a `Vec` collected from `HashSet::difference`: hash order again) -/
def hashCheck (fmt : NSet → String) (impl : Impl) (expected pi : NSet) : Except String Unit :=
  if impl.len != expected.length then
    .error s!"Length mismatch: actual={impl.len}, expected={expected.length}"
  else if impl.isEmpty != expected.isEmpty then
    .error s!"is_empty mismatch: is_empty={impl.isEmpty}, expected_empty={expected.isEmpty}"
  else match pi.find? (fun f => !impl.exists_ f) with
    | some f => .error s!"Expected field 'field:{f}' not found"
    | none =>
      if impl.keys != expected then
        .error s!"Keys mismatch: missing={fmt (expected.filter (!impl.keys.contains ·))}, extra={fmt (impl.keys.filter (!expected.contains ·))}"
      else match pi.find? (fun f => !impl.getSome f) with
        | some f => .error s!"Field 'field:{f}' exists but get returns None"
        | none => .ok ()

/-- the verdict of `hashCheck`, as a formula -/
def hashCheckOk (impl : Impl) (expected pi : NSet) : Bool :=
  impl.len == expected.length && impl.isEmpty == expected.isEmpty && (pi.find? (fun f => !impl.exists_ f)).isNone &&
    impl.keys == expected && (pi.find? (fun f => !impl.getSome f)).isNone

def errText {α} : Except String α → Option String
  | .ok _ => none
  | .error e => some e

def isOk {α} : Except String α → Bool
  | .ok _ => true
  | .error _ => false

/-- the data structure that meets its specification (what `SimTyped.hashStep` assumes) -/
def specImpl (fields : NSet) : Impl :=
  { len := fields.length, isEmpty := fields.isEmpty, exists_ := fields.contains, getSome := fields.contains, keys := fields }

/-! ## the public API of `DSTSimulation` as a "subclass" uses it (family dst-api, preset sim)

A generated scenario of API calls (codes in `c20_more.rs` `dst_api_script`) over a simulation built
either by `new(seed).with_nodes(n).with_faults(fc)` (five nodes get clock offsets, `n` are used) or
by `with_config`.  Per-node clock offsets are kept (they are what `context().local_time` applies),
BUGGIFY checks and triggers are counted (what a FRESH process copies into
`SimulationResult::buggify_stats`), crashes are counted by reason. -/

structure ApiSt where
  d : Dst Rng
  /-- (fixed_offset_ms, drift_ppm) per node that got one in `with_config` -/
  offs : List (Int × Int) := []
  checks : Nat := 0
  triggers : Nat := 0
  /-- crashes by reason: 0 BuggifyTriggered, 1 NetworkIsolation, 2 OutOfMemory, 3 PowerFailure (alphabetical) -/
  reasons : NMap Nat := []
  opCounter : Nat := 0
  writes : Nat := 0
  cas : Nat := 0
  hist : List (Nat × Nat) := []

structure ApiCfg where
  dst : DstCfg
  /-- nodes registered (and given clock offsets) by the constructor: 5 for `new(seed)` -/
  initNodes : Nat
  skewMs : Nat
  driftPpm : Nat

abbrev AM := StateT ApiSt (Except String)

def aRange (lo hi : Nat) : AM Nat := fun s =>
  match range lo hi s.d.g with
  | .ok (v, g) => .ok (v, { s with d := { s.d with g := g } })
  | .error e => .error e

def apiInit (c : ApiCfg) (g : Rng) : Except String ApiSt := do
  let (offs, g) ← (List.range c.initNodes).foldlM (fun (acc : List (Int × Int) × Rng) _ => do
    if c.dst.skew then
      let (o, g) ← range 0 (2 * c.skewMs) acc.2
      let (dr, g) ← range 0 (2 * c.driftPpm) g
      pure (acc.1 ++ [((o : Int) - c.skewMs, (dr : Int) - c.driftPpm)], g)
    else pure acc) (([] : List (Int × Int)), g)
  pure { d := { g := g, nodes := List.replicate (max c.dst.n c.initNodes) .running }, offs := offs }

def runningOf (c : ApiCfg) (s : ApiSt) : List Nat :=
  (List.range c.dst.n).filter fun i => s.d.nodes.getD i .running == .running

/-- `random_running_node()` -/
def apiRandomRunning (c : ApiCfg) : AM (Option Nat) := do
  let running := runningOf c (← get)
  if running.isEmpty then pure none
  else
    let idx ← aRange 0 running.length
    pure (some (running.getD idx 0))

def showOptNat : Option Nat → String
  | some n => s!"Some({n})"
  | none => "None"

def bumpReason (code : Nat) (s : ApiSt) : ApiSt := { s with reasons := NMap.insertWith (· + ·) code 1 s.reasons }

/-- one API call; returns its description -/
def apiOp (c : ApiCfg) (code a b : Nat) : AM String := do
  match code with
  | 0 => do let r ← apiRandomRunning c; pure s!"random_running_node {showOptNat r}"
  | 1 => do
    let s ← get
    if c.dst.enableCrash && s.d.nodes.getD a .running == .running then
      match crashDecision chacha c.dst s.d.g with
      | .error e => throw e
      | .ok (t, g) =>
        if t then
          let d' : Dst Rng := { s.d with g := g, nodes := s.d.nodes.set a (.crashed s.d.now), crashes := s.d.crashes + 1 }
          set (bumpReason 0 { s with d := d', checks := s.checks + 1, triggers := s.triggers + 1 })
          pure s!"maybe_crash_node {a} true"
        else
          set { s with d := { s.d with g := g }, checks := s.checks + 1 }
          pure s!"maybe_crash_node {a} false"
    else pure s!"maybe_crash_node {a} false"
  | 2 => do
    let s ← get
    if s.d.nodes.getD a .running == .running then
      -- reason codes of the script: 0 PowerFailure, 1 OutOfMemory, 2 NetworkIsolation
      let rc := if b == 0 then 3 else if b == 1 then 2 else 1
      set (bumpReason rc { s with d := { s.d with nodes := s.d.nodes.set a (.crashed s.d.now), crashes := s.d.crashes + 1 } })
    pure s!"crash_node {a}"
  | 3 => do
    let s ← get
    if (s.d.nodes.getD a .running).isCrashed then
      let dur ← aRange c.dst.minRec c.dst.maxRec
      modify fun s => { s with d := { s.d with nodes := s.d.nodes.set a (.recovering s.d.now (s.d.now + dur)) } }
    pure s!"start_recovery {a} checkpoint=false"
  | 4 => do
    modify fun s =>
      let now := s.d.now + a
      let (nodes, rec) := completeRecoveries now s.d.nodes
      { s with d := { s.d with now := now, nodes := nodes, recoveries := s.d.recoveries + rec } }
    pure s!"advance_time {a}"
  | 5 => do
    let s ← get
    match dstStep chacha c.dst (List.range (max c.dst.n c.initNodes)) s.d with
    | .error e => throw e
    | .ok d' =>
      let trig := d'.crashes - s.d.crashes
      let running := ((List.range c.dst.n).filter fun i => d'.nodes.getD i .running == .running).length
      set (({ s with d := d', checks := s.checks + (if c.dst.enableCrash then running + trig else 0), triggers := s.triggers + trig,
                     reasons := if trig > 0 then NMap.insertWith (· + ·) 0 trig s.reasons else s.reasons }) : ApiSt)
      pure "step"
  | 6 => do
    let id := (← get).opCounter + 1
    modify fun s => { s with opCounter := id }
    let node ← apiRandomRunning c
    modify fun s => { s with writes := s.writes + (if a == 0 then 1 else 0), cas := s.cas + (if a == 0 then 0 else 1),
                             hist := s.hist ++ [(id, node.getD 0)] }
    pure s!"record_operation id={id} node={showOptNat node}"
  | 7 => do let v ← aRange 0 1000; pure s!"rng {v}"
  | _ => do
    let s ← get
    let loc := match s.offs[a]? with
      | some (f, p) => SimKernel.clockApply f p 0 s.d.now
      | none => s.d.now
    pure s!"local_time {a} {loc} ctx_now={s.d.now}"

def apiStateText (c : ApiCfg) (s : ApiSt) : String :=
  let st := String.join ((List.range c.dst.n).map fun i => match s.d.nodes.getD i .running with
    | .running => "R" | .crashed _ => "C" | .recovering _ _ => "V")
  let rec_ := (List.range s.d.nodes.length).filter fun i => match s.d.nodes.getD i .running with | .recovering _ _ => true | _ => false
  s!"now={s.d.now} {st} recovering=[{", ".intercalate (rec_.map toString)}]"

def apiLoop (c : ApiCfg) : Nat → List (Nat × Nat × Nat) → List String → AM (List String)
  | _, [], acc => pure acc
  | k, (code, a, b) :: rest, acc => do
    let l ← apiOp c code a b
    let s ← get
    apiLoop c (k + 1) rest (s!"{k} {l} {apiStateText c s}" :: acc)

def reasonName : Nat → String
  | 0 => "BuggifyTriggered" | 1 => "NetworkIsolation" | 2 => "OutOfMemory" | _ => "PowerFailure"

def runDstApi (seed : Nat) (c : ApiCfg) (script : List (Nat × Nat × Nat)) : Except String (List String) := do
  let s0 ← apiInit c (Rng.new seed.toUInt64)
  let (acc, s) ← (apiLoop c 1 script []).run s0
  let total := s.d.ops + s.writes + s.cas
  let byType := ",".intercalate ((if s.cas > 0 then [s!"CompareAndSwap={s.cas}"] else []) ++ (if s.writes > 0 then [s!"Write={s.writes}"] else []))
  let hist := ", ".intercalate (s.hist.map fun p => s!"({p.1}, {p.2})")
  let res := s!"result Seed {seed}: {total} ops in {s.d.now}ms, {s.d.crashes} crashes, {s.d.recoveries} recoveries, linearizable=true, converged=true, errors=0 by_type={byType} history=[{hist}]"
  let byReason := ",".intercalate (s.reasons.map fun p => s!"{reasonName p.1}={p.2}")
  let cs := s!"crash-stats crashes={s.d.crashes} recoveries={s.d.recoveries} by_reason={byReason} loss=0"
  let showStat (n : Nat) : String := if n == 0 then "" else s!"process.crash={n}"
  -- merged = the statistics merged into an empty one twice, plus one recorded check
  let bs := s!"buggify-summary crash_checks={s.checks} triggers={s.triggers} | merged checks={showStat (2 * s.checks + 1)} triggers={showStat (2 * s.triggers)}"
  pure (acc.reverse ++ [res, cs, bs])

def triplesOfNats : List Nat → Option (List (Nat × Nat × Nat))
  | [] => some []
  | a :: b :: c :: rest => (triplesOfNats rest).map ((a, b, c) :: ·)
  | _ => none

/-! ## a final-state accessor that lists a `HashMap` -/

/-- `SimulatedNode::get_all_deltas()`: the keys of `replicated_keys` in map order `pi`; sorted by
    key in the repaired code (fixes-sim-s3 e148545; the harness sends which variant /repo has:
    `cfg::CODE_MN_SORTS_DELTAS`) -/
def getAllDeltas (sorted : Bool) (pi : List Nat) : List Nat := if sorted then sortNat pi else pi

/-! ## the BUGGIFY statistics a `DSTSimulation` copies into its result

`finalize` stores `buggify::get_stats()` — the thread's counters — in `SimulationResult::buggify_stats`.
In the code as it is nothing resets them when a simulation is created, so a second run on the same
thread reports the first run's checks as well; the repaired code (fixes-sim-s3) resets them in
`with_config`. -/

def finalizeStats (resetsOnCreate : Bool) (prev own : NMap Nat) : NMap Nat :=
  if resetsOnCreate then own else NMap.merge (· + ·) prev own

/-! ## dispatcher of `RUN` lines -/

def opsOfNats : List Nat → Option (List ScOp)
  | [] => some []
  | t :: c :: rest => (opsOfNats rest).map (⟨t, c⟩ :: ·)
  | _ => none

def runLines (harness : String) (seed ops : Nat) (cfg : List Nat) : Option (Except String (List String)) :=
  match harness, cfg with
  | "redis-dst", n :: prob :: en :: skew :: sr :: dr :: minR :: maxR :: maxT :: sorted :: manual :: kind :: nkeys :: table =>
    let dist := if kind == 0 then KeyDist.uniform nkeys else KeyDist.zipf table
    some (runRedisDst seed ops ⟨⟨n, prob, en == 1, skew == 1, sr, dr, minR, maxR, maxT, sorted == 1⟩, manual == 1, dist⟩ (List.range n))
  | "scenario-timing", en :: bits :: evict :: rest =>
    (opsOfNats rest).map fun script => runScenario seed ⟨en == 1, F64.ofBits bits, evict⟩ script
  | "dst-api", n :: initN :: prob :: en :: skew :: skewMs :: driftPpm :: minR :: maxR :: sorted :: rest =>
    (triplesOfNats rest).map fun script =>
      runDstApi seed ⟨⟨n, prob, en == 1, skew == 1, 2 * skewMs, 2 * driftPpm, minR, maxR, 2 ^ 64, sorted == 1⟩, initN, skewMs, driftPpm⟩ script
  | "streaming-workload", [p1, p12, rid] => some (runWorkload false seed ops p1 p12 rid)
  | "compaction-workload", [p1, p12, rid] => some (runWorkload true seed ops p1 p12 rid)
  | _, _ => none

def run (harness : String) (seed ops : Nat) (cfg : List Nat) : Option String :=
  (runLines harness seed ops cfg).map answer

end RedisVerif.SimMore
