/-
  The BUGGIFY fault-injection layer of /repo (`src/buggify/{mod,config,faults}.rs`), session 4:

  * `FaultConfig` — `new / disabled / calm / moderate / chaos`, `set` (clamps), `get`
    (`(base * global_multiplier).clamp(0.0, 1.0)`, `0.0` when disabled), `should_trigger`, the
    `with_*_faults` builders, `with_multiplier` (`max(0.0)`).  The f64 product is computed exactly
    (round to nearest, ties to even) on bit patterns; the preset tables come from
    `Model/SimFaultTable.lean`, GENERATED from the source of /repo.
  * the thread-local `BuggifyContext` — configuration, `suppressed`, the check / trigger counters
    — and the two decision functions `should_buggify` / `should_buggify_with_prob` over an
    ABSTRACT generator (`Sampler`), so that Props/C20 can state which part of the context and
    which words of the stream a decision depends on.

  Until session 4 the model of `should_buggify` took `ctx.config.get(fault_id)` from the real
  code as an input; now `get` is inside the model.
-/
import RedisVerif.Model.NMap
import RedisVerif.Model.SimRng
import RedisVerif.Model.SimKernel
import RedisVerif.Model.SimHarness
import RedisVerif.Model.SimFaultTable

namespace RedisVerif.SimBuggify
open RedisVerif RedisVerif.SimRng RedisVerif.SimKernel RedisVerif.SimHarness RedisVerif.SimFaultTable

/-! ## f64 arithmetic on bit patterns (what `FaultConfig` needs: `*`, `<`, `clamp`, `max`) -/

def bits_1_0 : Nat := 0x3FF0000000000000
def bitsInf : Nat := 0x7FF0000000000000
def bitsNaN : Nat := 0x7FF8000000000000

def F64.toBits (x : F64) : Nat := (if x.neg then 2 ^ 63 else 0) + x.exp * 2 ^ 52 + x.frac

/-- `m / 2^k` rounded to nearest, ties to even -/
def roundShift (m k : Nat) : Nat :=
  let q := m / 2 ^ k
  let rem := m % 2 ^ k
  if 2 * rem > 2 ^ k || (2 * rem == 2 ^ k && q % 2 == 1) then q + 1 else q

/-- the magnitude bits of the f64 nearest to `m * 2^e` (`m > 0`): normal numbers keep 53
    significant bits, below `2^-1022` the quantum is `2^-1074`; a mantissa that rounds up to `2^53`
    (or a subnormal up to `2^52`) carries into the exponent field by plain addition -/
def packRound (m : Nat) (e : Int) : Nat :=
  let top : Int := (m.log2 : Int) + e
  let qexp : Int := if top ≥ -1022 then top - 52 else -1074
  let sh : Int := e - qexp
  let q := if sh ≥ 0 then m * 2 ^ sh.toNat else roundShift m (-sh).toNat
  let bits := if top ≥ -1022 then (qexp + 1074).toNat * 2 ^ 52 + q else q
  if bits ≥ bitsInf then bitsInf else bits

/-- `x * y` -/
def f64Mul (x y : F64) : Nat :=
  let sign := if x.neg != y.neg then 2 ^ 63 else 0
  if x.isNaN || y.isNaN then bitsNaN
  else if x.isInf || y.isInf then (if x.isZero || y.isZero then bitsNaN else sign + bitsInf)
  else if x.isZero || y.isZero then sign
  else sign + packRound (x.mant * y.mant) ((x.e2 : Int) - 1075 + ((y.e2 : Int) - 1075))

/-- `x < y` -/
def f64Lt (x y : F64) : Bool :=
  if x.isNaN || y.isNaN then false
  else if x.isZero && y.isZero then false
  else
    let mag (z : F64) : Nat := z.exp * 2 ^ 52 + z.frac
    match x.neg, y.neg with
    | true, false => true
    | false, true => false
    | false, false => mag x < mag y
    | true, true => mag y < mag x

/-- `x.clamp(0.0, 1.0)`: NaN stays NaN, `-0.0` stays `-0.0` (it is not `< 0.0`).  Every NaN is the
    canonical quiet NaN here: sign and payload of a NaN are platform matters (x86 produces the
    NEGATIVE quiet NaN for `0 * inf`) and no decision looks at them; the harness canonicalises the
    bits it prints in the same way -/
def clampBits (b : Nat) : Nat :=
  let x := F64.ofBits b
  if x.isNaN then bitsNaN
  else if f64Lt x (F64.ofBits 0) then 0
  else if f64Lt (F64.ofBits bits_1_0) x then bits_1_0
  else b

/-- `x.max(0.0)`: NaN gives `0.0` (the harness never passes `-0.0`, for which `max` may return either zero) -/
def maxZeroBits (b : Nat) : Nat :=
  let x := F64.ofBits b
  if x.isNaN then 0 else if f64Lt x (F64.ofBits 0) then 0 else b

/-! ## FaultConfig -/

structure FaultCfg where
  enabled : Bool
  /-- `probabilities`: fault code ↦ probability bits; a `HashMap` that is only inserted into and looked up -/
  probs : NMap Nat
  /-- `global_multiplier` bits -/
  mult : Nat
  deriving DecidableEq, Repr

def FaultCfg.new : FaultCfg := ⟨true, [], bits_1_0⟩
def FaultCfg.disabled : FaultCfg := ⟨false, [], 0⟩

/-- `set(fault_id, probability)` -/
def FaultCfg.set (c : FaultCfg) (id bits : Nat) : FaultCfg := { c with probs := NMap.insert id (clampBits bits) c.probs }

def FaultCfg.setAll (c : FaultCfg) (l : List (Nat × Nat)) : FaultCfg := l.foldl (fun c p => c.set p.1 p.2) c

def FaultCfg.calm : FaultCfg := ({ FaultCfg.new with mult := calmMult }).setAll calmSets
def FaultCfg.moderate : FaultCfg := ({ FaultCfg.new with mult := moderateMult }).setAll moderateSets
def FaultCfg.chaos : FaultCfg := ({ FaultCfg.new with mult := chaosMult }).setAll chaosSets

/-- `with_multiplier(m)` -/
def FaultCfg.withMultiplier (c : FaultCfg) (m : Nat) : FaultCfg := { c with mult := maxZeroBits m }

/-- `get(fault_id)` -/
def FaultCfg.get (c : FaultCfg) (id : Nat) : Nat :=
  if !c.enabled then 0
  else clampBits (f64Mul (F64.ofBits ((c.probs.get id).getD 0)) (F64.ofBits c.mult))

/-- `should_trigger(fault_id, random_value)` -/
def FaultCfg.shouldTrigger (c : FaultCfg) (id v : Nat) : Bool := f64Lt (F64.ofBits v) (F64.ofBits (c.get id))

def presetOf : String → Option FaultCfg
  | "new" => some .new
  | "disabled" => some .disabled
  | "calm" => some .calm
  | "moderate" => some .moderate
  | "default" => some .moderate
  | "chaos" => some .chaos
  | _ => none

/-! ## the thread-local context and the decisions -/

structure Ctx where
  /-- `BuggifyContext::default()`: `FaultConfig::default()` is `moderate()` -/
  cfg : FaultCfg := .moderate
  suppressed : Bool := false
  checks : NMap Nat := []
  triggers : NMap Nat := []
  deriving DecidableEq, Repr

def bump (m : NMap Nat) (id : Nat) : NMap Nat := NMap.insertWith (· + ·) id 1 m

/-- `prob <= 0.0` (false for NaN) -/
def noChance (p : F64) : Bool := !p.isNaN && (p.neg || p.isZero)

inductive Call where
  /-- `should_buggify(rng, id)` -/
  | check (id : Nat)
  /-- `should_buggify_with_prob(rng, id, p)` -/
  | checkProb (id bits : Nat)
  /-- `BuggifySuppressor::new()` (`true`) / its drop (`false`) -/
  | suppress (b : Bool)
  | setConfig (c : FaultCfg)
  | resetStats
  deriving Repr

section
variable {σ : Type} (S : Sampler σ)

/-- one call; the answer is `none` for the calls that return nothing -/
def Ctx.call (ctx : Ctx) (c : Call) (g : σ) : Except String (Option Bool × Ctx × σ) :=
  match c with
  | .check id =>
    let ctx := { ctx with checks := bump ctx.checks id }
    if ctx.suppressed then pure (some false, ctx, g)
    else
      let p := F64.ofBits (ctx.cfg.get id)
      if noChance p then pure (some false, ctx, g)
      else do
        let (v, g) ← S.range 0 1000000 g
        let t := buggifyTriggered v p
        pure (some t, { ctx with triggers := if t then bump ctx.triggers id else ctx.triggers }, g)
  | .checkProb id bits =>
    let ctx := { ctx with checks := bump ctx.checks id }
    if ctx.suppressed || !ctx.cfg.enabled then pure (some false, ctx, g)
    else do
      let (v, g) ← S.range 0 1000000 g
      let t := buggifyTriggered v (F64.ofBits (clampBits bits))
      pure (some t, { ctx with triggers := if t then bump ctx.triggers id else ctx.triggers }, g)
  | .suppress b => pure (none, { ctx with suppressed := b }, g)
  | .setConfig cfg => pure (none, { ctx with cfg := cfg }, g)
  | .resetStats => pure (none, { ctx with checks := [], triggers := [] }, g)

/-- a whole sequence of calls: the decisions, in order -/
def runCalls : Ctx → List Call → σ → Except String (List Bool × Ctx × σ)
  | ctx, [], g => pure ([], ctx, g)
  | ctx, c :: rest, g => do
    let (d, ctx, g) ← ctx.call S c g
    let (ds, ctx, g) ← runCalls ctx rest g
    pure ((match d with | some b => b :: ds | none => ds), ctx, g)

end

/-- does the call consume a word of the stream, given the configuration and the suppression flag? -/
def Call.draws (cfg : FaultCfg) (suppressed : Bool) : Call → Bool
  | .check id => !suppressed && !noChance (F64.ofBits (cfg.get id))
  | .checkProb _ _ => !suppressed && cfg.enabled
  | _ => false

/-- how many words a sequence consumes: a function of the configuration / suppression history only -/
def drawCount : FaultCfg → Bool → List Call → Nat
  | _, _, [] => 0
  | cfg, sup, c :: rest =>
    (if c.draws cfg sup then 1 else 0) +
      (match c with
       | .suppress b => drawCount cfg b rest
       | .setConfig c' => drawCount c' sup rest
       | _ => drawCount cfg sup rest)

/-- a generator that is just a stream of words read at a position: `range` returns the next word
    (reduced into the range), `bool` its parity -/
def streamSampler : Sampler ((Nat → Nat) × Nat) where
  range lo hi g := .ok (if lo ≥ hi then lo else lo + g.1 g.2 % (hi - lo), (g.1, g.2 + 1))
  bool _ g := .ok (g.1 g.2 % 2 == 1, (g.1, g.2 + 1))

end RedisVerif.SimBuggify
