import RedisVerif.Model.NMap

/-
  M7/Actors — clients, FIFO shard mailboxes, response slots; histories and linearizability.

  Anchors: /repo/src/production/sharded_actor.rs (`ShardHandle::{execute, fast_get, fast_set,
  pooled_fast_get, pooled_fast_set}`: build a message carrying a response channel / slot, push it
  into the shard's unbounded mpsc, await the response; `ShardActor::run`: pop the head, run the
  executor, write the response into THAT message's channel / slot),
  /repo/src/production/response_pool.rs (`ResponsePool::{acquire, release}`, `ResponseSlot::send`,
  `ResponseFuture::poll` takes the value).

  * `Ev`, `replay`, `Linearizable`: histories of invocations / responses, and linearizability in
    its linearization-point form — a history is linearizable iff linearization events can be
    inserted so that every operation's point lies between its invocation and its response and the
    points, replayed in order on the sequential specification, produce exactly the observed
    responses.
  * `search` / `checkLinOne`: an executable WGL-style search for such an insertion (fuel
    recursion), `checkLin`: per-key decomposition.  Soundness is proved in `Props/C02.lean`.
  * `Sys`, `Step`, `Reach`: the transition system (any number of shards, clients, slots),
    including clients that abandon an in-flight request.  It is a specification (functions, an
    inductive step relation), not run by the driver.  `StepSeeded` adds the seeded variant of
    abandoning (slot returned to the pool) for the counterexample.

  This file imports only core.
-/
namespace RedisVerif
namespace Actors

/-! ## histories, logs, linearizability -/

inductive Ev (Req Resp : Type)
  /-- client issues request `id` (ids grow with invocation order) -/
  | inv (id : Nat) (req : Req)
  /-- request `id` takes effect (not part of a history: inserted by a linearization) -/
  | lin (id : Nat) (resp : Resp)
  /-- the client receives the response of request `id` -/
  | res (id : Nat) (resp : Resp)
  deriving DecidableEq, Repr

def Ev.id {Req Resp : Type} : Ev Req Resp → Nat
  | .inv i _ => i
  | .lin i _ => i
  | .res i _ => i

def Ev.isLin {Req Resp : Type} : Ev Req Resp → Bool
  | .lin _ _ => true
  | _ => false

/-- the client-visible part of a log -/
def history {Req Resp : Type} (log : List (Ev Req Resp)) : List (Ev Req Resp) :=
  log.filter (fun e => !e.isLin)

structure RState (σ Req Resp : Type) where
  /-- state of the sequential specification -/
  s : σ
  /-- invoked, not yet taken effect -/
  pend : NMap Req
  /-- taken effect, response not yet delivered -/
  done : NMap Resp
  /-- ids below `next` are used up -/
  next : Nat

def initR {σ Req Resp : Type} (s : σ) : RState σ Req Resp := { s := s, pend := [], done := [], next := 0 }

section replay
variable {σ Req Resp : Type} [DecidableEq Resp] (step : σ → Req → σ × Resp)

def stepEv (r : RState σ Req Resp) : Ev Req Resp → Option (RState σ Req Resp)
  | .inv id req =>
    if r.next ≤ id then some { r with pend := NMap.insert id req r.pend, next := id + 1 } else none
  | .lin id resp =>
    match NMap.get r.pend id with
    | none => none
    | some req =>
      if (step r.s req).2 = resp then
        some { r with s := (step r.s req).1, pend := NMap.erase id r.pend, done := NMap.insert id resp r.done }
      else none
  | .res id resp =>
    if NMap.get r.done id = some resp then some { r with done := NMap.erase id r.done } else none

def replay : RState σ Req Resp → List (Ev Req Resp) → Option (RState σ Req Resp)
  | r, [] => some r
  | r, e :: es =>
    match stepEv step r e with
    | none => none
    | some r' => replay r' es

/-- a log is valid: every `lin` follows its `inv`, every `res` follows its `lin` and carries its
    response, no id is used twice, and the `lin` events replayed on the specification give
    exactly the recorded responses -/
def ValidLog (s0 : σ) (log : List (Ev Req Resp)) : Prop := (replay step (initR s0) log).isSome

/-- **linearizable**: each operation takes effect atomically at some instant between its
    invocation and its response -/
def Linearizable (s0 : σ) (h : List (Ev Req Resp)) : Prop :=
  ∃ log, history log = h ∧ ValidLog step s0 log

/-- a specification with a CLOCK: every request carries the virtual time `now` at which it was
    invoked, and the specification judges it at that time (`specAt step (now, req) = step now req`).
    Time passing is not an operation of any client: what an operation sees (e.g. whether a key's
    deadline has passed) is a function of ITS invocation time. -/
def specAt {τ : Type} (step : Nat → σ → τ → σ × Resp) (s : σ) (p : Nat × τ) : σ × Resp := step p.1 s p.2

/-! ## executable checker -/

/-- WGL-style search with just-in-time linearization: consume the next history event whenever it
    can be consumed; when it cannot (a response of an operation that has not taken effect yet), let
    one pending operation take effect now and try again.  `exp` = the observed response of every
    completed operation (prunes branches that would produce another response).  Soundness
    (`search_sound`) does not depend on either pruning. -/
def search (exp : NMap Resp) : Nat → RState σ Req Resp → List (Ev Req Resp) → Bool
  | 0, _, _ => false
  | fuel + 1, r, h =>
    match h with
    | [] => true
    | e :: es =>
      match stepEv step r e with
      | some r' => search exp fuel r' es
      | none =>
        r.pend.any (fun p =>
          let resp := (step r.s p.2).2
          (match NMap.get exp p.1 with
           | some o => decide (o = resp)
           | none => true)
          &&
          match stepEv step r (.lin p.1 resp) with
          | some r' => search exp fuel r' (e :: es)
          | none => false)

def expected : List (Ev Req Resp) → NMap Resp
  | [] => []
  | .res id resp :: es => NMap.insert id resp (expected es)
  | _ :: es => expected es

/-- one object: is the history linearizable from `s0`? -/
def checkLinOne (s0 : σ) (h : List (Ev Req Resp)) : Bool :=
  h.all (fun e => !e.isLin) && search step (expected h) (2 * h.length + 1) (initR s0) h

end replay

section perkey
variable {σ Req Resp : Type} [DecidableEq Resp] (step : σ → Req → σ × Resp) (keyOf : Req → Nat)

/-- request id ↦ key, from the invocations of a history -/
def keyMap : List (Ev Req Resp) → NMap Nat
  | [] => []
  | .inv id req :: es => NMap.insert id (keyOf req) (keyMap es)
  | _ :: es => keyMap es

/-- the sub-history of one key -/
def projKey (km : NMap Nat) (k : Nat) (h : List (Ev Req Resp)) : List (Ev Req Resp) :=
  h.filter (fun e => NMap.get km e.id == some k)

/-- **per-key linearizable** -/
def PerKeyLinearizable (s0 : σ) (h : List (Ev Req Resp)) : Prop :=
  ∀ k, Linearizable step s0 (projKey (keyMap keyOf h) k h)

/-- the verified checker run by the C02 driver -/
def checkLin (s0 : σ) (h : List (Ev Req Resp)) : Bool :=
  ((keyMap keyOf h).map (·.2)).eraseDups.all (fun k => checkLinOne step s0 (projKey (keyMap keyOf h) k h))

end perkey

/-! ## the transition system -/

inductive CState (Req : Type)
  | idle
  /-- waiting for the response of request `id`, to be read from slot `slot` -/
  | waiting (id : Nat) (req : Req) (slot : Nat)

structure Msg (Req : Type) where
  id : Nat
  /-- the response channel / pooled slot the shard actor must answer into -/
  slot : Nat
  req : Req

def upd {α : Type} (f : Nat → α) (i : Nat) (v : α) : Nat → α := fun j => if j = i then v else f j

structure Sys (σ Req Resp : Type) where
  /-- the executors of all shards (a message to shard `i` only touches shard `i`'s part: that is a
      property of the `step` the system is instantiated with) -/
  st : σ
  /-- FIFO mailbox of every shard actor, head = oldest -/
  mail : Nat → List (Msg Req)
  client : Nat → CState Req
  /-- contents of every response slot ever allocated -/
  slot : Nat → Option Resp
  /-- `ResponsePool`: slots available for reuse -/
  pool : List Nat
  /-- slots `≥ fresh` have never been allocated (`Arc::new(ResponseSlot::new())`, `oneshot::channel()`) -/
  fresh : Nat
  /-- ghost: next request id -/
  nextId : Nat
  /-- ghost: everything that happened, in order -/
  log : List (Ev Req Resp)

def Sys.init {σ Req Resp : Type} (s0 : σ) (pool : Nat) : Sys σ Req Resp :=
  { st := s0, mail := fun _ => [], client := fun _ => .idle, slot := fun _ => none,
    pool := List.range pool, fresh := pool, nextId := 0, log := [] }

section sys
variable {σ Req Resp : Type} (step : σ → Req → σ × Resp) (route : Req → Nat)

/-- post one request with a NEW oneshot channel on behalf of client `c` -/
def postFresh (s : Sys σ Req Resp) (c : Nat) (req : Req) : Sys σ Req Resp :=
  { s with
    client := upd s.client c (.waiting s.nextId req s.fresh)
    fresh := s.fresh + 1
    mail := upd s.mail (route req) (s.mail (route req) ++ [⟨s.nextId, s.fresh, req⟩])
    nextId := s.nextId + 1
    log := s.log ++ [.inv s.nextId req] }

/-- one atomic step of a client task, a shard actor, or the scheduler's choice between them -/
inductive Step : Sys σ Req Resp → Sys σ Req Resp → Prop
  /-- `pooled_fast_*`: acquire a pooled slot, enqueue the message at the key's shard -/
  | invokePooled (s : Sys σ Req Resp) (c : Nat) (req : Req) (sid : Nat) (rest : List Nat)
      (hc : s.client c = .idle) (hp : s.pool = sid :: rest) :
      Step s { s with
        client := upd s.client c (.waiting s.nextId req sid)
        pool := rest
        mail := upd s.mail (route req) (s.mail (route req) ++ [⟨s.nextId, sid, req⟩])
        nextId := s.nextId + 1
        log := s.log ++ [.inv s.nextId req] }
  /-- `execute` / `fast_*` (a new oneshot channel), or `acquire` on an empty pool -/
  | invokeFresh (s : Sys σ Req Resp) (c : Nat) (req : Req)
      (hc : s.client c = .idle) :
      Step s { s with
        client := upd s.client c (.waiting s.nextId req s.fresh)
        fresh := s.fresh + 1
        mail := upd s.mail (route req) (s.mail (route req) ++ [⟨s.nextId, s.fresh, req⟩])
        nextId := s.nextId + 1
        log := s.log ++ [.inv s.nextId req] }
  /-- `ShardActor::run`: pop the head of mailbox `i`, execute, answer into the message's slot -/
  | exec (s : Sys σ Req Resp) (i : Nat) (m : Msg Req) (rest : List (Msg Req))
      (hm : s.mail i = m :: rest) :
      Step s { s with
        st := (step s.st m.req).1
        mail := upd s.mail i rest
        slot := upd s.slot m.slot (some (step s.st m.req).2)
        log := s.log ++ [.lin m.id (step s.st m.req).2] }
  /-- the client's future resolves: take the value, release the slot to the pool -/
  | retRelease (s : Sys σ Req Resp) (c id : Nat) (req : Req) (sid : Nat) (resp : Resp)
      (hc : s.client c = .waiting id req sid) (hs : s.slot sid = some resp) :
      Step s { s with
        client := upd s.client c .idle
        slot := upd s.slot sid none
        pool := s.pool ++ [sid]
        log := s.log ++ [.res id resp] }
  /-- … or drop it (oneshot channel, or the pool is full) -/
  | retDrop (s : Sys σ Req Resp) (c id : Nat) (req : Req) (sid : Nat) (resp : Resp)
      (hc : s.client c = .waiting id req sid) (hs : s.slot sid = some resp) :
      Step s { s with
        client := upd s.client c .idle
        slot := upd s.slot sid none
        log := s.log ++ [.res id resp] }

  /-- a BATCHED call (`fast_batch_get_pipeline` / `fast_batch_set_pipeline`, MGET / MSET): the items
      are posted together, each with its own oneshot channel, on behalf of auxiliary client slots
      `p.1` (distinct, idle) of the calling task; the call completes when every item has returned
      (`retDrop` of each).  The code posts ONE message per touched shard carrying that shard's items
      and the actor runs them back to back; posting them as consecutive single-item messages
      admits every interleaving the code has and more, so what is proved of all executions here
      holds of the code's.  Every item's interval lies inside the call's invocation–response
      interval, hence a linearization of the items is one of the call. -/
  | invokeBatch (s : Sys σ Req Resp) (items : List (Nat × Req))
      (hidle : ∀ p ∈ items, s.client p.1 = .idle) (hnd : (items.map (·.1)).Nodup) :
      Step s (items.foldl (fun s p => postFresh route s p.1 p.2) s)
  /-- the client gives up on an in-flight request (timeout, disconnect: the request future is
      dropped mid-await).  As the code does: the slot is NOT returned to the pool — it leaks; a
      message still queued keeps its reference, and the shard's later reply goes into a slot
      nobody reads.  The operation keeps its invocation and never gets a response. -/
  | abandon (s : Sys σ Req Resp) (c id : Nat) (req : Req) (sid : Nat)
      (hc : s.client c = .waiting id req sid) :
      Step s { s with client := upd s.client c .idle }

/-- every finite execution from the initial state (every interleaving) -/
inductive Reach (s0 : σ) (pool : Nat) : Sys σ Req Resp → Prop
  | init : Reach s0 pool (Sys.init s0 pool)
  | step {s s' : Sys σ Req Resp} : Reach s0 pool s → Step step route s s' → Reach s0 pool s'

/-- the SEEDED discipline (an RAII guard around the acquired slot): a client that gives up resets
    its slot and returns it to the pool although a queued message may still reference it -/
inductive StepSeeded : Sys σ Req Resp → Sys σ Req Resp → Prop
  | base {s s' : Sys σ Req Resp} : Step step route s s' → StepSeeded s s'
  | abandonRelease (s : Sys σ Req Resp) (c id : Nat) (req : Req) (sid : Nat)
      (hc : s.client c = .waiting id req sid) :
      StepSeeded s { s with
        client := upd s.client c .idle
        slot := upd s.slot sid none
        pool := s.pool ++ [sid] }

inductive ReachSeeded (s0 : σ) (pool : Nat) : Sys σ Req Resp → Prop
  | init : ReachSeeded s0 pool (Sys.init s0 pool)
  | step {s s' : Sys σ Req Resp} : ReachSeeded s0 pool s → StepSeeded step route s s' →
      ReachSeeded s0 pool s'

end sys

end Actors
end RedisVerif
