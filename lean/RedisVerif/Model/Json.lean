import RedisVerif.Model.Bincode

/-
  Byte-exact model of the JSON encoding of gossip frames: `GossipMessage::serialize` =
  `serde_json::to_vec` over the derived `Serialize` impls (`src/replication/gossip.rs`,
  `state/delta.rs`, `state/replicated_value.rs`, `state/crdt_value.rs`, `lattice.rs`, and the hand-written
  `impl Serialize for SDS` = `serialize_bytes`), and of `GossipMessage::deserialize` =
  `serde_json::from_slice` ON THE IMAGE OF THE ENCODER.

  What serde_json's compact writer emits for these types (serde_json 1.0, no feature flags):
  * `u64` / `u8`: decimal digits, no sign, no leading zeros (`itoa`);
  * `bool`: `true` / `false`; `Option`: `null` or the value;
  * `String`: `"` … `"` with exactly these escapes: `\"` `\\` `\b` `\f` `\n` `\r` `\t`, every other byte
    below 0x20 as `\u00XX` (lower-case hex); everything else — 0x7F and all non-ASCII UTF-8 — raw;
  * `SDS` (`serialize_bytes`): an ARRAY OF NUMBERS `[104,105]`;
  * struct: `{"field":value,...}` in declaration order; newtype struct (`ReplicaId`): the inner value;
  * enum (externally tagged): `{"Variant":{...}}` / newtype variant `{"Lww":value}`;
  * `Vec` / `HashSet`: `[a,b,...]`; `HashMap<String,_>`: `{"k":v,...}`; `HashMap<ReplicaId,_>`: the integer
    key is written as a STRING `{"1":5}` (JSON object keys are strings).
  Maps and sets are kept in WIRE order (the order `HashMap` iteration produced), as in `Model/Bincode.lean`,
  so the round trip is a statement for every iteration order.

  The decoder here is the CANONICAL one: it accepts exactly what the encoder can produce (no
  whitespace, fields in declaration order, no other escapes, no leading zeros) and returns the rest of
  the input; `serde_json::from_slice` accepts more spellings of the same document (whitespace, any
  field order, `\uXXXX` for any character, unknown fields).  The property (C14) is about the round
  trip, which only ever meets canonical documents; on every other input the model makes no claim
  (the harness counts those).  Laws (Lemmas/Json.lean): `rt`, `exact` (no second spelling among
  canonical documents), hence injectivity and rejection of every truncation.

  A number is not self-delimiting: `rt` holds when what follows does not start with a digit
  (`Delim`), which is the case after every number the encoder writes (`,` `}` `]` `"` or the end).
-/
namespace RedisVerif
namespace Json

open Bincode (WLww WMap WCrdt WRv WDelta utf8Valid allBytes)

abbrev Dec (α : Type) := Bytes → Option (α × Bytes)

structure Codec (α : Type) where
  enc : α → Bytes
  dec : Dec α
  ok : α → Prop

/-- `bs` with the literal `p` removed from its front -/
def strip : Bytes → Bytes → Option Bytes
  | [], bs => some bs
  | _ :: _, [] => none
  | p :: ps, b :: bs => if p = b then strip ps bs else none

/-! ## numbers -/

def isDigit (c : Nat) : Bool := decide (48 ≤ c ∧ c ≤ 57)

/-- decimal digits of `n`, most significant first, in front of `acc` (`fuel` ≥ number of digits) -/
def digitsAux : Nat → Nat → Bytes → Bytes
  | 0, _, acc => acc
  | fuel + 1, n, acc => if n < 10 then (48 + n) :: acc else digitsAux fuel (n / 10) ((48 + n % 10) :: acc)

/-- `itoa` of a `u64` (at most 20 digits) -/
def decimal (n : Nat) : Bytes := digitsAux 20 n []

/-- the maximal run of digits at the front, and what follows -/
def spanDigits : Bytes → Bytes × Bytes
  | [] => ([], [])
  | c :: r => if isDigit c then ((spanDigits r).1 |> (c :: ·), (spanDigits r).2) else ([], c :: r)

def valOf (ds : Bytes) : Nat := ds.foldl (fun a d => a * 10 + (d - 48)) 0

/-- an unsigned integer below `bound`: digits, no leading zero (except `0` itself) -/
def natBelow (bound : Nat) : Codec Nat where
  enc n := decimal n
  dec bs :=
    match spanDigits bs with
    | ([], _) => none
    | (d :: ds, rest) =>
      if d = 48 ∧ ds ≠ [] then none
      else if ds.length < 20 ∧ valOf (d :: ds) < bound then some (valOf (d :: ds), rest) else none
  ok n := n < bound

abbrev u64 := natBelow (2 ^ 64)
abbrev u8 := natBelow 256

def bool : Codec Bool where
  enc b := if b then [116, 114, 117, 101] else [102, 97, 108, 115, 101]
  dec
    | 116 :: 114 :: 117 :: 101 :: r => some (true, r)
    | 102 :: 97 :: 108 :: 115 :: 101 :: r => some (false, r)
    | _ => none
  ok _ := True

/-! ## strings -/

def hexLow (d : Nat) : Nat := if d < 10 then 48 + d else 87 + d

def unhexLow (c : Nat) : Option Nat :=
  if 48 ≤ c ∧ c ≤ 57 then some (c - 48) else if 97 ≤ c ∧ c ≤ 102 then some (c - 87) else none

/-- the byte a short escape `\x` stands for -/
def shortEsc (e : Nat) : Option Nat :=
  if e = 34 then some 34 else if e = 92 then some 92 else if e = 98 then some 8 else if e = 102 then some 12
  else if e = 110 then some 10 else if e = 114 then some 13 else if e = 116 then some 9 else none

/-- how serde_json writes one byte of a string -/
def escByte (b : Nat) : Bytes :=
  if b = 34 then [92, 34] else if b = 92 then [92, 92]
  else if b = 8 then [92, 98] else if b = 12 then [92, 102] else if b = 10 then [92, 110]
  else if b = 13 then [92, 114] else if b = 9 then [92, 116]
  else if b < 32 then [92, 117, 48, 48, hexLow (b / 16), hexLow (b % 16)]
  else [b]

def escape (bs : Bytes) : Bytes := bs.flatMap escByte

def pushB (b : Nat) : Option (Bytes × Bytes) → Option (Bytes × Bytes)
  | some (c, r) => some (b :: c, r)
  | none => none

/-- the content of a string up to its closing quote (canonical escapes only), and what follows;
    `fuel` ≥ length of the input -/
def unescAux : Nat → Bytes → Option (Bytes × Bytes)
  | 0, _ => none
  | _ + 1, [] => none
  | fuel + 1, b :: r =>
    if b = 34 then some ([], r)
    else if b = 92 then
      match r with
      | [] => none
      | e :: r1 =>
        if e = 117 then
          match r1 with
          | 48 :: 48 :: h :: l :: r2 =>
            (match unhexLow h, unhexLow l with
            | some x, some y =>
              let v := x * 16 + y
              if v < 32 ∧ v ≠ 8 ∧ v ≠ 9 ∧ v ≠ 10 ∧ v ≠ 12 ∧ v ≠ 13 then pushB v (unescAux fuel r2) else none
            | _, _ => none)
          | _ => none
        else
          match shortEsc e with
          | some v => pushB v (unescAux fuel r1)
          | none => none
    else if b < 32 ∨ 256 ≤ b then none
    else pushB b (unescAux fuel r)

def unesc (bs : Bytes) : Option (Bytes × Bytes) := unescAux (bs.length + 1) bs

/-- `String` -/
def str : Codec Bytes where
  enc b := 34 :: (escape b ++ [34])
  dec
    | 34 :: r =>
      (match unesc r with
      | some (c, rest) => if utf8Valid c then some (c, rest) else none
      | none => none)
    | _ => none
  ok b := allBytes b = true ∧ utf8Valid b = true

/-! ## combinators -/

/-- a literal in front -/
def pre {α : Type} (p : Bytes) (c : Codec α) : Codec α where
  enc a := p ++ c.enc a
  dec bs :=
    match strip p bs with
    | none => none
    | some r => c.dec r
  ok := c.ok

/-- a literal behind -/
def post {α : Type} (c : Codec α) (p : Bytes) : Codec α where
  enc a := c.enc a ++ p
  dec bs :=
    match c.dec bs with
    | none => none
    | some (a, r) =>
      match strip p r with
      | none => none
      | some r' => some (a, r')
  ok := c.ok

/-- two values with a literal between them -/
def pairSep {α β : Type} (c : Codec α) (sep : Bytes) (d : Codec β) : Codec (α × β) where
  enc p := c.enc p.1 ++ (sep ++ d.enc p.2)
  dec bs :=
    match c.dec bs with
    | none => none
    | some (a, r) =>
      match strip sep r with
      | none => none
      | some r1 =>
        match d.dec r1 with
        | none => none
        | some (b, r') => some ((a, b), r')
  ok p := c.ok p.1 ∧ d.ok p.2

/-- `Option`: `null` or the value -/
def opt {α : Type} (c : Codec α) : Codec (Option α) where
  enc
    | none => [110, 117, 108, 108]
    | some a => c.enc a
  dec
    | 110 :: 117 :: 108 :: 108 :: r => some (none, r)
    | bs =>
      match c.dec bs with
      | some (a, r) => some (some a, r)
      | none => none
  ok
    | none => True
    | some a => c.ok a

/-- the elements after the first one, each behind a comma, up to the closing byte; `fuel` ≥ length -/
def decRest {α : Type} (close : Nat) (d : Dec α) : Nat → Dec (List α)
  | 0, _ => none
  | _ + 1, [] => none
  | fuel + 1, b :: r =>
    if b = close then some ([], r)
    else if b = 44 then
      match d r with
      | none => none
      | some (a, r1) =>
        match decRest close d fuel r1 with
        | none => none
        | some (as, r2) => some (a :: as, r2)
    else none

/-- comma-separated elements between an opening and a closing byte (`[` `]` for sequences and sets,
    `{` `}` for maps whose element codec writes `key:value`) -/
def seq {α : Type} (op close : Nat) (c : Codec α) : Codec (List α) where
  enc
    | [] => [op, close]
    | a :: t => op :: (c.enc a ++ (t.flatMap (fun x => 44 :: c.enc x) ++ [close]))
  dec
    | [] => none
    | b :: r =>
      if b ≠ op then none
      else
        match r with
        | [] => none
        | b1 :: r1 =>
          if b1 = close then some ([], r1)
          else
            match c.dec (b1 :: r1) with
            | none => none
            | some (a, r2) =>
              match decRest close c.dec (r2.length + 1) r2 with
              | none => none
              | some (as, r3) => some (a :: as, r3)
  ok l := ∀ a ∈ l, c.ok a

abbrev arr {α : Type} (c : Codec α) : Codec (List α) := seq 91 93 c
abbrev obj {α : Type} (c : Codec α) : Codec (List α) := seq 123 125 c

/-- transport along a bijection (struct ↔ nested pairs) -/
def xmap {α β : Type} (c : Codec α) (f : α → β) (g : β → α) : Codec β where
  enc b := c.enc (g b)
  dec bs :=
    match c.dec bs with
    | none => none
    | some (a, r) => some (f a, r)
  ok b := c.ok (g b)

def lit (s : String) : Bytes := s.toUTF8.toList.map (·.toNat)

/-! ## the serialised types -/

/-- `SDS` through `serialize_bytes`: an array of numbers -/
def sds : Codec Bytes := arr u8

/-- `LamportClock { time, replica_id }` -/
def clock : Codec (Nat × Nat) :=
  pre (lit "{\"time\":") (post (pairSep u64 (lit ",\"replica_id\":") u64) (lit "}"))

/-- `UniqueTag { replica_id, sequence }` -/
def tag : Codec (Nat × Nat) :=
  pre (lit "{\"replica_id\":") (post (pairSep u64 (lit ",\"sequence\":") u64) (lit "}"))

/-- `HashMap<ReplicaId, u64>`: `{"1":5,"2":7}` -/
def umap : Codec WMap := obj (pairSep (pre [34] (post u64 [34])) [58] u64)

/-- `GCounter { counts }` / `VectorClock { clocks }` -/
def counts (field : String) : Codec WMap := pre (lit ("{\"" ++ field ++ "\":")) (post umap (lit "}"))

/-- `LwwRegister<SDS> { value, timestamp, tombstone }` -/
def lww : Codec WLww :=
  xmap (pre (lit "{\"value\":") (post (pairSep (opt sds) (lit ",\"timestamp\":") (pairSep clock (lit ",\"tombstone\":") bool)) (lit "}")))
    (fun p => ⟨p.1, p.2.1.1, p.2.1.2, p.2.2⟩)
    (fun r => (r.value, ((r.time, r.rid), r.tomb)))

/-- `HashSet<UniqueTag>` -/
def tags : Codec (List (Nat × Nat)) := arr tag

/-- `HashMap<String, HashSet<UniqueTag>>` -/
def orElems : Codec (List (Bytes × List (Nat × Nat))) := obj (pairSep str [58] tags)

/-- `HashMap<String, LwwRegister<SDS>>` -/
def hashFields : Codec (List (Bytes × WLww)) := obj (pairSep str [58] lww)

def gcounterBody : Codec WMap := counts "counts"

def pnBody : Codec (WMap × WMap) :=
  pre (lit "{\"positive\":") (post (pairSep gcounterBody (lit ",\"negative\":") gcounterBody) (lit "}"))

def gsetBody : Codec (List Bytes) := pre (lit "{\"elements\":") (post (arr str) (lit "}"))

def orsetBody : Codec (List (Bytes × List (Nat × Nat)) × WMap) :=
  pre (lit "{\"elements\":") (post (pairSep orElems (lit ",\"next_sequence\":") umap) (lit "}"))

def tagLww : Bytes := lit "{\"Lww\":"
def tagGCounter : Bytes := lit "{\"GCounter\":"
def tagPNCounter : Bytes := lit "{\"PNCounter\":"
def tagGSet : Bytes := lit "{\"GSet\":"
def tagORSet : Bytes := lit "{\"ORSet\":"
def tagHash : Bytes := lit "{\"Hash\":"

/-- `CrdtValue` (externally tagged; every variant is a newtype variant) -/
def crdt : Codec WCrdt where
  enc
    | .lww r => tagLww ++ (lww.enc r ++ [125])
    | .gcounter c => tagGCounter ++ (gcounterBody.enc c ++ [125])
    | .pncounter p n => tagPNCounter ++ (pnBody.enc (p, n) ++ [125])
    | .gset s => tagGSet ++ (gsetBody.enc s ++ [125])
    | .orset e nx => tagORSet ++ (orsetBody.enc (e, nx) ++ [125])
    | .hash h => tagHash ++ (hashFields.enc h ++ [125])
  dec bs :=
    match strip tagLww bs with
    | some r =>
      (match (post lww [125]).dec r with
      | some (x, r') => some (.lww x, r')
      | none => none)
    | none =>
    match strip tagGCounter bs with
    | some r =>
      (match (post gcounterBody [125]).dec r with
      | some (x, r') => some (.gcounter x, r')
      | none => none)
    | none =>
    match strip tagPNCounter bs with
    | some r =>
      (match (post pnBody [125]).dec r with
      | some (x, r') => some (.pncounter x.1 x.2, r')
      | none => none)
    | none =>
    match strip tagGSet bs with
    | some r =>
      (match (post gsetBody [125]).dec r with
      | some (x, r') => some (.gset x, r')
      | none => none)
    | none =>
    match strip tagORSet bs with
    | some r =>
      (match (post orsetBody [125]).dec r with
      | some (x, r') => some (.orset x.1 x.2, r')
      | none => none)
    | none =>
    match strip tagHash bs with
    | some r =>
      (match (post hashFields [125]).dec r with
      | some (x, r') => some (.hash x, r')
      | none => none)
    | none => none
  ok
    | .lww r => lww.ok r
    | .gcounter c => gcounterBody.ok c
    | .pncounter p n => pnBody.ok (p, n)
    | .gset s => gsetBody.ok s
    | .orset e nx => orsetBody.ok (e, nx)
    | .hash h => hashFields.ok h

/-- `ReplicatedValue { crdt, vector_clock, expiry_ms, timestamp, replication_factor }` -/
def rv : Codec WRv :=
  xmap (pre (lit "{\"crdt\":") (post
      (pairSep crdt (lit ",\"vector_clock\":") (pairSep (opt (counts "clocks")) (lit ",\"expiry_ms\":")
        (pairSep (opt u64) (lit ",\"timestamp\":") (pairSep clock (lit ",\"replication_factor\":") (opt u8)))))
      (lit "}")))
    (fun p => ⟨p.1, p.2.1, p.2.2.1, p.2.2.2.1.1, p.2.2.2.1.2, p.2.2.2.2⟩)
    (fun v => (v.crdt, (v.vc, (v.expiry, ((v.time, v.rid), v.rf)))))

/-- `ReplicationDelta { key, value, source_replica }` -/
def delta : Codec WDelta :=
  xmap (pre (lit "{\"key\":") (post (pairSep str (lit ",\"value\":") (pairSep rv (lit ",\"source_replica\":") u64)) (lit "}")))
    (fun p => ⟨p.1, p.2.1, p.2.2⟩)
    (fun d => (d.key, (d.value, d.source)))

/-- `GossipMessage` -/
inductive WMsg where
  | deltaBatch (src : Nat) (deltas : List WDelta) (epoch : Nat)
  | targeted (src tgt : Nat) (deltas : List WDelta) (epoch : Nat)
  | syncRequest (src : Nat) (known : List (Bytes × Nat))
  | syncResponse (src : Nat) (deltas : List WDelta)
  | heartbeat (src epoch : Nat)
  deriving DecidableEq, Repr, Inhabited

def deltaBatchBody : Codec (Nat × List WDelta × Nat) :=
  pre (lit "{\"source_replica\":") (post (pairSep u64 (lit ",\"deltas\":") (pairSep (arr delta) (lit ",\"epoch\":") u64)) (lit "}"))

def targetedBody : Codec (Nat × Nat × List WDelta × Nat) :=
  pre (lit "{\"source_replica\":") (post (pairSep u64 (lit ",\"target_replica\":")
    (pairSep u64 (lit ",\"deltas\":") (pairSep (arr delta) (lit ",\"epoch\":") u64))) (lit "}"))

def syncRequestBody : Codec (Nat × List (Bytes × Nat)) :=
  pre (lit "{\"source_replica\":") (post (pairSep u64 (lit ",\"known_versions\":") (obj (pairSep str [58] u64))) (lit "}"))

def syncResponseBody : Codec (Nat × List WDelta) :=
  pre (lit "{\"source_replica\":") (post (pairSep u64 (lit ",\"deltas\":") (arr delta)) (lit "}"))

def heartbeatBody : Codec (Nat × Nat) :=
  pre (lit "{\"source_replica\":") (post (pairSep u64 (lit ",\"epoch\":") u64) (lit "}"))

def tagDeltaBatch : Bytes := lit "{\"DeltaBatch\":"
def tagTargeted : Bytes := lit "{\"TargetedDelta\":"
def tagSyncRequest : Bytes := lit "{\"SyncRequest\":"
def tagSyncResponse : Bytes := lit "{\"SyncResponse\":"
def tagHeartbeat : Bytes := lit "{\"Heartbeat\":"

/-- what `GossipMessage::serialize` writes / `deserialize` reads back -/
def msg : Codec WMsg where
  enc
    | .deltaBatch s ds e => tagDeltaBatch ++ (deltaBatchBody.enc (s, ds, e) ++ [125])
    | .targeted s t ds e => tagTargeted ++ (targetedBody.enc (s, t, ds, e) ++ [125])
    | .syncRequest s k => tagSyncRequest ++ (syncRequestBody.enc (s, k) ++ [125])
    | .syncResponse s ds => tagSyncResponse ++ (syncResponseBody.enc (s, ds) ++ [125])
    | .heartbeat s e => tagHeartbeat ++ (heartbeatBody.enc (s, e) ++ [125])
  dec bs :=
    match strip tagDeltaBatch bs with
    | some r =>
      (match (post deltaBatchBody [125]).dec r with
      | some (x, r') => some (.deltaBatch x.1 x.2.1 x.2.2, r')
      | none => none)
    | none =>
    match strip tagTargeted bs with
    | some r =>
      (match (post targetedBody [125]).dec r with
      | some (x, r') => some (.targeted x.1 x.2.1 x.2.2.1 x.2.2.2, r')
      | none => none)
    | none =>
    match strip tagSyncRequest bs with
    | some r =>
      (match (post syncRequestBody [125]).dec r with
      | some (x, r') => some (.syncRequest x.1 x.2, r')
      | none => none)
    | none =>
    match strip tagSyncResponse bs with
    | some r =>
      (match (post syncResponseBody [125]).dec r with
      | some (x, r') => some (.syncResponse x.1 x.2, r')
      | none => none)
    | none =>
    match strip tagHeartbeat bs with
    | some r =>
      (match (post heartbeatBody [125]).dec r with
      | some (x, r') => some (.heartbeat x.1 x.2, r')
      | none => none)
    | none => none
  ok
    | .deltaBatch s ds e => deltaBatchBody.ok (s, ds, e)
    | .targeted s t ds e => targetedBody.ok (s, t, ds, e)
    | .syncRequest s k => syncRequestBody.ok (s, k)
    | .syncResponse s ds => syncResponseBody.ok (s, ds)
    | .heartbeat s e => heartbeatBody.ok (s, e)

/-- `GossipMessage::serialize` -/
def serMsg (m : WMsg) : Bytes := msg.enc m

/-- `GossipMessage::deserialize` on a canonical document: the whole input must be consumed
    (`from_slice` rejects trailing characters) -/
def deMsg (bs : Bytes) : Option WMsg :=
  match msg.dec bs with
  | some (m, []) => some m
  | _ => none

end Json
end RedisVerif
