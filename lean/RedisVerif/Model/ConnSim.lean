import RedisVerif.Model.Conn

/-
  M6 (connection, the MIRROR) — `SimulatedConnection::process` (/repo/src/simulator/connection.rs:336-426),
  the hand-written mirror of the production read loop that the repository's own connection tests
  use instead of `OptimizedConnectionHandler`:

      while let Some(data) = read_buffer.read() {            // whole pending data or a random prefix
          parse_buffer.extend(data);
          loop { match RespCodec::parse(&mut parse_buffer) {
              Ok(Some(v)) => match Command::from_resp_zero_copy(&v) {
                  Ok(cmd) => { execute; encode the response }   // one response per command
                  Err(_)  => break,                              // NO reply; the rest waits for the next read
              },
              Ok(None) => break,
              Err(_)   => { parse_buffer.clear(); break }        // NO `-ERR protocol error`
          } }
          flush the responses of this read at once
      }

  No batching gate, no collectors, no fast path, no overflow guard, no transaction state.
  `cmdErr v` = `Command::from_resp_zero_copy(v)` is an `Err` (arity errors, non-array values …): a
  parameter, like the executor.
-/
namespace RedisVerif.ConnSim
open RedisVerif.Resp RedisVerif.Conn

/-- the inner loop on the parse buffer: executed frames, remaining buffer, panicked? -/
def simLoop (env : Env) (cmdErr : Val → Bool) : Nat → Bytes → List Val × Bytes × Bool
  | 0, buf => ([], buf, false)
  | f + 1, buf =>
    match (parse1 env buf).out with
    | .ok v k =>
      if cmdErr v then ([], buf.drop k, false)
      else
        let r := simLoop env cmdErr f (buf.drop k)
        (v :: r.1, r.2.1, r.2.2)
    | .incomplete _ => ([], buf, false)
    | .error _ => ([], [], false)
    | .crash _ => ([], [], true)

structure SimSt where
  /-- frames executed so far, in order: one response each -/
  done : List Val
  buf : Bytes
  crashed : Bool
  deriving Repr

def SimSt.init : SimSt := ⟨[], [], false⟩

/-- one `read()` -/
def simRead (env : Env) (cmdErr : Val → Bool) (st : SimSt) (chunk : Bytes) : SimSt :=
  if st.crashed then st
  else
    let b := st.buf ++ chunk
    let r := simLoop env cmdErr (b.length + 1) b
    ⟨st.done ++ r.1, r.2.1, r.2.2⟩

def simRun (env : Env) (cmdErr : Val → Bool) (chunks : List Bytes) : SimSt :=
  chunks.foldl (simRead env cmdErr) SimSt.init

/-- frames the production handler executes (`Conn.run`), in order -/
def execFrames : List Action → List Val
  | [] => []
  | .exec f _ :: rest => f :: execFrames rest
  | _ :: rest => execFrames rest

end RedisVerif.ConnSim
