import RedisVerif.Model.Script7
import RedisVerif.Model.Server

/-
  M7/Node7 — the requests of the C02 model over the COMPOSED node: a timed M7 command carried by
  WHICHEVER ENTRY POINT the connection handler's frame class selects (`Model/Dispatch.lean`:
  generic `execute`, `pooled_fast_get/set`, one item of `fast_batch_get/set_pipeline`, a queued
  command replayed by EXEC), or a timed Lua script.

  Anchors: /repo/src/production/sharded_actor.rs (`ShardedActorState::{execute, pooled_fast_get,
  pooled_fast_set, fast_batch_get_pipeline, fast_batch_set_pipeline}` — each builds ONE message for
  the shard `hash_key_bytes(key)` resp. `hash_key(get_primary_key())`, the shard actor adopts the
  message's virtual time and runs it: `Server.execVia`), /repo/src/production/connection_optimized.rs
  (which frame takes which entry point: `Shards.dispatch`).

  `Model/Script7.lean`'s `Req7` knows only the generic path; here the path is part of the request,
  so that "whichever internal path (fast GET/SET path, batched path, generic path) carries a
  command" is a quantifier of the linearizability theorem over the M7 executor
  (`Props/C02Node.lean`).  Replies are compared after `toM7` (what a client reads; a one-item batch
  reply is unwrapped as the connection handler does).

  Imports only models.
-/
namespace RedisVerif
namespace Shards
namespace M7

open Redis (Entry Prog runProg cmdKeys)
open Server (execVia execSc)

inductive ReqV
  /-- one command at the virtual time of its invocation, through the entry point of a frame class -/
  | via (cls : FrameClass) (now : Nat) (c : Redis.Cmd)
  /-- EVAL / EVALSHA with `KEYS[1] = k` (always the generic path) -/
  | script (now : Nat) (k : Nat) (p : Prog)

def ReqV.time : ReqV → Nat
  | .via _ now _ => now
  | .script now _ _ => now

/-- the mailbox the request's ONE message is pushed into: the byte paths hash the key bytes, the
    generic path hashes `get_primary_key()` (one function since fix 872671c) -/
def routeV (R : Routes) : ReqV → Nat
  | .via _ now c => cmdShard R true (inject now c)
  | .script _ k _ => R.bytes k

/-- the N-shard node, reply as the client reads it -/
def stepV (R : Routes) (st : Shards Entry) : ReqV → Shards Entry × Option Redis.Reply
  | .via cls now c => let r := Server.execVia R cls now st c; (r.1, toM7 r.2)
  | .script now k p => let r := execScript7 R now st k p; (r.1, toM7 r.2)

/-- ONE store: the command (`Redis.step`: adopt the time, then execute) or the WHOLE script is one
    atomic step, whatever path carried it -/
def specV (s : Redis.State) : ReqV → Redis.State × Option Redis.Reply
  | .via _ now c => let r := Redis.step s now c; (r.1, some r.2)
  | .script now _ p => let r := runProg (Redis.purge s now) now p; (r.1, some r.2)

/-- the times at which operations take effect never go backwards along the log (`LinMono` of
    `Model/Script7.lean`, for any request type with a time) -/
def LinMonoG {Req Resp : Type} (time : Req → Nat) (pend : NMap Nat) (t : Nat) :
    List (Actors.Ev Req Resp) → Prop
  | [] => True
  | .inv id req :: es => LinMonoG time (NMap.insert id (time req) pend) t es
  | .lin id _ :: es =>
    match NMap.get pend id with
    | some tr => t ≤ tr ∧ LinMonoG time pend tr es
    | none => LinMonoG time pend t es
  | .res _ _ :: es => LinMonoG time pend t es

/-! ## per-shard clocks and per-key lazy expiry (`Props/C02Clock.lean`)

  `specV` purges the WHOLE store at the time of every request: it describes the node only when the times
  at which operations take effect never go backwards GLOBALLY (`LinMonoG`).  The node has one clock PER
  SHARD (`executor.set_time` on the shard that gets the message).  `specL` is the one-store
  specification with PER-KEY LAZY EXPIRY — a request at time `now` sees a key it names iff `now` is before
  the key's deadline, other keys are left alone — and `okClock` / `advL` / `LinMonoT` say "every shard
  sees non-decreasing times" (nothing about the order of times across shards).  A script request now
  carries its declared `KEYS`. -/

/-- the keys of `K` are judged at `now`; everything else is left alone -/
def purgeOn (K : List Nat) (s : Redis.State) (now : Nat) : Redis.State :=
  s.filter (fun p => !K.contains p.1 || Redis.live now p.2)

/-- the clocks after the shards in `W` adopted `now` -/
def advClock (W : Nat → Bool) (now : Nat) (ts : Nat → Nat) : Nat → Nat :=
  fun j => if W j then max (ts j) now else ts j

/-- a request: a command by the entry point of a frame class, or EVAL / EVALSHA with `KEYS = keys` -/
inductive ReqL
  | via (cls : FrameClass) (now : Nat) (c : Redis.Cmd)
  /-- EVAL / EVALSHA with `KEYS = keys` (routed by `KEYS[1]`; no keys: shard 0) -/
  | script (now : Nat) (keys : List Nat) (p : Prog)

def ReqL.time : ReqL → Nat
  | .via _ now _ => now
  | .script now _ _ => now

def ReqL.keys : ReqL → List Nat
  | .via _ _ c => (cmdKeys c).getD []
  | .script _ keys _ => keys

def routeL (R : Routes) : ReqL → Nat
  | .via _ now c => cmdShard R true (inject now c)
  | .script _ keys _ => R.bytes (keys.headD 0)

/-- the sharding-model command the entry point of the frame class builds for `c`, and what the
    connection handler does with its reply (a one-item batch reply is unwrapped) -/
def viaPlan (cls : FrameClass) (now : Nat) (c : Redis.Cmd) : Cmd sig7 × (Reply → Reply) :=
  match dispatch cls, c with
  | .pooledFastGet, .get k => (.fastGet k, id)
  | .pooledFastSet, .set k v .always .none false => (.fastSet k v, id)
  | .fastBatchGetPipeline, .get k => (.batchGet [k], Server.unwrap1)
  | .fastBatchSetPipeline, .set k v .always .none false => (.batchSet [(k, v)], Server.unwrap1)
  | _, c => (inject now c, id)

def viaCmd (cls : FrameClass) (now : Nat) (c : Redis.Cmd) : Cmd sig7 := (viaPlan cls now c).1

/-- the shards that adopt the request's time (the ones that get its message) -/
def sweptL (R : Routes) : ReqL → Nat → Bool
  | .via cls now c => recv R (viaCmd cls now c)
  | .script _ keys _ => fun j => j == R.bytes (keys.headD 0)

def stepL (R : Routes) (st : Shards Entry) : ReqL → Shards Entry × Option Redis.Reply
  | .via cls now c => let r := execVia R cls now st c; (r.1, toM7 r.2)
  | .script now keys p => let r := execScript7 R now st (keys.headD 0) p; (r.1, toM7 r.2)

/-- ONE store with PER-KEY LAZY EXPIRY: a request at time `now` sees a key it names iff `now` is before
    the key's deadline; keys it does not name are left as they are (dead entries included: nobody who
    names them later, at a later time, can see them) -/
def specL (s : Redis.State) : ReqL → Redis.State × Option Redis.Reply
  | .via _ now c => let r := Redis.exec (purgeOn ((cmdKeys c).getD []) s now) now c; (r.1, some r.2)
  | .script now keys p => let r := runProg (purgeOn keys s now) now p; (r.1, some r.2)

/-- the clock condition of one request: the shards of its keys have not yet adopted a later time -/
def okClock (R : Routes) (ts : Nat → Nat) (req : ReqL) : Prop := ∀ k ∈ req.keys, ts (R.bytes k) ≤ req.time

instance (R : Routes) (ts : Nat → Nat) (req : ReqL) : Decidable (okClock R ts req) := by
  unfold okClock; infer_instance

def advL (R : Routes) (ts : Nat → Nat) (req : ReqL) : Nat → Nat := advClock (sweptL R req) req.time ts

/-- every operation takes effect at a moment its clock condition holds (`okT`); the clock state advances
    (`adv`) with the operations that took effect.  `pend` = the requests invoked so far -/
def LinMonoT {Req Resp τ : Type} (okT : τ → Req → Prop) (adv : τ → Req → τ) (pend : NMap Req) (t : τ) :
    List (Actors.Ev Req Resp) → Prop
  | [] => True
  | .inv id req :: es => LinMonoT okT adv (NMap.insert id req pend) t es
  | .lin id _ :: es =>
    match NMap.get pend id with
    | some req => okT t req ∧ LinMonoT okT adv pend (adv t req) es
    | none => LinMonoT okT adv pend t es
  | .res _ _ :: es => LinMonoT okT adv pend t es


end M7
end Shards
end RedisVerif
