import RedisVerif.Model.Script7
import RedisVerif.Model.Server

/-
  M7/Node7 — the requests of the C02 model over the COMPOSED node: a timed M7 command carried by
  WHICHEVER ENTRY POINT the connection handler's frame class selects (`Model/Dispatch.lean`:
  generic `execute`, `pooled_fast_get/set`, one item of `fast_batch_get/set_pipeline`, a queued
  command replayed by EXEC), or a timed Lua script.

  Anchors: /repo/src/production/sharded_actor.rs (`ShardedActorState::{execute, pooled_fast_get,
  pooled_fast_set, fast_batch_get_pipeline, fast_batch_set_pipeline}` — each builds ONE message for
  the shard `hash_key_bytes(key)` resp. `hash_key(get_primary_key())`, the shard actor adopts the
  message's virtual time and runs it: `Server.execVia`), /repo/src/production/connection_optimized.rs
  (which frame takes which entry point: `Shards.dispatch`).

  `Model/Script7.lean`'s `Req7` knows only the generic path; here the path is part of the request,
  so that "whichever internal path (fast GET/SET path, batched path, generic path) carries a
  command" is a quantifier of the linearizability theorem over the M7 executor
  (`Props/C02Node.lean`).  Replies are compared after `toM7` (what a client reads; a one-item batch
  reply is unwrapped as the connection handler does).

  Imports only models.
-/
namespace RedisVerif
namespace Shards
namespace M7

open Redis (Entry Prog runProg)

inductive ReqV
  /-- one command at the virtual time of its invocation, through the entry point of a frame class -/
  | via (cls : FrameClass) (now : Nat) (c : Redis.Cmd)
  /-- EVAL / EVALSHA with `KEYS[1] = k` (always the generic path) -/
  | script (now : Nat) (k : Nat) (p : Prog)

def ReqV.time : ReqV → Nat
  | .via _ now _ => now
  | .script now _ _ => now

/-- the mailbox the request's ONE message is pushed into: the byte paths hash the key bytes, the
    generic path hashes `get_primary_key()` (one function since fix 872671c) -/
def routeV (R : Routes) : ReqV → Nat
  | .via _ now c => cmdShard R true (inject now c)
  | .script _ k _ => R.bytes k

/-- the N-shard node, reply as the client reads it -/
def stepV (R : Routes) (st : Shards Entry) : ReqV → Shards Entry × Option Redis.Reply
  | .via cls now c => let r := Server.execVia R cls now st c; (r.1, toM7 r.2)
  | .script now k p => let r := execScript7 R now st k p; (r.1, toM7 r.2)

/-- ONE store: the command (`Redis.step`: adopt the time, then execute) or the WHOLE script is one
    atomic step, whatever path carried it -/
def specV (s : Redis.State) : ReqV → Redis.State × Option Redis.Reply
  | .via _ now c => let r := Redis.step s now c; (r.1, some r.2)
  | .script now _ p => let r := runProg (Redis.purge s now) now p; (r.1, some r.2)

/-- the times at which operations take effect never go backwards along the log (`LinMono` of
    `Model/Script7.lean`, for any request type with a time) -/
def LinMonoG {Req Resp : Type} (time : Req → Nat) (pend : NMap Nat) (t : Nat) :
    List (Actors.Ev Req Resp) → Prop
  | [] => True
  | .inv id req :: es => LinMonoG time (NMap.insert id (time req) pend) t es
  | .lin id _ :: es =>
    match NMap.get pend id with
    | some tr => t ≤ tr ∧ LinMonoG time pend tr es
    | none => LinMonoG time pend t es
  | .res _ _ :: es => LinMonoG time pend t es

end M7
end Shards
end RedisVerif
