import RedisVerif.Model.Wal

/-
  M5b — byte-exact model of the bincode encoding the storage code uses for its payloads.

  Anchors: `bincode::serialize(delta)` / `bincode::deserialize(&self.data)` in
  /repo/src/streaming/wal.rs (WalEntry::{from_delta,to_delta}), segment.rs
  (SegmentWriter::write_delta, DeltaIterator::next), checkpoint.rs (CheckpointWriter::write,
  CheckpointReader::load: `CheckpointData { state: HashMap<String, ReplicatedValue> }`); the
  serialised types are /repo/src/replication/state/{delta,replicated_value,crdt_value}.rs,
  /repo/src/replication/lattice.rs (all `#[derive(Serialize, Deserialize)]`) and
  /repo/src/redis/data/sds.rs (hand-written impl: `serialize_bytes` / `Vec<u8>::deserialize`).

  `bincode::serialize` / `bincode::deserialize` of bincode 1.3 are
  `DefaultOptions::new().with_fixint_encoding().allow_trailing_bytes()` with NO byte limit:
    * every integer is fixed-width little-endian (u8: 1 byte, u32: 4, u64: 8);
    * `bool` is one byte 0 / 1 (anything else: `InvalidBoolEncoding`);
    * `Option` is a tag byte 0 / 1 (anything else: `InvalidTagEncoding`) followed by the value;
    * a struct / tuple / newtype is the concatenation of its fields (no framing);
    * an enum is its variant index as u32 followed by the variant's content (an index outside
      the enum is the derived visitor's `invalid value` error);
    * `String`, byte buffers, sequences, sets and maps are a u64 length followed by the bytes /
      elements / (key, value) pairs; a `String` must be valid UTF-8 (`InvalidUtf8Encoding`);
    * bytes after the value are ignored (`allow_trailing_bytes`): a decoder is a function
      `Bytes → Option (value × rest)`.
  A `HashMap` / `HashSet` is written in ITERATION order, which is arbitrary: the wire value
  (`W…` types below) keeps maps and sets as lists in wire order, so that the round trip is
  proved for EVERY order the real serialiser can choose; `canon…` is what `HashMap::insert` /
  `HashSet::insert` make of such a list (a later pair replaces an earlier one with the same
  key; duplicates of a set element are absorbed).

  A `Codec α` packages encoder, decoder, the representable values `ok` and `cells` = the number of
  heap cells (collection elements, payload bytes) the decoder materialises for the value.
  Decoders reject list elements ≥ 256 (not bytes), so the laws need no side condition on the
  input.
-/
namespace RedisVerif
namespace Bincode

open Wal (le leVal)

abbrev Dec (α : Type) := Bytes → Option (α × Bytes)

structure Codec (α : Type) where
  enc : α → Bytes
  dec : Dec α
  ok : α → Prop
  cells : α → Nat

def allBytes (bs : Bytes) : Bool := bs.all (fun b => decide (b < 256))

/-! ## primitive codecs -/

/-- `k`-byte little-endian unsigned integer -/
def uN (k : Nat) : Codec Nat where
  enc v := le k v
  dec bs :=
    if bs.length < k then none
    else if allBytes (bs.take k) then some (leVal (bs.take k), bs.drop k) else none
  ok v := v < 256 ^ k
  cells _ := 0

abbrev u8 := uN 1
abbrev u32 := uN 4
abbrev u64 := uN 8

def bool : Codec Bool where
  enc b := [if b then 1 else 0]
  dec
    | 0 :: r => some (false, r)
    | 1 :: r => some (true, r)
    | _ => none
  ok _ := True
  cells _ := 0

def opt {α : Type} (c : Codec α) : Codec (Option α) where
  enc
    | none => [0]
    | some a => 1 :: c.enc a
  dec
    | 0 :: r => some (none, r)
    | 1 :: r =>
      match c.dec r with
      | some (a, r') => some (some a, r')
      | none => none
    | _ => none
  ok
    | none => True
    | some a => c.ok a
  cells
    | none => 0
    | some a => c.cells a

def pair {α β : Type} (c : Codec α) (d : Codec β) : Codec (α × β) where
  enc p := c.enc p.1 ++ d.enc p.2
  dec bs :=
    match c.dec bs with
    | none => none
    | some (a, r) =>
      match d.dec r with
      | none => none
      | some (b, r') => some ((a, b), r')
  ok p := c.ok p.1 ∧ d.ok p.2
  cells p := c.cells p.1 + d.cells p.2

/-- byte buffer: u64 length + the bytes (`serialize_bytes`; read back as `Vec<u8>`: length, then
    that many `u8` elements — the same bytes, the same failure when they are not all there) -/
def blob : Codec Bytes where
  enc b := le 8 b.length ++ b
  dec bs :=
    match u64.dec bs with
    | none => none
    | some (n, r) =>
      if r.length < n then none
      else if allBytes (r.take n) then some (r.take n, r.drop n) else none
  ok b := b.length < 2 ^ 64 ∧ allBytes b = true
  cells b := b.length

/-- continuation byte 0x80..=0xBF -/
def utf8Cont (b : Nat) : Bool := decide (128 ≤ b ∧ b ≤ 191)

/-- well-formed UTF-8 (Unicode table 3-7: no overlong forms, no surrogates, nothing above
    U+10FFFF) — what `String::from_utf8` accepts.  `fuel` ≥ length. -/
def utf8ValidAux : Nat → Bytes → Bool
  | _, [] => true
  | 0, _ :: _ => false
  | fuel + 1, b0 :: rest =>
    if b0 < 128 then utf8ValidAux fuel rest
    else if 194 ≤ b0 ∧ b0 ≤ 223 then
      match rest with
      | b1 :: r => utf8Cont b1 && utf8ValidAux fuel r
      | _ => false
    else if b0 = 224 then
      match rest with
      | b1 :: b2 :: r => decide (160 ≤ b1 ∧ b1 ≤ 191) && utf8Cont b2 && utf8ValidAux fuel r
      | _ => false
    else if (225 ≤ b0 ∧ b0 ≤ 236) ∨ b0 = 238 ∨ b0 = 239 then
      match rest with
      | b1 :: b2 :: r => utf8Cont b1 && utf8Cont b2 && utf8ValidAux fuel r
      | _ => false
    else if b0 = 237 then
      match rest with
      | b1 :: b2 :: r => decide (128 ≤ b1 ∧ b1 ≤ 159) && utf8Cont b2 && utf8ValidAux fuel r
      | _ => false
    else if b0 = 240 then
      match rest with
      | b1 :: b2 :: b3 :: r => decide (144 ≤ b1 ∧ b1 ≤ 191) && utf8Cont b2 && utf8Cont b3 && utf8ValidAux fuel r
      | _ => false
    else if 241 ≤ b0 ∧ b0 ≤ 243 then
      match rest with
      | b1 :: b2 :: b3 :: r => utf8Cont b1 && utf8Cont b2 && utf8Cont b3 && utf8ValidAux fuel r
      | _ => false
    else if b0 = 244 then
      match rest with
      | b1 :: b2 :: b3 :: r => decide (128 ≤ b1 ∧ b1 ≤ 143) && utf8Cont b2 && utf8Cont b3 && utf8ValidAux fuel r
      | _ => false
    else false

def utf8Valid (bs : Bytes) : Bool := utf8ValidAux bs.length bs

/-- `String`: a byte buffer that must be valid UTF-8 -/
def str : Codec Bytes where
  enc b := blob.enc b
  dec bs :=
    match blob.dec bs with
    | none => none
    | some (b, r) => if utf8Valid b then some (b, r) else none
  ok b := blob.ok b ∧ utf8Valid b = true
  cells b := b.length

/-- `n` elements, one after the other -/
def decN {α : Type} (d : Dec α) : Nat → Dec (List α)
  | 0, bs => some ([], bs)
  | n + 1, bs =>
    match d bs with
    | none => none
    | some (a, r) =>
      match decN d n r with
      | none => none
      | some (as, r') => some (a :: as, r')

/-- sequence / set / map: u64 length + the elements, in wire order -/
def vec {α : Type} (c : Codec α) : Codec (List α) where
  enc l := le 8 l.length ++ l.flatMap c.enc
  dec bs :=
    match u64.dec bs with
    | none => none
    | some (n, r) => decN c.dec n r
  ok l := l.length < 2 ^ 64 ∧ ∀ a ∈ l, c.ok a
  cells l := l.length + (l.map c.cells).sum

/-- transport along a bijection (struct ↔ nested pairs) -/
def xmap {α β : Type} (c : Codec α) (f : α → β) (g : β → α) : Codec β where
  enc b := c.enc (g b)
  dec bs :=
    match c.dec bs with
    | none => none
    | some (a, r) => some (f a, r)
  ok b := c.ok (g b)
  cells b := c.cells (g b)

/-! ## the wire values -/

/-- `LwwRegister<SDS> { value: Option<SDS>, timestamp: LamportClock { time, replica_id }, tombstone }` -/
structure WLww where
  value : Option Bytes
  time : Nat
  rid : Nat
  tomb : Bool
  deriving DecidableEq, Repr, Inhabited

/-- `HashMap<ReplicaId, u64>` in wire order -/
abbrev WMap := List (Nat × Nat)

/-- `CrdtValue` (variant index = position in the enum declaration) -/
inductive WCrdt where
  | lww (r : WLww)                                                   -- 0 Lww(LwwRegister<SDS>)
  | gcounter (c : WMap)                                              -- 1 GCounter { counts }
  | pncounter (p n : WMap)                                           -- 2 PNCounter { positive, negative }
  | gset (s : List Bytes)                                            -- 3 GSet { elements: HashSet<String> }
  | orset (e : List (Bytes × List (Nat × Nat))) (next : WMap)        -- 4 ORSet { elements: HashMap<String, HashSet<UniqueTag>>, next_sequence }
  | hash (h : List (Bytes × WLww))                                   -- 5 Hash(HashMap<String, LwwRegister<SDS>>)
  deriving DecidableEq, Repr, Inhabited

/-- `ReplicatedValue { crdt, vector_clock, expiry_ms, timestamp, replication_factor }` -/
structure WRv where
  crdt : WCrdt
  vc : Option WMap
  expiry : Option Nat
  time : Nat
  rid : Nat
  rf : Option Nat
  deriving DecidableEq, Repr, Inhabited

/-- `ReplicationDelta { key, value, source_replica }` -/
structure WDelta where
  key : Bytes
  value : WRv
  source : Nat
  deriving DecidableEq, Repr, Inhabited

/-- `CheckpointData { state: HashMap<String, ReplicatedValue> }` in wire order -/
abbrev WState := List (Bytes × WRv)

/-! ## the codecs of the serialised types -/

/-- `LamportClock` / `UniqueTag`: two u64 -/
def stamp : Codec (Nat × Nat) := pair u64 u64

def umap : Codec WMap := vec (pair u64 u64)

def lww : Codec WLww :=
  xmap (pair (opt blob) (pair stamp bool))
    (fun p => ⟨p.1, p.2.1.1, p.2.1.2, p.2.2⟩)
    (fun r => (r.value, ((r.time, r.rid), r.tomb)))

def tags : Codec (List (Nat × Nat)) := vec stamp

def orElems : Codec (List (Bytes × List (Nat × Nat))) := vec (pair str tags)

def hashFields : Codec (List (Bytes × WLww)) := vec (pair str lww)

def crdt : Codec WCrdt where
  enc
    | .lww r => le 4 0 ++ lww.enc r
    | .gcounter c => le 4 1 ++ umap.enc c
    | .pncounter p n => le 4 2 ++ (umap.enc p ++ umap.enc n)
    | .gset s => le 4 3 ++ (vec str).enc s
    | .orset e nx => le 4 4 ++ (orElems.enc e ++ umap.enc nx)
    | .hash h => le 4 5 ++ hashFields.enc h
  dec bs :=
    match u32.dec bs with
    | none => none
    | some (t, r) =>
      if t = 0 then
        match lww.dec r with
        | none => none
        | some (x, r') => some (.lww x, r')
      else if t = 1 then
        match umap.dec r with
        | none => none
        | some (x, r') => some (.gcounter x, r')
      else if t = 2 then
        match (pair umap umap).dec r with
        | none => none
        | some (x, r') => some (.pncounter x.1 x.2, r')
      else if t = 3 then
        match (vec str).dec r with
        | none => none
        | some (x, r') => some (.gset x, r')
      else if t = 4 then
        match (pair orElems umap).dec r with
        | none => none
        | some (x, r') => some (.orset x.1 x.2, r')
      else if t = 5 then
        match hashFields.dec r with
        | none => none
        | some (x, r') => some (.hash x, r')
      else none
  ok
    | .lww r => lww.ok r
    | .gcounter c => umap.ok c
    | .pncounter p n => umap.ok p ∧ umap.ok n
    | .gset s => (vec str).ok s
    | .orset e nx => orElems.ok e ∧ umap.ok nx
    | .hash h => hashFields.ok h
  cells
    | .lww r => lww.cells r
    | .gcounter c => umap.cells c
    | .pncounter p n => umap.cells p + umap.cells n
    | .gset s => (vec str).cells s
    | .orset e nx => orElems.cells e + umap.cells nx
    | .hash h => hashFields.cells h

def rv : Codec WRv :=
  xmap (pair crdt (pair (opt umap) (pair (opt u64) (pair stamp (opt u8)))))
    (fun p => ⟨p.1, p.2.1, p.2.2.1, p.2.2.2.1.1, p.2.2.2.1.2, p.2.2.2.2⟩)
    (fun v => (v.crdt, (v.vc, (v.expiry, ((v.time, v.rid), v.rf)))))

/-- what `bincode::serialize(&ReplicationDelta)` writes / `bincode::deserialize` reads -/
def delta : Codec WDelta :=
  xmap (pair str (pair rv u64))
    (fun p => ⟨p.1, p.2.1, p.2.2⟩)
    (fun d => (d.key, (d.value, d.source)))

/-- `CheckpointData` -/
def state : Codec WState := vec (pair str rv)

/-- `bincode::deserialize::<ReplicationDelta>`: trailing bytes are ignored -/
def deDelta (bs : Bytes) : Option WDelta := (delta.dec bs).map (·.1)

def deState (bs : Bytes) : Option WState := (state.dec bs).map (·.1)

/-! ## what the hash containers make of a wire list -/

/-- byte strings ordered by (length, then lexicographic) — the order of the harness' canonical text -/
def bytesLt : Bytes → Bytes → Bool
  | a, b => decide (a.length < b.length) || (a.length == b.length && Wal.nameLt a b)

/-- insert into a list kept strictly sorted by `lt` on keys; an equal key is REPLACED
    (`HashMap::insert`) -/
def insertBy {κ ν : Type} [DecidableEq κ] (lt : κ → κ → Bool) (k : κ) (v : ν) : List (κ × ν) → List (κ × ν)
  | [] => [(k, v)]
  | (k', v') :: m =>
    if k = k' then (k, v) :: m
    else if lt k k' then (k, v) :: (k', v') :: m
    else (k', v') :: insertBy lt k v m

/-- `HashMap::from_iter` of the pairs in wire order, rendered sorted -/
def canonMap {κ ν : Type} [DecidableEq κ] (lt : κ → κ → Bool) (l : List (κ × ν)) : List (κ × ν) :=
  l.foldl (fun m p => insertBy lt p.1 p.2 m) []

def pairLt (a b : Nat × Nat) : Bool := decide (a.1 < b.1) || (a.1 == b.1 && decide (a.2 < b.2))

/-- `HashSet::from_iter`, rendered sorted -/
def canonSet {κ : Type} [DecidableEq κ] (lt : κ → κ → Bool) (l : List κ) : List κ :=
  (canonMap lt (l.map (fun k => (k, ())))).map (·.1)

def natLt (a b : Nat) : Bool := decide (a < b)

def canonCrdt : WCrdt → WCrdt
  | .lww r => .lww r
  | .gcounter c => .gcounter (canonMap natLt c)
  | .pncounter p n => .pncounter (canonMap natLt p) (canonMap natLt n)
  | .gset s => .gset (canonSet bytesLt s)
  | .orset e nx => .orset (canonMap bytesLt (e.map (fun p => (p.1, canonSet pairLt p.2)))) (canonMap natLt nx)
  | .hash h => .hash (canonMap bytesLt h)

/-- the value the decoded containers denote (maps / sets sorted, duplicates resolved) -/
def canonRv (v : WRv) : WRv := { v with crdt := canonCrdt v.crdt, vc := v.vc.map (canonMap natLt) }

def canonDelta (d : WDelta) : WDelta := { d with value := canonRv d.value }

def canonState (s : WState) : WState := canonMap bytesLt (s.map (fun p => (p.1, canonRv p.2)))

end Bincode
end RedisVerif
