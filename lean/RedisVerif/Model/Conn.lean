import RedisVerif.Model.Resp

/-
  M6 (connection part) — the read loop of `OptimizedConnectionHandler::run`
  (/repo/src/production/connection_optimized.rs:174-321) with everything that decides WHICH
  bytes become WHICH command on WHICH path:

    * buffer append per network read, `max_buffer_size` test,
    * the batching gate `buffer.len() >= min_pipeline_buffer && !in_transaction`,
    * `collect_get_keys` / `collect_set_pairs` (1114-1256): they CONSUME the frames they recognise;
      the caller executes them only if `count >= batch_threshold` — otherwise the consumed
      commands get no reply,
    * the sequential loop `try_execute_command`: `try_fast_path` (1263-1417), then
      `RespCodec::parse` (codec 1 of Model/Resp.lean), parse error = clear the buffer + one
      `-ERR protocol error`,
    * the constant `HEADER_LEN = 14` of the four recognisers exactly as written (the headers
      `*2\r\n$3\r\nGET\r\n` / `*3\r\n$3\r\nSET\r\n` they compare against are 13 bytes long) — it is the
      parameter `headerLen` so that the "obvious fix" 13 is a statement about the same model,
    * the panic of `check_acl_permission` on a command name without a non-white-space character
      (`nameGuard = false`: the pinned code; `true`: after fix 5f3bab5, the code as it is),
    * the `usize` arithmetic of the recognisers: `checked_add` + decline on overflow (after the fix
      commit; `checked = true`) or wrapping as in a release build (`checked = false`, the pinned
      code), slices that panic.

  What a command DOES is not part of this model: an action says which frame is executed on which
  path; `Model/Conn` ends with a small reference executor (strings only) that the correspondence
  uses to turn actions into replies.
-/
namespace RedisVerif.Conn
open RedisVerif.Resp

structure Config where
  minPipeline : Nat
  batchThreshold : Nat
  /-- `HEADER_LEN` of collect_get_keys / collect_set_pairs / try_fast_get / try_fast_set -/
  headerLen : Nat
  /-- `read_buffer_size`: one `read()` returns at most this many bytes -/
  readSize : Nat
  maxBuffer : Nat
  /-- `true` = the recognisers add the declared lengths with `checked_add` and decline on overflow
      (after fix 7196080); `false` = wrapping `+` (the pinned code) -/
  checked : Bool
  /-- `check_acl_permission` takes the base name of a `Command::Unknown(name)` with
      `parts.first()` (`true`, after the fix) or indexes `parts[0]` of `name.split_whitespace()`
      (`false`: a name that is empty or white space only panics) -/
  nameGuard : Bool
  /-- the generic decoder: `codec1` (after the fixes) or `codec1Pinned` -/
  codec : Codec
  /-- machine resources of the generic decoder (Model/Resp) -/
  env : Env
  /-- `false` = the four recognisers and the batching gate as they are; `true` = as REPAIRED by the
      prepared fix (`fixes-conn-s4`): every recogniser also wants LF after the CR of a length line,
      wants the key to be valid UTF-8 (the shard takes it as `&str`), and answers "not a fast-path
      frame" — never "need more data" — to anything it does not take, so that the generic decoder
      alone decides between "incomplete" and "protocol error"; the frames a collector consumed are
      executed also when there are fewer than `batch_threshold` of them (one at a time, through
      `pooled_fast_get` / `pooled_fast_set`); the batching gate asks `user_has_unrestricted_keys()`
      like the fast path does.  (`HEADER_LEN` stays the separate parameter `headerLen`: the fix
      sets it to 13.)  Read from the SOURCE by `./check` (`VERIF_C04_INCOMPLETE`). -/
  repaired : Bool := false
  /-- `user_has_unrestricted_keys()`: the authenticated ACL user has `~*`.  `true` for the default
      user (the only one the pinned build without the `acl` feature has); with `false` the code
      never enters `try_fast_path` (and, repaired, never runs the collectors) -/
  unrestricted : Bool := true

/-- `*2\r\n$3\r\nGET\r\n` and the lower-case variant the code also accepts -/
def getHdrU : Bytes := [42, 50, 13, 10, 36, 51, 13, 10, 71, 69, 84, 13, 10]
def getHdrL : Bytes := [42, 50, 13, 10, 36, 51, 13, 10, 103, 101, 116, 13, 10]
/-- `*3\r\n$3\r\nSET\r\n` -/
def setHdrU : Bytes := [42, 51, 13, 10, 36, 51, 13, 10, 83, 69, 84, 13, 10]
def setHdrL : Bytes := [42, 51, 13, 10, 36, 51, 13, 10, 115, 101, 116, 13, 10]

def startsWith (buf hdr : Bytes) : Bool := hdr.isPrefixOf buf

/-- `memchr(b'\r', s)` -/
def memchrCR : Bytes → Option Nat
  | [] => none
  | b :: rest => if b = 13 then some 0 else (memchrCR rest).map (· + 1)

/-- `parse_usize_fast` (feature `opt-atoi-parse` off): `from_utf8(..).parse::<usize>()` — optional
    `+`, at least one digit, only digits, below 2^64 -/
def parseUsize : Bytes → Option Nat
  | [] => none
  | b :: rest =>
    if b = 43 then
      (if rest = [] then none else
        match digitsVal rest with
        | some n => if n < W then some n else none
        | none => none)
    else
      match digitsVal (b :: rest) with
      | some n => if n < W then some n else none
      | none => none

/-- `&buf[a..b]`; `none` = the slice panics -/
def slice (buf : Bytes) (a b : Nat) : Option Bytes :=
  if a > b ∨ b > buf.length then none else some ((buf.take b).drop a)

/-- `a + b` on `usize`: `checked_add` (`none` = overflow) or wrapping -/
def addU (checked : Bool) (a b : Nat) : Option Nat :=
  if checked then (if a + b < W then some (a + b) else none) else some ((a + b) % W)

/-- result of one recogniser pass over the front of the buffer -/
inductive Recog where
  | get (key : Bytes) (total : Nat)              -- recognised `GET key`, `total` bytes to consume
  | set (key val : Bytes) (total : Nat)
  | needMore                                      -- fast path: NeedMoreData / collector: break
  | notFast                                       -- fast path: NotFastPath   / collector: break
  | crash                                         -- slice / index panic
  deriving Repr, Inhabited

/-- body shared by `collect_get_keys` and `try_fast_get` -/
def recogGet (h : Nat) (ck : Bool) (buf : Bytes) : Recog :=
  if ¬ (startsWith buf getHdrU || startsWith buf getHdrL) then .notFast
  else if buf.length < h + 1 then .needMore
  else
    let after := buf.drop h
    if after.head? ≠ some 36 then .notFast
    else
      match memchrCR (after.drop 1) with
      | none => .needMore
      | some crlfPos =>
        let lenEnd := crlfPos + 1
        match parseUsize ((after.drop 1).take crlfPos) with
        | none => .notFast
        | some keyLen =>
          let keyStart := h + 1 + lenEnd + 1
          -- `key_start.checked_add(key_len).and_then(|n| n.checked_add(2))` / `key_start + key_len + 2`
          match (addU ck keyStart keyLen).bind (fun e => addU ck e 2) with
          | none => .notFast
          | some total =>
            if buf.length < total then .needMore
            else
              match slice buf keyStart ((keyStart + keyLen) % W) with
              | none => .crash
              | some key => .get key total

/-- body shared by `collect_set_pairs` and `try_fast_set` -/
def recogSet (h : Nat) (ck : Bool) (buf : Bytes) : Recog :=
  if ¬ (startsWith buf setHdrU || startsWith buf setHdrL) then .notFast
  else if buf.length < h + 1 then .needMore
  else
    let after := buf.drop h
    if after.head? ≠ some 36 then .notFast
    else
      match memchrCR (after.drop 1) with
      | none => .needMore
      | some keyLenCrlf =>
        match parseUsize ((after.drop 1).take keyLenCrlf) with
        | none => .notFast
        | some keyLen =>
          let keyStart := h + 1 + keyLenCrlf + 2
          match (addU ck keyStart keyLen).bind (fun e => (addU ck e 2).map (fun v => (e, v))) with
          | none => .notFast
          | some (keyEnd, valLenStart) =>
            -- fixed: `buf.len() <= val_len_start`; pinned: `buf.len() < val_len_start + 1` (wrapping)
            if (if ck then buf.length ≤ valLenStart else buf.length < (valLenStart + 1) % W) then .needMore
            else if valLenStart ≥ buf.length then .crash           -- `buf[val_len_start]` out of bounds
            else if buf[valLenStart]? ≠ some 36 then .notFast
            else
              let afterKey := buf.drop (valLenStart + 1)
              match memchrCR afterKey with
              | none => .needMore
              | some valLenCrlf =>
                match parseUsize (afterKey.take valLenCrlf) with
                | none => .notFast
                | some valLen =>
                  let valStart := valLenStart + 1 + valLenCrlf + 2
                  match (addU ck valStart valLen).bind (fun e => addU ck e 2) with
                  | none => .notFast
                  | some total =>
                    if buf.length < total then .needMore
                    else
                      match slice buf keyStart keyEnd, slice buf valStart ((valStart + valLen) % W) with
                      | some key, some val => .set key val total
                      | _, _ => .crash

/-- REPAIRED body shared by `collect_get_keys` and `try_fast_get` (prepared fix): the CR that ends
    the length line must be followed by LF, the key must be valid UTF-8, and whatever is not taken
    is `notFast` (collector: `break`) — never `needMore` -/
def recogGetR (h : Nat) (buf : Bytes) : Recog :=
  if ¬ (startsWith buf getHdrU || startsWith buf getHdrL) then .notFast
  else if buf.length < h + 1 then .notFast
  else
    let after := buf.drop h
    if after.head? ≠ some 36 then .notFast
    else
      match memchrCR (after.drop 1) with
      | none => .notFast
      | some crlfPos =>
        let lenEnd := crlfPos + 1
        -- `after_header.get(len_end + 1) != Some(&b'\n')`
        if after[lenEnd + 1]? ≠ some 10 then .notFast
        else
          match parseUsize ((after.drop 1).take crlfPos) with
          | none => .notFast
          | some keyLen =>
            let keyStart := h + 1 + lenEnd + 1
            match (addU true keyStart keyLen).bind (fun e => addU true e 2) with
            | none => .notFast
            | some total =>
              if buf.length < total then .notFast
              else
                match slice buf keyStart (keyStart + keyLen) with
                | none => .crash
                | some key => if validUtf8 key then .get key total else .notFast

/-- REPAIRED body shared by `collect_set_pairs` and `try_fast_set` -/
def recogSetR (h : Nat) (buf : Bytes) : Recog :=
  if ¬ (startsWith buf setHdrU || startsWith buf setHdrL) then .notFast
  else if buf.length < h + 1 then .notFast
  else
    let after := buf.drop h
    if after.head? ≠ some 36 then .notFast
    else
      match memchrCR (after.drop 1) with
      | none => .notFast
      | some keyLenCrlf =>
        -- `after_header.get(key_len_crlf + 2) != Some(&b'\n')`
        if after[keyLenCrlf + 2]? ≠ some 10 then .notFast
        else
          match parseUsize ((after.drop 1).take keyLenCrlf) with
          | none => .notFast
          | some keyLen =>
            let keyStart := h + 1 + keyLenCrlf + 2
            match (addU true keyStart keyLen).bind (fun e => (addU true e 2).map (fun v => (e, v))) with
            | none => .notFast
            | some (keyEnd, valLenStart) =>
              if buf.length ≤ valLenStart then .notFast
              else if buf[valLenStart]? ≠ some 36 then .notFast
              else
                let afterKey := buf.drop (valLenStart + 1)
                match memchrCR afterKey with
                | none => .notFast
                | some valLenCrlf =>
                  -- `after_key.get(val_len_crlf + 1) != Some(&b'\n')`
                  if afterKey[valLenCrlf + 1]? ≠ some 10 then .notFast
                  else
                    match parseUsize (afterKey.take valLenCrlf) with
                    | none => .notFast
                    | some valLen =>
                      let valStart := valLenStart + 1 + valLenCrlf + 2
                      match (addU true valStart valLen).bind (fun e => addU true e 2) with
                      | none => .notFast
                      | some total =>
                        if buf.length < total then .notFast
                        else
                          match slice buf keyStart keyEnd, slice buf valStart (valStart + valLen) with
                          | some key, some val => if validUtf8 key then .set key val total else .notFast
                          | _, _ => .crash

/-- which code path carried a command -/
inductive Path where
  | generic | fast | batch
  deriving DecidableEq, Repr

/-- what the connection does with the bytes -/
inductive Action where
  | exec (frame : Val) (p : Path)     -- the frame is handed to the executor: exactly one reply
  | dropped (frame : Val)             -- consumed by a collector, never executed: NO reply
  | protoErr                          -- `-ERR protocol error`, buffer cleared
  | overflow                          -- `-ERR buffer overflow`, connection closed
  | crash                             -- panic (release: abort of the server)
  deriving Repr, Inhabited

def bulkS (b : Bytes) : Val := .bulk b
def getFrame (key : Bytes) : Val := .array [.bulk [71, 69, 84], .bulk key]
def setFrame (key val : Bytes) : Val := .array [.bulk [83, 69, 84], .bulk key, .bulk val]

/-- the command name as it stands in the buffer (`GET` / `get` / `SET` / `set`: bytes 8–10 of a
    frame whose 13-byte header matched) -/
def nameIn (buf : Bytes) : Bytes := (buf.drop 8).take 3

/-- the frame a REPAIRED recogniser took, with the name as the client wrote it (what a command DOES
    is outside this model: the code calls `get_direct(key)` / `set_direct(key, value)`) -/
def getFrameN (buf key : Bytes) : Val := .array [.bulk (nameIn buf), .bulk key]
def setFrameN (buf key val : Bytes) : Val := .array [.bulk (nameIn buf), .bulk key, .bulk val]

/-- REPAIRED `collect_get_keys` -/
def collectGetR (h : Nat) : Nat → Bytes → Option (List Val × Bytes)
  | 0, buf => some ([], buf)
  | f + 1, buf =>
    match recogGetR h buf with
    | .get key total =>
      match collectGetR h f (buf.drop total) with
      | some (ks, r) => some (getFrameN buf key :: ks, r)
      | none => none
    | .crash => none
    | _ => some ([], buf)

/-- REPAIRED `collect_set_pairs` -/
def collectSetR (h : Nat) : Nat → Bytes → Option (List Val × Bytes)
  | 0, buf => some ([], buf)
  | f + 1, buf =>
    match recogSetR h buf with
    | .set key val total =>
      match collectSetR h f (buf.drop total) with
      | some (ks, r) => some (setFrameN buf key val :: ks, r)
      | none => none
    | .crash => none
    | _ => some ([], buf)

/-- `collect_get_keys`: recognised frames and the remaining buffer; `none` = panic -/
def collectGet (h : Nat) (ck : Bool) : Nat → Bytes → Option (List Val × Bytes)
  | 0, buf => some ([], buf)
  | f + 1, buf =>
    match recogGet h ck buf with
    | .get key total =>
      match collectGet h ck f (buf.drop total) with
      | some (ks, r) => some (getFrame key :: ks, r)
      | none => none
    | .crash => none
    | _ => some ([], buf)

def collectSet (h : Nat) (ck : Bool) : Nat → Bytes → Option (List Val × Bytes)
  | 0, buf => some ([], buf)
  | f + 1, buf =>
    match recogSet h ck buf with
    | .set key val total =>
      match collectSet h ck f (buf.drop total) with
      | some (ks, r) => some (setFrame key val :: ks, r)
      | none => none
    | .crash => none
    | _ => some ([], buf)

/-- upper-case ASCII (command names are compared case-insensitively) -/
def upper (b : Bytes) : Bytes := b.map (fun c => if 97 ≤ c ∧ c ≤ 122 then c - 32 else c)

def cmdName : Val → Option Bytes
  | .array (.bulk n :: _) => some (upper n)
  | _ => none

def nameMULTI : Bytes := [77, 85, 76, 84, 73]
def nameEXEC : Bytes := [69, 88, 69, 67]
def nameDISCARD : Bytes := [68, 73, 83, 67, 65, 82, 68]

/-- `in_transaction` after the generic path executed `frame` -/
def txAfter (inTx : Bool) (frame : Val) : Bool :=
  match cmdName frame with
  | some n =>
    if inTx then (if n = nameEXEC ∨ n = nameDISCARD then false else true)
    else (if n = nameMULTI then true else false)
  | none => inTx

/-- `name.split_whitespace()` yields nothing: the UTF-8 string is empty or made of Unicode
    White_Space only (U+0009–U+000D, U+0020, U+0085, U+00A0, U+1680, U+2000–U+200A, U+2028, U+2029,
    U+202F, U+205F, U+3000).  (The name is the first bulk string through `from_utf8_lossy` and
    `to_uppercase`: an invalid byte becomes U+FFFD, which is no white space, and upper-casing
    maps no character to or from white space.) -/
def isWsName : Bytes → Bool
  | [] => true
  | b :: rest =>
    if (9 ≤ b ∧ b ≤ 13) ∨ b = 32 then isWsName rest
    else if b = 194 then
      (match rest with
       | c :: r => (c = 133 ∨ c = 160) && isWsName r
       | [] => false)
    else if b = 225 then
      (match rest with
       | 154 :: 128 :: r => isWsName r
       | _ => false)
    else if b = 226 then
      (match rest with
       | 128 :: c :: r => ((128 ≤ c ∧ c ≤ 138) ∨ c = 168 ∨ c = 169 ∨ c = 175) && isWsName r
       | 129 :: 159 :: r => isWsName r
       | _ => false)
    else if b = 227 then
      (match rest with
       | 128 :: 128 :: r => isWsName r
       | _ => false)
    else false

/-- the generic path panics in `check_acl_permission` (`parts[0]` of an empty `Vec`): outside MULTI
    (inside, `Command::Unknown` is answered with an error before any ACL check), for a frame whose
    command name has no non-white-space character — such a name is no known command and no stub,
    so it is `Command::Unknown(name)` and reaches the `_` arm -/
def namePanics (guard inTx : Bool) (v : Val) : Bool :=
  !guard && !inTx &&
    (match v with
     | .array (.bulk n :: _) => isWsName n
     | _ => false)

structure St where
  buf : Bytes
  inTx : Bool
  closed : Bool
  deriving Repr

def St.init : St := ⟨[], false, false⟩

/-- `try_fast_path` (the default user has unrestricted keys); never during MULTI -/
def fastPath (h : Nat) (ck : Bool) (inTx : Bool) (buf : Bytes) : Recog :=
  if inTx then .notFast
  else if buf.length < 12 then .notFast
  else
    match recogGet h ck buf with
    | .notFast => recogSet h ck buf
    | r => r

/-- REPAIRED `try_fast_path` -/
def fastPathR (h : Nat) (inTx : Bool) (buf : Bytes) : Recog :=
  if inTx then .notFast
  else if buf.length < 12 then .notFast
  else
    match recogGetR h buf with
    | .notFast => recogSetR h buf
    | r => r

/-- `if self.user_has_unrestricted_keys() && !self.in_transaction { try_fast_path() }` of the
    configured code (as it is / repaired) -/
def fastPathC (cfg : Config) (inTx : Bool) (buf : Bytes) : Recog :=
  if cfg.unrestricted then
    (if cfg.repaired then fastPathR cfg.headerLen inTx buf else fastPath cfg.headerLen cfg.checked inTx buf)
  else .notFast

def collectGetC (cfg : Config) (fuel : Nat) (buf : Bytes) : Option (List Val × Bytes) :=
  if cfg.repaired then collectGetR cfg.headerLen fuel buf else collectGet cfg.headerLen cfg.checked fuel buf

def collectSetC (cfg : Config) (fuel : Nat) (buf : Bytes) : Option (List Val × Bytes) :=
  if cfg.repaired then collectSetR cfg.headerLen fuel buf else collectSet cfg.headerLen cfg.checked fuel buf

/-- the frame of an action the fast path carried -/
def getFrameC (cfg : Config) (buf key : Bytes) : Val := if cfg.repaired then getFrameN buf key else getFrame key
def setFrameC (cfg : Config) (buf key val : Bytes) : Val := if cfg.repaired then setFrameN buf key val else setFrame key val

/-- the sequential loop: `try_execute_command` until NeedMoreData / ParseError.
    Returns actions, remaining buffer, in_transaction, crashed? -/
def seqLoop (cfg : Config) : Nat → Bytes → Bool → List Action × Bytes × Bool × Bool
  | 0, buf, inTx => ([], buf, inTx, false)
  | f + 1, buf, inTx =>
    match fastPathC cfg inTx buf with
    | .get key total =>
      let (as, r, tx, cr) := seqLoop cfg f (buf.drop total) inTx
      (.exec (getFrameC cfg buf key) .fast :: as, r, tx, cr)
    | .set key val total =>
      let (as, r, tx, cr) := seqLoop cfg f (buf.drop total) inTx
      (.exec (setFrameC cfg buf key val) .fast :: as, r, tx, cr)
    | .needMore => ([], buf, inTx, false)
    | .crash => ([.crash], [], inTx, true)
    | .notFast =>
      match (parseG cfg.codec cfg.env buf).out with
      | .ok v k =>
        if namePanics cfg.nameGuard inTx v then ([.crash], [], inTx, true)
        else
          let (as, r, tx, cr) := seqLoop cfg f (buf.drop k) (txAfter inTx v)
          (.exec v .generic :: as, r, tx, cr)
      | .incomplete _ => ([], buf, inTx, false)
      | .error _ => ([.protoErr], [], inTx, false)
      | .crash _ => ([.crash], [], inTx, true)

/-- actions for the frames a collector consumed: executed as one batch if there are at least
    `batch_threshold` of them; otherwise nothing happens with them (the code as it is) / they are
    executed one at a time through `pooled_fast_get` / `pooled_fast_set` (repaired) -/
def batchActs (cfg : Config) (fs : List Val) : List Action :=
  if fs.length ≥ cfg.batchThreshold then fs.map (fun g => Action.exec g .batch)
  else if cfg.repaired then fs.map (fun g => Action.exec g .fast)
  else fs.map Action.dropped

/-- the batching gate in front of the sequential loop; `none` = a collector panicked -/
def batchGate (cfg : Config) (inTx : Bool) (fuel : Nat) (buf : Bytes) : Option (List Action × Bytes) :=
  -- repaired: `&& self.user_has_unrestricted_keys()`
  if buf.length ≥ cfg.minPipeline ∧ ¬ inTx ∧ (cfg.repaired = true → cfg.unrestricted = true) then
    match collectGetC cfg fuel buf with
    | none => none
    | some (gets, b1) =>
      if b1.length ≥ cfg.minPipeline then
        match collectSetC cfg fuel b1 with
        | none => none
        | some (sets, b2) => some (batchActs cfg gets ++ batchActs cfg sets, b2)
      else some (batchActs cfg gets, b1)
  else some ([], buf)

/-- one `read()` of at most `readSize` bytes -/
def onRead (cfg : Config) (st : St) (chunk : Bytes) : St × List Action :=
  if st.closed then (st, [])
  else if st.buf.length + chunk.length > cfg.maxBuffer then (⟨st.buf, st.inTx, true⟩, [.overflow])
  else
    let buf := st.buf ++ chunk
    let fuel := buf.length + 1
    match batchGate cfg st.inTx fuel buf with
    | none => (⟨[], st.inTx, true⟩, [.crash])
    | some (a, b) =>
      let (as, r, tx, cr) := seqLoop cfg fuel b st.inTx
      (⟨r, tx, cr⟩, a ++ as)

/-- split a network segment into reads of at most `n` bytes (`n = 0`: unsplit) -/
def splitReads (n : Nat) : Nat → Bytes → List Bytes
  | 0, seg => [seg]
  | f + 1, seg => if n = 0 ∨ seg.length ≤ n then [seg] else seg.take n :: splitReads n f (seg.drop n)

def feedSegs (cfg : Config) (st : St) (segs : List Bytes) : St × List Action :=
  (segs.flatMap (fun s => splitReads cfg.readSize s.length s)).foldl
    (fun (acc : St × List Action) c => let (s', a) := onRead cfg acc.1 c; (s', acc.2 ++ a)) (st, [])

/-- all actions of a connection that receives the segments and then EOF -/
def run (cfg : Config) (segs : List Bytes) : List Action := (feedSegs cfg St.init segs).2

/-- the overflow guard with the CAPACITY of the read buffer in place of the number of bytes read
    (`self.buffer.len() + read_buf.len() > max_buffer_size`) — not the code as it is; kept for the
    counterexample `overflow_guard_capacity_counterexample`.  When this guard passes, the real one
    (`+ n`, n ≤ capacity) passes too, so the rest of the step is `onRead`. -/
def onReadCap (cfg : Config) (st : St) (chunk : Bytes) : St × List Action :=
  if st.closed then (st, [])
  else if st.buf.length + cfg.readSize > cfg.maxBuffer then (⟨st.buf, st.inTx, true⟩, [.overflow])
  else onRead cfg st chunk

def runCap (cfg : Config) (segs : List Bytes) : List Action :=
  ((segs.flatMap (fun s => splitReads cfg.readSize s.length s)).foldl
    (fun (acc : St × List Action) c => let (s', a) := onReadCap cfg acc.1 c; (s', acc.2 ++ a)) (St.init, [])).2

/-! ## connection buffers come from a shared pool (`BufferPoolAsync`, connection_pool.rs)

`OptimizedConnectionHandler::new` ACQUIRES its read buffer and then its write buffer from the
pool shared by all connections of the server and uses them as they come; `run` RELEASES both
when the connection ends (clean EOF, EOF in the middle of a frame, write error, buffer overflow),
whatever is still in them.  `BufferPoolAsync::release` clears the buffer and pushes it into a
bounded FIFO queue (`ArrayQueue`) if `buf.capacity() <= capacity * 2` and the queue is not full;
`acquire` pops the oldest buffer, or allocates a new empty one when the queue is empty.  Whether
the capacity test passes depends on `BytesMut`'s growth policy, which is not modelled: it is an
input (`keep`) of `release`, and the theorems hold for every choice. -/

/-- contents of a pooled buffer: bytes received but not yet parsed (read role) or replies encoded
    but not yet written (write role; kept as the actions that produced them) -/
inductive Buf where
  | bytes (b : Bytes)
  | pending (a : List Action)
  deriving Repr, Inhabited

def Buf.empty : Buf := .bytes []

def Buf.isEmpty : Buf → Bool
  | .bytes b => b.isEmpty
  | .pending a => a.isEmpty

structure Pool where
  /-- capacity of the `ArrayQueue` (`buffer_pool_size`) -/
  size : Nat
  /-- `buf.clear()` in `release` (true = the code as it is) -/
  clears : Bool
  /-- queued buffers, oldest first -/
  q : List Buf
  deriving Repr

/-- `BufferPoolAsync::new(size, 8192)`: the queue is pre-filled with `size` empty buffers -/
def Pool.init (size : Nat) (clears : Bool) : Pool := ⟨size, clears, List.replicate size Buf.empty⟩

/-- `pool.pop().unwrap_or_else(|| BytesMut::with_capacity(..))` -/
def Pool.acquire (p : Pool) : Buf × Pool :=
  match p.q with
  | [] => (Buf.empty, p)
  | b :: rest => (b, { p with q := rest })

/-- `buf.clear(); if buf.capacity() <= capacity * 2 { let _ = pool.push(buf); }` — `keep` is the
    outcome of the capacity test; a push into a full queue is dropped -/
def Pool.release (p : Pool) (b : Buf) (keep : Bool) : Pool :=
  if keep ∧ p.q.length < p.size then { p with q := p.q ++ [if p.clears then Buf.empty else b] } else p

/-- one client connection: the network segments it sends before it closes (an EOF in the middle of
    a frame is simply a last segment that ends early), and the index of the flush (0-based) at
    which writing to it fails (the client is gone or has stopped reading), if any -/
structure ConnSpec where
  segs : List Bytes
  failAt : Option Nat
  deriving Repr

/-- what a connection starts from, given the buffers it acquired.  A non-empty read-role buffer is
    input that precedes the client's bytes, a non-empty write-role buffer is output that precedes
    its replies; a non-empty buffer of the other role is bytes of the wrong kind: `.stale` -/
inductive Action' where
  | act (a : Action)
  | stale            -- bytes left behind by another connection, of unmodelled content
  deriving Repr, Inhabited

structure IOSt where
  st : St
  wbuf : List Action      -- encoded, not yet written
  flushes : Nat
  out : List Action       -- written to the client, in order
  ended : Bool            -- the read loop was left
  deriving Repr

/-- a frame consumed without a reply puts nothing into the write buffer -/
def Action.isDropped : Action → Bool
  | .dropped _ => true
  | _ => false

/-- one `read()` followed by the flush at the end of the loop body (`if !write_buffer.is_empty()`) -/
def ioRead (cfg : Config) (failAt : Option Nat) (s : IOSt) (chunk : Bytes) : IOSt :=
  if s.ended then s
  else
    let (st', acts0) := onRead cfg s.st chunk
    let acts := acts0.filter (fun a => !a.isDropped)
    let w := s.wbuf ++ acts
    if st'.closed then
      -- buffer overflow: `let _ = write_all(..)` (result ignored), `break` — the write buffer is NOT
      -- cleared; panic: the task is gone
      { st := st', wbuf := w, flushes := s.flushes,
        out := if failAt = some s.flushes then s.out else s.out ++ w, ended := true }
    else if w = [] then { s with st := st' }
    else if failAt = some s.flushes then
      -- `write_all` fails: `break`, the replies stay in the write buffer
      { st := st', wbuf := w, flushes := s.flushes, out := s.out, ended := true }
    else { st := st', wbuf := [], flushes := s.flushes + 1, out := s.out ++ w, ended := false }

/-- a whole connection from the buffers it acquired: what the client received, and the contents
    of the read and the write buffer when they are released -/
def runConn (cfg : Config) (rb wb : Buf) (spec : ConnSpec) : List Action' × Buf × Buf :=
  let rd0 : Option Bytes := match rb with
    | .bytes b => some b
    | .pending a => if a.isEmpty then some [] else none
  let wr0 : Option (List Action) := match wb with
    | .pending a => some a
    | .bytes b => if b.isEmpty then some [] else none
  match rd0, wr0 with
  | some b, some w =>
    let s0 : IOSt := { st := ⟨b, false, false⟩, wbuf := w, flushes := 0, out := [], ended := false }
    let s := (spec.segs.flatMap (fun x => splitReads cfg.readSize x.length x)).foldl (ioRead cfg spec.failAt) s0
    (s.out.map Action'.act, .bytes s.st.buf, .pending s.wbuf)
  | _, _ => ([.stale], rb, wb)

/-- server events: connection `i` is accepted (acquires its buffers, is served to its end — what
    happens on one connection does not depend on the others except through the pool) / connection
    `i`'s task finishes (releases its buffers; `keepR`, `keepW` = outcomes of the capacity tests) -/
inductive Ev where
  | start (i : Nat)
  | finish (i : Nat) (keepR keepW : Bool)
  deriving Repr

structure Srv where
  pool : Pool
  /-- connections being served: id, buffers to release -/
  live : List (Nat × Buf × Buf)
  /-- what each accepted connection's client received -/
  outs : List (Nat × List Action')
  deriving Repr

def srvStep (cfg : Config) (specs : List ConnSpec) (s : Srv) : Ev → Srv
  | .start i =>
    match specs[i]? with
    | none => s
    | some spec =>
      let (rb, p1) := s.pool.acquire
      let (wb, p2) := p1.acquire
      let (out, rb', wb') := runConn cfg rb wb spec
      { pool := p2, live := (i, rb', wb') :: s.live, outs := s.outs ++ [(i, out)] }
  | .finish i keepR keepW =>
    match s.live.find? (fun x => x.1 = i) with
    | none => s
    | some (_, rb, wb) =>
      { s with pool := (s.pool.release rb keepR).release wb keepW,
               live := s.live.filter (fun x => ¬ (x.1 = i)) }

/-- a server with one shared pool serving the connections in the order of the events -/
def serve (cfg : Config) (pool : Pool) (specs : List ConnSpec) (evs : List Ev) : Srv :=
  evs.foldl (srvStep cfg specs) ⟨pool, [], []⟩

/-- connections one after the other -/
def seqEvents (n : Nat) : List Ev := (List.range n).flatMap (fun i => [Ev.start i, Ev.finish i true true])

/-! ## reference executor of the correspondence (strings only)

GET / SET key value / PING / ECHO, MULTI … EXEC / DISCARD; anything else is answered with an
error whose text the correspondence does not compare. -/

inductive Reply where
  | val (v : Val)
  | err                 -- some `-…` error reply
  | protoErr            -- `-ERR protocol error`
  | overflow
  deriving Repr, Inhabited

abbrev KV := List (Bytes × Bytes)

def kvGet (kv : KV) (k : Bytes) : Option Bytes := (kv.find? (fun p => p.1 = k)).map (·.2)
def kvSet (kv : KV) (k v : Bytes) : KV := (k, v) :: kv.filter (fun p => ¬ (p.1 = k))

def nameGET : Bytes := [71, 69, 84]
def nameSET : Bytes := [83, 69, 84]
def namePING : Bytes := [80, 73, 78, 71]
def nameECHO : Bytes := [69, 67, 72, 79]

def bulkArgs : List Val → Option (List Bytes)
  | [] => some []
  | .bulk b :: rest => (bulkArgs rest).map (b :: ·)
  | _ :: _ => none

/-- reply of a data command outside MULTI -/
def execData (kv : KV) (name : Bytes) (args : List Bytes) : KV × Reply :=
  if name = nameGET then
    match args with
    | [k] => (kv, .val (match kvGet kv k with | some v => .bulk v | none => .nullBulk))
    | _ => (kv, .err)
  else if name = nameSET then
    match args with
    | [k, v] => (kvSet kv k v, .val (.simple [79, 75]))
    | _ => (kv, .err)
  else if name = namePING then
    match args with
    | [] => (kv, .val (.simple [80, 79, 78, 71]))
    | _ => (kv, .err)
  else if name = nameECHO then
    match args with
    | [m] => (kv, .val (.bulk m))
    | _ => (kv, .err)
  else (kv, .err)

structure ExSt where
  kv : KV
  inTx : Bool
  queue : List (Bytes × List Bytes)   -- queued (name, args), oldest first
  deriving Repr

def ExSt.init : ExSt := ⟨[], false, []⟩

def replyVal : Reply → Val
  | .val v => v
  | _ => .error []

def execQueue : KV → List (Bytes × List Bytes) → KV × List Val
  | kv, [] => (kv, [])
  | kv, (n, a) :: rest =>
    let (kv1, r) := execData kv n a
    let (kv2, rs) := execQueue kv1 rest
    (kv2, replyVal r :: rs)

/-- the executor's answer to one frame (generic path semantics; the special paths only ever carry
    `GET key` / `SET key value` outside MULTI) -/
def execFrame (s : ExSt) (frame : Val) : ExSt × Reply :=
  match frame with
  | .array (.bulk n :: rest) =>
    match bulkArgs rest with
    | none => (s, .err)
    | some args =>
      let name := upper n
      if s.inTx then
        if name = nameEXEC then
          let (kv', rs) := execQueue s.kv s.queue
          (⟨kv', false, []⟩, .val (.array rs))
        else if name = nameDISCARD then (⟨s.kv, false, []⟩, .val (.simple [79, 75]))
        else if name = nameMULTI then (s, .err)
        else (⟨s.kv, true, s.queue ++ [(name, args)]⟩, .val (.simple [81, 85, 69, 85, 69, 68]))
      else
        if name = nameMULTI then (⟨s.kv, true, []⟩, .val (.simple [79, 75]))
        else if name = nameEXEC ∨ name = nameDISCARD then (s, .err)
        else
          let (kv', r) := execData s.kv name args
          (⟨kv', false, []⟩, r)
  | _ => (s, .err)

def replies : ExSt → List Action → List Reply
  | _, [] => []
  | s, .exec f _ :: rest => let (s', r) := execFrame s f; r :: replies s' rest
  | s, .dropped _ :: rest => replies s rest
  | s, .protoErr :: rest => .protoErr :: replies s rest
  | s, .overflow :: rest => .overflow :: replies s rest
  | _, .crash :: _ => []

end RedisVerif.Conn
