/-
  `simulator::multi_node::MultiNodeSimulation` and `simulator::partition_tests::run_partition_test`
  (session 4): the model PREDICTS, from (seed, configuration, scenario script) alone, the trace the
  real cluster simulation prints — replies, Lamport clocks, pending queues, every in-flight message
  with its deltas in order, the winners with their stamps on every node, convergence and
  linearizability verdicts.

  Transcribed: `SimulatedNode::{execute, drain_deltas, apply_remote_deltas, get_replicated_value}`,
  `ShardReplicaState::{record_write, record_delete, apply_remote_delta, drain_pending_deltas,
  enforce_pending_capacity}` and `ReplicatedValue::{set, delete, merge}` / `LwwRegister` restricted
  to what the simulation drives (LWW string keys, Eventual consistency: no vector clock, no expiry),
  `MultiNodeSimulation::{execute, partition, heal_partition, run_anti_entropy_sync,
  run_full_anti_entropy, can_communicate, gossip_round, send_deltas, deliver_messages, converge,
  check_key_convergence, get_all_values}`, `check_single_key_linearizability`,
  `AntiEntropyManager::get_keys_in_buckets`, `StateDigest::{differs_from, divergent_buckets}`,
  `GossipRouter::route_selective`, `HashRing::get_gossip_targets`, `run_partition_test`.

  Every place where the REAL code iterates a `HashMap` is an explicit parameter:

  * `pi`  — the order in which `get_keys_in_buckets` meets the keys of `replicated_keys`
            (current code: sorted by key afterwards, dc1be9d; pinned code: map order reaches the
            receiver's Lamport clock — defect B);
  * `rho` — the order in which `gossip_round` visits the `RoutingTable` (current code: sorted by
            target, 7f8c4c6; pinned code: map order decides which target gets which loss / delay
            draw — defect B2).

  Props/C20 proves the whole trace independent of both for the current code and gives the
  counterexamples for the pinned variants.

  Inputs taken from the real code (probed, like the Zipf table of `redis-dst`): for every key of
  the scenario its anti-entropy bucket (`KeyDigest::new(key, _).bucket(depth)`: SipHash-1-3 of the
  key, mod 2^depth) and, in partitioned mode, its owners (`HashRing::get_replicas`).  Digest
  equality is modelled as content equality of the bucket (64-bit hash collisions are not
  modelled; C18 is the property about the digests).
-/
import RedisVerif.Model.NMap
import RedisVerif.Model.SimRng
import RedisVerif.Model.SimKernel
import RedisVerif.Model.SimHarness

namespace RedisVerif.SimMulti
open RedisVerif RedisVerif.SimRng RedisVerif.SimHarness

/-! ## strings that cross the line protocol as naturals (big-endian bytes) -/

def bytesAux : Nat → Nat → List Nat → List Nat
  | 0, _, acc => acc
  | f + 1, n, acc => if n == 0 then acc else bytesAux f (n / 256) (n % 256 :: acc)

def bytesOfCode (n : Nat) : List Nat := bytesAux (n.log2 / 8 + 1) n []

def strOfCode (n : Nat) : String := String.ofList ((bytesOfCode n).map Char.ofNat)

/-! ## replicated values (LWW registers with their Lamport stamp) -/

/-- a `ReplicatedValue` holding an `LwwRegister<SDS>`: `val = none` is a tombstone.  The outer
    stamp and the register's stamp coincide on every state the simulation reaches (`set` / `delete`
    write both, `merge` takes both from the same side), so one stamp is kept. -/
structure RV where
  val : Option Nat
  time : Nat
  rid : Nat
  deriving DecidableEq, Repr, Inhabited

/-- `a.timestamp > b.timestamp` (`LamportClock::cmp`: time, then replica id) -/
def stampGt (a b : RV) : Bool := a.time > b.time || (a.time == b.time && a.rid > b.rid)

/-- `local.merge(&other)` -/
def RV.merge (loc other : RV) : RV := if stampGt other loc then other else loc

abbrev Delta := Nat × RV

structure Node where
  /-- `replica_state.lamport_clock.time` -/
  clock : Nat := 0
  /-- `replica_state.replicated_keys` -/
  keys : NMap RV := []
  /-- `replica_state.pending_deltas`, oldest first -/
  pending : List Delta := []
  /-- the `CommandExecutor`'s string keyspace (the only commands executed are SET / GET / DEL) -/
  exec : NMap Nat := []
  deriving Repr, Inhabited

/-- `enforce_pending_capacity` -/
def capPending (cap : Nat) (p : List Delta) : List Delta := p.drop (p.length - cap)

/-- `SimulatedNode::execute(SET key val)` on replica `rid` -/
def Node.set (nd : Node) (cap rid key val : Nat) : Node :=
  let clock := nd.clock + 1
  let rv : RV := ⟨some val, clock, rid⟩
  { clock := clock, keys := NMap.insert key rv nd.keys, pending := capPending cap (nd.pending ++ [(key, rv)]),
    exec := NMap.insert key val nd.exec }

/-- `SimulatedNode::execute(DEL key)`: the reply counts what the EXECUTOR removed; a tombstone is
    recorded only when the replica state knows the key (also when it is a tombstone already) -/
def Node.del (nd : Node) (cap rid key : Nat) : Nat × Node :=
  let reply := if (nd.exec.get key).isSome then 1 else 0
  let exec := NMap.erase key nd.exec
  match nd.keys.get key with
  | none => (reply, { nd with exec := exec })
  | some _ =>
    let clock := nd.clock + 1
    let rv : RV := ⟨none, clock, rid⟩
    (reply, { clock := clock, keys := NMap.insert key rv nd.keys, pending := capPending cap (nd.pending ++ [(key, rv)]), exec := exec })

/-- `apply_remote_deltas` for one delta: Lamport update, CRDT merge, executor follows the MERGED value -/
def Node.applyRemote (nd : Node) (d : Delta) : Node :=
  let clock := max nd.clock d.2.time + 1
  let merged := match nd.keys.get d.1 with
    | some loc => loc.merge d.2
    | none => d.2
  let exec := match merged.val with
    | some v => NMap.insert d.1 v nd.exec
    | none => NMap.erase d.1 nd.exec
  { nd with clock := clock, keys := NMap.insert d.1 merged nd.keys, exec := exec }

def Node.applyAll (nd : Node) (ds : List Delta) : Node := ds.foldl Node.applyRemote nd

/-- `get_replicated_value` -/
def Node.value (nd : Node) (key : Nat) : Option Nat := (nd.keys.get key).bind (·.val)

/-! ## the cluster -/

structure Msg where
  src : Nat
  dst : Nat
  deltas : List Delta
  at_ : Nat
  deriving Repr, Inhabited

inductive HKind where
  | set (val : Nat)
  | get (reply : Option Nat)
  | other
  deriving Repr

structure HOp where
  time : Nat
  key : Nat
  kind : HKind
  deriving Repr

structure Cfg where
  n : Nat
  /-- `packet_loss_rate` after `with_packet_loss`'s clamp -/
  loss : F64
  delayLo : Nat
  delayHi : Nat
  autoAe : Bool
  /-- `new_partitioned`: selective routing through the hash ring -/
  selective : Bool
  /-- `MAX_PENDING_DELTAS` (read from the source by the harness) -/
  cap : Nat
  /-- `AntiEntropyConfig::default().keys_per_sync()` -/
  perSync : Nat
  /-- key ↦ (name, bucket, owners as node indices in ring order) -/
  keyTab : Array (Nat × Nat × List Nat)

def Cfg.bucket (c : Cfg) (k : Nat) : Nat := (c.keyTab.getD k (0, 0, [])).2.1
def Cfg.owners (c : Cfg) (k : Nat) : List Nat := (c.keyTab.getD k (0, 0, [])).2.2
def Cfg.keyName (c : Cfg) (k : Nat) : String := strOfCode (c.keyTab.getD k (0, 0, [])).1

structure MN where
  rng : Rng
  now : Nat := 0
  nodes : List Node
  queue : List Msg := []
  /-- `partitions`: a `HashSet` of canonical pairs, only inserted / removed / looked up -/
  parts : List (Nat × Nat) := []
  syncs : Nat := 0
  /-- `history`, newest first -/
  hist : List HOp := []
  histLen : Nat := 0

def MN.node (s : MN) (i : Nat) : Node := s.nodes.getD i default
def MN.setNode (s : MN) (i : Nat) (nd : Node) : MN := { s with nodes := s.nodes.set i nd }

def canon (a b : Nat) : Nat × Nat := if a < b then (a, b) else (b, a)

def MN.canCommunicate (s : MN) (a b : Nat) : Bool := !s.parts.contains (canon a b)

/-! ### anti-entropy -/

/-- the keys on which two replica states differ (present on one side only, or different value /
    stamp / tombstone): both maps are canonical, so one merge walk -/
def diffKeys : Nat → NMap RV → NMap RV → List Nat
  | 0, _, _ => []
  | _ + 1, [], b => b.map (·.1)
  | _ + 1, a, [] => a.map (·.1)
  | f + 1, (ka, va) :: a, (kb, vb) :: b =>
    if ka < kb then ka :: diffKeys f a ((kb, vb) :: b)
    else if kb < ka then kb :: diffKeys f ((ka, va) :: a) b
    else if va == vb then diffKeys f a b else ka :: diffKeys f a b

/-- `digest_a.divergent_buckets(&digest_b)` as a set of bucket numbers (empty iff the root hashes agree) -/
def divergentBuckets (c : Cfg) (a b : NMap RV) : List Nat :=
  NSet.ofList ((diffKeys (a.length + b.length + 1) a b).map c.bucket)

/-- `get_keys_in_buckets`: the map is met in order `pi`, filtered by bucket, (current code) sorted
    by key, cut at `keys_per_sync` -/
def selectKeys (sorted : Bool) (pi : List Nat → List Nat) (perSync : Nat) (inB : Nat → Bool) (m : NMap RV) : List Delta :=
  let ks := (pi m.keys).filter inB
  let ks := if sorted then sortNat ks else ks
  (ks.take perSync).filterMap fun k => (m.get k).map fun v => (k, v)

/-- the order in which `gossip_round` visits its routing table: the map's order `rho`, (current
    code) sorted by target -/
def routeOrder (sorted : Bool) (rho : List Nat → List Nat) (ts : List Nat) : List Nat :=
  if sorted then sortNat (rho ts) else rho ts

section
/- the two hidden inputs: `sel` is `selectKeys sorted pi perSync`, `rord` is `routeOrder sorted rho` -/
variable (sel : (Nat → Bool) → NMap RV → List Delta) (rord : List Nat → List Nat)

/-- `run_anti_entropy_sync(a, b)` -/
def MN.sync (c : Cfg) (s : MN) (a b : Nat) : MN :=
  let na := s.node a
  let nb := s.node b
  let div := divergentBuckets c na.keys nb.keys
  if div.isEmpty then s
  else
    let da := sel (fun k => div.contains (c.bucket k)) na.keys
    let db := sel (fun k => div.contains (c.bucket k)) nb.keys
    let s := s.setNode b ((s.node b).applyAll da)
    let s := s.setNode a ((s.node a).applyAll db)
    { s with syncs := s.syncs + 1 }

/-- `heal_partition(a, b)` -/
def MN.heal (c : Cfg) (s : MN) (a b : Nat) : MN :=
  let p := canon a b
  let was := s.parts.contains p
  let s := { s with parts := s.parts.filter (· != p) }
  if was && c.autoAe then MN.sync sel c s a b else s

def MN.partition (s : MN) (a b : Nat) : MN :=
  let p := canon a b
  if s.parts.contains p then s else { s with parts := p :: s.parts }

/-- `run_full_anti_entropy` -/
def MN.fullAe (c : Cfg) (s : MN) : MN :=
  (List.range c.n).foldl (fun s i =>
    ((List.range c.n).filter (· > i)).foldl (fun s j => if s.canCommunicate i j then MN.sync sel c s i j else s) s) s

/-! ### gossip -/

/-- `send_deltas`: partition check, `gen_bool(loss)` (always draws), `gen_range(lo, hi + 1)` -/
def MN.send (c : Cfg) (s : MN) (src dst : Nat) (ds : List Delta) : MN :=
  if !s.canCommunicate src dst then s
  else
    let (dropped, rng) := detGenBool c.loss s.rng
    if dropped then { s with rng := rng }
    else
      let (delay, rng) := detGenRange c.delayLo (c.delayHi + 1) rng
      { s with rng := rng, queue := s.queue ++ [⟨src, dst, ds, s.now + delay⟩] }

/-- `deliver_messages`: pop from the FRONT while the head is due and its link is up (a head that is
    not deliverable blocks everything behind it), then apply in order -/
def MN.deliver (s : MN) : MN :=
  let ready := s.queue.takeWhile fun m => decide (m.at_ ≤ s.now) && s.canCommunicate m.src m.dst
  let rest := s.queue.dropWhile fun m => decide (m.at_ ≤ s.now) && s.canCommunicate m.src m.dst
  ready.foldl (fun s m => s.setNode m.dst ((s.node m.dst).applyAll m.deltas)) { s with queue := rest }

/-- the targets of a routing table in first-insertion order (the REAL order is the map's: `rord`) -/
def routeTargets (c : Cfg) (src : Nat) (ds : List Delta) : List Nat :=
  ds.foldl (fun acc d => ((c.owners d.1).filter (· != src)).foldl (fun acc t => if acc.contains t then acc else acc ++ [t]) acc) []

/-- `gossip_round` -/
def MN.gossipRound (c : Cfg) (s : MN) : MN :=
  let drained := s.nodes.map (·.pending)
  let s := { s with nodes := s.nodes.map fun nd => { nd with pending := [] } }
  let s := (List.range c.n).foldl (fun s src =>
    let ds := drained.getD src []
    if ds.isEmpty then s
    else if c.selective then
      (rord (routeTargets c src ds)).foldl (fun s t => MN.send c s src t (ds.filter fun d => (c.owners d.1).contains t)) s
    else
      ((List.range c.n).filter (· != src)).foldl (fun s t => MN.send c s src t ds) s) s
  s.deliver

def MN.advance (s : MN) (ms : Nat) : MN := { s with now := s.now + ms }

/-- `converge(n)` -/
def MN.converge (c : Cfg) : Nat → MN → MN
  | 0, s => s
  | k + 1, s => MN.converge c k (MN.gossipRound rord c (s.advance 10))

end

/-! ### client operations -/

def MN.record (s : MN) (key : Nat) (kind : HKind) : MN :=
  { s with hist := ⟨s.now, key, kind⟩ :: s.hist, histLen := s.histLen + 1 }

def MN.execSet (c : Cfg) (s : MN) (node key val : Nat) : MN :=
  (s.setNode node ((s.node node).set c.cap (node + 1) key val)).record key (.set val)

/-- a conditional SET: `(applied, state)`; refused = executor, replication state and pending deltas
    untouched, but the operation is in the history (as a SET of that value: the checker looks at the
    command, not at the reply) -/
def MN.execSetCond (c : Cfg) (s : MN) (node key val : Nat) (nx : Bool) : Bool × MN :=
  let has := ((s.node node).exec.get key).isSome
  if has != nx then (true, s.execSet c node key val)
  else (false, s.record key (.set val))

def MN.execDel (c : Cfg) (s : MN) (node key : Nat) : Nat × MN :=
  let (r, nd) := (s.node node).del c.cap (node + 1) key
  (r, (s.setNode node nd).record key .other)

def MN.execGet (s : MN) (node key : Nat) : Option Nat × MN :=
  let r := (s.node node).exec.get key
  (r, s.record key (.get r))

/-- `check_key_convergence` -/
def MN.keyConverged (s : MN) (key : Nat) : Bool :=
  match s.nodes.map (·.value key) with
  | [] => true
  | v :: vs => vs.all (· == v)

/-- `check_single_key_linearizability(history, key).is_linearizable` -/
def MN.linearizable (s : MN) (key : Nat) : Bool :=
  let ops := (s.hist.reverse.filter fun o => o.key == key && (match o.kind with | .other => false | _ => true))
  let ops := ops.mergeSort fun a b => decide (a.time ≤ b.time)
  (ops.foldl (fun (acc : Option Nat × Bool) o =>
    match o.kind with
    | .set v => (some v, acc.2)
    | .get (some got) => (match acc.1 with
        | some e => (acc.1, acc.2 && got == e)
        | none => acc)
    | _ => acc) (none, true)).2

/-! ## scenarios (the scripts of harness/src/c20_mn.rs) and their traces -/

inductive Op where
  | set (node key val : Nat)
  /-- `SET key val NX` (`nx = true`) / `SET key val XX`: the executor applies it only if the key is
      absent / present, and `SimulatedNode::execute` records it for replication only when it was
      applied (`set_applied`, 9afba77: the reply is `OK`, not nil) -/
  | setCond (node key val : Nat) (nx : Bool)
  | get (node key : Nat)
  | del (node key : Nat)
  /-- `advance_time_ms(adv); gossip_round()` -/
  | gossip (adv : Nat)
  /-- `partition(a, b)` unless `a == b` -/
  | partition (a b : Nat)
  | heal (a b : Nat)
  | fullAe
  /-- `run_anti_entropy_sync(a, b)` unless `a == b` -/
  | sync (a b : Nat)
  | converge (n : Nat)
  /-- a burst of writes on one node with no gossip in between: (key, `some val` = SET / `none` = DEL) -/
  | burst (node : Nat) (items : List (Nat × Option Nat))
  /-- `run_partition_test`'s convergence loop: up to `max` rounds of `advance 10; gossip_round`, stop
      when every key of `keys` has converged -/
  | untilConv (max : Nat) (keys : List Nat)
  /-- per node: how many keys it knows, the first and the last of them -/
  | dump
  deriving Repr

def csvNat (l : List Nat) : String := ",".intercalate (l.map toString)

def MN.clocks (s : MN) : String := csvNat (s.nodes.map (·.clock))

/-- `mn_fingerprint` -/
def MN.fingerprint (s : MN) : String :=
  s!"clocks={s.clocks} pending={csvNat (s.nodes.map (·.pending.length))} queue={s.queue.length}"

def showBytes (v : Nat) : String := "[" ++ ", ".intercalate ((bytesOfCode v).map toString) ++ "]"

def showOptStr : Option Nat → String
  | some v => s!"Some(\"{strOfCode v}\")"
  | none => "None"

def showTF (b : Bool) : String := if b then "true" else "false"

/-- `mn_messages` -/
def MN.inFlight (c : Cfg) (s : MN) : List String :=
  s.queue.map fun m =>
    s!"  in-flight {m.src}->{m.dst} at {m.at_}: {",".intercalate (m.deltas.map fun d => s!"{c.keyName d.1}@{d.2.time}")}"

structure Run where
  s : MN
  /-- trace lines, newest first -/
  out : List String := []
  /-- result of the last `untilConv` -/
  conv : Bool := false
  rounds : Nat := 0

section
variable (sel : (Nat → Bool) → NMap RV → List Delta) (rord : List Nat → List Nat) (c : Cfg)

def untilConvLoop (keys : List Nat) : Nat → Nat → MN → MN × Bool × Nat
  | 0, _, s => (s, false, 0)
  | fuel + 1, round, s =>
    let s := MN.gossipRound rord c (s.advance 10)
    if keys.all s.keyConverged then (s, true, round + 1) else untilConvLoop keys fuel (round + 1) s

/-- one scripted step; `style` 0 = family `multi-node` (clocks after every step), 1 = the generated
    scenarios (full fingerprint, in-flight messages after a gossip round), 2 = silent (partition tests) -/
def step (style : Nat) (r : Run) (k : Nat) (op : Op) : Run :=
  let tail (s : MN) : String := if style == 0 then s!" clocks={s.clocks}" else s!" {s.fingerprint}"
  let emit (r : Run) (s : MN) (text : String) (more : List String := []) : Run :=
    if style == 2 then { r with s := s } else { r with s := s, out := more.reverse ++ (s!"{k} {text}{tail s}" :: r.out) }
  match op with
  | .set node key val =>
    let s := r.s.execSet c node key val
    emit r s s!"set n{node} {c.keyName key} {strOfCode val} -> SimpleString(\"OK\")"
  | .setCond node key val nx =>
    let (ok, s) := r.s.execSetCond c node key val nx
    emit r s s!"set-{if nx then "nx" else "xx"} n{node} {c.keyName key} {strOfCode val} -> {if ok then "SimpleString(\"OK\")" else "BulkString(None)"}"
  | .get node key =>
    let (v, s) := r.s.execGet node key
    let resp := match v with | some v => s!"BulkString(Some({showBytes v}))" | none => "BulkString(None)"
    emit r s s!"get n{node} {c.keyName key} -> {resp}"
  | .del node key =>
    let (n, s) := r.s.execDel c node key
    emit r s s!"del n{node} {c.keyName key} -> Integer({n})"
  | .gossip adv =>
    let s := MN.gossipRound rord c (r.s.advance adv)
    if style == 0 then emit r s s!"gossip queue={s.queue.length}" else emit r s "gossip" (s.inFlight c)
  | .partition a b =>
    emit r (if a != b then r.s.partition a b else r.s) s!"partition {a} {b}"
  | .heal a b =>
    emit r (if a != b then MN.heal sel c r.s a b else r.s) s!"heal {a} {b}"
  | .fullAe => emit r (MN.fullAe sel c r.s) "full-anti-entropy"
  | .sync a b => emit r (if a != b then MN.sync sel c r.s a b else r.s) s!"anti-entropy-sync {a} {b}"
  | .converge n => emit r (MN.converge rord c n r.s) "converge true"
  | .burst node items =>
    -- `replies`: the harness folds the LENGTH of every reply's `{:?}` text: `SimpleString("OK")` = 18, `Integer(n)` = 10
    let (s, h) := items.foldl (fun (acc : MN × Nat) it =>
      match it.2 with
      | some v => (acc.1.execSet c node it.1 v, (acc.2 * 31 + 18) % 2 ^ 64)
      | none => ((acc.1.execDel c node it.1).2, (acc.2 * 31 + 10) % 2 ^ 64)) (r.s, 0)
    emit r s s!"burst n{node} len={items.length} replies={h}"
  | .untilConv max keys =>
    let (s, cv, rounds) := untilConvLoop rord c keys max 0 r.s
    { r with s := s, conv := cv, rounds := rounds }
  | .dump =>
    let per := r.s.nodes.map fun nd =>
      let ks := nd.keys.keys
      let nm (o : Option Nat) : String := match o with | some k => c.keyName k | none => "-"
      s!"{ks.length}:{nm ks.head?}..{nm ks.getLast?}"
    emit r r.s s!"keys-present {" ".intercalate per}"

def healAll (s : MN) : MN :=
  (List.range c.n).foldl (fun s a => ((List.range c.n).filter (· > a)).foldl (fun s b => MN.heal sel c s a b) s) s

/-- the closing lines: family `multi-node` -/
def final0 (keys : List Nat) (s : MN) : List String :=
  let s := MN.converge rord c 30 (healAll sel c s)
  keys.map (fun key =>
    s!"final {c.keyName key} values=[{", ".intercalate (s.nodes.map fun nd => showOptStr (nd.value key))}] converged={showTF (s.keyConverged key)} lin={showTF (s.linearizable key)}")
  ++ [s!"result converge=true history={s.histLen} clocks={s.clocks}"]

/-- `mn_final` of the generated scenarios -/
def final1 (keys : List Nat) (s : MN) : List String :=
  let s := MN.converge rord c 20 (healAll sel c s)
  (((List.range keys.length).zip keys).filterMap fun (i, key) =>
    let per := s.nodes.map fun nd => match nd.keys.get key with
      | some rv => s!"{showOptStr rv.val}@{rv.time}.{rv.rid}{if rv.val.isNone then "T" else ""}"
      | none => "-"
    if per.all (· == "-") then none
    else
      let lin := if i < 8 then s!" lin={showTF (s.linearizable key)}" else ""
      some s!"final {c.keyName key} {" | ".intercalate per} conv={showTF (s.keyConverged key)}{lin}")
  ++ [s!"result converge=true history={s.histLen} {s.fingerprint}"]

/-- the closing line of a partition test (`PartitionTestResult`, canonical fields) -/
def final2 (during after firstKey : Nat) (r : Run) : List String :=
  [s!"result during={during} after={after} converged={showTF r.conv} rounds={r.rounds} final_values=[{", ".intercalate (r.s.nodes.map fun nd => showOptStr (nd.value firstKey))}] linearizable={showTF (r.s.linearizable firstKey)}"]

def runScript (style : Nat) (seed : Nat) (script : List Op) (finalKeys : List Nat) (during after : Nat := 0) : List String :=
  let s0 : MN := { rng := Rng.new seed.toUInt64, nodes := List.replicate c.n {} }
  let r := ((List.range script.length).zip script).foldl (fun r (p : Nat × Op) => step sel rord c style r (p.1 + 1) p.2) { s := s0 }
  let fin := if style == 0 then final0 sel rord c finalKeys r.s
    else if style == 1 then final1 sel rord c finalKeys r.s
    else final2 during after (finalKeys.headD 0) r
  r.out.reverse ++ fin

end

/-- the run with the two iteration orders explicit -/
def runWith (sortsSync sortsRoutes : Bool) (pi rho : List Nat → List Nat) (c : Cfg) (style seed : Nat) (script : List Op) (finalKeys : List Nat)
    (during after : Nat := 0) : List String :=
  runScript (selectKeys sortsSync pi c.perSync) (routeOrder sortsRoutes rho) c style seed script finalKeys during after

/-- `run_partition_test` as a script: partition, a write + a gossip round (5 ms) each, ten rounds
    (10 ms) while partitioned, heal (each heal runs an anti-entropy exchange), the writes after
    the heal, then the convergence loop over the test keys -/
def partitionScript (pairs : List (Nat × Nat)) (during after : List (Nat × Nat × Nat)) (maxRounds : Nat) : List Op :=
  let writes (ws : List (Nat × Nat × Nat)) : List Op := ws.flatMap fun w => [Op.set w.1 w.2.1 w.2.2, Op.gossip 5]
  pairs.map (fun p => Op.partition p.1 p.2) ++ writes during ++ List.replicate 10 (Op.gossip 10) ++
    pairs.map (fun p => Op.heal p.1 p.2) ++ writes after ++ [Op.untilConv maxRounds (NSet.ofList ((during ++ after).map (·.2.1)))]

/-! ## decoding a `RUN multi-node…` line -/

/-- take `n` numbers -/
def takeN (n : Nat) (l : List Nat) : Option (List Nat × List Nat) :=
  if l.length < n then none else some (l.take n, l.drop n)

def parseKeyTab : Nat → List Nat → Array (Nat × Nat × List Nat) → Option (Array (Nat × Nat × List Nat) × List Nat)
  | 0, rest, acc => some (acc, rest)
  | k + 1, name :: bucket :: no :: rest, acc =>
    match takeN no rest with
    | some (ow, rest) => parseKeyTab k rest (acc.push (name, bucket, ow))
    | none => none
  | _, _, _ => none

def parseItems : Nat → List Nat → List (Nat × Option Nat) → Option (List (Nat × Option Nat) × List Nat)
  | 0, rest, acc => some (acc.reverse, rest)
  | k + 1, key :: 0 :: rest, acc => parseItems k rest ((key, none) :: acc)
  | k + 1, key :: 1 :: v :: rest, acc => parseItems k rest ((key, some v) :: acc)
  | _, _, _ => none

def parseOps : Nat → List Nat → List Op → Option (List Op × List Nat)
  | 0, rest, acc => some (acc.reverse, rest)
  | k + 1, 0 :: node :: key :: val :: rest, acc => parseOps k rest (.set node key val :: acc)
  | k + 1, 1 :: node :: key :: rest, acc => parseOps k rest (.get node key :: acc)
  | k + 1, 2 :: node :: key :: rest, acc => parseOps k rest (.del node key :: acc)
  | k + 1, 3 :: adv :: rest, acc => parseOps k rest (.gossip adv :: acc)
  | k + 1, 4 :: a :: b :: rest, acc => parseOps k rest (.partition a b :: acc)
  | k + 1, 5 :: a :: b :: rest, acc => parseOps k rest (.heal a b :: acc)
  | k + 1, 6 :: rest, acc => parseOps k rest (.fullAe :: acc)
  | k + 1, 7 :: a :: b :: rest, acc => parseOps k rest (.sync a b :: acc)
  | k + 1, 8 :: n :: rest, acc => parseOps k rest (.converge n :: acc)
  | k + 1, 9 :: node :: cnt :: rest, acc =>
    match parseItems cnt rest [] with
    | some (items, rest) => parseOps k rest (.burst node items :: acc)
    | none => none
  | k + 1, 10 :: mx :: cnt :: rest, acc =>
    match takeN cnt rest with
    | some (keys, rest) => parseOps k rest (.untilConv mx keys :: acc)
    | none => none
  | k + 1, 11 :: rest, acc => parseOps k rest (.dump :: acc)
  | k + 1, 12 :: node :: key :: val :: nx :: rest, acc => parseOps k rest (.setCond node key val (nx == 1) :: acc)
  | _, _, _ => none

/-- `cnt` groups of `w` numbers -/
def parseTriples (w : Nat) : Nat → List Nat → Option (List (List Nat) × List Nat)
  | 0, rest => some ([], rest)
  | k + 1, rest =>
    match takeN w rest with
    | none => none
    | some (g, rest) => (parseTriples w k rest).map fun (gs, rest) => (g :: gs, rest)

/-- `<style> <n> <loss bits> <delay lo> <delay hi> <auto-ae> <selective> <cap> <per-sync> <sorts-sync>
     <sorts-routes> <#keys> (<name> <bucket> <#owners> <owner>*)* <#final> <final key>* <#ops> <op>*` -/
def runLines (seed : Nat) (cfg : List Nat) : Option (List String) :=
  match cfg with
  | style :: n :: loss :: lo :: hi :: ae :: selv :: cap :: per :: ss :: sr :: nk :: rest =>
    match parseKeyTab nk rest #[] with
    | none => none
    | some (tab, rest) =>
      match rest with
      | nf :: rest =>
        match takeN nf rest with
        | none => none
        | some (fin, rest) =>
          match rest with
          | no :: rest =>
            let c : Cfg := ⟨n, SimKernel.clamp01 (F64.ofBits loss), lo, hi, ae == 1, selv == 1, cap, per, tab⟩
            match parseOps no rest [] with
            | some (ops, []) => some (runWith (ss == 1) (sr == 1) id id c style seed ops fin)
            | some ([], np :: rest) =>
              -- a partition test: <#pairs> (a b)* <#during> (node key val)* <#after> (node key val)* <max rounds>
              if style != 2 then none else
              match parseTriples 2 np rest with
              | none => none
              | some (pairs, nd :: rest) =>
                match parseTriples 3 nd rest with
                | some (during, na :: rest) =>
                  match parseTriples 3 na rest with
                  | some (after, [mx]) =>
                    let p2 (l : List Nat) : Nat × Nat := (l.getD 0 0, l.getD 1 0)
                    let p3 (l : List Nat) : Nat × Nat × Nat := (l.getD 0 0, l.getD 1 0, l.getD 2 0)
                    some (runWith (ss == 1) (sr == 1) id id c 2 seed (partitionScript (pairs.map p2) (during.map p3) (after.map p3) mx) fin during.length after.length)
                  | _ => none
                | _ => none
              | _ => none
            | _ => none
          | _ => none
      | _ => none
  | _ => none

def run (harness : String) (seed : Nat) (cfg : List Nat) : Option String :=
  if harness == "multi-node" || harness == "multi-node-gen" || harness == "partition" then
    (runLines seed cfg).map fun lines => SimMoreAnswer lines
  else none
where
  SimMoreAnswer (lines : List String) : String := s!"{traceDigest lines} | {lines.getLastD ""}"

end RedisVerif.SimMulti
