import RedisVerif.Model.Txn
import RedisVerif.Model.RedisKeys

/-
  M6 × M7: the transaction machines of `Model/Txn.lean` INSTANTIATED with the M7 reference
  executor (`Model/Redis.lean`, the model C01 ties to the real `CommandExecutor` on ~95 commands of
  all five value types, expiry included).  The small store `KV` of `Model/Txn.lean` covers about
  twenty commands and no deadlines; this instance puts the whole command set and the CLOCK inside
  the model the C05 theorems are about.

  The store under a connection is a NODE: the M7 keyspace plus the instant the shards execute at.
  `ShardedActorState::execute` reads the clock for every command it sends to a shard
  (`get_current_virtual_time()`), the shard adopts it (`set_time`, which evicts what has expired)
  and executes; EXEC replays its queue through that same call, one command at a time.  So the
  instant is NOT part of a queued command: it is read when the command is replayed.  The model
  makes the passing of time an explicit event `tick t` (in a schedule: time passes between two of
  EXEC's store accesses; between two inputs: time passes between two commands).

  The node is kept PURGED at its own clock (no entry whose deadline has been reached): `exec7`
  purges after the command as well as before.  Dead entries are unobservable by every later
  command (`Redis.purge_purge_le`), so this changes no reply; it makes the node's state canonical,
  which is what lets "commands on other keys commute" be an EQUALITY of nodes.
-/
namespace RedisVerif
namespace Txn7
open Redis (State Cmd Reply Value Entry purge)

/-- keyspace + the instant the shards execute at -/
structure Node where
  s : State
  now : Nat
  deriving DecidableEq, Repr

def Node.init (now : Nat) : Node := { s := [], now := now }

/-- what a connection can hand to `state.execute` / what the other clients (and time) do -/
inductive Cmd7 where
  | data (c : Cmd)          -- a data command of the reference model
  | tick (t : Nat)          -- not a command: the clock now reads `t`
  | ping
  | unwatch                 -- `Command::Unwatch` as a queued command
  | unknown                 -- `Command::Unknown(name)`
  | loc (l : KV.Local)      -- connection-level commands (AUTH, ACL WHOAMI, RESET, CLIENT SETNAME, PUBLISH)
  deriving Repr

inductive Rep7 where
  | data (r : Reply)
  | other (r : KV.Rep)
  deriving DecidableEq, Repr

/-- `state.execute(cmd)` at the node's instant (connection-level commands: answered by the
    connection's own handlers, as the EXEC loop does since `fix:` e5ecfcc) -/
def exec7 (n : Node) : Cmd7 → Node × Rep7
  | .data c => ({ s := purge (Redis.step n.s n.now c).1 n.now, now := n.now }, .data (Redis.step n.s n.now c).2)
  | .tick t => ({ s := purge n.s t, now := t }, .other (.simple .ok))
  | .ping => (n, .other (.simple .pong))
  | .unwatch => (n, .other (.simple .ok))
  | .unknown => (n, .other (.err .unknownCmd))
  | .loc l => (n, .other (KV.localReply (.loc l)))

def localReply7 : Cmd7 → Rep7
  | .loc l => .other (KV.localReply (.loc l))
  | _ => .other (.err .unknownCmd)

/-- the connection-level backend: the WATCH snapshot is the reply of `GET k` at the node's instant -/
def backend7 : Txn.Backend Node Nat Cmd7 Rep7 where
  exec := exec7
  getReply := fun n k => (exec7 n (.data (.get k))).2
  unwatchCmd := .unwatch
  localReply := localReply7

/-- what a client can see of key `k` at the node's instant: the entry, if it is live -/
def vis (n : Node) (k : Nat) : Option Entry := NMap.get (purge n.s n.now) k

/-- the VALUE of key `k` (type and content; the deadline is not part of the value) -/
def value7 (n : Node) (k : Nat) : Option Value := (vis n k).map (·.val)

/-- the executor-level backend: WATCH snapshots `self.data.get(key).cloned()` — the value without
    its deadline (deadlines live in a separate map), of an entry the caller's `set_time` has not
    evicted -/
def xbackend7 : Txn.XBackend Node Nat Cmd7 Rep7 Value where
  exec := exec7
  value := value7

/-- the node invariant: canonical keyspace, nothing dead at the node's own instant -/
def NodeOk (n : Node) : Prop := NMap.WF n.s ∧ purge n.s n.now = n.s

instance : DecidablePred NodeOk := fun n => by unfold NodeOk; infer_instance

/-- a data command that names its keys -/
def keysOf : Cmd7 → Option (List Nat)
  | .data c => Redis.cmdKeys c
  | .ping | .unwatch | .unknown | .loc _ => some []
  | .tick _ => none

end Txn7
end RedisVerif
