/-
  Whole-harness models of the data-type DST harnesses of /repo (`redis::set_dst`, `hash_dst`,
  `list_dst`, `sorted_set_dst`): op generator on the model RNG + the data structure as the harness
  observes it.  The data structures are modelled by their SPECIFICATION (a set, a field map, a
  sequence, a score map ordered by (score, member bytes)); the harness's own shadow checks are the
  statement that the real structure agrees with it, so a run with an invariant violation is a
  disagreement by construction (the model predicts `viol=0`).

  Trace (identical text from harness/src/c20.rs): one line per op, a result line, a state line.
  Thresholds `(p * 100.0) as u64` are computed by the Rust side from the REAL preset and sent as
  configuration numbers.
-/
import RedisVerif.Model.SimHarness

namespace RedisVerif.SimTyped
open RedisVerif RedisVerif.SimRng RedisVerif.SimHarness

def showNats (l : List Nat) : String := ",".intercalate (l.map toString)

/-- generic loop: `step` returns the new state and the op text -/
def loop {σ : Type} (step : σ → M (σ × String)) : Nat → Nat → σ → List String → M (σ × List String)
  | 0, _, s, acc => pure (s, acc)
  | fuel + 1, k, s, acc => do
    let (s, t) ← step s
    loop step fuel (k + 1) s (s!"{k} {t} viol=0" :: acc)

def finish {σ : Type} (seed ops : Nat) (init : σ) (step : σ → M (σ × String))
    (result state : σ → String) : String :=
  match (loop step ops 1 init []).run (Rng.new seed.toUInt64) with
  | .error e => e
  | .ok ((s, acc), _) =>
    let res := s!"result {result s}"
    let stl := s!"state {state s}"
    s!"{traceDigest (acc.reverse ++ [res, stl])} | {stl}"

/-! ## set_dst -/

structure SetSt where
  members : NSet := []
  adds : Nat := 0
  existed : Nat := 0
  removes : Nat := 0
  notFound : Nat := 0
  ops : Nat := 0

def setStep (numMembers removeThr : Nat) (s : SetSt) : M (SetSt × String) := do
  let op ← range 0 100
  let m ← range 0 numMembers
  if op < removeThr then
    if s.members.contains m then
      pure ({ s with members := s.members.filter (· != m), removes := s.removes + 1, ops := s.ops + 1 }, s!"rem {m}")
    else pure ({ s with notFound := s.notFound + 1, ops := s.ops + 1 }, s!"rem {m}")
  else
    if s.members.contains m then pure ({ s with existed := s.existed + 1, ops := s.ops + 1 }, s!"add {m}")
    else pure ({ s with members := NSet.insert m s.members, adds := s.adds + 1, ops := s.ops + 1 }, s!"add {m}")

def runSet (seed ops numMembers removeThr : Nat) : String :=
  finish seed ops ({} : SetSt) (setStep numMembers removeThr)
    (fun s => s!"ops={s.ops} adds={s.adds} existed={s.existed} removes={s.removes} notfound={s.notFound} viol=0")
    (fun s => showNats s.members)

/-! ## hash_dst -/

structure HashSt where
  fields : NMap Nat := []
  sets : Nat := 0
  updates : Nat := 0
  deletes : Nat := 0
  ops : Nat := 0

def hashStep (numFields numValues deleteThr : Nat) (s : HashSt) : M (HashSt × String) := do
  let op ← range 0 100
  if op < deleteThr && !s.fields.isEmpty then
    let f ← range 0 numFields
    let ex := (s.fields.get f).isSome
    pure ({ s with fields := NMap.erase f s.fields, deletes := s.deletes + (if ex then 1 else 0), ops := s.ops + 1 }, s!"del {f}")
  else
    let f ← range 0 numFields
    let v ← range 0 numValues
    let ex := (s.fields.get f).isSome
    pure ({ s with fields := NMap.insert f v s.fields, updates := s.updates + (if ex then 1 else 0),
                   sets := s.sets + (if ex then 0 else 1), ops := s.ops + 1 }, s!"set {f} {v}")

def runHash (seed ops numFields numValues deleteThr : Nat) : String :=
  finish seed ops ({} : HashSt) (hashStep numFields numValues deleteThr)
    (fun s => s!"ops={s.ops} sets={s.sets} updates={s.updates} deletes={s.deletes} viol=0")
    (fun s => ",".intercalate (s.fields.map fun p => s!"{p.1}={p.2}"))

/-! ## list_dst -/

structure ListSt where
  items : List Nat := []
  lpushes : Nat := 0
  rpushes : Nat := 0
  lpops : Nat := 0
  rpops : Nat := 0
  lsets : Nat := 0
  trims : Nat := 0
  ops : Nat := 0

/-- thresholds are cumulative: trim, trim+lset, trim+lset+pop -/
def listStep (numValues trimThr lsetThr popThr leftThr : Nat) (s : ListSt) : M (ListSt × String) := do
  let op ← range 0 100
  let len := s.items.length
  if op < trimThr && len != 0 then
    let start ← range 0 len
    let stop ← range start len
    pure ({ s with items := (s.items.drop start).take (stop - start + 1), trims := s.trims + 1, ops := s.ops + 1 }, s!"trim {start} {stop}")
  else if op < lsetThr && len != 0 then
    let i ← range 0 len
    let v ← range 0 numValues
    pure ({ s with items := s.items.set i v, lsets := s.lsets + 1, ops := s.ops + 1 }, s!"lset {i} {v}")
  else if op < popThr && len != 0 then
    let l ← range 0 100
    if l < leftThr then pure ({ s with items := s.items.drop 1, lpops := s.lpops + 1, ops := s.ops + 1 }, "lpop")
    else pure ({ s with items := s.items.dropLast, rpops := s.rpops + 1, ops := s.ops + 1 }, "rpop")
  else
    let v ← range 0 numValues
    let l ← range 0 100
    if l < leftThr then pure ({ s with items := v :: s.items, lpushes := s.lpushes + 1, ops := s.ops + 1 }, s!"lpush {v}")
    else pure ({ s with items := s.items ++ [v], rpushes := s.rpushes + 1, ops := s.ops + 1 }, s!"rpush {v}")

def runList (seed ops numValues trimThr lsetThr popThr leftThr : Nat) : String :=
  finish seed ops ({} : ListSt) (listStep numValues trimThr lsetThr popThr leftThr)
    (fun s => s!"ops={s.ops} lpushes={s.lpushes} rpushes={s.rpushes} lpops={s.lpops} rpops={s.rpops} lsets={s.lsets} trims={s.trims} viol=0")
    (fun s => showNats s.items)

/-! ## sorted_set_dst — scores in hundredths; order = (score, member bytes) -/

structure ZSt where
  scores : NMap Nat := []
  adds : Nat := 0
  updates : Nat := 0
  removes : Nat := 0
  ops : Nat := 0

def zStep (numKeys removeThr scoreRange : Nat) (s : ZSt) : M (ZSt × String) := do
  let op ← range 0 100
  if op < removeThr then
    let m ← range 0 numKeys
    pure ({ s with scores := NMap.erase m s.scores, removes := s.removes + 1, ops := s.ops + 1 }, s!"rem {m}")
  else
    let m ← range 0 numKeys
    let c ← range 0 scoreRange
    let ex := (s.scores.get m).isSome
    pure ({ s with scores := NMap.insert m c s.scores, adds := s.adds + (if ex then 0 else 1),
                   updates := s.updates + (if ex then 1 else 0), ops := s.ops + 1 }, s!"add {m} {c}")

/-- `member:<a>` before `member:<b>` as byte strings -/
def memberLt (a b : Nat) : Bool := toString a < toString b

def zLe (x y : Nat × Nat) : Bool := x.2 < y.2 || (x.2 == y.2 && !memberLt y.1 x.1)

def zInsert (x : Nat × Nat) : List (Nat × Nat) → List (Nat × Nat)
  | [] => [x]
  | y :: ys => if zLe x y then x :: y :: ys else y :: zInsert x ys

def zOrder (m : NMap Nat) : List (Nat × Nat) := m.foldr zInsert []

def runZSet (seed ops numKeys removeThr scoreRange : Nat) : String :=
  finish seed ops ({} : ZSt) (zStep numKeys removeThr scoreRange)
    (fun s => s!"ops={s.ops} adds={s.adds} updates={s.updates} removes={s.removes} viol=0")
    (fun s => ",".intercalate ((zOrder s.scores).map fun p => s!"{p.1}:{p.2}"))

/-! ## transaction_dst — the scenario generator (no draw depends on the executor; the executor's
    replies only feed the harness's own assertions, predicted as `viol=0`) -/

structure TxSt where
  noConflict : Nat := 0
  conflict : Nat := 0
  simple : Nat := 0
  discards : Nat := 0
  errors : Nat := 0
  unwatch : Nat := 0
  ops : Nat := 0

/-- thresholds cumulative: error, error+discard, error+discard+conflict -/
def txStep (numKeys errThr discThr confThr : Nat) (s : TxSt) : M (TxSt × String) := do
  let roll ← range 0 100
  let s := { s with ops := s.ops + 1 }
  if roll < errThr then
    let sub ← range 0 4
    let s := { s with errors := s.errors + 1 }
    match sub with
    | 0 => pure (s, "ErrorScenario nested MULTI")
    | 1 => pure (s, "ErrorScenario EXEC without MULTI")
    | 2 => pure (s, "ErrorScenario DISCARD without MULTI")
    | _ => do let _ ← range 0 numKeys; pure (s, "ErrorScenario WATCH inside MULTI")
  else if roll < discThr then
    let k ← range 0 numKeys; let _ ← range 0 100; let _ ← range 0 100
    pure ({ s with discards := s.discards + 1 }, s!"DiscardAfterMulti DISCARD txkey:{k}")
  else if roll < confThr then
    let k ← range 0 numKeys; let _ ← range 0 100; let _ ← range 0 100; let _ ← range 0 100
    pure ({ s with conflict := s.conflict + 1 }, s!"WatchExecConflict WATCH txkey:{k} conflict")
  else if roll < confThr + 15 then
    let k ← range 0 numKeys; let _ ← range 0 100; let _ ← range 0 100; let _ ← range 0 100
    pure ({ s with unwatch := s.unwatch + 1 }, s!"UnwatchThenExec UNWATCH then EXEC txkey:{k}")
  else
    let c ← range 0 2
    if c == 0 then
      let k ← range 0 numKeys; let _ ← range 0 100; let _ ← range 0 100
      pure ({ s with noConflict := s.noConflict + 1 }, s!"WatchExecNoConflict WATCH txkey:{k} no-conflict")
    else
      let k1 ← range 0 numKeys; let k2 ← range 0 numKeys; let _ ← range 0 100; let _ ← range 0 100
      pure ({ s with simple := s.simple + 1 }, s!"MultiExecSimple MULTI/EXEC txkey:{k1} txkey:{k2}")

def runTx (seed ops numKeys errThr discThr confThr : Nat) : String :=
  finish seed ops ({} : TxSt) (txStep numKeys errThr discThr confThr)
    (fun s => s!"ops={s.ops} no_conflict={s.noConflict} conflict={s.conflict} exec={s.simple} discard={s.discards} error={s.errors} unwatch={s.unwatch} viol=0")
    (fun _ => "-")

def run (harness : String) (seed ops : Nat) (cfg : List Nat) : Option String :=
  match harness, cfg with
  | "set", [n, r] => some (runSet seed ops n r)
  | "hash", [nf, nv, d] => some (runHash seed ops nf nv d)
  | "list", [nv, t, l, p, lf] => some (runList seed ops nv t l p lf)
  | "sorted-set", [n, r, sr] => some (runZSet seed ops n r sr)
  | "transaction", [n, e, d, c] => some (runTx seed ops n e d c)
  | _, _ => none

end RedisVerif.SimTyped
