import RedisVerif.Model.GrammarTable
import RedisVerif.Model.Resp
import RedisVerif.Model.Shards7
import RedisVerif.Model.Dispatch

/-
  Server — ONE NODE, end to end, as the composition of the layer models:

      command frame (the bulk strings a client sent)
        ─ Grammar.parseCmdZc ─→  `Command` (canonical rendering `Grammar.Cmd`)      [C16]
        ─ toCmd7            ─→  the M7 command it denotes                           [this file]
        ─ classify/dispatch ─→  entry point of `ShardedActorState`                  [Model/Dispatch, C04's recognisers]
        ─ execNT7 / fast arm ─→  R.N shards over the M7 executor, per-shard clocks   [Model/Shards7, C03]
        ─ toM7, replyVal    ─→  `RespValue`
        ─ Resp.encode3      ─→  the bytes `encode_resp_into` writes                  [C15]
      a frame the parser rejects ─ Resp.encodeErr (error text) ─→ bytes, nothing changes.

  Anchors: /repo/src/production/connection_optimized.rs `try_execute_command` (`RespCodec::parse` →
  `Command::from_resp_zero_copy` → `self.state.execute(&cmd)` → `encode_resp_into`; `Err(e)` →
  `encode_error_into(&e)`), `try_fast_get` / `try_fast_set` (`pooled_fast_get/set` → `get_direct` /
  `set_direct`), /repo/src/production/sharded_actor.rs, /repo/src/redis/commands.rs.

  SEAM: `Server.run : … → List (Nat × Frame) → …` consumes command frames with the virtual time at
  which each was read.  The connection read loop (Model/Conn.lean: segmentation of the byte stream
  into frames, pipelining, MULTI state) composes ON TOP of it: `Conn.one_reply_per_command`-style
  theorems say which frame list a byte stream denotes; this file says what the node answers to it.
  The RESP decoder of the frames themselves is C15's (`Resp.parse1`); a frame here is already the
  list of bulk strings.

  `toCmd7` is the real content of the glue: which `Command` values denote which M7 command.  It is
  defined for every command BOTH sides know; `none` = outside the composed model:
    * no M7 counterpart: PING ECHO INFO TIME SELECT AUTH CONFIG ACL CLIENT OBJECT DEBUG COMMAND WAIT
      FUNCTION, MULTI / EXEC / DISCARD / WATCH / UNWATCH (connection state: C05), EVAL / EVALSHA /
      SCRIPT (scripts: `Model/Script7.lean`, not parsed from Lua text), SCAN / HSCAN / ZSCAN, SETBIT /
      GETBIT, INCRBYFLOAT, `Unknown`;
    * relational replies: SPOP, RANDOMKEY (the implementation chooses);
    * M7 is narrower: KEYS with a pattern other than `*`, SET with two expiry options, non-integral
      or huge (|x| > 2^53) float scores / score bounds.
  Set members and hash fields are coded by their raw bytes (M7) — the executor stores them as lossy
  strings: equal for valid UTF-8 (C01's binary-safety findings otherwise).

  Imports only models (linked into the native driver).
-/
namespace RedisVerif
namespace Server

open Grammar (Tok)
open Redis (Score Bound)

abbrev Bytes := List Nat

/-- one command frame: the bulk strings, command name first -/
abbrev Frame := List Bytes

/-- injective code of a byte string (= `Driver.keyCode`; `Redis.codeBytes` is its inverse) -/
def keyCode (b : Bytes) : Nat := b.foldl (fun acc x => acc * 256 + x) 1

/-! ## f64 → M7 score -/

/-- an IEEE-754 double as an M7 score: ±inf, or an integer of magnitude ≤ 2^53; `none` otherwise -/
def scoreOfBits (bits : Nat) : Option Score :=
  let neg := bits / 2 ^ 63 % 2 == 1
  let e := bits / 2 ^ 52 % 2048
  let m := bits % 2 ^ 52
  if e == 2047 then (if m == 0 then some (if neg then .ninf else .pinf) else none)
  else if e == 0 then (if m == 0 then some (.fin 0) else none)
  else if e < 1023 || e > 1076 then none
  else
    let sig := 2 ^ 52 + m
    let v : Option Nat :=
      if e ≤ 1075 then (if sig % 2 ^ (1075 - e) == 0 then some (sig / 2 ^ (1075 - e)) else none)
      else some (sig * 2 ^ (e - 1075))
    match v with
    | some n => if n ≤ 2 ^ 53 then some (.fin (if neg then -(n : Int) else n)) else none
    | none => none

/-- a ZCOUNT / ZRANGEBYSCORE bound: outer `none` = outside the model, inner `none` = "not a float" -/
def boundOf (s : Bytes) : Option (Option Bound) :=
  let (excl, num) := match s with
    | 40 :: r => (true, r)
    | r => (false, r)
  match Grammar.parseF64 num with
  | none => some none
  | some bits =>
    if Grammar.f64IsNan bits then some none
    else match scoreOfBits bits with
      | some sc => some (some { excl := excl, v := sc })
      | none => none

/-! ## `Command` → M7 command -/

def strs : List Tok → Option (List Nat)
  | [] => some []
  | .s b :: ts => (strs ts).map (keyCode b :: ·)
  | _ => none

def sdss : List Tok → Option (List Bytes)
  | [] => some []
  | .d b :: ts => (sdss ts).map (b :: ·)
  | _ => none

def strSds : List Tok → Option (List (Nat × Bytes))
  | [] => some []
  | .s k :: .d v :: ts => (strSds ts).map ((keyCode k, v) :: ·)
  | _ => none

def sdsSds : List Tok → Option (List (Nat × Bytes))
  | [] => some []
  | .d f :: .d v :: ts => (sdsSds ts).map ((keyCode f, v) :: ·)
  | _ => none

/-- (score, member)* followed by the five ZADD flags -/
def zpairs : Nat → List Tok → Option (List (Bytes × Score) × List Tok)
  | 0, ts => some ([], ts)
  | n + 1, .f bits :: .d m :: ts =>
    match scoreOfBits bits, zpairs n ts with
    | some sc, some (ps, rest) => some ((m, sc) :: ps, rest)
    | _, _ => none
  | _, _ => none

def side? (w : Bytes) : Option Redis.Side :=
  if w = Grammar.s2b "LEFT" then some .left else if w = Grammar.s2b "RIGHT" then some .right else none

/-- the one expiry option of SET / GETEX: (ex, px, exat, pxat) tokens -/
def oneExpiry (ex px exat pxat : Tok) : Option (Option (Nat × Int)) :=
  match ex, px, exat, pxat with
  | .none, .none, .none, .none => some none
  | .i v, .none, .none, .none => some (some (0, v))
  | .none, .i v, .none, .none => some (some (1, v))
  | .none, .none, .i v, .none => some (some (2, v))
  | .none, .none, .none, .i v => some (some (3, v))
  | _, _, _, _ => none

def noFlags : Redis.ExpFlags := { nx := false, xx := false, gt := false, lt := false }

/-- the M7 command a parsed `Command` denotes (`none`: outside the composed model, see the header) -/
def toCmd7 (c : Grammar.Cmd) : Option Redis.Cmd :=
  let is (n : String) : Bool := c.ctor == Grammar.s2b n
  match c.toks with
  | [] =>
    if is "DbSize" then some .dbsize else if is "FlushDb" then some .flushdb
    else if is "FlushAll" then some .flushall else none
  | [.s k] =>
    let k := keyCode k
    if is "Get" then some (.get k) else if is "StrLen" then some (.strlen k)
    else if is "GetDel" then some (.getdel k) else if is "Incr" then some (.incr k)
    else if is "Decr" then some (.decr k) else if is "TypeOf" then some (.type k)
    else if is "Ttl" then some (.ttl k) else if is "Pttl" then some (.pttl k)
    else if is "ExpireTime" then some (.expiretime k) else if is "PExpireTime" then some (.pexpiretime k)
    else if is "Persist" then some (.persist k) else if is "LPop" then some (.lpop k)
    else if is "RPop" then some (.rpop k) else if is "LLen" then some (.llen k)
    else if is "SMembers" then some (.smembers k) else if is "SCard" then some (.scard k)
    else if is "HGetAll" then some (.hgetall k) else if is "HKeys" then some (.hkeys k)
    else if is "HVals" then some (.hvals k) else if is "HLen" then some (.hlen k)
    else if is "ZCard" then some (.zcard k)
    else if is "Keys" then (if c.toks = [.s [42]] then some .keys else none)
    else none
  | [.s k, .none] => if is "Sort" then some (.sort (keyCode k) none) else none
  | [.s a, .s b] =>
    if is "Rename" then some (.rename (keyCode a) (keyCode b))
    else if is "RenameNx" then some (.renamenx (keyCode a) (keyCode b))
    else if is "RPopLPush" then some (.rpoplpush (keyCode a) (keyCode b))
    else if is "Sort" then some (.sort (keyCode a) (some (keyCode b)))
    else none
  | [.s k, .d v] =>
    let k := keyCode k
    if is "SetNx" then some (.setnx k v) else if is "Append" then some (.append k v)
    else if is "GetSet" then some (.getset k v)
    else if is "SIsMember" then some (.sismember k (keyCode v))
    else if is "HGet" then some (.hget k (keyCode v)) else if is "HExists" then some (.hexists k (keyCode v))
    else if is "ZScore" then some (.zscore k v) else if is "ZRank" then some (.zrank k v)
    else none
  | [.s k, .i n] =>
    let k := keyCode k
    if is "IncrBy" then some (.incrby k n) else if is "DecrBy" then some (.decrby k n)
    else if is "LIndex" then some (.lindex k n)
    else if is "ExpireAt" then some (.expireat k n noFlags)
    else if is "PExpireAt" then some (.pexpireat k n noFlags)
    else none
  | [.s k, .i a, .i b] =>
    let k := keyCode k
    if is "GetRange" then some (.getrange k a b) else if is "LRange" then some (.lrange k a b)
    else if is "LTrim" then some (.ltrim k a b) else none
  | [.s k, .i i, .d v] => if is "LSet" then some (.lset (keyCode k) i v) else none
  | [.s k, .n off, .d v] => if is "SetRange" then some (.setrange (keyCode k) off v) else none
  | [.s k, .d f, .i d] => if is "HIncrBy" then some (.hincrby (keyCode k) (keyCode f) d) else none
  | [.s k, .i a, .i b, .b ws] =>
    if is "ZRange" then some (.zrange (keyCode k) a b ws)
    else if is "ZRevRange" then some (.zrevrange (keyCode k) a b ws) else none
  | [.s a, .s b, .s wf, .s wt] =>
    if is "LMove" then
      match side? wf, side? wt with
      | some f, some t => some (.lmove (keyCode a) (keyCode b) f t)
      | _, _ => none
    else none
  | [.s k, .s lo, .s hi] =>
    if is "ZCount" then
      match boundOf lo, boundOf hi with
      | some l, some h => some (.zcount (keyCode k) l h)
      | _, _ => none
    else none
  | [.s k, .i n, .b nx, .b xx, .b gt, .b lt] =>
    let f : Redis.ExpFlags := { nx := nx, xx := xx, gt := gt, lt := lt }
    if is "Expire" then some (.expire (keyCode k) n f)
    else if is "PExpire" then some (.pexpire (keyCode k) n f) else none
  | [.s k, ex, px, exat, pxat, .b persist] =>
    if is "GetEx" then
      match oneExpiry ex px exat pxat with
      | some none => some (.getex (keyCode k) (if persist then .persist else .none))
      | some (some (0, v)) => if persist then none else some (.getex (keyCode k) (.ex v))
      | some (some (1, v)) => if persist then none else some (.getex (keyCode k) (.px v))
      | some (some (2, v)) => if persist then none else some (.getex (keyCode k) (.exat v))
      | some (some (_, v)) => if persist then none else some (.getex (keyCode k) (.pxat v))
      | none => none
    else none
  | [.s k, .d v, ex, px, exat, pxat, .b nx, .b xx, .b get, .b keepttl] =>
    if is "Set" then
      let cond : Redis.SetCond := if nx then .nx else if xx then .xx else .always
      match oneExpiry ex px exat pxat with
      | some none => some (.set (keyCode k) v cond (if keepttl then .keepttl else .none) get)
      | some (some (0, e)) => some (.set (keyCode k) v cond (.ex e) get)
      | some (some (1, e)) => some (.set (keyCode k) v cond (.px e) get)
      | some (some (2, e)) => some (.set (keyCode k) v cond (.exat e) get)
      | some (some (_, e)) => some (.set (keyCode k) v cond (.pxat e) get)
      | none => none
    else none
  | .len _ :: rest =>
    if is "MGet" then (strs rest).map .mget
    else if is "Del" then (strs rest).map .del
    else if is "Exists" then (strs rest).map .exists
    else if is "MSet" then (strSds rest).map .mset
    else if is "MSetNx" then (strSds rest).map .msetnx
    else none
  | .s k :: .len n :: rest =>
    let k := keyCode k
    if is "LPush" then (sdss rest).map (.lpush k)
    else if is "RPush" then (sdss rest).map (.rpush k)
    else if is "SAdd" then (sdss rest).map (fun ms => .sadd k (ms.map keyCode))
    else if is "SRem" then (sdss rest).map (fun ms => .srem k (ms.map keyCode))
    else if is "HDel" then (sdss rest).map (fun fs => .hdel k (fs.map keyCode))
    else if is "ZRem" then (sdss rest).map (.zrem k)
    else if is "HSet" then (sdsSds rest).map (.hset k)
    else if is "ZAdd" then
      match zpairs n rest with
      | some (ps, [.b nx, .b xx, .b gt, .b lt, .b ch]) =>
        some (.zadd k { nx := nx, xx := xx, gt := gt, lt := lt, ch := ch } ps)
      | _ => none
    else none
  | .s k :: .s mn :: .s mx :: .b ws :: lim =>
    if is "ZRangeByScore" then
      match boundOf mn, boundOf mx with
      | some l, some h =>
        match lim with
        | [.none] => some (.zrangebyscore (keyCode k) l h ws none)
        | [.i off, .n cnt] => some (.zrangebyscore (keyCode k) l h ws (some (off, cnt)))
        | _ => none
      | _, _ => none
    else none
  | _ => none

/-! ## M7 reply → `RespValue` → bytes -/

/-- the class representative of the executor's error texts (the correspondence compares error
    replies by class: the exact texts are C16's / C01's subject) -/
def errText7 : Redis.Err → Bytes
  | .wrongType => Grammar.s2b "WRONGTYPE Operation against a key holding the wrong kind of value"
  | .notInt => Grammar.s2b "ERR value is not an integer or out of range"
  | .overflow => Grammar.s2b "ERR increment or decrement would overflow"
  | .invalidExpire => Grammar.s2b "ERR invalid expire time"
  | .badFlags => Grammar.s2b "ERR options are not compatible"
  | .noSuchKey => Grammar.s2b "ERR no such key"
  | .indexRange => Grammar.s2b "ERR index out of range"
  | .hashNotInt => Grammar.s2b "ERR hash value is not an integer"
  | .tooLong => Grammar.s2b "ERR string exceeds maximum allowed size"
  | .syntax => Grammar.s2b "ERR syntax error"
  | .notFloat => Grammar.s2b "ERR min or max is not a float"
  | .outOfRange => Grammar.s2b "ERR value is out of range, must be positive"
  | .notDouble => Grammar.s2b "ERR One or more scores can't be converted into double"

def elemVal : Redis.Elem → Resp.Val
  | .bulk b => .bulk b
  | .key c => .bulk (Redis.codeBytes c)
  | .nil => .nullBulk
  | .int i => .int i

def replyVal : Redis.Reply → Resp.Val
  | .simple s => .simple (Grammar.s2b s)
  | .err e => .error (errText7 e)
  | .int i => .int i
  | .bulk b => .bulk b
  | .key c => .bulk (Redis.codeBytes c)
  | .nil => .nullBulk
  | .arr l => .array (l.map elemVal)

/-- what the connection handler writes for a reply value (`encode_resp_into`, encoder 3 of C15) -/
def encodeReply (r : Redis.Reply) : Bytes := Resp.encode3 (replyVal r)

/-- what it writes for a frame the parser rejects (`encode_error_into(&e)`); a panic of the
    parser has no reply -/
def encodeParseErr (e : Grammar.Err) : Option Bytes := e.text.map Resp.encodeErr

/-! ## one node -/

open Shards Shards.M7

/-- the reply the node gives to one frame -/
inductive Out
  /-- bytes written to the client -/
  | bytes (b : Bytes)
  /-- the parser panicked (no table entry does since the SCAN / EVAL fixes) -/
  | crash
  /-- the command is outside the composed model (`toCmd7 = none`): nothing is claimed -/
  | outside
  /-- a sharding-layer reply without M7 reading (never for supported commands: `Props/Server.lean`) -/
  | unmapped
  deriving DecidableEq, Repr

/-- which frames the connection handler's recognisers send down the fast path.  The recognisers
    themselves are byte-level (C04, `Model/Conn.lean`); here only what they may select: a plain
    `GET key` (two bulks) resp. a plain `SET key value` (three bulks) — `ClsOk` in `Props/Server.lean`.
    (On the current tree the recognisers never fire on a well-formed frame: `HEADER_LEN` is one byte
    too long, so `classify = fun _ => .generic`; the theorems hold for every admissible `classify`.) -/
abbrev Classify := Frame → FrameClass

/-- the reply of a ONE-item batch, as the connection handler writes it (each item separately) -/
def unwrap1 : Reply → Reply
  | .many [r] => .one r
  | r => r

/-- a command of the sharding model at time `now`: the shards that get a message adopt the time -/
def execSc (R : Routes) (now : Nat) (st : Shards Redis.Entry) (sc : Cmd sig7) : Shards Redis.Entry × Reply :=
  execN exec7 R true (sweep (recv R sc) now st) sc

/-- the N-shard node answers one command via the entry point the frame class selects -/
def execVia (R : Routes) (cls : FrameClass) (now : Nat) (st : Shards Redis.Entry) (c : Redis.Cmd) :
    Shards Redis.Entry × Reply :=
  match dispatch cls, c with
  | .pooledFastGet, .get k => execSc R now st (.fastGet k)
  | .pooledFastSet, .set k v .always .none false => execSc R now st (.fastSet k v)
  -- an item of a batched call (`fast_batch_get_pipeline` / `fast_batch_set_pipeline`)
  | .fastBatchGetPipeline, .get k =>
    let r := execSc R now st (.batchGet [k]); (r.1, unwrap1 r.2)
  | .fastBatchSetPipeline, .set k v .always .none false =>
    let r := execSc R now st (.batchSet [(k, v)]); (r.1, unwrap1 r.2)
  | _, c => execNT7code R now st c

/-- one frame at virtual time `now` -/
def handle (R : Routes) (classify : Classify) (st : Shards Redis.Entry) (now : Nat) (f : Frame) :
    Shards Redis.Entry × Out :=
  match Grammar.parseCmdZc f with
  | .error e =>
    match encodeParseErr e with
    | some b => (st, .bytes b)
    | none => (st, .crash)
  | .ok gc =>
    match toCmd7 gc with
    | none => (st, .outside)
    | some c =>
      let r := execVia R (classify f) now st c
      match toM7 r.2 with
      | some rr => (r.1, .bytes (encodeReply rr))
      | none => (r.1, .unmapped)

/-- **the seam**: the node on a list of command frames, each with the virtual time it was read at -/
def run (R : Routes) (classify : Classify) (st : Shards Redis.Entry) :
    List (Nat × Frame) → Shards Redis.Entry × List Out
  | [] => (st, [])
  | (now, f) :: fs =>
    let r := handle R classify st now f
    let rs := run R classify r.1 fs
    (rs.1, r.2 :: rs.2)

/-- the specification: parse, denote, run on ONE M7 store, encode -/
def specHandle (s : Redis.State) (now : Nat) (f : Frame) : Redis.State × Out :=
  match Grammar.parseCmdZc f with
  | .error e =>
    match encodeParseErr e with
    | some b => (s, .bytes b)
    | none => (s, .crash)
  | .ok gc =>
    match toCmd7 gc with
    | none => (s, .outside)
    | some c =>
      let r := Redis.step s now c
      (r.1, .bytes (encodeReply r.2))

def specRun (s : Redis.State) : List (Nat × Frame) → Redis.State × List Out
  | [] => (s, [])
  | (now, f) :: fs =>
    let r := specHandle s now f
    let rs := specRun r.1 fs
    (rs.1, r.2 :: rs.2)

/-- a frame the exact-bytes theorem covers: it parses to a command of the composed model that is
    `Routable7` (not RANDOMKEY; two-key commands / MSETNX with their keys on one shard) and is not
    KEYS (whose reply order depends on the shard count: equal up to order, `replyEqv7`) -/
def Supported (R : Routes) (f : Frame) : Bool :=
  match Grammar.parseCmdZc f with
  | .error _ => true
  | .ok gc =>
    match toCmd7 gc with
    | none => true
    | some .keys => false
    | some c => Routable7 R c

def MonoF : Nat → List (Nat × Frame) → Prop
  | _, [] => True
  | t, (now, _) :: fs => t ≤ now ∧ MonoF now fs

def decMonoF : (t : Nat) → (l : List (Nat × Frame)) → Decidable (MonoF t l)
  | _, [] => isTrue trivial
  | t, (now, _) :: fs =>
    match Nat.decLe t now, decMonoF now fs with
    | isTrue h1, isTrue h2 => isTrue ⟨h1, h2⟩
    | isFalse h, _ => isFalse (fun x => h x.1)
    | _, isFalse h => isFalse (fun x => h x.2)

instance (t : Nat) (l : List (Nat × Frame)) : Decidable (MonoF t l) := decMonoF t l

end Server
end RedisVerif
