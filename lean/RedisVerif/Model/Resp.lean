/-
  M6 (RESP part) — byte-exact model of the two RESP decoders and the three encoders of
  nerdsane/redis-rust, AS THE CODE IS (defects included).

    codec 1 = `RespCodec::parse` / `try_parse`      /repo/src/redis/resp_optimized.rs
    codec 2 = `RespParser::parse`                   /repo/src/redis/resp.rs
    encoder 1 = `RespCodec::encode`                 resp_optimized.rs:135
    encoder 2 = `RespParser::encode`                resp.rs:120
    encoder 3 = `encode_resp_into`                  production/connection_optimized.rs:1422
    encoder 4 = `SimulatedConnection::encode_resp`  simulator/connection.rs:476
    encoder 5 = `encode_resp_into`                  bin/server_persistent.rs:938 (+ its encode_error_into)
    encoder 6 = `SimulatedReadBuffer::encode_command` (client side: commands as frames) simulator/connection.rs:99

  Bytes are `List Nat` (every element < 256 for inputs that exist; the model is total for
  any `Nat`).  `usize` arithmetic is that of a 64-bit *release* build: `+` wraps modulo
  2^64 (`W`), `i64 as usize` is reduction modulo 2^64, an out-of-range slice panics.
  A panic / abort of the Rust code is an explicit `Outcome.crash`, never a totalised default.

  The two decoders differ in a few places only, which are the fields of `Codec`; both are the
  generic transcription `parseG` instantiated (`parse1`, `parse2`).  `codec1` / `codec2` are the
  decoders AFTER the fix commits (negative lengths rejected, pre-allocation capped by the input,
  nesting limited to 32, `find_crlf` searching past a lone CR); `codec1Pinned` / `codec2Pinned` are
  the decoders as they were before, kept so that the counterexamples about the pinned behaviour
  stay checked statements about the same generic transcription.  The machine's resources
  are explicit (`Env`): `depth` = number of decoder stack frames that fit on the thread's
  stack (the Rust recursion has no limit of its own: frame `depth+1` is a stack overflow,
  i.e. SIGSEGV/abort), `mem` = size of the largest single allocation request the allocator
  grants (a refused request is `handle_alloc_error` = abort).
-/
namespace RedisVerif.Resp

abbrev Bytes := List Nat

/-- 2^64: modulus of `usize` arithmetic in a release build -/
def W : Nat := 18446744073709551616
/-- `isize::MAX`: `Vec::with_capacity` panics ("capacity overflow") above this many bytes -/
def isizeMax : Nat := 9223372036854775807
/-- `size_of::<RespValueZeroCopy>()` (checked against the real type by the harness, op `Z`) -/
def elemSize : Nat := 40

/-- decoded value (both `RespValueZeroCopy` and `RespValue`; strings as their bytes) -/
inductive Val where
  | simple (s : Bytes)
  | error (s : Bytes)
  | int (n : Int)
  | nullBulk
  | bulk (b : Bytes)
  | nullArray
  | array (a : List Val)
  deriving Repr, Inhabited

/-- which "need more bytes" branch was taken (codec 1 reports all of them as `Incomplete`,
    codec 2 as three different `Err` strings) -/
inductive Inc where
  | empty      -- empty input ("Empty input" / Ok(None))
  | noCrlf     -- no line terminator found ("No CRLF found")
  | short      -- bulk payload not complete ("Incomplete bulk string")
  | elems      -- codec 1 only: `offset >= input.len()` inside an array
  deriving DecidableEq, Repr

inductive Err where
  | unknownType   -- "Unknown RESP type"
  | badInt        -- integer / length field is not an i64 (utf-8 error or ParseIntError)
  | badLen        -- "Invalid bulk length" / "Invalid array length": a length below -1
  | tooDeep       -- "Nesting too deep": arrays nested deeper than MAX_NESTING_DEPTH
  deriving DecidableEq, Repr

inductive Crash where
  | sliceOOB          -- slice index out of range / start > end
  | capacityOverflow  -- `Vec::with_capacity`: more than isize::MAX bytes
  | allocAbort        -- allocation request refused: handle_alloc_error → abort
  | stackOverflow     -- recursion deeper than the stack
  deriving DecidableEq, Repr

inductive Outcome where
  | ok (v : Val) (consumed : Nat)
  | incomplete (k : Inc)
  | error (k : Err)
  | crash (k : Crash)
  deriving Repr, Inhabited

def Outcome.isCrash : Outcome → Bool
  | .crash _ => true
  | _ => false

def Outcome.isIncomplete : Outcome → Bool
  | .incomplete _ => true
  | _ => false

def Outcome.errKind : Outcome → Option Err
  | .error k => some k
  | _ => none

def Outcome.crashKind : Outcome → Option Crash
  | .crash k => some k
  | _ => none

def Outcome.isOk : Outcome → Bool
  | .ok _ _ => true
  | _ => false

/-- result of one decoder call: the outcome and the list of allocation requests (bytes) that
    were driven by the input: `Vec::with_capacity(len)` and every copy of a slice -/
structure Res where
  out : Outcome
  allocs : List Nat
  deriving Repr, Inhabited

def Res.alloc (r : Res) : Nat := r.allocs.sum

structure Env where
  depth : Nat
  mem : Nat
  deriving Repr

/-! ## line terminator search -/

/-- codec 1 `find_crlf`: `memchr('\r')`, then "is the next byte '\n'" — gives up at the FIRST
    '\r' (a lone CR hides every later CRLF) -/
def findCrlf1 : Bytes → Option Nat
  | [] => none
  | b :: rest =>
    if b = 13 then (if rest.head? = some 10 then some 0 else none)
    else (findCrlf1 rest).map (· + 1)

/-- codec 2 `find_crlf`: first index i with input[i] = '\r' and input[i+1] = '\n' -/
def findCrlf2 : Bytes → Option Nat
  | [] => none
  | [_] => none
  | a :: b :: rest =>
    if a = 13 ∧ b = 10 then some 0 else (findCrlf2 (b :: rest)).map (· + 1)

/-! ## `str::parse::<i64>()` -/

def isDigit (b : Nat) : Bool := 48 ≤ b && b ≤ 57

/-- value of a digit string, `none` if a byte is not an ASCII digit -/
def digitsVal : Bytes → Option Nat
  | ds => ds.foldl (fun acc b => match acc with
      | none => none
      | some a => if isDigit b then some (a * 10 + (b - 48)) else none) (some 0)

/-- Rust `i64::from_str` on the bytes of the field (any non-ASCII byte is an error in both
    codecs: codec 1 fails in `from_utf8` or in `parse`, codec 2 turns it into U+FFFD which is
    no digit): optional sign, at least one digit, only digits, value within i64 -/
def parseI64 : Bytes → Option Int
  | [] => none
  | b :: rest =>
    if b = 43 then
      (if rest = [] then none else
        match digitsVal rest with
        | some n => if n ≤ 9223372036854775807 then some (Int.ofNat n) else none
        | none => none)
    else if b = 45 then
      (if rest = [] then none else
        match digitsVal rest with
        | some n => if n ≤ 9223372036854775808 then some (- Int.ofNat n) else none
        | none => none)
    else
      match digitsVal (b :: rest) with
      | some n => if n ≤ 9223372036854775807 then some (Int.ofNat n) else none
      | none => none

/-- `len as usize` for `len : i64` -/
def asUsize (n : Int) : Nat := (n % (W : Int)).toNat

/-! ## `String::from_utf8_lossy` (codec 2 simple strings / errors) -/

def isCont (x : Nat) : Bool := 128 ≤ x && x < 192

/-- second byte admissible after a 3-byte lead (core::str::lossy) -/
def ok3 (b c : Nat) : Bool :=
  (b = 224 && 160 ≤ c && c ≤ 191) || (225 ≤ b && b ≤ 236 && 128 ≤ c && c ≤ 191) ||
  (b = 237 && 128 ≤ c && c ≤ 159) || (238 ≤ b && b ≤ 239 && 128 ≤ c && c ≤ 191)

/-- second byte admissible after a 4-byte lead -/
def ok4 (b c : Nat) : Bool :=
  (b = 240 && 144 ≤ c && c ≤ 191) || (241 ≤ b && b ≤ 243 && 128 ≤ c && c ≤ 191) ||
  (b = 244 && 128 ≤ c && c ≤ 143)

/-- U+FFFD in UTF-8 -/
def fffd : Bytes := [239, 191, 189]

/-- `String::from_utf8_lossy(bytes)` as bytes: every maximal invalid subsequence becomes U+FFFD
    (transcribes `Utf8Chunks::next`) -/
def utf8Lossy : Bytes → Bytes
  | [] => []
  | b :: rest =>
    if b < 128 then b :: utf8Lossy rest
    else if 194 ≤ b ∧ b ≤ 223 then
      match rest with
      | [] => fffd
      | c1 :: r1 => if isCont c1 then b :: c1 :: utf8Lossy r1 else fffd ++ utf8Lossy (c1 :: r1)
    else if 224 ≤ b ∧ b ≤ 239 then
      match rest with
      | [] => fffd
      | c1 :: r1 =>
        if ok3 b c1 then
          match r1 with
          | [] => fffd
          | c2 :: r2 => if isCont c2 then b :: c1 :: c2 :: utf8Lossy r2 else fffd ++ utf8Lossy (c2 :: r2)
        else fffd ++ utf8Lossy (c1 :: r1)
    else if 240 ≤ b ∧ b ≤ 244 then
      match rest with
      | [] => fffd
      | c1 :: r1 =>
        if ok4 b c1 then
          match r1 with
          | [] => fffd
          | c2 :: r2 =>
            if isCont c2 then
              match r2 with
              | [] => fffd
              | c3 :: r3 =>
                if isCont c3 then b :: c1 :: c2 :: c3 :: utf8Lossy r3 else fffd ++ utf8Lossy (c3 :: r3)
            else fffd ++ utf8Lossy (c2 :: r2)
        else fffd ++ utf8Lossy (c1 :: r1)
    else fffd ++ utf8Lossy rest

/-- `std::str::from_utf8(bytes).is_ok()`: well-formed UTF-8 (no overlong form, no surrogate,
    nothing above U+10FFFF) — the same byte classes as `utf8Lossy` -/
def validUtf8 : Bytes → Bool
  | [] => true
  | b :: rest =>
    if b < 128 then validUtf8 rest
    else if 194 ≤ b ∧ b ≤ 223 then
      (match rest with
       | c1 :: r1 => isCont c1 && validUtf8 r1
       | [] => false)
    else if 224 ≤ b ∧ b ≤ 239 then
      (match rest with
       | c1 :: c2 :: r2 => ok3 b c1 && isCont c2 && validUtf8 r2
       | _ => false)
    else if 240 ≤ b ∧ b ≤ 244 then
      (match rest with
       | c1 :: c2 :: c3 :: r3 => ok4 b c1 && isCont c2 && isCont c3 && validUtf8 r3
       | _ => false)
    else false

/-! ## the command-name extractor of the shadow proxy (`src/bin/shadow_proxy.rs::parse_resp_command`)

A third, hand-written reader of client frames: the proxy takes the NAME of a command out of a client
frame for its logs / statistics (no reply is built from it): first byte `*`, the whole buffer valid
UTF-8, `split("\r\n")`, at least three pieces, the second begins with `$` → the third, upper-cased. -/

/-- `s.split("\r\n")`: the pieces between non-overlapping CR LF pairs, left to right (n pairs → n + 1 pieces) -/
def splitCrlf : Bytes → List Bytes
  | [] => [[]]
  | [x] => [[x]]
  | x :: y :: rest =>
    if x = 13 ∧ y = 10 then [] :: splitCrlf rest
    else
      match splitCrlf (y :: rest) with
      | [] => [[x]]
      | p :: ps => (x :: p) :: ps

/-- ASCII upper-casing (`str::to_uppercase` restricted to ASCII strings) -/
def upperA (b : Bytes) : Bytes := b.map (fun c => if 97 ≤ c ∧ c ≤ 122 then c - 32 else c)

/-- `parse_resp_command(data)` -/
def proxyName (data : Bytes) : Option Bytes :=
  if data.head? ≠ some 42 then none
  else if ¬ validUtf8 data then none
  else
    match splitCrlf data with
    | _ :: l1 :: l2 :: _ => if l1.head? = some 36 then some (upperA l2) else none
    | _ => none

/-! ## the decoders -/

/-- the places where the decoders (two codecs, before / after the fixes) differ -/
structure Codec where
  /-- line terminator search -/
  findCrlf : Bytes → Option Nat
  /-- what a simple string / error line becomes: the bytes themselves (`Bytes::copy_from_slice`)
      or `String::from_utf8_lossy` -/
  str : Bytes → Bytes
  /-- `Vec::with_capacity(…)` before the element loop (codec 1) vs `Vec::new()` -/
  prealloc : Bool
  /-- `if offset >= input.len() { return Err("Incomplete") }` at the top of the element loop
      (codec 1); codec 2 slices `&input[offset..]` directly -/
  emptyCheck : Bool
  /-- `if len < 0 { return Err("Invalid bulk length") }` after the `len == -1` test -/
  bulkNegCheck : Bool
  /-- `if len < 0 { return Err("Invalid array length") }` after the `len == -1` test (codec 1) -/
  arrayNegCheck : Bool
  /-- `with_capacity((len as usize).min((input.len() - (pos + 2)) / 3))` instead of
      `with_capacity(len as usize)` -/
  capPrealloc : Bool
  /-- `MAX_NESTING_DEPTH`: an array below that many enclosing arrays is "Nesting too deep";
      `none` = no limit -/
  maxNest : Option Nat

/-- `MAX_NESTING_DEPTH` -/
def maxNesting : Nat := 32

/-- `RespCodec` after the fixes -/
def codec1 : Codec :=
  { findCrlf := findCrlf2, str := id, prealloc := true, emptyCheck := true,
    bulkNegCheck := true, arrayNegCheck := true, capPrealloc := true, maxNest := some maxNesting }
/-- `RespParser` after the fixes -/
def codec2 : Codec :=
  { findCrlf := findCrlf2, str := utf8Lossy, prealloc := false, emptyCheck := false,
    bulkNegCheck := true, arrayNegCheck := false, capPrealloc := false, maxNest := some maxNesting }
/-- `RespCodec` as it was before the fix commits -/
def codec1Pinned : Codec :=
  { findCrlf := findCrlf1, str := id, prealloc := true, emptyCheck := true,
    bulkNegCheck := false, arrayNegCheck := false, capPrealloc := false, maxNest := none }
/-- `RespParser` as it was before the fix commits -/
def codec2Pinned : Codec :=
  { findCrlf := findCrlf2, str := utf8Lossy, prealloc := false, emptyCheck := false,
    bulkNegCheck := false, arrayNegCheck := false, capPrealloc := false, maxNest := none }

/-- `&input[1..pos]`; `none` = the slice panics (1 > pos) -/
def field (input : Bytes) (pos : Nat) : Option Bytes :=
  if pos = 0 then none else some ((input.take pos).drop 1)

/-- result of the element loop of `parse_array` -/
inductive ElemsOut where
  | ok (vs : List Val) (consumed : Nat)
  | stop (o : Outcome)      -- an element did not decode: propagated by `?`
  deriving Repr, Inhabited

/-- `for _ in 0..len { … try_parse(&input[offset..]) … offset += consumed }` with
    `rest = input[offset..]`; `p` is the decoder for one element (one stack frame deeper).
    Returns the elements, the bytes consumed by them, and the allocation requests made. -/
def elems (p : Bytes → Res) (emptyCheck : Bool) : Nat → Bytes → ElemsOut × List Nat
  | 0, _ => (.ok [] 0, [])
  | n + 1, rest =>
    if emptyCheck ∧ rest = [] then (.stop (.incomplete .elems), [])
    else
      let r := p rest
      match r.out with
      | .ok v k =>
        -- codec 2: the next `&input[offset..]` panics if the element over-read (offset > len);
        -- codec 1 tests `offset >= len` first (here: `rest.drop k = []`)
        if k > rest.length ∧ n ≠ 0 ∧ ¬ emptyCheck then (.stop (.crash .sliceOOB), r.allocs)
        else
          match elems p emptyCheck n (rest.drop k) with
          | (.ok vs k', a) => (.ok (v :: vs) (k + k'), r.allocs ++ a)
          | (.stop o, a) => (.stop o, r.allocs ++ a)
      | o => (.stop o, r.allocs)

/-- `+…\r\n` / `-…\r\n` -/
def parseLine (c : Codec) (mk : Bytes → Val) (input : Bytes) : Res :=
  match c.findCrlf input with
  | none => ⟨.incomplete .noCrlf, []⟩
  | some pos =>
    match field input pos with
    | none => ⟨.crash .sliceOOB, []⟩
    | some s => ⟨.ok (mk (c.str s)) (pos + 2), [(c.str s).length]⟩

/-- `:…\r\n` -/
def parseInt (c : Codec) (input : Bytes) : Res :=
  match c.findCrlf input with
  | none => ⟨.incomplete .noCrlf, []⟩
  | some pos =>
    match field input pos with
    | none => ⟨.crash .sliceOOB, []⟩
    | some s =>
      match parseI64 s with
      | none => ⟨.error .badInt, []⟩
      | some n => ⟨.ok (.int n) (pos + 2), []⟩

/-- `$len\r\n…\r\n` — the trailing CRLF is counted but never looked at; `len < -1` is not
    rejected: `len as usize` wraps, `start + len` wraps, the slice panics -/
def parseBulk (c : Codec) (input : Bytes) : Res :=
  match c.findCrlf input with
  | none => ⟨.incomplete .noCrlf, []⟩
  | some pos =>
    match field input pos with
    | none => ⟨.crash .sliceOOB, []⟩
    | some s =>
      match parseI64 s with
      | none => ⟨.error .badInt, []⟩
      | some n =>
        if n = -1 then ⟨.ok .nullBulk (pos + 2), []⟩
        else if c.bulkNegCheck ∧ n < 0 then ⟨.error .badLen, []⟩
        else
          let len := asUsize n
          let start := pos + 2
          let end_ := (start + len) % W
          if (end_ + 2) % W > input.length then ⟨.incomplete .short, []⟩
          else if start > end_ ∨ end_ > input.length then ⟨.crash .sliceOOB, []⟩
          else ⟨.ok (.bulk ((input.take end_).drop start)) ((end_ + 2) % W), [end_ - start]⟩

/-- codec 1: bytes requested by `Vec::with_capacity(…)` (40-byte elements) for a declared length
    `n` when `rem` bytes follow the header; codec 2 (`Vec::new()`): nothing -/
def preReq (c : Codec) (n : Int) (rem : Nat) : Nat :=
  if c.prealloc then (if c.capPrealloc then min (asUsize n) (rem / 3) else asUsize n) * elemSize else 0

/-- `with_capacity(0)` does not allocate -/
def preList (req : Nat) : List Nat := if req = 0 then [] else [req]

/-- `*len\r\n` followed by `len` values; `p` decodes one element -/
def parseArray (c : Codec) (mem : Nat) (p : Bytes → Res) (input : Bytes) : Res :=
  match c.findCrlf input with
  | none => ⟨.incomplete .noCrlf, []⟩
  | some pos =>
    match field input pos with
    | none => ⟨.crash .sliceOOB, []⟩
    | some s =>
      match parseI64 s with
      | none => ⟨.error .badInt, []⟩
      | some n =>
        if n = -1 then ⟨.ok .nullArray (pos + 2), []⟩
        else if c.arrayNegCheck ∧ n < 0 then ⟨.error .badLen, []⟩
        -- `Vec::with_capacity`: "capacity overflow" panic above isize::MAX bytes; an uncapped
        -- request that the allocator refuses is an abort (a capped request is at most 14 times
        -- the bytes already buffered: like every copy it is assumed to be granted)
        else if preReq c n (input.length - (pos + 2)) > isizeMax then ⟨.crash .capacityOverflow, []⟩
        else if ¬ c.capPrealloc ∧ preReq c n (input.length - (pos + 2)) ≥ mem ∧
            preReq c n (input.length - (pos + 2)) ≠ 0 then
          ⟨.crash .allocAbort, [preReq c n (input.length - (pos + 2))]⟩
        else
          -- `for _ in 0..len` with `len : i64`: no iteration when negative
          match elems p c.emptyCheck n.toNat (input.drop (pos + 2)) with
          | (.ok vs k, a) => ⟨.ok (.array vs) (pos + 2 + k), preList (preReq c n (input.length - (pos + 2))) ++ a⟩
          | (.stop o, a) => ⟨o, preList (preReq c n (input.length - (pos + 2))) ++ a⟩

/-- `depth >= MAX_NESTING_DEPTH` at the top of `parse_array` -/
def tooDeep (c : Codec) (nest : Nat) : Bool :=
  match c.maxNest with
  | some m => decide (m ≤ nest)
  | none => false

/-- `try_parse_nested` / `RespParser::parse_nested` with `depth` stack frames available, below
    `nest` enclosing arrays -/
def parseD (c : Codec) (mem : Nat) : Nat → Nat → Bytes → Res
  | 0, _, _ => ⟨.crash .stackOverflow, []⟩
  | _ + 1, _, [] => ⟨.incomplete .empty, []⟩
  | d + 1, nest, t :: rest =>
    if t = 43 then parseLine c .simple (t :: rest)
    else if t = 45 then parseLine c .error (t :: rest)
    else if t = 58 then parseInt c (t :: rest)
    else if t = 36 then parseBulk c (t :: rest)
    else if t = 42 then
      (if tooDeep c nest then ⟨.error .tooDeep, []⟩
       else parseArray c mem (parseD c mem d (nest + 1)) (t :: rest))
    else ⟨.error .unknownType, []⟩

def parseG (c : Codec) (env : Env) (bs : Bytes) : Res := parseD c env.mem env.depth 0 bs

/-- `RespCodec::parse` (its empty-input test coincides with that of `try_parse`) -/
def parse1 (env : Env) (bs : Bytes) : Res := parseG codec1 env bs
/-- `RespParser::parse` -/
def parse2 (env : Env) (bs : Bytes) : Res := parseG codec2 env bs

/-! ## the encoders -/

/-- decimal digits of a natural number, least significant first (`fuel` > n suffices) -/
def decRev : Nat → Nat → Bytes
  | 0, _ => []
  | f + 1, n => if n < 10 then [48 + n] else (48 + n % 10) :: decRev f (n / 10)

/-- `usize::to_string` / `u64::to_string`: decimal digits, most significant first -/
def dec (n : Nat) : Bytes := (decRev (n + 1) n).reverse

/-- `i64::to_string` -/
def showInt (n : Int) : Bytes := if n < 0 then 45 :: dec n.natAbs else dec n.toNat

def crlf : Bytes := [13, 10]

/-- `put_line` / `encode_line`: CR and LF inside a reply line are written as a space (fix commit
    "never write a raw CR or LF inside a SimpleString / Error reply line"); `san = false` is the
    pinned behaviour (verbatim copy) -/
def sanitize (san : Bool) (s : Bytes) : Bytes :=
  if san then s.map (fun b => if b = 13 ∨ b = 10 then 32 else b) else s

mutual
/-- encoder 2, `RespParser::encode`: builds a fresh vector per node and concatenates -/
def encode2S (san : Bool) : Val → Bytes
  | .simple s => 43 :: sanitize san s ++ crlf
  | .error s => 45 :: sanitize san s ++ crlf
  | .int n => 58 :: showInt n ++ crlf
  | .nullBulk => [36, 45, 49, 13, 10]
  | .bulk b => 36 :: dec b.length ++ crlf ++ b ++ crlf
  | .nullArray => [42, 45, 49, 13, 10]
  | .array a => 42 :: dec a.length ++ crlf ++ encode2ListS san a
/-- `for element in elements { result.extend_from_slice(&Self::encode(element)) }` -/
def encode2ListS (san : Bool) : List Val → Bytes
  | [] => []
  | v :: vs => encode2S san v ++ encode2ListS san vs
end

mutual
/-- encoders 1 and 3 (`RespCodec::encode_into`, `encode_resp_into`): append to a buffer.
    (Their source text is the same up to the value type; `opt-itoa-encode` is off.) -/
def encodeIntoS (san : Bool) : Val → Bytes → Bytes
  | .simple s, buf => buf ++ [43] ++ sanitize san s ++ crlf
  | .error s, buf => buf ++ [45] ++ sanitize san s ++ crlf
  | .int n, buf => buf ++ [58] ++ showInt n ++ crlf
  | .nullBulk, buf => buf ++ [36, 45, 49, 13, 10]
  | .bulk b, buf => buf ++ [36] ++ dec b.length ++ crlf ++ b ++ crlf
  | .nullArray, buf => buf ++ [42, 45, 49, 13, 10]
  | .array a, buf => encodeIntoListS san a (buf ++ [42] ++ dec a.length ++ crlf)
/-- `for elem in elements { Self::encode_into(elem, buf) }` -/
def encodeIntoListS (san : Bool) : List Val → Bytes → Bytes
  | [], buf => buf
  | v :: vs, buf => encodeIntoListS san vs (encodeIntoS san v buf)
end

mutual
/-- encoder 3, `OptimizedConnectionHandler::encode_resp_into` (connection_optimized.rs): the PRIVATE
    encoder every reply of the production server goes through — its own `match`, transcribed arm by
    arm (`opt-itoa-encode` is off).  `merged = true` is the variant in which the two null arms are
    one arm writing `$-1\r\n` (kept for the counterexample `null_array_as_null_bulk_counterexample`);
    the code as it is has `merged = false`. -/
def encodeConnS (san merged : Bool) : Val → Bytes → Bytes
  | .simple s, buf => buf ++ [43] ++ sanitize san s ++ crlf
  | .error s, buf => buf ++ [45] ++ sanitize san s ++ crlf
  | .int n, buf => buf ++ [58] ++ showInt n ++ crlf
  | .nullBulk, buf => buf ++ [36, 45, 49, 13, 10]
  | .bulk b, buf => buf ++ [36] ++ dec b.length ++ crlf ++ b ++ crlf
  | .nullArray, buf => if merged then buf ++ [36, 45, 49, 13, 10] else buf ++ [42, 45, 49, 13, 10]
  | .array a, buf => encodeConnListS san merged a (buf ++ [42] ++ dec a.length ++ crlf)
def encodeConnListS (san merged : Bool) : List Val → Bytes → Bytes
  | [], buf => buf
  | v :: vs, buf => encodeConnListS san merged vs (encodeConnS san merged v buf)
end

/-- the prefixes after which `encode_error_into` does not insert `ERR ` -/
def errPrefixes : List Bytes :=
  [[69, 82, 82, 32], [87, 82, 79, 78, 71, 84, 89, 80, 69, 32], [87, 82, 79, 78, 71, 80, 65, 83, 83, 32],
   [69, 88, 69, 67, 65, 66, 79, 82, 84, 32], [78, 79, 65, 85, 84, 72, 32], [78, 79, 80, 69, 82, 77, 32]]

/-- the error text `encode_error_into` puts on the wire for `msg` (before line sanitising) -/
def errText (msg : Bytes) : Bytes :=
  if errPrefixes.any (fun p => p.isPrefixOf msg) then msg else [69, 82, 82, 32] ++ msg

/-- `OptimizedConnectionHandler::encode_error_into(msg)`: `-`, `ERR ` unless the text already starts
    with a known error prefix, the text through `put_line`, CR LF -/
def encodeErr (msg : Bytes) : Bytes :=
  [45] ++ (if errPrefixes.any (fun p => p.isPrefixOf msg) then [] else [69, 82, 82, 32]) ++ sanitize true msg ++ crlf

/-- the encoders after the fix (lines sanitised) -/
def encode2 (v : Val) : Bytes := encode2S true v
def encode1 (v : Val) : Bytes := encodeIntoS true v []
/-- encoder 3: the connection handler's -/
def encode3 (v : Val) : Bytes := encodeConnS true false v []
/-- encoder 4, `SimulatedConnection::encode_resp` (simulator/connection.rs): the same buffer-appending
    text as `RespCodec::encode_into` over `RespValue` -/
def encode4 (v : Val) : Bytes := encodeIntoS true v []
/-- encoder 5, `encode_resp_into` of the binary src/bin/server_persistent.rs (its own copy of the
    buffer-appending text; the harness compiles that very text, extracted by harness/build.rs) -/
def encode5 (v : Val) : Bytes := encodeIntoS true v []
/-- `encode_error_into` of src/bin/server_persistent.rs: ALWAYS `-ERR ` in front (no prefix table) -/
def encodeErr5 (msg : Bytes) : Bytes := [45] ++ [69, 82, 82, 32] ++ sanitize true msg ++ crlf
/-- the seeded variant of encoder 3: `RespValue::BulkString(None) | RespValue::Array(None)` in one arm -/
def encode3Merged (v : Val) : Bytes := encodeConnS true true v []
/-- the encoders as they were before the fix (lines copied verbatim) -/
def encode2Pinned (v : Val) : Bytes := encode2S false v
def encode1Pinned (v : Val) : Bytes := encodeIntoS false v []

/-! ## the buffer loop (`buffer.extend(chunk); loop { parse(&mut buffer) … }`) -/

inductive Frame where
  | val (v : Val)
  | err (k : Err)         -- protocol error reported
  | crashed (k : Crash)   -- the process is gone
  deriving Repr, Inhabited

/-- drain complete frames from the buffer: `Ok(Some(v))` → frame, advance; `Ok(None)` → wait for
    more bytes; `Err` → report, stop decoding this stream.  Returns frames, the remaining
    buffer, and whether decoding has stopped for good. -/
def drain (p : Bytes → Outcome) : Nat → Bytes → List Frame × Bytes × Bool
  | 0, buf => ([], buf, false)
  | f + 1, buf =>
    match p buf with
    | .ok v k =>
      let (fs, r, d) := drain p f (buf.drop k)
      (.val v :: fs, r, d)
    | .incomplete _ => ([], buf, false)
    | .error e => ([.err e], [], true)
    | .crash k => ([.crashed k], [], true)

structure FeedSt where
  frames : List Frame
  buf : Bytes
  dead : Bool
  deriving Repr

def FeedSt.init : FeedSt := ⟨[], [], false⟩

/-- one network read: append, drain -/
def feed (p : Bytes → Outcome) (st : FeedSt) (chunk : Bytes) : FeedSt :=
  if st.dead then st
  else
    let b := st.buf ++ chunk
    let (fs, r, d) := drain p (b.length + 1) b
    ⟨st.frames ++ fs, r, d⟩

def feedAll (p : Bytes → Outcome) (st : FeedSt) (chunks : List Bytes) : FeedSt :=
  chunks.foldl (feed p) st

/-! ## measures on values -/

mutual
/-- array nesting depth of a value (frames needed to decode it) -/
def Val.depth : Val → Nat
  | .array a => 1 + Val.depthList a
  | _ => 1
def Val.depthList : List Val → Nat
  | [] => 0
  | v :: vs => max v.depth (Val.depthList vs)
end

mutual
/-- array nesting of a value: the number of nested `*` headers on its deepest path (a null
    array is a `*` header too: the depth check comes before the length is read) -/
def Val.arr : Val → Nat
  | .array a => 1 + Val.arrList a
  | .nullArray => 1
  | _ => 0
def Val.arrList : List Val → Nat
  | [] => 0
  | v :: vs => max v.arr (Val.arrList vs)
end

mutual
/-- no reply line of the value contains CR or LF -/
def Val.plain : Val → Bool
  | .simple s => !(s.contains 13) && !(s.contains 10)
  | .error s => !(s.contains 13) && !(s.contains 10)
  | .array a => Val.plainList a
  | _ => true
def Val.plainList : List Val → Bool
  | [] => true
  | v :: vs => v.plain && Val.plainList vs
end

/-! ## an independent statement of the RESP line grammar -/

/-- index of the first CR LF pair: the first position of the list of adjacent byte pairs that is
    (13, 10).  A RESP line is the bytes before the FIRST such pair. -/
def firstCrlf (bs : Bytes) : Option Nat :=
  (bs.zip bs.tail).findIdx? (fun p => p.1 == 13 && p.2 == 10)

mutual
/-- the value as the simulation decoder (`String::from_utf8_lossy` on line texts) reports it -/
def Val.lossy : Val → Val
  | .simple s => .simple (utf8Lossy s)
  | .error s => .error (utf8Lossy s)
  | .array a => .array (Val.lossyList a)
  | v => v
def Val.lossyList : List Val → List Val
  | [] => []
  | v :: vs => v.lossy :: Val.lossyList vs
end

/-- the two decoders say the same thing: the same value (up to the lossy UTF-8 conversion of line
    texts) with the same consumed count, or both "more bytes", or the same protocol error, or the
    same crash -/
def Outcome.Agrees (o1 o2 : Outcome) : Prop :=
  match o1, o2 with
  | .ok v1 k1, .ok v2 k2 => k1 = k2 ∧ v2 = v1.lossy
  | .incomplete _, .incomplete _ => True
  | .error e1, .error e2 => e1 = e2
  | .crash c1, .crash c2 => c1 = c2
  | _, _ => False

/-- what the decoder's string conversion does to an (already sanitised) line is nothing: always
    true for codec 1; for codec 2 it says that the line is valid UTF-8 — the type invariant of
    `RespValue::SimpleString(Cow<str>)` / `Error(Cow<str>)` -/
def lineOK (c : Codec) (s : Bytes) : Bool := c.str (sanitize true s) == sanitize true s

mutual
/-- values of the server's reply type: integers are `i64`s, line texts are strings of the decoder's
    string type -/
def Val.wf (c : Codec) : Val → Bool
  | .simple s => lineOK c s
  | .error s => lineOK c s
  | .int n => decide (-9223372036854775808 ≤ n) && decide (n ≤ 9223372036854775807)
  | .nullBulk => true
  | .bulk _ => true
  | .nullArray => true
  | .array a => Val.wfList c a
def Val.wfList (c : Codec) : List Val → Bool
  | [] => true
  | v :: vs => v.wf c && Val.wfList c vs
end

mutual
/-- the value with its reply lines as they appear on the wire -/
def Val.san : Val → Val
  | .simple s => .simple (sanitize true s)
  | .error s => .error (sanitize true s)
  | .array a => .array (Val.sanList a)
  | v => v
def Val.sanList : List Val → List Val
  | [] => []
  | v :: vs => v.san :: Val.sanList vs
end

end RedisVerif.Resp
