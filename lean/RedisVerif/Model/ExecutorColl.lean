import RedisVerif.Model.Executor

/-
  `Model.ExecutorColl` — the collection commands of the executor as they are (list_ops.rs, set_ops.rs,
  hash_ops.rs, sorted_set_ops.rs, `Command::Sort` of mod.rs), on the two-map state of `Model.Executor`,
  and the dispatcher `execC` (= the `match cmd` of `CommandExecutor::execute`).

  What is transcribed here is the EXECUTOR's part of every command: which lazy-expiry preamble it uses
  (`get_value` / `get_value_mut`, or `is_expired` + remove, then `data.entry(..).or_insert_with`), the
  order of its type checks, where the deadline entry is left alone and where it is removed, the
  clean-up "`data.get(key)` is an empty collection ⇒ remove key and deadline" after pops / removals,
  the destination check of RPOPLPUSH / LMOVE before the pop.  The container operations themselves
  (`RedisList::range/set/trim`, `RedisSortedSet::add/remove/range/…`, the per-pair loop of
  `execute_zadd`) are M7's functions: `Props/C01Data.lean` proves that the transcribed containers
  refine exactly these (`list_refines`, `sortedset_*_refines`, `execute_zadd_loop_refines`, …).
  Set members / hash fields are opaque codes, as in M7 (the non-binary-safe `to_string()` of
  `RedisSet` / `RedisHash` is a recorded finding and stays outside).
-/
namespace RedisVerif.Executor
open RedisVerif.Redis

/-! ## lists (list_ops.rs) -/

/-- `execute_lpush` / `execute_rpush`: lazy drop, `entry(key).or_insert_with(RedisList::new)`, push one by
    one.  (With an empty `values` — which no parser produces — an EMPTY list would be created.) -/
def cPush (side : Side) (cs : CState) (k : Nat) (vs : List BS) : CState × Reply :=
  let c := lazyDrop cs k
  match NMap.get c.data k with
  | none =>
    ({ c with data := NMap.insert k (.list (pushMany side [] vs)) c.data }, .int (pushMany side [] vs).length)
  | some (.list l) =>
    ({ c with data := NMap.insert k (.list (pushMany side l vs)) c.data }, .int (pushMany side l vs).length)
  | some _ => (c, wrongType)

/-- the clean-up after a pop / removal: `if matches!(self.data.get(key), Some(<empty collection>))` -/
def isEmptyColl : Value → Bool
  | .list l => l.isEmpty
  | .set m => m.isEmpty
  | .hash h => h.isEmpty
  | .zset z => z.isEmpty
  | .str _ => false

/-- `execute_lpop` / `execute_rpop` -/
def cPop (side : Side) (cs : CState) (k : Nat) : CState × Reply :=
  match getValue cs k with
  | (c, some (.list l)) =>
    match popSide side l with
    | some (x, rest) =>
      let c1 := { c with data := NMap.insert k (.list rest) c.data }
      (if rest.isEmpty then dropKey c1 k else c1, .bulk x)
    | none => (dropKey c k, .nil)
  | (c, some _) => (c, wrongType)
  | (c, none) => (c, .nil)

/-- `execute_llen` -/
def cLLen (cs : CState) (k : Nat) : CState × Reply :=
  match getValue cs k with
  | (c, some (.list l)) => (c, .int l.length)
  | (c, some _) => (c, wrongType)
  | (c, none) => (c, .int 0)

/-- `l.range(i, i).first()` -/
def listAt (l : List BS) (n : Nat) : Reply :=
  match slice l (lrangeNorm l.length n n) with
  | x :: _ => .bulk x
  | [] => .nil

/-- `execute_lindex`: its own isize normalisation, then `range(actual, actual)` -/
def cLIndex (cs : CState) (k : Nat) (i : Int) : CState × Reply :=
  match getValue cs k with
  | (c, some (.list l)) =>
    if i < 0 then
      if (l.length : Int) + i < 0 then (c, .nil) else (c, listAt l ((l.length : Int) + i).toNat)
    else if i ≥ (l.length : Int) then (c, .nil)
    else (c, listAt l i.toNat)
  | (c, some _) => (c, wrongType)
  | (c, none) => (c, .nil)

/-- `execute_lrange` -/
def cLRange (cs : CState) (k : Nat) (a b : Int) : CState × Reply :=
  match getValue cs k with
  | (c, some (.list l)) => (c, .arr ((slice l (lrangeNorm l.length a b)).map Elem.bulk))
  | (c, some _) => (c, wrongType)
  | (c, none) => (c, .arr [])

/-- `execute_lset` -/
def cLSet (cs : CState) (k : Nat) (i : Int) (v : BS) : CState × Reply :=
  let c := lazyDrop cs k
  match NMap.get c.data k with
  | some (.list l) =>
    match listIdx l.length i with
    | some n => ({ c with data := NMap.insert k (.list (l.set n v)) c.data }, .ok)
    | none => (c, .err .indexRange)
  | some _ => (c, wrongType)
  | none => (c, .err .noSuchKey)

/-- `execute_ltrim` -/
def cLTrim (cs : CState) (k : Nat) (a b : Int) : CState × Reply :=
  let c := lazyDrop cs k
  match NMap.get c.data k with
  | some (.list l) =>
    let t := slice l (lrangeNorm l.length a b)
    let c1 := { c with data := NMap.insert k (.list t) c.data }
    (if t.isEmpty then dropKey c1 k else c1, .ok)
  | some _ => (c, wrongType)
  | none => (c, .ok)

def isListOpt : Option Value → Bool
  | some (.list _) => true
  | _ => false

/-- `!matches!(v, Some(Value::List(_)) | None)` -/
def notListNorNone : Option Value → Bool
  | some (.list _) => false
  | none => false
  | some _ => true

/-- `execute_lmove` (`execute_rpoplpush` = RIGHT → LEFT): lazy drop of the source, destination type
    checked BEFORE the pop (and only when the source is a list: `&&` short-circuits, so `get_value(dest)`
    — which may drop an expired destination — runs only then), pop, the source is removed when it became
    empty unless it is also the destination, lazy drop of the destination, `entry().or_insert_with`, push -/
def cLMove (cs : CState) (src dst : Nat) (frm to : Side) : CState × Reply :=
  let c0 := lazyDrop cs src
  let srcIsList := isListOpt (NMap.get c0.data src)
  let c1 := if srcIsList then (getValue c0 dst).1 else c0
  if srcIsList && notListNorNone (getValue c0 dst).2 then (c1, wrongType)
  else
    match NMap.get c1.data src with
    | some (.list l) =>
      match popSide frm l with
      | none => (c1, .nil)
      | some (x, rest) =>
        let c2 := { c1 with data := NMap.insert src (.list rest) c1.data }
        let c3 := if rest.isEmpty && !(src == dst) then dropKey c2 src else c2
        let c4 := lazyDrop c3 dst
        match NMap.get c4.data dst with
        | none => ({ c4 with data := NMap.insert dst (.list (pushOne to [] x)) c4.data }, .bulk x)
        | some (.list l') => ({ c4 with data := NMap.insert dst (.list (pushOne to l' x)) c4.data }, .bulk x)
        | some _ => (c4, wrongType)
    | some _ => (c1, wrongType)
    | none => (c1, .nil)

/-! ## sets (set_ops.rs) -/

/-- `execute_sadd` -/
def cSAdd (cs : CState) (k : Nat) (ms : List Nat) : CState × Reply :=
  let c := lazyDrop cs k
  match NMap.get c.data k with
  | none => ({ c with data := NMap.insert k (.set (saddAll [] ms).1) c.data }, .int (saddAll [] ms).2)
  | some (.set m) => ({ c with data := NMap.insert k (.set (saddAll m ms).1) c.data }, .int (saddAll m ms).2)
  | some _ => (c, wrongType)

/-- store the collection back, then the clean-up -/
def putBack (c : CState) (k : Nat) (v : Value) : CState :=
  let c1 := { c with data := NMap.insert k v c.data }
  if isEmptyColl v then dropKey c1 k else c1

/-- `execute_srem` -/
def cSRem (cs : CState) (k : Nat) (ms : List Nat) : CState × Reply :=
  match getValue cs k with
  | (c, some (.set m)) => (putBack c k (.set (sremAll m ms).1), .int (sremAll m ms).2)
  | (c, some _) => (c, wrongType)
  | (c, none) => (c, .int 0)

/-- `execute_smembers` (hash-set order; compared sorted) -/
def cSMembers (cs : CState) (k : Nat) : CState × Reply :=
  match getValue cs k with
  | (c, some (.set m)) => (c, .arr (m.map (fun p => Elem.key p.1)))
  | (c, some _) => (c, wrongType)
  | (c, none) => (c, .arr [])

/-- `execute_sismember` -/
def cSIsMember (cs : CState) (k : Nat) (x : Nat) : CState × Reply :=
  match getValue cs k with
  | (c, some (.set m)) => (c, .int (if (NMap.get m x).isSome then 1 else 0))
  | (c, some _) => (c, wrongType)
  | (c, none) => (c, .int 0)

/-- `execute_scard` -/
def cSCard (cs : CState) (k : Nat) : CState × Reply :=
  match getValue cs k with
  | (c, some (.set m)) => (c, .int m.length)
  | (c, some _) => (c, wrongType)
  | (c, none) => (c, .int 0)

/-- `execute_spop` without count: `members.iter().next()` — SOME member (hash-set order): the op
    carries the implementation's choice, validated as in M7 -/
def cSPop1 (cs : CState) (k : Nat) (choice : List Nat) : CState × Reply :=
  match getValue cs k with
  | (c, some (.set m)) =>
    match m with
    | [] => (dropKey c k, .nil)
    | p :: rest =>
      match choice with
      | [x] => if (NMap.get m x).isSome then (putBack c k (.set (NMap.erase x m)), .key x)
               else (putBack c k (.set rest), .key p.1)
      | _ => (putBack c k (.set rest), .key p.1)
  | (c, some _) => (c, wrongType)
  | (c, none) => (c, .nil)

/-- `execute_spop` with a count: `pop_count(n)` removes `min(n, len)` members -/
def cSPopN (cs : CState) (k : Nat) (n : Nat) (choice : List Nat) : CState × Reply :=
  match getValue cs k with
  | (c, some (.set m)) =>
    let dflt : CState × Reply :=
      (putBack c k (.set (m.drop (min n m.length))),
       .arr ((m.take (min n m.length)).map (fun p => Elem.key p.1)))
    if choice.length = min n m.length then
      match removeChosen m choice with
      | some m' => (putBack c k (.set m'), .arr (choice.map Elem.key))
      | none => dflt
    else dflt
  | (c, some _) => (c, wrongType)
  | (c, none) => (c, .arr [])

/-! ## hashes (hash_ops.rs) -/

/-- `execute_hset` -/
def cHSet (cs : CState) (k : Nat) (fvs : List (Nat × BS)) : CState × Reply :=
  let c := lazyDrop cs k
  match NMap.get c.data k with
  | none => ({ c with data := NMap.insert k (.hash (hsetAll [] fvs).1) c.data }, .int (hsetAll [] fvs).2)
  | some (.hash h) => ({ c with data := NMap.insert k (.hash (hsetAll h fvs).1) c.data }, .int (hsetAll h fvs).2)
  | some _ => (c, wrongType)

/-- `execute_hget` -/
def cHGet (cs : CState) (k : Nat) (f : Nat) : CState × Reply :=
  match getValue cs k with
  | (c, some (.hash h)) =>
    match NMap.get h f with
    | some v => (c, .bulk v)
    | none => (c, .nil)
  | (c, some _) => (c, wrongType)
  | (c, none) => (c, .nil)

/-- `execute_hdel` -/
def cHDel (cs : CState) (k : Nat) (fs : List Nat) : CState × Reply :=
  match getValue cs k with
  | (c, some (.hash h)) => (putBack c k (.hash (hdelAll h fs).1), .int (hdelAll h fs).2)
  | (c, some _) => (c, wrongType)
  | (c, none) => (c, .int 0)

/-- the five read commands of a hash: `f h` is the reply on a hash, `dflt` on a missing key -/
def hashRead (cs : CState) (k : Nat) (f : MHash → Reply) (dflt : Reply) : CState × Reply :=
  match getValue cs k with
  | (c, some (.hash h)) => (c, f h)
  | (c, some _) => (c, wrongType)
  | (c, none) => (c, dflt)

def cHGetAll (cs : CState) (k : Nat) : CState × Reply :=
  hashRead cs k (fun h => .arr (h.flatMap (fun p => [Elem.key p.1, Elem.bulk p.2]))) (.arr [])
def cHKeys (cs : CState) (k : Nat) : CState × Reply :=
  hashRead cs k (fun h => .arr (h.map (fun p => Elem.key p.1))) (.arr [])
def cHVals (cs : CState) (k : Nat) : CState × Reply :=
  hashRead cs k (fun h => .arr (h.map (fun p => Elem.bulk p.2))) (.arr [])
def cHLen (cs : CState) (k : Nat) : CState × Reply :=
  hashRead cs k (fun h => .int h.length) (.int 0)
def cHExists (cs : CState) (k : Nat) (f : Nat) : CState × Reply :=
  hashRead cs k (fun h => .int (if (NMap.get h f).isSome then 1 else 0)) (.int 0)

/-- `execute_hincrby`: lazy drop, type check, `entry().or_insert_with(RedisHash::new)` — the (possibly
    new, EMPTY) hash is in `data` before the value is parsed: an error on a missing key cannot happen
    (a missing field reads as 0) -/
def cHIncrBy (cs : CState) (k : Nat) (f : Nat) (d : Int) : CState × Reply :=
  let c := lazyDrop cs k
  match NMap.get c.data k with
  | some (.hash h) =>
    match hfieldInt h f with
    | none => (c, .err .hashNotInt)
    | some cur =>
      match checkedAdd cur d with
      | none => (c, .err .overflow)
      | some n => ({ c with data := NMap.insert k (.hash (NMap.insert f (showInt n) h)) c.data }, .int n)
  | some _ => (c, wrongType)
  | none =>
    match checkedAdd 0 d with
    | none => ({ c with data := NMap.insert k (.hash []) c.data }, .err .overflow)
    | some n => ({ c with data := NMap.insert k (.hash (NMap.insert f (showInt n) [])) c.data }, .int n)

/-! ## sorted sets (sorted_set_ops.rs) -/

/-- `execute_zadd`: lazy drop; `XX` on a key that is absent answers 0 before anything is created;
    `entry().or_insert_with(RedisSortedSet::new)`; the per-pair loop (= M7's `zaddAll f`:
    `Props.C01Data.execute_zadd_loop_refines`, the flag-less fast path included).  No test of the flag
    combination here: the parsers refuse NX+XX, GT+LT, NX+GT/LT. -/
def cZAdd (cs : CState) (k : Nat) (f : ZFlags) (ps : List (BS × Score)) : CState × Reply :=
  let c := lazyDrop cs k
  if f.xx && !(NMap.get c.data k).isSome then (c, .int 0)
  else
    match NMap.get c.data k with
    | none => ({ c with data := NMap.insert k (.zset (zaddAll f [] ps).1) c.data }, zaddReply f (zaddAll f [] ps))
    | some (.zset z) =>
      ({ c with data := NMap.insert k (.zset (zaddAll f z ps).1) c.data }, zaddReply f (zaddAll f z ps))
    | some _ => (c, wrongType)

/-- `execute_zrem` -/
def cZRem (cs : CState) (k : Nat) (ms : List BS) : CState × Reply :=
  match getValue cs k with
  | (c, some (.zset z)) => (putBack c k (.zset (zremAll z ms).1), .int (zremAll z ms).2)
  | (c, some _) => (c, wrongType)
  | (c, none) => (c, .int 0)

/-- the read commands of a sorted set -/
def zsetRead (cs : CState) (k : Nat) (f : ZL → Reply) (dflt : Reply) : CState × Reply :=
  match getValue cs k with
  | (c, some (.zset z)) => (c, f z)
  | (c, some _) => (c, wrongType)
  | (c, none) => (c, dflt)

def cZRange (cs : CState) (k : Nat) (a b : Int) (ws rev : Bool) : CState × Reply :=
  zsetRead cs k (fun z => .arr (zElems ws (slice (if rev then z.reverse else z) (lrangeNorm z.length a b)))) (.arr [])
def cZScore (cs : CState) (k : Nat) (m : BS) : CState × Reply :=
  zsetRead cs k (fun z => match zScore z m with | some sc => .bulk (showScore sc) | none => .nil) .nil
def cZRank (cs : CState) (k : Nat) (m : BS) : CState × Reply :=
  zsetRead cs k (fun z => match zRankAux z m 0 with | some i => .int i | none => .nil) .nil
def cZCard (cs : CState) (k : Nat) : CState × Reply :=
  zsetRead cs k (fun z => .int z.length) (.int 0)

/-- `execute_zcount`: both bounds are parsed before the key is looked at -/
def cZCount (cs : CState) (k : Nat) (lo hi : Option Bound) : CState × Reply :=
  match lo, hi with
  | some lo, some hi => zsetRead cs k (fun z => .int (z.filter (fun p => inRange lo hi p.2)).length) (.int 0)
  | _, _ => (cs, .err .notFloat)

/-- `execute_zrangebyscore` -/
def cZRangeByScore (cs : CState) (k : Nat) (lo hi : Option Bound) (ws : Bool) (lim : Option (Int × Nat)) :
    CState × Reply :=
  match lo, hi with
  | some lo, some hi =>
    zsetRead cs k (fun z => .arr (zElems ws (applyLimit (z.filter (fun p => inRange lo hi p.2)) lim))) (.arr [])
  | _, _ => (cs, .err .notFloat)

/-! ## SORT (mod.rs) -/

/-- the second half of `Command::Sort`: numeric conversion of every element, sort, reply or STORE -/
def cSortTail (c : CState) (es : List BS) (store : Option Nat) : CState × Reply :=
  if es.any (fun e => (sortNum e).isNone) then (c, .err .notDouble)
  else
    match store with
    | none => (c, .arr ((sortAll es).map Elem.bulk))
    | some d =>
      if (sortAll es).isEmpty then (dropKey c d, .int 0)
      else ({ c with data := NMap.insert d (.list (sortAll es)) c.data, exp := NMap.erase d c.exp },
            .int (sortAll es).length)

/-- what SORT works on, by the type `get_value` found; `none` = WRONGTYPE -/
def sortElems : Option Value → Option (List BS)
  | some (.list l) => some l
  | some (.set m) => some (m.map (fun p => codeBytes p.1))
  | some (.zset z) => some (z.map (fun p => p.1))
  | none => some []
  | some _ => none

/-- `Command::Sort { key, store }` -/
def cSort (cs : CState) (k : Nat) (store : Option Nat) : CState × Reply :=
  match sortElems (getValue cs k).2 with
  | none => ((getValue cs k).1, wrongType)
  | some es => cSortTail (getValue cs k).1 es store

/-! ## the dispatcher (`CommandExecutor::execute`) -/

def getExArgsOfOpt := getExArgsOf

/-- `match cmd { … }`; `none` = a panic (overflow-checked u64 arithmetic) -/
def execC (cs : CState) : Cmd → Option (CState × Reply)
  | .get k => some (cGet cs k)
  | .set k v c e g => cSet cs k v (setArgsOf c e g)
  | .setnx k v => some (cSetNx cs k v)
  | .append k v => some (cAppend cs k v)
  | .getset k v => some (cGetSet cs k v)
  | .strlen k => some (cStrLen cs k)
  | .mget ks => some (cMGet cs ks)
  | .mset kvs => some (cMSet cs kvs)
  | .msetnx kvs => some (cMSetNx cs kvs)
  | .getrange k a b => some (cGetRange cs k a b)
  | .setrange k off v => some (cSetRange cs k off v)
  | .getex k o => cGetEx cs k (getExArgsOf o)
  | .getdel k => some (cGetDel cs k)
  | .incr k => some (cIncrBy cs k 1)
  | .decr k => some (cIncrBy cs k (-1))
  | .incrby k d => some (cIncrBy cs k d)
  | .decrby k d => some (cDecrBy cs k d)
  | .del ks => some (cDel cs ks)
  | .exists ks => some (cExists cs ks)
  | .type k => some (cType cs k)
  | .keys => some (cKeys cs)
  | .dbsize => some (cDbSize cs)
  | .flushdb => some (cFlush cs)
  | .flushall => some (cFlush cs)
  | .randomkey ch => some (cRandomKey cs ch)
  | .rename a b => some (cRename cs a b)
  | .renamenx a b => some (cRenameNx cs a b)
  | .expire k v f => cExpire cs k v f
  | .pexpire k v f => cPExpire cs k v f
  | .expireat k v _ => some (cExpireAt cs k v)          -- `Command::ExpireAt(key, ts)`: no flags
  | .pexpireat k v _ => some (cPExpireAt cs k v)
  | .ttl k => some (cTtl cs k)
  | .pttl k => some (cPTtl cs k)
  | .expiretime k => some (cExpireTime cs k)
  | .pexpiretime k => some (cPExpireTime cs k)
  | .persist k => some (cPersist cs k)
  | .lpush k vs => some (cPush .left cs k vs)
  | .rpush k vs => some (cPush .right cs k vs)
  | .lpop k => some (cPop .left cs k)
  | .rpop k => some (cPop .right cs k)
  | .llen k => some (cLLen cs k)
  | .lindex k i => some (cLIndex cs k i)
  | .lrange k a b => some (cLRange cs k a b)
  | .lset k i v => some (cLSet cs k i v)
  | .ltrim k a b => some (cLTrim cs k a b)
  | .rpoplpush a b => some (cLMove cs a b .right .left)
  | .lmove a b f t => some (cLMove cs a b f t)
  | .sadd k ms => some (cSAdd cs k ms)
  | .srem k ms => some (cSRem cs k ms)
  | .smembers k => some (cSMembers cs k)
  | .sismember k m => some (cSIsMember cs k m)
  | .scard k => some (cSCard cs k)
  | .spop k none ch => some (cSPop1 cs k ch)
  | .spop k (some n) ch => some (cSPopN cs k n ch)
  | .hset k fvs => some (cHSet cs k fvs)
  | .hget k f => some (cHGet cs k f)
  | .hdel k fs => some (cHDel cs k fs)
  | .hgetall k => some (cHGetAll cs k)
  | .hkeys k => some (cHKeys cs k)
  | .hvals k => some (cHVals cs k)
  | .hlen k => some (cHLen cs k)
  | .hexists k f => some (cHExists cs k f)
  | .hincrby k f d => some (cHIncrBy cs k f d)
  | .zadd k f ps => some (cZAdd cs k f ps)
  | .zrem k ms => some (cZRem cs k ms)
  | .zrange k a b ws => some (cZRange cs k a b ws false)
  | .zrevrange k a b ws => some (cZRange cs k a b ws true)
  | .zscore k m => some (cZScore cs k m)
  | .zrank k m => some (cZRank cs k m)
  | .zcard k => some (cZCard cs k)
  | .zcount k lo hi => some (cZCount cs k lo hi)
  | .zrangebyscore k lo hi ws lim => some (cZRangeByScore cs k lo hi ws lim)
  | .sort k st => some (cSort cs k st)

end RedisVerif.Executor
