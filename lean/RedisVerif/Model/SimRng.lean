/-
  Model of the two seeded random sources every simulation / DST harness of /repo draws from:

    * `DeterministicRng` (src/simulator/rng.rs)  — ChaCha8Rng::seed_from_u64 + its OWN
      `gen_range` (modulo), `gen_bool` (f64 compare), `shuffle` (Fisher–Yates over its gen_range);
    * `SimulatedRng`     (src/io/simulation.rs) — the same generator + the rand-0.8.5 sampling
      algorithms (`gen_range` = widening multiply with rejection zone, `gen_bool` = Bernoulli
      integer compare, `shuffle` = SliceRandom::shuffle over 32-bit `gen_index`).

  Transcribed byte-exactly from the crate versions pinned in /repo/Cargo.lock:
    rand_core 0.6.4  (`SeedableRng::seed_from_u64` = PCG32 expansion, `BlockRng::next_u32/next_u64`)
    rand_chacha 0.3.1 (`ChaCha8Rng`: 4 double rounds, 64-bit block counter in words 12/13, stream 0,
                       buffer of 4 blocks = 64 words)
    rand 0.8.5       (`UniformInt::sample_single_inclusive`, `Bernoulli`, `seq::SliceRandom::shuffle`)

  No floating point in the model: an f64 argument arrives as its IEEE-754 bit pattern (`f64::to_bits`
  on the Rust side) and is decoded into sign / exponent / mantissa; every comparison the Rust code
  performs in f64 is performed here in exact integer arithmetic (see `bernoulliPInt`, `detGenBool`,
  `Model/SimKernel.lean: buggifyTriggered`).
-/
namespace RedisVerif.SimRng

/-! ## PCG32 seed expansion (`rand_core::SeedableRng::seed_from_u64`) -/

def pcgMul : UInt64 := 6364136223846793005
def pcgInc : UInt64 := 11634580027462260723

def rotr32 (x : UInt32) (r : UInt32) : UInt32 :=
  let r := r % 32
  if r == 0 then x else (x >>> r) ||| (x <<< (32 - r))

def rotl32 (x : UInt32) (r : UInt32) : UInt32 := rotr32 x (32 - r % 32)

/-- one `pcg32(&mut state)` call: new state and the output word (the 4 little-endian bytes that
    `from_seed` reads back as one little-endian word: the same `u32`) -/
def pcgStep (s : UInt64) : UInt64 × UInt32 :=
  let s' := s * pcgMul + pcgInc
  let xorshifted : UInt32 := (((s' >>> 18) ^^^ s') >>> 27).toUInt32
  let rot : UInt32 := (s' >>> 59).toUInt32
  (s', rotr32 xorshifted rot)

/-- the 8 key words of `ChaCha8Rng::seed_from_u64(seed)` -/
def seedWords (seed : UInt64) : Vector UInt32 8 :=
  let (s1, w0) := pcgStep seed
  let (s2, w1) := pcgStep s1
  let (s3, w2) := pcgStep s2
  let (s4, w3) := pcgStep s3
  let (s5, w4) := pcgStep s4
  let (s6, w5) := pcgStep s5
  let (s7, w6) := pcgStep s6
  let (_, w7) := pcgStep s7
  #v[w0, w1, w2, w3, w4, w5, w6, w7]

/-! ## ChaCha block function, 8 rounds -/

abbrev Block := Vector UInt32 16

@[inline] def qr (a b c d : UInt32) : UInt32 × UInt32 × UInt32 × UInt32 :=
  let a := a + b; let d := rotl32 (d ^^^ a) 16
  let c := c + d; let b := rotl32 (b ^^^ c) 12
  let a := a + b; let d := rotl32 (d ^^^ a) 8
  let c := c + d; let b := rotl32 (b ^^^ c) 7
  (a, b, c, d)

/-- column round followed by diagonal round (`round; diagonalize; round; undiagonalize`) -/
def doubleRound (x : Block) : Block :=
  let (x0, x4, x8, x12) := qr x[0] x[4] x[8] x[12]
  let (x1, x5, x9, x13) := qr x[1] x[5] x[9] x[13]
  let (x2, x6, x10, x14) := qr x[2] x[6] x[10] x[14]
  let (x3, x7, x11, x15) := qr x[3] x[7] x[11] x[15]
  let (x0, x5, x10, x15) := qr x0 x5 x10 x15
  let (x1, x6, x11, x12) := qr x1 x6 x11 x12
  let (x2, x7, x8, x13) := qr x2 x7 x8 x13
  let (x3, x4, x9, x14) := qr x3 x4 x9 x14
  #v[x0, x1, x2, x3, x4, x5, x6, x7, x8, x9, x10, x11, x12, x13, x14, x15]

def initBlock (key : Vector UInt32 8) (ctr : UInt64) : Block :=
  #v[0x61707865, 0x3320646e, 0x79622d32, 0x6b206574,
     key[0], key[1], key[2], key[3], key[4], key[5], key[6], key[7],
     ctr.toUInt32, (ctr >>> 32).toUInt32, 0, 0]

/-- the 16 output words of block number `ctr` (ChaCha8: `drounds = 4`) -/
def chachaBlock (key : Vector UInt32 8) (ctr : UInt64) : Block :=
  let i := initBlock key ctr
  let x := doubleRound (doubleRound (doubleRound (doubleRound i)))
  Vector.zipWith (· + ·) x i

/-! ## `BlockRng<ChaCha8Core>` -/

structure Rng where
  key : Vector UInt32 8
  /-- block position of the NEXT refill (`state.d` words 0/1) -/
  ctr : UInt64
  /-- `results`: 4 blocks -/
  buf : Vector UInt32 64
  /-- `index`; `64` = buffer exhausted (the initial value) -/
  idx : Nat

def Rng.new (seed : UInt64) : Rng :=
  { key := seedWords seed, ctr := 0, buf := Vector.replicate 64 0, idx := 64 }

/-- `refill4`: blocks `ctr … ctr+3`, counter advanced by 4 (wrapping) -/
def Rng.refill (r : Rng) (newIdx : Nat) : Rng :=
  let b0 := chachaBlock r.key r.ctr
  let b1 := chachaBlock r.key (r.ctr + 1)
  let b2 := chachaBlock r.key (r.ctr + 2)
  let b3 := chachaBlock r.key (r.ctr + 3)
  { r with ctr := r.ctr + 4, buf := ((b0 ++ b1) ++ (b2 ++ b3)).cast (by decide), idx := newIdx }

def Rng.word (r : Rng) (i : Nat) : UInt32 := r.buf.toArray.getD i 0

/-- `BlockRng::next_u32` -/
def Rng.nextU32 (r : Rng) : UInt32 × Rng :=
  let r := if r.idx ≥ 64 then r.refill 0 else r
  (r.word r.idx, { r with idx := r.idx + 1 })

/-- `BlockRng::next_u64` (three cases: two words left, none left, exactly one left) -/
def Rng.nextU64 (r : Rng) : UInt64 × Rng :=
  if r.idx < 63 then
    ((r.word (r.idx + 1)).toUInt64 <<< 32 ||| (r.word r.idx).toUInt64, { r with idx := r.idx + 2 })
  else if r.idx ≥ 64 then
    let r := r.refill 2
    ((r.word 1).toUInt64 <<< 32 ||| (r.word 0).toUInt64, r)
  else
    let x := (r.word 63).toUInt64
    let r := r.refill 1
    ((r.word 0).toUInt64 <<< 32 ||| x, r)

/-- number of 32-bit words consumed from the stream so far (`get_word_pos`), the "stream position" -/
def Rng.wordPos (r : Rng) : Nat := (r.ctr.toNat + 2 ^ 64 - 4) % 2 ^ 64 * 16 + r.idx

/-! ## rand 0.8.5 `UniformInt::sample_single_inclusive` (u64 and u32 instances) -/

/-- `range.leading_zeros()` for a non-zero `range < 2^bits` -/
def lz (bits : Nat) (range : Nat) : Nat := bits - 1 - range.log2

/-- `(range << range.leading_zeros()).wrapping_sub(1)` -/
def zone (bits : Nat) (range : Nat) : Nat := range * 2 ^ lz bits range - 1

/-- outcome of a sampling loop; `fuel` = the model's loop bound was reached (never the case on the
    states reached by the correspondence runs; each draw is accepted with probability > 1/2 for a
    uniform word, see `zone_ge_half`) -/
inductive Draw (α : Type) where
  | ok (v : α)
  | fuel
  deriving Repr, DecidableEq

def rejectFuel : Nat := 128

/-- the `loop { v = rng.gen(); (hi, lo) = v.wmul(range); if lo <= zone { return low + hi } }` of
    `sample_single_inclusive`, 64-bit instance; `range ≥ 1` -/
def sampleLoop64 (low range : Nat) : Nat → Rng → Draw Nat × Rng
  | 0, r => (.fuel, r)
  | fuel + 1, r =>
    let (v, r) := r.nextU64
    let m := v.toNat * range
    if m % 2 ^ 64 ≤ zone 64 range then (.ok (low + m / 2 ^ 64), r) else sampleLoop64 low range fuel r

/-- 32-bit instance (draws `next_u32`) -/
def sampleLoop32 (low range : Nat) : Nat → Rng → Draw Nat × Rng
  | 0, r => (.fuel, r)
  | fuel + 1, r =>
    let (v, r) := r.nextU32
    let m := v.toNat * range
    if m % 2 ^ 32 ≤ zone 32 range then (.ok (low + m / 2 ^ 32), r) else sampleLoop32 low range fuel r

/-- `SimulatedRng::gen_range(min, max)`: `min >= max` returns `min` without drawing, otherwise
    `self.inner.gen_range(min..max)` = `sample_single_inclusive(min, max - 1)` -/
def simGenRange (min max : Nat) (r : Rng) : Draw Nat × Rng :=
  if min ≥ max then (.ok min, r) else sampleLoop64 min (max - min) rejectFuel r

/-! ## f64 arguments as bit patterns -/

structure F64 where
  neg : Bool
  /-- biased exponent, 0 … 2047 -/
  exp : Nat
  /-- 52 fraction bits -/
  frac : Nat
  deriving Repr, DecidableEq

def F64.ofBits (b : Nat) : F64 :=
  { neg := b / 2 ^ 63 % 2 == 1, exp := b / 2 ^ 52 % 2048, frac := b % 2 ^ 52 }

def F64.isNaN (x : F64) : Bool := x.exp == 2047 && x.frac != 0
def F64.isInf (x : F64) : Bool := x.exp == 2047 && x.frac == 0
def F64.isZero (x : F64) : Bool := x.exp == 0 && x.frac == 0
/-- magnitude = `mant * 2^(e2 - 1075)` with `e2 = max exp 1` (finite values) -/
def F64.mant (x : F64) : Nat := if x.exp == 0 then x.frac else x.frac + 2 ^ 52
def F64.e2 (x : F64) : Nat := if x.exp == 0 then 1 else x.exp

/-- `⌊|x| * 2^k⌋` for a finite `x` -/
def F64.scaleFloor (x : F64) (k : Nat) : Nat :=
  if x.e2 + k ≥ 1075 then x.mant * 2 ^ (x.e2 + k - 1075) else x.mant / 2 ^ (1075 - (x.e2 + k))

/-- is the natural number `n` strictly below `|x| * 2^k` (finite `x`)?  exact -/
def F64.natLtScaled (n : Nat) (x : F64) (k : Nat) : Bool :=
  if x.e2 + k ≥ 1075 then n < x.mant * 2 ^ (x.e2 + k - 1075) else n * 2 ^ (1075 - (x.e2 + k)) < x.mant

inductive PInt where
  /-- `Bernoulli::new(NaN)` is `Err`, `gen_bool` unwraps: panic -/
  | crash
  /-- `p == 1.0`: `ALWAYS_TRUE`, sampling draws nothing -/
  | always
  /-- `p_int = (p * 2^64) as u64`, sampling draws one u64 and compares -/
  | some (p : Nat)
  deriving Repr, DecidableEq

/-- `probability.clamp(0.0, 1.0)` followed by `Bernoulli::new` -/
def bernoulliPInt (p : F64) : PInt :=
  if p.isNaN then .crash
  else if p.neg then .some 0                       -- negative → clamp → 0.0 (and -0.0 → p_int 0)
  else if p.isInf || p.exp ≥ 1023 then .always     -- ≥ 1.0 → clamp → 1.0
  else .some (p.scaleFloor 64)

inductive BoolDraw where
  | crash
  | val (b : Bool)
  deriving Repr, DecidableEq

/-- `SimulatedRng::gen_bool(probability)` -/
def simGenBool (p : F64) (r : Rng) : BoolDraw × Rng :=
  match bernoulliPInt p with
  | .crash => (.crash, r)
  | .always => (.val true, r)
  | .some pi => let (v, r) := r.nextU64; (.val (v.toNat < pi), r)

/-- `gen_index(rng, ubound)` of rand::seq for `ubound ≤ u32::MAX`: `gen_range(0..ubound as u32)` -/
def genIndex (ubound : Nat) (r : Rng) : Draw Nat × Rng := sampleLoop32 0 ubound rejectFuel r

def swapAt {α} (l : Array α) (i j : Nat) : Array α := l.swapIfInBounds i j

/-- `SliceRandom::shuffle`: `for i in (1..len).rev() { swap(i, gen_index(rng, i + 1)) }` -/
def simShuffleLoop {α} : Nat → Array α → Rng → Draw (Array α) × Rng
  | 0, a, r => (.ok a, r)
  | i + 1, a, r =>
    match genIndex (i + 2) r with
    | (.fuel, r) => (.fuel, r)
    | (.ok j, r) => simShuffleLoop i (swapAt a (i + 1) j) r

def simShuffle {α} (a : Array α) (r : Rng) : Draw (Array α) × Rng := simShuffleLoop (a.size - 1) a r

/-! ## `DeterministicRng` (src/simulator/rng.rs) -/

/-- `min + (next_u64() % (max - min))`, nothing drawn when `min >= max`; the sum wraps in the
    release profile (it cannot for `min < max`: `min + x < max`) -/
def detGenRange (min max : Nat) (r : Rng) : Nat × Rng :=
  if min ≥ max then (min, r) else let (v, r) := r.nextU64; (min + v.toNat % (max - min), r)

/-- `x as f64` for a `u64`: round to nearest, ties to even, to 53 significant bits -/
def roundU64ToF64 (x : Nat) : Nat :=
  if x < 2 ^ 53 then x
  else
    let sh := x.log2 - 52
    let q := x / 2 ^ sh
    let rem := x % 2 ^ sh
    let half := 2 ^ (sh - 1)
    let q := if rem > half || (rem == half && q % 2 == 1) then q + 1 else q
    q * 2 ^ sh

/-- `let val = next_u64() as f64 / u64::MAX as f64; val < probability`.
    `u64::MAX as f64 = 2^64`; dividing by a power of two is exact, so `val = round53(x) / 2^64` and
    `val < p ⟺ round53(x) < p * 2^64` in exact arithmetic.  Always draws one u64. -/
def detGenBool (p : F64) (r : Rng) : Bool × Rng :=
  let (v, r) := r.nextU64
  let x := roundU64ToF64 v.toNat
  let b := if p.isNaN then false
    else if p.neg then false
    else if p.isInf then true
    else p.natLtScaled x 64
  (b, r)

/-- `for i in (1..len).rev() { j = gen_range(0, i+1); swap(i, j) }` -/
def detShuffleLoop {α} : Nat → Array α → Rng → Array α × Rng
  | 0, a, r => (a, r)
  | i + 1, a, r =>
    let (j, r) := detGenRange 0 (i + 2) r
    detShuffleLoop i (swapAt a (i + 1) j) r

def detShuffle {α} (a : Array α) (r : Rng) : Array α × Rng := detShuffleLoop (a.size - 1) a r

/-- bit pattern of the literal `0.01` -/
def bits_0_01 : Nat := 0x3F847AE147AE147B

/-- `pub fn buggify(rng: &mut DeterministicRng) -> bool { rng.gen_bool(0.01) }` -/
def detBuggify (r : Rng) : Bool × Rng := detGenBool (F64.ofBits bits_0_01) r

end RedisVerif.SimRng
