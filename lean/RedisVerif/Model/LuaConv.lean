import RedisVerif.Model.Grammar

/-
  M7 / LuaConv — `resp_to_lua_value` and `lua_to_resp` of
  `/repo/src/redis/executor/script_ops.rs`, transcribed as they are.
  Must not import anything outside core (linked into the native driver).
-/
/-! ## RESP ↔ Lua value conversion (`resp_to_lua_value`, `lua_to_resp`) -/
namespace RedisVerif.LuaConv
open RedisVerif.Grammar

/-- `RespValue` -/
inductive Resp where
  | simple (s : Bytes)
  | error (s : Bytes)
  | int (i : Int)
  | bulk (b : Option Bytes)
  | array (xs : Option (List Resp))

/-- the Lua values the conversion functions produce or inspect.  `okT s` / `errT s` are the
    tables `{ok = s}` / `{err = s}`; `arr xs` is a table with `t[i+1] = xs[i]` (a `nil` element
    is a hole); `num i` is a Lua float with the integral value `i` (|i| < 2^53). -/
inductive LuaVal where
  | nil
  | bool (b : Bool)
  | int (i : Int)
  | num (i : Int)
  | str (b : Bytes)
  | okT (s : Bytes)
  | errT (s : Bytes)
  | arr (xs : List LuaVal)
  | other                  -- a function / thread / userdata: not nil, not convertible

mutual
/-- `resp_to_lua_value` -/
def respToLua : Resp → LuaVal
  | .simple s => .okT s
  | .error s => .errT s
  | .int i => .int i
  | .bulk (some b) => .str b
  | .bulk none => .nil            -- Redis: `false`
  | .array none => .nil           -- Redis: `false`
  | .array (some xs) => .arr (respToLuaL xs)
def respToLuaL : List Resp → List LuaVal
  | [] => []
  | x :: xs => respToLua x :: respToLuaL xs
end

def validUtf8 (s : Bytes) : Bool := lossy s == s

mutual
/-- `lua_to_resp`.  A table is an error / status reply if `t.get::<String>("err" / "ok")`
    succeeds (the field must be valid UTF-8), otherwise the array `t[1], t[2], …` up to the
    first `nil`. -/
def luaToResp : LuaVal → Resp
  | .nil => .bulk none
  | .bool true => .int 1
  | .bool false => .bulk none
  | .int i => .int i
  | .num i => .int i                       -- `n as i64` (the float is integral)
  | .str b => .bulk (some b)
  | .okT s => if validUtf8 s then .simple s else .array (some [])
  | .errT s => if validUtf8 s then .error s else .array (some [])
  | .arr xs => .array (some (luaToRespL xs))
  | .other => .bulk none                   -- `_ => RespValue::BulkString(None)`
def luaToRespL : List LuaVal → List Resp
  | [] => []
  | .nil :: _ => []                        -- the array ends at the first nil
  | x :: xs => luaToResp x :: luaToRespL xs
end


/-- the integer part of the magnitude of a normal binary64 with biased exponent `E` and fraction `M` -/
def f64Mag (E M : Nat) : Nat :=
  if E ≥ 1075 then (2 ^ 52 + M) * 2 ^ (E - 1075) else (2 ^ 52 + M) / 2 ^ (1075 - E)

/-- `n as i64` for a Lua float given by its IEEE-754 binary64 bit pattern (`lua_to_resp` on
    `LuaValue::Number`): the fraction is dropped (truncation toward zero), the result saturates at the
    ends of `i64`, NaN becomes 0 -/
def f64ToI64 (bits : Nat) : Int :=
  if (bits / 2 ^ 52) % 2048 == 2047 then
    if bits % 2 ^ 52 != 0 then 0 else if (bits / 2 ^ 63) % 2 == 1 then -9223372036854775808 else 9223372036854775807
  else if (bits / 2 ^ 52) % 2048 == 0 then 0
  else if (bits / 2 ^ 63) % 2 == 1 then
    (if f64Mag ((bits / 2 ^ 52) % 2048) (bits % 2 ^ 52) ≥ 9223372036854775808 then -9223372036854775808
     else - (f64Mag ((bits / 2 ^ 52) % 2048) (bits % 2 ^ 52) : Int))
  else
    (if f64Mag ((bits / 2 ^ 52) % 2048) (bits % 2 ^ 52) ≥ 9223372036854775807 then 9223372036854775807
     else (f64Mag ((bits / 2 ^ 52) % 2048) (bits % 2 ^ 52) : Int))

/-- decimal text of an integer (`i64::to_string`; also `f64::to_string` of an integral float below 2^53) -/
def intText (i : Int) : Bytes := s2b (toString i)

/-- `parse_multivalue_to_bytes`: the bytes a redis.call argument becomes; `none` = refused
    ("Invalid argument type for redis command") -/
def luaArgBytes : LuaVal → Option Bytes
  | .str b => some b
  | .int i => some (intText i)
  | .num i => some (intText i)
  | _ => none

end RedisVerif.LuaConv
