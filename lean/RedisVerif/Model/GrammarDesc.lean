import RedisVerif.Model.Grammar

/-
  M7 / GrammarDesc — the shape (`GenDesc`) of every hand-written body of the three grammars:
  leading slots, optional slots, tail, finishing function.  `Lemmas/GrammarShape.lean` proves, body
  by body, that the hand-written function IS `runGen` over its descriptor (for every argument list);
  `GrammarTable.lean` attaches descriptor and proof to the table entry, so that the shape table the
  check compares with the source is derived from the grammar the theorems are about.
  Imports core + RedisVerif.Model only (linked into the native driver).
-/
namespace RedisVerif.Grammar
namespace Desc
open Bodies

def aBitOff : Arg := { kind := .u64, onErr := some .bitOffset }
def aBitVal : Arg := { kind := .int, onErr := some .bitValue }
def aBits : Arg := { kind := .u32, onErr := some .invalidBits }

def ping : GenDesc :=
  { dom := .any, pre := [], opt := [aSds], tail := .ignore, ctors := [s2b "Ping"],
    fin := fun ts _ => match ts with
      | [] => .ok ⟨s2b "Ping", [.none]⟩
      | [t] => .ok ⟨s2b "Ping", [t]⟩
      | _ => .error .unreachable }

def select : GenDesc :=
  { dom := .exact 1, pre := [aU64], tail := .none, ctors := [s2b "Select"], finLits := [.dbRange],
    fin := fun ts _ => match ts with
      | [.n db] => if db > 15 then .error (.lit .dbRange) else .ok ⟨s2b "Select", [.n db]⟩
      | _ => .error .unreachable }

def auth : GenDesc :=
  { dom := .between 1 2, pre := [aStr], opt := [aStr], tail := .none, ctors := [s2b "Auth"],
    fin := fun ts _ => match ts with
      | [p] => .ok ⟨s2b "Auth", [.none, p]⟩
      | [u, p] => .ok ⟨s2b "Auth", [u, p]⟩
      | _ => .error .unreachable }

def setChecks : List (Cond × Lit) :=
  [(.and (.has 0) (.has 1), .nxxx),
   (.and (.has 7) (.or (.or (.or (.has 3) (.has 4)) (.has 5)) (.has 6)), .syntax)]

def set : GenDesc :=
  { dom := .atLeast 2, pre := [aStr, aSds], tail := .scan setOpts (.lit .syntax), ctors := [s2b "Set"],
    finLits := [.nxxx, .syntax], checks := setChecks,
    fin := fun ts tv => match ts, tv with
      | [k, v], .seen s =>
        finWithChecks setChecks (fun s => mkSet k v (s.opt1 3) (s.opt1 4) (s.opt1 5) (s.opt1 6) (s.has 0) (s.has 1) (s.has 2) (s.has 7)) s
      | _, _ => .error .unreachable }

def setex (px : Bool) : GenDesc :=
  { dom := .exact 3, pre := [aStr, aInt, aSds], tail := .none, ctors := [s2b "Set"],
    fin := fun ts _ => match ts with
      | [k, t, v] =>
        if px then .ok (mkSet k v .none t .none .none false false false false)
        else .ok (mkSet k v t .none .none .none false false false false)
      | _ => .error .unreachable }

def expireChecks : List (Cond × Lit) :=
  [(.and (.has 0) (.or (.or (.has 1) (.has 2)) (.has 3)), .expireNx), (.and (.has 2) (.has 3), .expireGtLt)]

def expire (ctor : Bytes) : GenDesc :=
  { dom := .atLeast 2, pre := [aStr, aInt], tail := .scan expireOpts (.fmt .unsupportedOption), ctors := [ctor],
    finLits := [.expireNx, .expireGtLt], checks := expireChecks,
    fin := fun ts tv => match ts, tv with
      | [k, t], .seen s =>
        finWithChecks expireChecks (fun s => ⟨ctor, [k, t, .b (s.has 0), .b (s.has 1), .b (s.has 2), .b (s.has 3)]⟩) s
      | _, _ => .error .unreachable }

def getexChecks : List (Cond × Lit) := [(.countGt [0, 1, 2, 3, 4] 1, .syntax)]

def getex : GenDesc :=
  { dom := .atLeast 1, pre := [aStr], tail := .scan getexOpts (.lit .syntax), ctors := [s2b "GetEx"],
    finLits := [.syntax], checks := getexChecks,
    fin := fun ts tv => match ts, tv with
      | [k], .seen s =>
        finWithChecks getexChecks (fun s => ⟨s2b "GetEx", [k, s.opt1 0, s.opt1 1, s.opt1 2, s.opt1 3, .b (s.has 4)]⟩) s
      | _, _ => .error .unreachable }

def lmove : GenDesc :=
  { dom := .exact 4, pre := [aStr, aStr, aKw, aKw], tail := .none, ctors := [s2b "LMove"],
    finLits := [.lmoveFrom, .lmoveTo],
    fin := fun ts _ => match ts with
      | [src, dst, .s wf, .s wt] =>
        if wf != s2b "LEFT" && wf != s2b "RIGHT" then .error (.lit .lmoveFrom)
        else if wt != s2b "LEFT" && wt != s2b "RIGHT" then .error (.lit .lmoveTo)
        else .ok ⟨s2b "LMove", [src, dst, .s wf, .s wt]⟩
      | _ => .error .unreachable }

def spop : GenDesc :=
  { dom := .between 1 2, pre := [aStr], opt := [aUsz], tail := .none, ctors := [s2b "SPop"],
    fin := fun ts _ => match ts with
      | [k] => .ok ⟨s2b "SPop", [k, .none]⟩
      | [k, t] => .ok ⟨s2b "SPop", [k, t]⟩
      | _ => .error .unreachable }

def zadd (score : Arg) : GenDesc :=
  { dom := .atLeast 1, pre := [aStr], tail := .flagsPairs zaddFlags .zaddPairs score aSds, ctors := [s2b "ZAdd"],
    fin := fun ts tv => match ts, tv with
      | [k], .flags fl n us =>
        .ok ⟨s2b "ZAdd", [k, .len n] ++ us ++
          [.b (fl.contains (s2b "NX")), .b (fl.contains (s2b "XX")), .b (fl.contains (s2b "GT")),
           .b (fl.contains (s2b "LT")), .b (fl.contains (s2b "CH"))]⟩
      | _, _ => .error .unreachable }

def zrange (ctor : Bytes) : GenDesc :=
  { dom := .between 3 4, pre := [aStr, aInt, aInt], opt := [aKw], tail := .none, ctors := [ctor],
    fin := fun ts _ => match ts with
      | [k, a, b] => .ok ⟨ctor, [k, a, b, bFalse]⟩
      | [k, a, b, .s w] => .ok ⟨ctor, [k, a, b, .b (w == s2b "WITHSCORES")]⟩
      | _ => .error .unreachable }

def zrangebyscore (offset count : Arg) (missing : Lit) (unk : Fmt) : GenDesc :=
  { dom := .atLeast 3, pre := [aStr, aStr, aStr], tail := .scan (zrbsOpts offset count missing) (.fmt unk),
    ctors := [s2b "ZRangeByScore"],
    fin := fun ts tv => match ts, tv with
      | [k, mn, mx], .seen s =>
        .ok ⟨s2b "ZRangeByScore", [k, mn, mx, .b (s.has 0)] ++
          (match s.last 1 with
            | some [o, c] => [o, castUsize c]
            | _ => [.none])⟩
      | _, _ => .error .unreachable }

def scan (ctor : Bytes) (withKey : Bool) (unk : Fmt) : GenDesc :=
  { dom := if withKey then .atLeast 2 else .atLeast 1,
    pre := if withKey then [aStr, aU64] else [aU64],
    tail := .scan scanOptTbl (.fmt unk), ctors := [ctor],
    fin := fun ts tv => match tv with
      | .seen s => .ok ⟨ctor, ts ++ [s.opt1 0, castUsize (s.opt1 1)]⟩
      | _ => .error .unreachable }

def sort : GenDesc :=
  { dom := .atLeast 1, pre := [aStr], tail := .scan sortOpts (.lit .syntax), ctors := [s2b "Sort"],
    fin := fun ts tv => match ts, tv with
      | [k], .seen s => .ok ⟨s2b "Sort", [k, s.opt1 0]⟩
      | _, _ => .error .unreachable }

def eval (ctor : Bytes) (keysErr : Lit) : GenDesc :=
  { dom := .atLeast 2, pre := [aStr, aInt], tail := .raw, ctors := [ctor], finLits := [.evalNegKeys, keysErr],
    fin := fun ts tv => match ts, tv with
      | [sc, .i n], .raw rest =>
        if n < 0 then .error (.lit .evalNegKeys)
        else if rest.length < n.toNat then .error (.lit keysErr)
        else
          .ok ⟨ctor, [sc, .len ((rest.take n.toNat).map (fun a => Tok.s (lossy a))).length] ++
            (rest.take n.toNat).map (fun a => Tok.s (lossy a)) ++
            [.len ((rest.drop n.toNat).map Tok.d).length] ++ (rest.drop n.toNat).map Tok.d⟩
      | _, _ => .error .unreachable }

def command : GenDesc :=
  { dom := .any, pre := [], opt := [aKw], tail := .ignore, ctors := [s2b "CommandCommand", s2b "CommandCount"],
    fin := fun ts _ => match ts with
      | [] => .ok ⟨s2b "CommandCommand", []⟩
      | [.s w] => if w == s2b "COUNT" then .ok ⟨s2b "CommandCount", []⟩ else .ok ⟨s2b "CommandCommand", []⟩
      | _ => .error .unreachable }

def setrange : GenDesc :=
  { dom := .exact 3, pre := [aStr, aInt, aSds], tail := .none, ctors := [s2b "SetRange"], finLits := [.offsetRange],
    fin := fun ts _ => match ts with
      | [k, .i o, v] => if o < 0 then .error (.lit .offsetRange) else .ok ⟨s2b "SetRange", [k, .n o.toNat, v]⟩
      | _ => .error .unreachable }

def setbit : GenDesc :=
  { dom := .exact 3, pre := [aStr, aBitOff, aBitVal], tail := .none, ctors := [s2b "SetBit"], finLits := [.bitValue],
    fin := fun ts _ => match ts with
      | [k, o, .i x] => if x < 0 || x > 1 then .error (.lit .bitValue) else .ok ⟨s2b "SetBit", [k, o, .n x.toNat]⟩
      | _ => .error .unreachable }

def getbit : GenDesc :=
  { dom := .exact 2, pre := [aStr, aBitOff], tail := .none, ctors := [s2b "GetBit"],
    fin := fun ts _ => match ts with
      | [k, o] => .ok ⟨s2b "GetBit", [k, o]⟩
      | _ => .error .unreachable }

def incrbyfloat : GenDesc :=
  { dom := .exact 2, pre := [aStr, aFlt], tail := .none, ctors := [s2b "IncrByFloat"], finLits := [.incrNanInf],
    fin := fun ts _ => match ts with
      | [k, .f bits] =>
        if f64IsNan bits || f64IsInf bits then .error (.lit .incrNanInf) else .ok ⟨s2b "IncrByFloat", [k, .f bits]⟩
      | _ => .error .unreachable }

def optStr (ctor : Bytes) : GenDesc :=
  { dom := .any, pre := [], opt := [aStr], tail := .ignore, ctors := [ctor],
    fin := fun ts _ => match ts with
      | [] => .ok ⟨ctor, [.none]⟩
      | [t] => .ok ⟨ctor, [t]⟩
      | _ => .error .unreachable }

def aclGenpass : GenDesc :=
  { dom := .any, pre := [], opt := [aBits], tail := .ignore, ctors := [s2b "AclGenPass"],
    fin := fun ts _ => match ts with
      | [] => .ok ⟨s2b "AclGenPass", [.none]⟩
      | [t] => .ok ⟨s2b "AclGenPass", [t]⟩
      | _ => .error .unreachable }

def aclDryrun : GenDesc :=
  { dom := .atLeast 2, pre := [aStr, aKw], tail := .many aStr, ctors := [s2b "AclDryrun"],
    fin := fun ts tv => match ts, tv with
      | [u, c], .toks n us => .ok ⟨s2b "AclDryrun", [u, c, .len n] ++ us⟩
      | _, _ => .error .unreachable }

def aclLog : GenDesc :=
  { dom := .between 0 1, pre := [], opt := [aKw], tail := .none, ctors := [s2b "AclLog", s2b "AclLogReset"],
    finLits := [.notInt],
    fin := fun ts _ => match ts with
      | [] => .ok ⟨s2b "AclLog", [.none]⟩
      | [.s w] =>
        if w == s2b "RESET" then .ok ⟨s2b "AclLogReset", []⟩
        else match parseUnsigned u64Max w with
          | .ok n => .ok ⟨s2b "AclLog", [.n n]⟩
          | .error _ => .error (.lit .notInt)
      | _ => .error .unreachable }

/-- `Ok(Command::Unknown("ACL HELP"))` and the like: the arguments are not looked at -/
def stub (text : Bytes) : GenDesc :=
  { dom := .any, pre := [], tail := .ignore, ctors := [s2b "Unknown"],
    fin := fun _ _ => .ok ⟨s2b "Unknown", [.s text]⟩ }

def luaSetChecks : List (Cond × Lit) := [(.and (.has 0) (.has 1), .nxxx)]

def luaSet : GenDesc :=
  { dom := .atLeast 2, pre := [aStr, aSds], tail := .scan luaSetOpts (.fmt .luaUnknownSet), ctors := [s2b "Set"],
    finLits := [.nxxx], checks := luaSetChecks,
    fin := fun ts tv => match ts, tv with
      | [k, v], .seen s =>
        finWithChecks luaSetChecks (fun s => mkSet k v (s.opt1 3) (s.opt1 4) .none .none (s.has 0) (s.has 1) (s.has 2) false) s
      | _, _ => .error .unreachable }

def luaExpire : GenDesc :=
  { dom := .exact 2, pre := [aStr, aIntE .luaExpireInt], tail := .none, ctors := [s2b "Expire"],
    fin := fun ts _ => match ts with
      | [k, t] => .ok ⟨s2b "Expire", [k, t, bFalse, bFalse, bFalse, bFalse]⟩
      | _ => .error .unreachable }

def luaZrange : GenDesc :=
  { dom := .exact 3, pre := [aStr, aIntE .luaZrangeStart, aIntE .luaZrangeStop], tail := .none, ctors := [s2b "ZRange"],
    fin := fun ts _ => match ts with
      | [k, a, b] => .ok ⟨s2b "ZRange", [k, a, b, bFalse]⟩
      | _ => .error .unreachable }

end Desc
end RedisVerif.Grammar
