import RedisVerif.Model.GrammarTable
import RedisVerif.Model.LuaConv

/-
  M7 / LuaScript — `CommandExecutor::execute_lua_script` of
  `/repo/src/redis/executor/script_ops.rs` for the script language C16 speaks about: a script is a
  sequence of `redis.call(…)` / `redis.pcall(…)` statements whose arguments are Lua literals,
  `KEYS[i]` / `ARGV[i]` or the results of earlier statements, followed by a `return` of an expression
  built from literals, the results of the calls and table constructors:

      local r0 = redis.call(a, b, …)
      local r1 = redis.pcall('SET', KEYS[1], r0)
      return {r0, {r1, 5}, "x"}

  Transcribed as the code is:
    * `parse_multivalue_to_bytes`: strings / integers / floats become argument bytes, any other
      value makes BOTH `redis.call` and `redis.pcall` raise `Invalid argument type for redis command`;
      no argument at all raises `redis.[p]call requires at least one argument`;
    * the words go through the translator `parse_lua_command_bytes` (`Grammar.parseLua`); its error is
      raised by `redis.call`, returned as the table `{err = text}` by `redis.pcall`;
    * an accepted command is EXECUTED (the executor is a parameter: any `exec : σ → Cmd → σ × Resp`);
      an error reply is raised by `redis.call` AFTER the execution (the state the executor returned
      is kept), returned as `{err = text}` by `redis.pcall`; any other reply goes through
      `resp_to_lua_value`;
    * a raised error ends the script: nothing is rolled back (effects of the earlier calls stay);
      the reply is the error text — verbatim when its first word is an upper-case code word, with
      `ERR ` in front otherwise (fix 723dfa5);
    * otherwise the reply is `lua_to_resp` of the returned value.

  The script cache, `math.randomseed`, the sandbox and Lua's own evaluation rules are outside this
  model (trusted base: only scripts of the shape above are generated).
  Imports core + RedisVerif.Model only (linked into the native driver).
-/
namespace RedisVerif.LuaScript
open RedisVerif.Grammar RedisVerif.LuaConv

/-- an argument expression of a call -/
inductive AExpr where
  | lit (v : LuaVal)
  | key (i : Nat)      -- `KEYS[i]`  (1-based; out of range = nil)
  | argv (i : Nat)     -- `ARGV[i]`
  | res (i : Nat)      -- `r_i`: the result of an earlier statement (0-based; not yet assigned = nil)

/-- `local r_i = redis.call(args…)` (`prot = false`) or `redis.pcall(args…)` (`prot = true`) -/
structure Call where
  prot : Bool
  args : List AExpr

/-- the `return` expression -/
inductive Ret where
  | lit (v : LuaVal)
  | res (i : Nat)              -- `r_i`, 0-based (an undeclared name is nil)
  | tbl (xs : List Ret)        -- `{e1, …, en}`

structure Script where
  calls : List Call
  ret : Ret

/-- the `KEYS` / `ARGV` tables of an `EVAL` (keys are lossy `String`s, arguments raw bytes) -/
structure Env where
  keys : List Bytes
  argv : List Bytes

def idx1 (l : List Bytes) (i : Nat) : LuaVal :=
  match i with
  | 0 => .nil
  | j + 1 => match l[j]? with
    | some b => .str b
    | none => .nil

/-- an argument expression, given the results of the statements completed so far -/
def AExpr.eval (env : Env) (rs : List LuaVal) : AExpr → LuaVal
  | .lit v => v
  | .key i => idx1 env.keys i
  | .argv i => idx1 env.argv i
  | .res i => match rs[i]? with
    | some v => v
    | none => .nil

/-- `parse_multivalue_to_bytes`: `none` = some argument is not a string / integer / float -/
def argsBytes : List LuaVal → Option (List Bytes)
  | [] => some []
  | v :: vs => match luaArgBytes v, argsBytes vs with
    | some b, some bs => some (b :: bs)
    | _, _ => none

def msgInvalidArg : Bytes := s2b "Invalid argument type for redis command"
def msgNeedsArg (prot : Bool) : Bytes :=
  if prot then s2b "redis.pcall requires at least one argument" else s2b "redis.call requires at least one argument"

/-- what one call statement does -/
inductive Step (σ : Type) where
  | value (s : σ) (v : LuaVal)      -- the statement completes, `r_i = v`
  | raise (s : σ) (msg : Bytes)     -- a Lua error with this message unwinds the script
  | crash                           -- the translator panics (no table entry does)

/-- one `redis.call` / `redis.pcall` on evaluated arguments -/
def doCall {σ : Type} (exec : σ → Cmd → σ × Resp) (s : σ) (prot : Bool) (vals : List LuaVal) : Step σ :=
  match argsBytes vals with
  | none => .raise s msgInvalidArg
  | some [] => .raise s (msgNeedsArg prot)
  | some (w :: ws) =>
    match parseLua (w :: ws) with
    | .error e =>
      match e.text with
      | none => .crash
      | some t => if prot then .value s (.errT t) else .raise s t
    | .ok cmd =>
      match exec s cmd with
      | (s', .error t) => if prot then .value s' (.errT t) else .raise s' t
      | (s', r) => .value s' (respToLua r)

inductive Halt where
  | raised (msg : Bytes)
  | crash
  deriving DecidableEq, Repr

/-- the outcome of the call statements -/
structure Run (σ : Type) where
  state : σ
  results : List LuaVal          -- `r_0, r_1, …` of the statements that completed (earlier ones first)
  started : Nat                  -- how many statements were started (the raising one included)
  halt : Option Halt             -- `none`: every statement completed

/-- the statements, one after the other; `acc` = the results so far (later statements may use them) -/
def runCallsA {σ : Type} (exec : σ → Cmd → σ × Resp) (env : Env) : List LuaVal → σ → List Call → Run σ
  | acc, s, [] => ⟨s, acc, 0, none⟩
  | acc, s, c :: cs =>
    match doCall exec s c.prot (c.args.map (AExpr.eval env acc)) with
    | .crash => ⟨s, acc, 1, some .crash⟩
    | .raise s' m => ⟨s', acc, 1, some (.raised m)⟩
    | .value s' v =>
      let r := runCallsA exec env (acc ++ [v]) s' cs
      ⟨r.state, r.results, r.started + 1, r.halt⟩

def runCalls {σ : Type} (exec : σ → Cmd → σ × Resp) (env : Env) (s : σ) (cs : List Call) : Run σ :=
  runCallsA exec env [] s cs

mutual
def Ret.eval (rs : List LuaVal) : Ret → LuaVal
  | .lit v => v
  | .res i => match rs[i]? with
    | some v => v
    | none => .nil
  | .tbl xs => .arr (Ret.evalL rs xs)
def Ret.evalL (rs : List LuaVal) : List Ret → List LuaVal
  | [] => []
  | x :: xs => Ret.eval rs x :: Ret.evalL rs xs
end

/-- the first word of an error message is an upper-case code word (`ERR`, `WRONGTYPE`, `GET` …) -/
def hasCode (msg : Bytes) : Bool :=
  let w := msg.takeWhile (· != 32)
  !w.isEmpty && w.all (fun b => decide (65 ≤ b) && decide (b ≤ 90))

/-- the reply of a script that ended in a Lua error raised by `redis.call` / `redis.pcall` -/
def raiseReply (msg : Bytes) : Resp :=
  .error (if hasCode msg then msg else s2b "ERR " ++ msg)

/-- `execute_lua_script`: final executor state and the reply of the `EVAL`; `none` = panic -/
def evalScript {σ : Type} (exec : σ → Cmd → σ × Resp) (env : Env) (s : σ) (sc : Script) : σ × Option Resp :=
  let r := runCalls exec env s sc.calls
  match r.halt with
  | some .crash => (r.state, none)
  | some (.raised m) => (r.state, some (raiseReply m))
  | none => (r.state, some (luaToResp (sc.ret.eval r.results)))

/-! ## the client path, for comparison -/

/-- the words a call statement evaluates to, given the results so far (`none`: an argument is refused) -/
def Call.words (env : Env) (rs : List LuaVal) (c : Call) : Option (List Bytes) :=
  argsBytes (c.args.map (AExpr.eval env rs))

/-- a client sends the same words: `Command::from_resp`, then the executor (a frame the parser
    refuses changes nothing) -/
def directStep {σ : Type} (exec : σ → Cmd → σ × Resp) (s : σ) (words : List Bytes) : σ × Option Resp :=
  match parseCmd words with
  | .ok cmd => let (s', r) := exec s cmd; (s', some r)
  | .error _ => (s, none)

/-- the words of the started statements, as they were evaluated while the script ran -/
def runWords {σ : Type} (exec : σ → Cmd → σ × Resp) (env : Env) : List LuaVal → σ → List Call → List (Option (List Bytes))
  | _, _, [] => []
  | acc, s, c :: cs =>
    c.words env acc ::
      match doCall exec s c.prot (c.args.map (AExpr.eval env acc)) with
      | .value s' v => runWords exec env (acc ++ [v]) s' cs
      | _ => []

/-- a client sends these word lists one after the other (a refused argument list, or an empty one, sends nothing) -/
def sendAll {σ : Type} (exec : σ → Cmd → σ × Resp) : σ → List (Option (List Bytes)) → σ
  | s, [] => s
  | s, some (w :: ws) :: rest => sendAll exec (directStep exec s (w :: ws)).1 rest
  | s, _ :: rest => sendAll exec s rest

/-- `Command::Eval { script, keys, args }` as the grammar renders it → the script's environment -/
def envOfEval (c : Cmd) : Option Env :=
  match c.toks with
  | _script :: .len nk :: rest =>
    let ks := (rest.take nk).filterMap (fun t => match t with | Tok.s b => some b | _ => none)
    match rest.drop nk with
    | .len _ :: as => some ⟨ks, as.filterMap (fun t => match t with | Tok.d b => some b | _ => none)⟩
    | _ => none
  | _ => none

end RedisVerif.LuaScript
