import RedisVerif.Model.Shards
import RedisVerif.Model.RedisKeys

/-
  M7/Shards7 — the sharding layer (`Model/Shards.lean`: `ShardedActorState::execute` and the fast
  entry points) INSTANTIATED with the M7 reference executor (`Model/Redis.lean`, the model C01
  validates against the real `CommandExecutor` on every run), with TIME.

  Until now the per-shard executor of the C03 theorems was a parameter of which locality was
  ASSUMED (`Exec.Local`) and proved only for the small string/list executor `ShardsStr`.  Here:

  * `sig7` / `exec7`: `Exec sig7` whose single-key part `exec1` and two-key part `exec2` ARE
    `Redis.exec` (all five value types, expiry commands, RENAME / RENAMENX / RPOPLPUSH / LMOVE /
    SORT … STORE); a stored value is an M7 `Entry` (value + deadline).  `Exec.Local exec7` is a
    THEOREM (`Lemmas/Shards7.lean`, from `Redis.exec_localOn`).
  * `inject now c`: an M7 command as the sharding layer sees it (`Command::get_primary_key` routing
    for single- and two-key commands and MSETNX, the fan-out arms for MGET / MSET / DEL / EXISTS /
    KEYS / DBSIZE / FLUSHDB / FLUSHALL, RANDOMKEY asked shard by shard).
  * time: `ShardActor::run` starts EVERY message arm with `executor.set_time(virtual_time)` = set the
    clock + evict every expired key (`Redis.purge`), then executes.  `execNT7 R W now st c`: the shards
    selected by `W` adopt the time `now` (`sweep`), then `execN exec7` runs the injected command on
    them.  The code is `W = recv R (inject now c)` (exactly the shards that get a message); the
    theorems hold for every `W` that contains `recv` — extra sweeps (the TTL manager's
    `evict_expired_all_shards` tick, a shard that was swept by an unrelated message) are
    unobservable.
  * `run7`: a timed command sequence on `R.N` shards.  The one-shard specification is `Redis.run`
    itself (`step s now c = exec (purge s now) now c`).

  Imports only models (linked into the native driver).
-/
namespace RedisVerif
namespace Shards
namespace M7

open Redis (Entry)

/-- single- and two-key operations carry the virtual time of their message and the M7 command -/
abbrev sig7 : Sig := { Val := Entry, Op := Nat × Redis.Cmd, Op2 := Nat × Redis.Cmd, Pat := Unit }

/-- the M7 executor as the per-shard executor of the sharding model.  The guards make the two
    functions total on ill-formed combinations (a command filed under a key it does not name),
    which `inject` never produces. -/
def exec7 : Exec sig7 where
  exec1 := fun s k op =>
    if Redis.cmdKeys op.2 = some [k] then
      ((Redis.exec s op.1 op.2).1, .one (.ext (Redis.exec s op.1 op.2).2))
    else (s, .one (.err 0))
  exec2 := fun s a b op =>
    if Redis.cmdKeys op.2 = some [a, b] then
      ((Redis.exec s op.1 op.2).1, .one (.ext (Redis.exec s op.1 op.2).2))
    else (s, .one (.err 0))
  str := fun b => ⟨.str b, none⟩
  view := fun e => match e.val with | .str b => some b | _ => none
  glob := fun _ _ => true

/-- an M7 command as `ShardedActorState::execute` classifies it -/
def inject (now : Nat) (c : Redis.Cmd) : Cmd sig7 :=
  match c with
  | .mget ks => .mget ks
  | .mset kvs => .mset kvs
  | .msetnx kvs => .msetnx kvs
  | .del ks => .del ks
  | .exists ks => .exists ks
  | .keys => .keys ()
  | .dbsize => .dbsize
  | .flushdb => .flush
  | .flushall => .flush
  | .randomkey _ => .randomkey
  | c =>
    match Redis.cmdKeys c with
    | some [k] => .single k (now, c)
    | some [a, b] => .two a b (now, c)
    | _ => .dbsize   -- unreachable: every other command names one or two keys (`inject_total`)

/-- the shards that receive a message when `execN` runs `c` (`true` = gets one) -/
def recv (R : Routes) (c : Cmd sig7) (i : Nat) : Bool :=
  match c with
  | .flush | .keys _ | .dbsize | .scan _ _ _ | .randomkey => true
  | .mget ks => ks.any (fun k => R.bytes k == i)
  | .mset kvs => kvs.any (fun kv => R.bytes kv.1 == i)
  | .exists ks => ks.any (fun k => R.bytes k == i)
  | .batchGet ks => ks.any (fun k => R.bytes k == i)
  | .batchSet kvs => kvs.any (fun kv => R.bytes kv.1 == i)
  | .del ks => if ks.length > 1 then ks.any (fun k => R.bytes k == i) else cmdShard R true (Cmd.del (S := sig7) ks) == i
  | c => cmdShard R true c == i

/-- `set_time(now)` on the shards selected by `W`: the clock is adopted and every key whose deadline
    has been reached is evicted -/
def sweepFrom (W : Nat → Bool) (now : Nat) : Nat → Shards Entry → Shards Entry
  | _, [] => []
  | i, s :: rest => (if W i then Redis.purge s now else s) :: sweepFrom W now (i + 1) rest

def sweep (W : Nat → Bool) (now : Nat) (st : Shards Entry) : Shards Entry := sweepFrom W now 0 st

/-- one client command at virtual time `now` on `R.N` shards: the shards in `W` adopt the time,
    then the sharding layer runs the command -/
def execNT7 (R : Routes) (W : Nat → Bool) (now : Nat) (st : Shards Entry) (c : Redis.Cmd) :
    Shards Entry × Reply :=
  execN exec7 R true (sweep W now st) (inject now c)

/-- the code: exactly the shards that get a message adopt the time -/
def execNT7code (R : Routes) (now : Nat) (st : Shards Entry) (c : Redis.Cmd) : Shards Entry × Reply :=
  execNT7 R (recv R (inject now c)) now st c

/-- a timed run on `R.N` shards (the code's sweeping discipline) -/
def run7 (R : Routes) (st : Shards Entry) : List (Nat × Redis.Cmd) → Shards Entry × List Reply
  | [] => (st, [])
  | (now, c) :: cs =>
    let r := execNT7code R now st c
    let rs := run7 R r.1 cs
    (rs.1, r.2 :: rs.2)

/-- element of an M7 array reply ↔ element of a sharding-layer reply -/
def elemOf : R1 → Redis.Elem
  | .bulk b => .bulk b
  | .int i => .int i
  | _ => .nil

/-- what a client reads from a sharding-layer reply, as an M7 reply (`none`: the reply kinds the M7
    command set never produces).  KEYS replies are lists of key codes in SOME order. -/
def toM7 : Reply → Option Redis.Reply
  | .one (.ext r) => some r
  | .one .ok => some .ok
  | .one .nil => some .nil
  | .one (.int i) => some (.int i)
  | .one (.bulk b) => some (.bulk b)
  | .one (.err c) => if c = errWrongType then some (.err .wrongType) else none
  | .many l => some (.arr (l.map elemOf))
  | .keys l => some (.arr (l.map Redis.Elem.key))
  | .scan _ _ => none
  | .rkey none => some .nil
  | .rkey (some k) => some (.key k)

/-- equal up to the order inside a KEYS reply -/
def replyEqv7 (a : Reply) (b : Redis.Reply) : Bool :=
  match a, b with
  | .keys l, .arr l' => (l.map Redis.Elem.key).isPerm l'
  | a, b => toM7 a == some b

def repliesEqv7 : List Reply → List Redis.Reply → Bool
  | [], [] => true
  | a :: as, b :: bs => replyEqv7 a b && repliesEqv7 as bs
  | _, _ => false

/-- decidable: every M7 command except RANDOMKEY (a relation: see `randomkey_refines`) and the
    two-key commands / MSETNX whose keys live on different shards (known findings `C03:two-key:*`,
    `C03:multi-key:MSETNX`) -/
def Routable7 (R : Routes) : Redis.Cmd → Bool
  | .randomkey _ => false
  | .msetnx kvs =>
    match kvs with
    | [] => true
    | kv :: rest => rest.all (fun x => R.bytes x.1 == R.bytes kv.1)
  | .rename a b | .renamenx a b | .rpoplpush a b | .lmove a b _ _ | .sort a (some b) =>
    R.bytes a == R.bytes b
  | _ => true

/-- virtual time never goes backwards along the run -/
def Mono7 : Nat → List (Nat × Redis.Cmd) → Prop
  | _, [] => True
  | t, (now, _) :: cs => t ≤ now ∧ Mono7 now cs

def decMono7 : (t : Nat) → (l : List (Nat × Redis.Cmd)) → Decidable (Mono7 t l)
  | _, [] => isTrue trivial
  | t, (now, _) :: cs =>
    match Nat.decLe t now, decMono7 now cs with
    | isTrue h1, isTrue h2 => isTrue ⟨h1, h2⟩
    | isFalse h, _ => isFalse (fun x => h x.1)
    | _, isFalse h => isFalse (fun x => h x.2)

instance (t : Nat) (l : List (Nat × Redis.Cmd)) : Decidable (Mono7 t l) := decMono7 t l

end M7
end Shards
end RedisVerif
