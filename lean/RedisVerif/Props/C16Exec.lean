import RedisVerif.Model.Redis
import RedisVerif.Props.C16Script

/-!
# C16 over the executor model M7 — for which commands is the RESP ↔ Lua conversion exact?

`Props/C16Script.lean` proves, for an arbitrary executor, that `redis.pcall` / `redis.call` run the
command the client path runs and that `return redis.pcall(…)` answers the direct reply itself whenever
that reply is `ConvStable` (no nil array, no nil inside an array).  Here the executor is the reference
model `Redis.exec` (M7, the model C01 ties to `CommandExecutor::execute`), and the question "which
replies occur?" is answered for every state:

* `translator_replies_conv_stable` — for each of the 34 commands the translator knows (`luaOp`), in
  every state and at every instant, the reply is `ConvStable` once rendered as RESP (`toResp`).  Hence
  (`call_equals_direct_on_M7`) a script gets, for these commands, exactly the reply a client gets and
  leaves exactly the keyspace — no command of the translator's table is excluded.
* `mget_reply_not_conv_stable` — the command family that WOULD be excluded: a reply with a nil inside
  an array (MGET on a missing key).  It has no translator entry today (`lua_unknown_command`-class
  finding); were it added, the conversion would cut its reply (`array_cut_at_nil`).
-/
namespace RedisVerif
namespace C16

open Grammar LuaConv LuaScript

/-- the text of a `Redis.Err` as far as this file needs it: the code word (`WRONGTYPE` for a type error, `ERR`
    otherwise — the full texts are rendered by `Driver/C01.lean`); what matters here is "starts with an
    upper-case code word" and "valid UTF-8" -/
def m7ErrText (e : Redis.Err) : Bytes :=
  if e == .wrongType then s2b "WRONGTYPE Operation against a key holding the wrong kind of value"
  else s2b "ERR command failed"

def elemResp : Redis.Elem → Resp
  | .bulk b => .bulk (some b)
  | .key c => .bulk (some (Redis.codeBytes c))
  | .nil => .bulk none
  | .int i => .int i

/-- a reply of the executor model as a RESP value -/
def toResp : Redis.Reply → Resp
  | .simple s => .simple (s2b s)
  | .err e => .error (m7ErrText e)
  | .int i => .int i
  | .bulk b => .bulk (some b)
  | .key c => .bulk (some (Redis.codeBytes c))
  | .nil => .bulk none
  | .arr l => .array (some (l.map elemResp))

/-- the status texts the executor model answers -/
def statusTexts : List String := ["OK", "string", "list", "set", "hash", "zset", "none"]

/-- replies without a nil inside an array and with a known status text -/
def Good : Redis.Reply → Bool
  | .simple s => statusTexts.contains s
  | .arr l => l.all (fun e => e != .nil)
  | _ => true

theorem good_conv_stable (r : Redis.Reply) (h : Good r = true) : ConvStable (toResp r) = true := by
  cases r with
  | simple s =>
    simp only [Good, statusTexts, List.contains_cons, List.contains_nil, Bool.or_false, Bool.or_eq_true, beq_iff_eq] at h
    rcases h with rfl | rfl | rfl | rfl | rfl | rfl | rfl <;> decide
  | err e =>
    simp only [toResp, ConvStable, m7ErrText]
    split <;> decide
  | int i => rfl
  | bulk b => rfl
  | key c => rfl
  | nil => rfl
  | arr l =>
    simp only [Good, List.all_eq_true, bne_iff_ne, ne_eq] at h
    simp only [toResp, ConvStable]
    induction l with
    | nil => rfl
    | cons e es ih =>
      have he := h e (by simp)
      have := ih (fun x hx => h x (by simp [hx]))
      simp only [List.map_cons, ConvStableL, this, Bool.and_true]
      cases e <;> simp_all [elemResp, isNil, ConvStable]

/-- every error text of the executor model starts with an upper-case code word: a raising
    `redis.call` makes the EVAL answer it verbatim (`raiseReply_code`) -/
theorem m7_err_has_code (e : Redis.Err) : hasCode (m7ErrText e) = true := by
  unfold m7ErrText
  split <;> decide

/-- the commands that have an entry in the translator's table, as constructors of the executor
    model's command type (ZRANGE without WITHSCORES, EXPIRE without flags: the shapes the translator
    can build) -/
def luaOp : Redis.Cmd → Bool
  | .get _ | .set _ _ _ _ _ | .del _ | .incr _ | .decr _ | .incrby _ _ | .hget _ _ | .hset _ _ | .hdel _ _
  | .lpush _ _ | .rpush _ _ | .lpop _ | .rpop _ | .llen _ | .sadd _ _ | .srem _ _ | .smembers _ | .exists _
  | .expire _ _ _ | .ttl _ | .type _ | .hincrby _ _ _ | .lrange _ _ _ | .rpoplpush _ _ | .lmove _ _ _ _
  | .hgetall _ | .sismember _ _ | .zadd _ _ _ | .zrem _ _ | .zrange _ _ _ _ | .zscore _ _ | .zcard _
  | .zcount _ _ _ | .zrangebyscore _ _ _ _ _ => true
  | _ => false

theorem good_oldStrReply (s : Redis.State) (k : Nat) : Good (Redis.oldStrReply s k) = true := by
  unfold Redis.oldStrReply; split <;> rfl

theorem good_setCore (s : Redis.State) (k : Nat) (v : Redis.BS) (c : Redis.SetCond) (g : Bool) (p : Redis.DlPlan) :
    Good (Redis.setCore s k v c g p).2 = true := by
  unfold Redis.setCore
  split
  · rfl
  · split <;> cases g <;> simp only [Bool.false_eq_true, if_false, if_true] <;>
      first | exact good_oldStrReply s k | rfl

theorem good_incrBy (s : Redis.State) (k : Nat) (d : Int) : Good (Redis.execIncrBy s k d).2 = true := by
  unfold Redis.execIncrBy
  split
  · rfl
  · rfl
  · split
    · rfl
    · split <;> rfl

theorem good_expireAt (s : Redis.State) (now k : Nat) (w : Int) (f : Redis.ExpFlags) :
    Good (Redis.expireAt s now k w f).2 = true := by
  unfold Redis.expireAt
  split
  · rfl
  · split
    · rfl
    · split <;> rfl

theorem good_lmove (s : Redis.State) (a b : Nat) (f t : Redis.Side) : Good (Redis.execLMove s a b f t).2 = true := by
  unfold Redis.execLMove
  split
  · rfl
  · rfl
  · split
    · rfl
    · split
      · rfl
      · split <;> rfl

theorem all_map_ne_nil {α : Type} (l : List α) (f : α → Redis.Elem) (hf : ∀ a, f a ≠ .nil) :
    (l.map f).all (fun e => e != .nil) = true := by
  simp only [List.all_map, List.all_eq_true, Function.comp_apply, bne_iff_ne, ne_eq]
  exact fun a _ => hf a

theorem zElems_ne_nil (ws : Bool) (z : Redis.ZL) : (Redis.zElems ws z).all (fun e => e != .nil) = true := by
  simp only [Redis.zElems, List.all_flatMap, List.all_eq_true]
  intro p _
  cases ws <;> simp

/-- the reply of every command the translator knows, in every state, at every instant: no nil
    inside an array, a known status text -/
theorem good_exec (s : Redis.State) (now : Nat) (op : Redis.Cmd) (h : luaOp op = true) :
    Good (Redis.exec s now op).2 = true := by
  cases op <;> simp only [luaOp, Bool.false_eq_true] at h <;> simp only [Redis.exec]
  case get k => unfold Redis.execGet; split <;> rfl
  case set k v c e g => unfold Redis.execSet; split; rfl; exact good_setCore ..
  case del ks => rfl
  case incr k => exact good_incrBy ..
  case decr k => exact good_incrBy ..
  case incrby k d => exact good_incrBy ..
  case «exists» ks => rfl
  case type k => unfold Redis.execType; split; rfl; (rename_i e _; cases e.val <;> rfl)
  case expire k v f =>
    unfold Redis.execExpire
    split; rfl; split; rfl; split; rfl; exact good_expireAt ..
  case ttl k => unfold Redis.execTtl Redis.ttlReply; split; rfl; split <;> rfl
  case lpush k vs => unfold Redis.execPush; split; rfl; split <;> rfl
  case rpush k vs => unfold Redis.execPush; split; rfl; split <;> rfl
  case lpop k => unfold Redis.execPop; split; rfl; rfl; split <;> rfl
  case rpop k => unfold Redis.execPop; split; rfl; rfl; split <;> rfl
  case llen k => unfold Redis.execLLen; split <;> rfl
  case lrange k a b =>
    unfold Redis.execLRange
    split; rfl; rfl
    exact all_map_ne_nil _ _ (fun _ => by simp)
  case rpoplpush a b => exact good_lmove ..
  case lmove a b f t => exact good_lmove ..
  case sadd k ms => unfold Redis.execSAdd; split; rfl; split <;> rfl
  case srem k ms => unfold Redis.execSRem; split <;> rfl
  case smembers k =>
    unfold Redis.execSMembers
    split; rfl; rfl
    exact all_map_ne_nil _ _ (fun _ => by simp)
  case sismember k m => unfold Redis.execSIsMember; split <;> rfl
  case hset k fvs => unfold Redis.execHSet; split; rfl; split <;> rfl
  case hget k f => unfold Redis.execHGet; split; rfl; rfl; split <;> rfl
  case hdel k fs => unfold Redis.execHDel; split <;> rfl
  case hgetall k =>
    unfold Redis.execHGetAll
    split; rfl; rfl
    simp only [Good, List.all_flatMap, List.all_eq_true]
    intro p _; simp
  case hincrby k f d =>
    unfold Redis.execHIncrBy
    split; rfl; rfl; split; rfl; split <;> rfl
  case zadd k f ps =>
    unfold Redis.execZAdd
    split; rfl; split; rfl; split; rfl; (split <;> rfl); rfl
  case zrem k ms => unfold Redis.execZRem; split <;> rfl
  case zrange k a b ws =>
    unfold Redis.execZRange
    split; rfl; rfl; exact zElems_ne_nil ..
  case zscore k m => unfold Redis.execZScore; split; rfl; rfl; split <;> rfl
  case zcard k => unfold Redis.execZCard; split <;> rfl
  case zcount k lo hi => unfold Redis.execZCount; split; (split <;> rfl); rfl
  case zrangebyscore k lo hi ws lim =>
    unfold Redis.execZRangeByScore
    split; (split; rfl; rfl; exact zElems_ne_nil ..); rfl

/-- for each of the translator's commands, in every state and at every instant, the reply of the
    executor model round-trips through `resp_to_lua_value` / `lua_to_resp` -/
theorem translator_replies_conv_stable (s : Redis.State) (now : Nat) (op : Redis.Cmd) (h : luaOp op = true) :
    ConvStable (toResp (Redis.exec s now op).2) = true :=
  good_conv_stable _ (good_exec s now op h)

/-- `Redis.exec` as an executor of the script model, through ANY reading `sem` of the grammar's
    commands as commands of the executor model (the field-level reading is C01's tie, not fixed here);
    a command `sem` cannot read changes nothing and answers an error -/
def m7Exec (sem : Cmd → Option Redis.Cmd) (now : Nat) (s : Redis.State) (c : Cmd) : Redis.State × Resp :=
  match sem c with
  | some op => ((Redis.step s now op).1, toResp (Redis.step s now op).2)
  | none => (s, .error (s2b "ERR unknown command"))

/-- second half of C16 on the executor model: for every reading `sem` that maps the commands the
    translator accepts to `luaOp` commands, every state, every instant, every `redis.pcall(words…)`
    the translator accepts: the script `return redis.pcall(words…)` leaves exactly the keyspace and
    answers exactly the reply of the client path.  No command of the translator's table is excluded. -/
theorem call_equals_direct_on_M7 (sem : Cmd → Option Redis.Cmd) (now : Nat) (s : Redis.State) (env : Env)
    (args : List AExpr) (w : Bytes) (ws : List Bytes) (c : Cmd)
    (hargs : argsBytes (args.map (AExpr.eval env [])) = some (w :: ws)) (hp : parseLua (w :: ws) = .ok c)
    (hsem : ∀ op, sem c = some op → luaOp op = true) :
    evalScript (m7Exec sem now) env s ⟨[⟨true, args⟩], .res 0⟩ = directStep (m7Exec sem now) s (w :: ws) ∧
    parseCmd (w :: ws) = .ok c := by
  have hst : ConvStable (m7Exec sem now s c).2 = true := by
    unfold m7Exec
    cases hs : sem c with
    | none => show ConvStable (Resp.error (s2b "ERR unknown command")) = true; decide
    | some op => exact translator_replies_conv_stable _ now op (hsem op hs)
  obtain ⟨h1, h2⟩ := pcall_reply_equals_direct_partial (m7Exec sem now) env s args w ws c hargs hp hst
  exact ⟨by rw [h1, h2], lua_agrees_partial w ws c hp⟩

/-- non-vacuity: a reading of three constructors, the hypothesis `hsem` for an accepted LRANGE, and the
    instance: on a keyspace holding the list `l = [a]`, `return redis.pcall('LRANGE', 'l', 0, -1)` answers
    the array the client gets -/
def semDemo (c : Cmd) : Option Redis.Cmd :=
  match c.toks with
  | [.s _] => if c.ctor = s2b "Get" then some (.get 1) else if c.ctor = s2b "HGetAll" then some (.hgetall 1) else none
  | [.s _, .i a, .i b] => if c.ctor = s2b "LRange" then some (.lrange 1 a b) else none
  | _ => none

example : parseLua [s2b "LRANGE", s2b "l", s2b "0", s2b "-1"] = .ok ⟨s2b "LRange", [.s (s2b "l"), .i 0, .i (-1)]⟩ ∧
    (∀ op, semDemo ⟨s2b "LRange", [.s (s2b "l"), .i 0, .i (-1)]⟩ = some op → luaOp op = true) ∧
    (m7Exec semDemo 0 [(1, ⟨.list [[97]], none⟩)] ⟨s2b "LRange", [.s (s2b "l"), .i 0, .i (-1)]⟩).2 =
      .array (some [.bulk (some [97])]) := by
  refine ⟨by decide, ?_, by rfl⟩
  intro op h
  have : op = .lrange 1 0 (-1) := by
    simp only [semDemo] at h
    exact (Option.some.inj h).symm
  subst this
  rfl

/-! ## the script semantics of the code refines the script specification of the reference model

`Redis.stepScript` (Model/Redis.lean on main, used by C01 / C17) is Redis' own rule for a script that is a straight
sequence of `redis.call` on data commands ending in `return 'done'`: every call runs as the command itself at the same
instant, the first call that replies with an error raises it, the script stops there and the reply is that error;
what the earlier calls wrote stays.  `m7StepScript` below is that definition (kept local so that this file does not
depend on the other branch; the two are the same function, clause by clause).  The theorem says that the
TRANSCRIPTION of `execute_lua_script` (`LuaScript.evalScript`: argument conversion, translator, execution, error
unwrapping with the code-word rule, `lua_to_resp`) instantiated with the reference executor computes exactly this
specification, for every state, instant and script of that form whose commands the translator knows. -/

def m7StepScript (s : Redis.State) (now : Nat) : List Redis.Cmd → Redis.State × Redis.Reply
  | [] => (s, .bulk [100, 111, 110, 101])
  | c :: cs =>
    match (Redis.step s now c).2 with
    | .err e => ((Redis.step s now c).1, .err e)
    | _ => m7StepScript (Redis.step s now c).1 now cs

/-- a statement `redis.call(w1, …, wn)` with literal string words -/
def litCall (ws : List Bytes) : Call := ⟨false, ws.map (fun w => AExpr.lit (.str w))⟩

theorem argsBytes_lits (env : Env) (acc : List LuaVal) (ws : List Bytes) :
    argsBytes ((litCall ws).args.map (AExpr.eval env acc)) = some ws := by
  induction ws with
  | nil => rfl
  | cons w ws ih =>
    simp only [litCall, List.map_cons, AExpr.eval, argsBytes, luaArgBytes] at ih ⊢
    rw [ih]

theorem toResp_error_iff (r : Redis.Reply) (t : Bytes) : toResp r = .error t ↔ ∃ e, r = .err e ∧ t = m7ErrText e := by
  cases r <;> simp [toResp, eq_comm]

theorem runCallsA_m7 (sem : Cmd → Option Redis.Cmd) (now : Nat) (env : Env) :
    ∀ (stmts : List (List Bytes × Cmd × Redis.Cmd)) (acc : List LuaVal) (s : Redis.State),
    (∀ x ∈ stmts, x.1 ≠ [] ∧ parseLua x.1 = .ok x.2.1 ∧ sem x.2.1 = some x.2.2) →
    (runCallsA (m7Exec sem now) env acc s (stmts.map (fun x => litCall x.1))).state = (m7StepScript s now (stmts.map (·.2.2))).1 ∧
    ((∃ e, (m7StepScript s now (stmts.map (·.2.2))).2 = .err e ∧
        (runCallsA (m7Exec sem now) env acc s (stmts.map (fun x => litCall x.1))).halt = some (.raised (m7ErrText e))) ∨
     ((m7StepScript s now (stmts.map (·.2.2))).2 = .bulk [100, 111, 110, 101] ∧
        (runCallsA (m7Exec sem now) env acc s (stmts.map (fun x => litCall x.1))).halt = none)) := by
  intro stmts
  induction stmts with
  | nil => intro acc s _; exact ⟨rfl, Or.inr ⟨rfl, rfl⟩⟩
  | cons x xs ih =>
    intro acc s h
    obtain ⟨hne, hp, hs⟩ := h x (by simp)
    obtain ⟨w, ws, hw⟩ : ∃ w ws, x.1 = w :: ws := by
      cases hx : x.1 with
      | nil => exact absurd hx hne
      | cons w ws => exact ⟨w, ws, rfl⟩
    have hargs := argsBytes_lits env acc x.1
    rw [hw] at hargs hp
    have hcall : doCall (m7Exec sem now) s false ((litCall x.1).args.map (AExpr.eval env acc)) =
        callOutcome false (m7Exec sem now s x.2.1).1 (m7Exec sem now s x.2.1).2 := by
      rw [hw]; exact doCall_ok (m7Exec sem now) hargs hp
    have hexec : m7Exec sem now s x.2.1 = ((Redis.step s now x.2.2).1, toResp (Redis.step s now x.2.2).2) := by
      simp [m7Exec, hs]
    simp only [List.map_cons, runCallsA, m7StepScript]
    have hprot : (litCall x.1).prot = false := rfl
    rw [hprot, hcall, hexec]
    cases hr : (Redis.step s now x.2.2).2 with
    | err e =>
      simp only [toResp, callOutcome]
      exact ⟨rfl, Or.inl ⟨e, rfl, rfl⟩⟩
    | simple t => simp only [toResp, callOutcome]; exact ih _ _ (fun y hy => h y (by simp [hy]))
    | int i => simp only [toResp, callOutcome]; exact ih _ _ (fun y hy => h y (by simp [hy]))
    | bulk b => simp only [toResp, callOutcome]; exact ih _ _ (fun y hy => h y (by simp [hy]))
    | key c => simp only [toResp, callOutcome]; exact ih _ _ (fun y hy => h y (by simp [hy]))
    | nil => simp only [toResp, callOutcome]; exact ih _ _ (fun y hy => h y (by simp [hy]))
    | arr l => simp only [toResp, callOutcome]; exact ih _ _ (fun y hy => h y (by simp [hy]))

/-- the transcription of `execute_lua_script` over the reference executor computes the reference model's script
    rule: same final keyspace, same reply (the first error reply, or `done`), for every state, instant and script
    of `redis.call` statements with literal words that the translator knows -/
theorem script_refines_m7_spec (sem : Cmd → Option Redis.Cmd) (now : Nat) (env : Env) (s : Redis.State)
    (stmts : List (List Bytes × Cmd × Redis.Cmd))
    (h : ∀ x ∈ stmts, x.1 ≠ [] ∧ parseLua x.1 = .ok x.2.1 ∧ sem x.2.1 = some x.2.2) :
    evalScript (m7Exec sem now) env s ⟨stmts.map (fun x => litCall x.1), .lit (.str (s2b "done"))⟩ =
      ((m7StepScript s now (stmts.map (·.2.2))).1, some (toResp (m7StepScript s now (stmts.map (·.2.2))).2)) := by
  obtain ⟨hst, hh⟩ := runCallsA_m7 sem now env stmts [] s h
  simp only [evalScript, runCalls]
  rcases hh with ⟨e, he, hhalt⟩ | ⟨hd, hhalt⟩
  · rw [hhalt, he, hst]
    simp only [toResp, raiseReply, m7_err_has_code e, if_true]
  · rw [hhalt, hd, hst]
    simp only [Ret.eval, luaToResp, toResp]
    rfl

/-- non-vacuity: `redis.call('GET','l')` on a keyspace where `l` is a list — the hypothesis holds, the specification
    stops with WRONGTYPE and leaves the list, and so does the transcription -/
example : (∀ x ∈ [(([s2b "GET", s2b "l"] : List Bytes), (⟨s2b "Get", [.s (s2b "l")]⟩ : Cmd), Redis.Cmd.get 1)],
      x.1 ≠ [] ∧ parseLua x.1 = .ok x.2.1 ∧ semDemo x.2.1 = some x.2.2) ∧
    (m7StepScript [(1, ⟨.list [[97]], none⟩)] 0 [.get 1]).2 = .err .wrongType := by
  refine ⟨?_, by rfl⟩
  intro x hx
  simp only [List.mem_cons, List.mem_nil_iff, or_false] at hx
  subst hx
  exact ⟨by simp, by decide, by rfl⟩

/-- the replies the conversion would NOT carry: a nil inside an array — MGET of a missing key on the
    empty keyspace.  MGET has no translator entry (it is refused in scripts: known finding); the
    statement says what adding it without repairing the nil conversion would do. -/
theorem mget_reply_not_conv_stable :
    ConvStable (toResp (Redis.exec [] 0 (.mget [5, 7])).2) = false ∧
    luaToResp (respToLua (toResp (Redis.exec [] 0 (.mget [5, 7])).2)) = .array (some []) :=
  ⟨by decide, by rfl⟩

end C16
end RedisVerif
