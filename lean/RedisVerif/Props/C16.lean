import RedisVerif.Model.GrammarTable
import RedisVerif.Model.LuaConv
import RedisVerif.Lemmas.Grammar
import RedisVerif.Lemmas.GrammarOpts
import RedisVerif.Lemmas.GrammarLua
import RedisVerif.Lemmas.GrammarErrs

/-!
# C16 — a command means the same via every entry path (both parsers, Lua redis.call)

Model: `Grammar.parseCmd` (= `Command::from_resp`, the simulation parser), `parseCmdZc`
(= `from_resp_zero_copy`, written as its differences to `parseCmd`), `parseLua`
(= `parse_lua_command_bytes`, the redis.call / redis.pcall translator) — all three are the same
table-driven dispatcher `parseWith` over `table` / `luaTable` — and `LuaConv.respToLua`,
`LuaConv.luaToResp`.  The tie to /repo is the three-way correspondence run of `./check C16`.

What is proved here, once over the tables:

* `parse_case_insensitive` — full strength: frames that differ only in the ASCII letter case of the
  command name, the sub-command name and the words the command's body reads as keywords
  (`frameVariant`, decidable) parse to the same result; also for the zero-copy parser and the Lua
  translator.
* `arity_exact` (+ `arity_exact_sub`, `arity_text_exact`) — the decision table: for the entry a name
  resolves to, the arity error of that entry is answered exactly for the argument counts its
  arity rule rejects, and no other error of the grammar has that text.
* `option_order_irrelevant_*` — SET / EXPIRE / PEXPIRE / GETEX options can be permuted when no keyword
  occurs twice (`_partial`; with a repeated valued option the last one wins:
  `option_order_counterexample`).
* `conflicting_options_rejected_*` — the conflicts the code tests (SET NX+XX, KEEPTTL+expiry, EXPIRE
  NX+XX|GT|LT, GT+LT, GETEX two expiry kinds) are rejected wherever the two options stand and
  whatever their case; the conflicts Redis has and the code lacks are `*_not_rejected`.
* `lua_roundtrip_partial` — `luaToResp (respToLua r) = r` for every `ConvStable` reply; the full
  statement is refuted (`lua_roundtrip_counterexample`: nil array, nil inside arrays).
* `parsers_agree` — full strength since the fixes of the LPUSH/RPUSH/SADD texts and the ACL stubs:
  the zero-copy parser and `from_resp` answer the same for every frame.
* "the Lua translator agrees with the RESP parser" is refuted by kernel-checked witnesses
  (`lua_agrees_counterexample`: it knows 33 command names, its own error texts; known findings) next to the
  proved form `lua_agrees_partial`: whatever the translator accepts, the RESP grammar accepts with
  the same command, field by field (no exception left since the SET NX/XX and LIMIT fixes).
-/
namespace RedisVerif
namespace C16

open Grammar LuaConv

/-! ## 1. letter case -/

theorem body_variant_run (s : Spec) (a b : List Bytes) (h : s.body.variant a b = true) :
    s.run a = s.run b := by
  unfold Spec.run
  cases hb : s.body with
  | custom c =>
    rw [hb] at h
    simp only [Body.variant, Bool.and_eq_true, beq_iff_eq] at h
    rw [h.1]
    simp only [Body.run, c.sound a b h.2]
  | const c => rw [hb] at h; simp only [Body.variant, beq_iff_eq] at h; rw [h]
  | fixed c sl => rw [hb] at h; simp only [Body.variant, beq_iff_eq] at h; rw [h]
  | many c p e => rw [hb] at h; simp only [Body.variant, beq_iff_eq] at h; rw [h]
  | pairs c p x y => rw [hb] at h; simp only [Body.variant, beq_iff_eq] at h; rw [h]

theorem parseWith_variant (tbl : List Entry) (f f' : List Bytes)
    (h : frameVariant tbl f f' = true) : parseWith tbl f = parseWith tbl f' := by
  match f, f' with
  | [], [] => rfl
  | [], _ :: _ => simp [frameVariant] at h
  | _ :: _, [] => simp [frameVariant] at h
  | n :: args, n' :: args' =>
    simp only [frameVariant, Bool.and_eq_true] at h
    obtain ⟨hn, h⟩ := h
    have hk : kw n' = kw n := (kw_congr hn).symm
    simp only [parseWith, hk]
    cases he : findEntry tbl (kw n) with
    | none => rfl
    | some e =>
      rw [he] at h
      cases e with
      | cmd s => exact body_variant_run s _ _ h
      | family nm ae subs d =>
        simp only at h ⊢
        match args, args' with
        | [], [] => rfl
        | [], _ :: _ => simp at h
        | _ :: _, [] => simp at h
        | sub :: r, sub' :: r' =>
          simp only [Bool.and_eq_true] at h
          obtain ⟨hs, h⟩ := h
          have hks : kw sub' = kw sub := (kw_congr hs).symm
          simp only [hks]
          cases hf : findSpec subs (kw sub) with
          | some s => rw [hf] at h; exact body_variant_run s _ _ h
          | none => rw [hf] at h; simp only [beq_iff_eq] at h; rw [h]

/-- full statement: the letter case of the command name, of the sub-command and of every word in
    keyword position is irrelevant -/
def C16_parse_case_insensitive : Prop :=
  ∀ f f' : List Bytes, frameVariant table f f' = true → parseCmd f = parseCmd f'

theorem parse_case_insensitive : C16_parse_case_insensitive :=
  fun f f' h => parseWith_variant table f f' h

/-- the same for the redis.call translator -/
theorem parse_case_insensitive_lua (f f' : List Bytes) (h : frameVariant luaTable f f' = true) :
    parseLua f = parseLua f' := by
  match f, f' with
  | [], [] => rfl
  | [], _ :: _ => simp [frameVariant] at h
  | _ :: _, [] => simp [frameVariant] at h
  | n :: args, n' :: args' =>
    have hw := parseWith_variant luaTable _ _ h
    simp only [frameVariant, Bool.and_eq_true] at h
    have hk : kw n' = kw n := (kw_congr h.1).symm
    simp only [parseLua, hk, hw]

/-- non-vacuity: a mixed-case frame with options is a variant of the upper-case one, and parses -/
example :
    frameVariant table [s2b "SeT", s2b "k", s2b "v", s2b "eX", s2b "5", s2b "nX"]
      [s2b "SET", s2b "k", s2b "v", s2b "EX", s2b "5", s2b "NX"] = true ∧
    parseCmd [s2b "SeT", s2b "k", s2b "v", s2b "eX", s2b "5", s2b "nX"] =
      .ok ⟨s2b "Set", [.s (s2b "k"), .d (s2b "v"), .i 5, .none, .none, .none, .b true, .b false, .b false, .b false]⟩ := by
  decide

example : frameVariant table [s2b "config", s2b "get", s2b "x"] [s2b "CONFIG", s2b "GET", s2b "x"] = true := by decide

/-- the value of an option is NOT a keyword position -/
example : frameVariant table [s2b "SET", s2b "k", s2b "v", s2b "GET"] [s2b "SET", s2b "k", s2b "V", s2b "GET"] = false := by
  decide

/-- observation (all three paths agree, Redis does not): non-ASCII characters whose upper case is
    ASCII select a command — `ſet` IS `SET`, `ﬂushall` IS `FLUSHALL` -/
theorem non_ascii_name_selects_command :
    parseCmd [[0xC5, 0xBF, 101, 116], s2b "k", s2b "v"] = parseCmd [s2b "SET", s2b "k", s2b "v"] ∧
    parseCmd [[0xEF, 0xAC, 0x82] ++ s2b "ushall"] = .ok ⟨s2b "FlushAll", []⟩ := by
  decide

/-! ## 2. arity decision table -/

theorem findEntry_mem {tbl : List Entry} {k : Bytes} {e : Entry} (h : findEntry tbl k = some e) : e ∈ tbl := by
  induction tbl with
  | nil => simp [findEntry] at h
  | cons x xs ih =>
    simp only [findEntry] at h
    split at h
    · simp at h; simp [h]
    · simp [ih h]

theorem findSpec_mem {l : List Spec} {k : Bytes} {s : Spec} (h : findSpec l k = some s) : s ∈ l := by
  induction l with
  | nil => simp [findSpec] at h
  | cons x xs ih =>
    simp only [findSpec] at h
    split at h
    · simp at h; simp [h]
    · simp [ih h]

theorem parse_of_find {name : Bytes} {s : Spec} (h : findEntry table (kw name) = some (.cmd s))
    (args : List Bytes) : parseCmd (name :: args) = s.run args := by
  simp only [parseCmd, parseWith, h]

theorem run_arity_iff (s : Spec) (args : List Bytes) (t : Bytes) :
    s.run args = .error (.arity t) ↔ (s.arity.ok args.length = false ∧ t = s.arityErr) := by
  unfold Spec.run
  cases h : s.arity.ok args.length with
  | true =>
    simp only [if_true]
    cases s.body.run args <;> simp
  | false =>
    simp [eq_comm]

/-- full statement: for the table entry a command name resolves to (whatever its letter case),
    the entry's arity error is answered exactly for the argument counts its arity rule rejects -/
def C16_arity_exact : Prop :=
  ∀ (name : Bytes) (args : List Bytes) (s : Spec), findEntry table (kw name) = some (.cmd s) →
    (parseCmd (name :: args) = .error (.arity s.arityErr) ↔ s.arity.ok args.length = false)

theorem arity_exact : C16_arity_exact := by
  intro name args s h
  simp only [parseCmd, parseWith, h, run_arity_iff, and_true]

/-- the same one level down: sub-commands of CONFIG / ACL / SCRIPT / FUNCTION / CLIENT / OBJECT / DEBUG -/
theorem arity_exact_sub (name sub : Bytes) (args : List Bytes) (fam aerr : Bytes) (subs : List Spec)
    (d : Bytes → List Bytes → Res) (s : Spec)
    (h : findEntry table (kw name) = some (.family fam aerr subs d))
    (hs : findSpec subs (kw sub) = some s) :
    (parseCmd (name :: sub :: args) = .error (.arity s.arityErr) ↔ s.arity.ok args.length = false) := by
  simp only [parseCmd, parseWith, h, hs, run_arity_iff, and_true]

/-- a family without a sub-command is the family's arity error -/
theorem arity_family (name fam aerr : Bytes) (subs : List Spec) (d : Bytes → List Bytes → Res)
    (h : findEntry table (kw name) = some (.family fam aerr subs d)) :
    parseCmd [name] = .error (.arity aerr) := by
  simp only [parseCmd, parseWith, h]

/-- the accepted counts in closed form -/
theorem arity_ok_iff (a : Arity) (k : Nat) :
    a.ok k = true ↔ match a with
      | .any => True
      | .exact n => k = n
      | .atLeast n => n ≤ k
      | .between lo hi => lo ≤ k ∧ k ≤ hi
      | .evenAtLeast n => n ≤ k ∧ k % 2 = 0
      | .oddAtLeast n => n ≤ k ∧ k % 2 = 1 := by
  cases a <;> simp [Arity.ok]

/-- every spec of the grammar (commands and sub-commands) -/
def allSpecs : List Spec :=
  table.flatMap fun e => match e with
    | .cmd s => [s]
    | .family _ _ subs _ => subs

def arityErrs : List Bytes := allSpecs.map (·.arityErr)

/-- the decision table itself: name, arity rule, error text (for the evidence / for reading) -/
def arityTable : List (Bytes × Arity × Bytes) :=
  table.flatMap fun e => match e with
    | .cmd s => [(s.name, s.arity, s.arityErr)]
    | .family n _ subs _ => subs.map fun s => (n ++ 32 :: s.name, s.arity, s.arityErr)

/-- every name in the table resolves to its own entry (names are distinct and upper case) -/
theorem table_names_resolve :
    table.all (fun e => match findEntry table (kw e.name) with
      | some e' => e'.name == e.name
      | none => false) = true := by decide +kernel



/-- no literal error of a body has the text of an arity error -/
theorem lit_ne_arity : ∀ l : Lit, arityErrs.all (fun a => a != l.text) = true := by
  intro l; cases l <;> decide

theorem unreachable_ne_arity : arityErrs.all (fun a => a != s2b "<unreachable>") = true := by decide

/-- no formatted error of a body can have the text of an arity error: wrong prefix or wrong suffix -/
theorem fmt_ne_arity : ∀ f : Fmt, arityErrs.all (fun a => a.take f.pre.length != f.pre || !(f.suf.isSuffixOf a)) = true := by
  intro f; cases f <;> decide

theorem berr_text_ne_arity (e : BErr) (a : Bytes) (ha : a ∈ arityErrs) : e.text ≠ some a := by
  cases e with
  | crash => simp [BErr.text]
  | unreachable =>
    have := List.all_eq_true.mp unreachable_ne_arity a ha
    simp only [BErr.text, ne_eq, Option.some.injEq]
    intro h; simp [h] at this
  | lit l =>
    have := List.all_eq_true.mp (lit_ne_arity l) a ha
    simp only [BErr.text, ne_eq, Option.some.injEq]
    intro h; simp [h] at this
  | fmt f p =>
    have := List.all_eq_true.mp (fmt_ne_arity f) a ha
    simp only [BErr.text, ne_eq, Option.some.injEq]
    intro h
    subst h
    simp only [List.append_assoc, List.take_left', Bool.or_eq_true, bne_iff_ne, ne_eq, not_true_eq_false,
      Bool.not_eq_true', false_or] at this
    have hs : f.suf.isSuffixOf (f.pre ++ (p ++ f.suf)) = true := by
      rw [List.isSuffixOf_iff_suffix, ← List.append_assoc]
      exact List.suffix_append _ _
    rw [hs] at this
    exact Bool.noConfusion this

def errText : Res → Option Bytes
  | .ok _ => none
  | .error e => e.text

theorem spec_mem_allSpecs {name : Bytes} {s : Spec} (h : findEntry table (kw name) = some (.cmd s)) :
    s.arityErr ∈ arityErrs := by
  have hm := findEntry_mem h
  simp only [arityErrs, allSpecs, List.mem_map, List.mem_flatMap]
  exact ⟨s, ⟨.cmd s, hm, by simp⟩, rfl⟩

/-- the decision table on the observable text: the reply carries the entry's arity text exactly
    for the rejected counts (no other error path of the grammar produces that text) -/
theorem arity_text_exact (name : Bytes) (args : List Bytes) (s : Spec)
    (h : findEntry table (kw name) = some (.cmd s)) :
    (errText (parseCmd (name :: args)) = some s.arityErr ↔ s.arity.ok args.length = false) := by
  rw [parse_of_find h]
  constructor
  · intro ht
    unfold Spec.run at ht
    cases hk : s.arity.ok args.length with
    | false => rfl
    | true =>
      rw [hk] at ht
      simp only [if_true] at ht
      cases hb : s.body.run args with
      | ok c => rw [hb] at ht; simp [errText] at ht
      | error b =>
        rw [hb] at ht
        simp only [errText, Err.text] at ht
        exact absurd ht (berr_text_ne_arity b _ (spec_mem_allSpecs h))
  · intro hk
    unfold Spec.run
    rw [hk]
    rfl

/-- non-vacuity: concrete rows of the table, any letter case -/
example : parseCmd [s2b "gEt"] = .error (.arity (wrongArgs "get")) := by decide
example : parseCmd [s2b "get", s2b "k", s2b "x"] = .error (.arity (wrongArgs "get")) := by decide
example : (parseCmd [s2b "get", s2b "k"]).isOk = true := by decide
example : parseCmd [s2b "MSET", s2b "a", s2b "1", s2b "b"] = .error (.arity (wrongArgs "mset")) := by decide
example : parseCmd [s2b "hset", s2b "h", s2b "f", s2b "1", s2b "g"] = .error (.arity (s2b "HSET requires key and field-value pairs")) := by decide
example : parseCmd [s2b "CONFIG", s2b "get"] = .error (.arity (wrongArgs "config|get")) := by decide
example : parseCmd [s2b "acl"] = .error (.arity (s2b "ACL requires a subcommand")) := by decide

/-! ## 3. the two RESP parsers -/

/-- full statement of the first half of C16 -/
def C16_parsers_agree : Prop := ∀ f : List Bytes, parseCmdZc f = parseCmd f

/-- proved at full strength (the difference lists `zcArityErr`, `zcAclStubs` are empty since the
    fixes; before them LPUSH/RPUSH/SADD answered other arity texts and ACL HELP/LOAD/SAVE were
    accepted by the zero-copy parser only) -/
theorem parsers_agree : C16_parsers_agree := by
  intro f
  match f with
  | [] => rfl
  | name :: args =>
    cases args with
    | nil =>
      simp only [parseCmdZc, zcArityErr, List.lookup]
      cases parseCmd [name] with
      | ok c => rfl
      | error e => cases e <;> rfl
    | cons sub r =>
      simp only [parseCmdZc, zcAclStubs, List.contains_nil, Bool.false_eq_true, and_false, if_false, zcArityErr, List.lookup]
      cases parseCmd (name :: sub :: r) with
      | ok c => rfl
      | error e => cases e <;> rfl

/-- the zero-copy parser is case-insensitive in the same sense -/
theorem parse_case_insensitive_zc (f f' : List Bytes) (h : frameVariant table f f' = true) :
    parseCmdZc f = parseCmdZc f' := by
  rw [parsers_agree f, parsers_agree f', parse_case_insensitive f f' h]

/-- the repaired cases, pinned: the former witnesses of the known findings -/
theorem lpush_arity_text_same :
    parseCmd [s2b "LPUSH", s2b "k"] = .error (.arity (s2b "LPUSH requires at least 2 arguments")) ∧
    parseCmdZc [s2b "LPUSH", s2b "k"] = .error (.arity (s2b "LPUSH requires at least 2 arguments")) := by decide

theorem acl_help_same :
    parseCmd [s2b "ACL", s2b "HELP"] = .ok ⟨s2b "Unknown", [.s (s2b "ACL HELP")]⟩ ∧
    parseCmdZc [s2b "acl", s2b "help"] = .ok ⟨s2b "Unknown", [.s (s2b "ACL HELP")]⟩ := by decide

/-- `SCAN 0 MATCH` and `EVAL s -1` used to panic in both parsers; they are errors now -/
theorem former_panics_are_errors :
    parseCmd [s2b "SCAN", s2b "0", s2b "MATCH"] = .error (.body (.lit .syntax)) ∧
    parseCmd [s2b "HSCAN", s2b "h", s2b "0", s2b "COUNT"] = .error (.body (.lit .syntax)) ∧
    parseCmd [s2b "EVAL", s2b "return 1", s2b "-1"] = .error (.body (.lit .evalNegKeys)) ∧
    parseCmd [s2b "EVALSHA", s2b "abc", s2b "-9223372036854775808"] = .error (.body (.lit .evalNegKeys)) := by decide

/-- repaired (fix 474b32a on /repo main): SCAN / HSCAN / ZSCAN refuse COUNT < 1 with a syntax error — at the COUNT
    option itself, before any later word is looked at — in both RESP parsers; COUNT 1 and above are accepted, a COUNT that
    is not an integer keeps the integer text -/
theorem scan_count_at_least_one :
    parseCmd [s2b "SCAN", s2b "0", s2b "COUNT", s2b "0"] = .error (.body (.lit .syntax)) ∧
    parseCmdZc [s2b "SCAN", s2b "0", s2b "COUNT", s2b "0"] = .error (.body (.lit .syntax)) ∧
    parseCmd [s2b "HSCAN", s2b "h", s2b "0", s2b "count", s2b "-1"] = .error (.body (.lit .syntax)) ∧
    parseCmd [s2b "ZSCAN", s2b "z", s2b "0", s2b "COUNT", s2b "-9223372036854775808"] = .error (.body (.lit .syntax)) ∧
    parseCmd [s2b "SCAN", s2b "0", s2b "COUNT", s2b "0", s2b "NOSUCHOPTION"] = .error (.body (.lit .syntax)) ∧
    parseCmd [s2b "SCAN", s2b "0", s2b "COUNT", s2b "0", s2b "COUNT", s2b "5"] = .error (.body (.lit .syntax)) ∧
    parseCmd [s2b "SCAN", s2b "0", s2b "COUNT", s2b "x"] = .error (.body (.lit .notInt)) ∧
    parseCmd [s2b "SCAN", s2b "7", s2b "COUNT", s2b "1"] = .ok ⟨s2b "Scan", [.n 7, .none, .n 1]⟩ ∧
    parseCmd [s2b "SCAN", s2b "7", s2b "COUNT", s2b "9223372036854775807"] = .ok ⟨s2b "Scan", [.n 7, .none, .n 9223372036854775807]⟩ := by
  decide

/-! ## 4. the redis.call translator -/

/-- full statement: a frame means the same through redis.call as sent directly -/
def C16_lua_agrees : Prop := ∀ f : List Bytes, parseLua f = parseCmd f

/-- the translator has no entry for APPEND (nor for ~80 other commands) -/
theorem lua_unknown_command :
    (parseCmd [s2b "APPEND", s2b "k", s2b "v"]).isOk = true ∧
    parseLua [s2b "APPEND", s2b "k", s2b "v"] = .error (.unknown (s2b "APPEND")) := by decide

/-- it knows only NX / XX / GET / EX / PX of SET … -/
theorem lua_set_keepttl_rejected :
    (parseCmd [s2b "SET", s2b "k", s2b "v", s2b "KEEPTTL"]).isOk = true ∧
    parseLua [s2b "SET", s2b "k", s2b "v", s2b "KEEPTTL"] = .error (.body (.fmt .luaUnknownSet (s2b "KEEPTTL"))) := by decide

/-- … but has the NX/XX conflict test since the fix -/
theorem lua_set_nx_xx_rejected :
    parseCmd [s2b "SET", s2b "k", s2b "v", s2b "NX", s2b "XX"] = .error (.body (.lit .nxxx)) ∧
    parseLua [s2b "SET", s2b "k", s2b "v", s2b "NX", s2b "XX"] = .error (.body (.lit .nxxx)) := by decide

/-- different error text for the same mistake -/
theorem lua_error_text_differs :
    errText (parseCmd [s2b "GET"]) = some (wrongArgs "get") ∧
    errText (parseLua [s2b "GET"]) = some (s2b "GET requires 1 argument") := by decide

theorem lua_agrees_counterexample : ¬ C16_lua_agrees := by
  intro h
  have h1 := h [s2b "APPEND", s2b "k", s2b "v"]
  have h2 := lua_unknown_command
  rw [h1] at h2
  rw [h2.2] at h2
  exact absurd h2.1 (by decide)

/-! ## 5. RESP ↔ Lua conversion -/

def isNil : Resp → Bool
  | .bulk none => true
  | .array none => true
  | _ => false

mutual
/-- replies the conversion round-trips: no nil array, no nil inside arrays, status / error texts valid UTF-8 -/
def ConvStable : Resp → Bool
  | .simple s => validUtf8 s
  | .error s => validUtf8 s
  | .int _ => true
  | .bulk _ => true
  | .array none => false
  | .array (some xs) => ConvStableL xs
def ConvStableL : List Resp → Bool
  | [] => true
  | x :: xs => !isNil x && ConvStable x && ConvStableL xs
end

/-- full statement -/
def C16_lua_roundtrip : Prop := ∀ r : Resp, luaToResp (respToLua r) = r

theorem respToLua_ne_nil {x : Resp} (h : isNil x = false) : respToLua x ≠ .nil := by
  cases x with
  | simple s => simp [respToLua]
  | error s => simp [respToLua]
  | int i => simp [respToLua]
  | bulk b => cases b <;> simp_all [respToLua, isNil]
  | array a => cases a <;> simp_all [respToLua, isNil]

theorem luaToRespL_cons {v : LuaVal} (h : v ≠ .nil) (vs : List LuaVal) :
    luaToRespL (v :: vs) = luaToResp v :: luaToRespL vs := by
  cases v <;> simp_all [luaToRespL]

mutual
theorem lua_roundtrip_partial : ∀ r : Resp, ConvStable r = true → luaToResp (respToLua r) = r
  | .simple s, h => by simp only [ConvStable] at h; simp [respToLua, luaToResp, h]
  | .error s, h => by simp only [ConvStable] at h; simp [respToLua, luaToResp, h]
  | .int i, _ => by simp [respToLua, luaToResp]
  | .bulk none, _ => by simp [respToLua, luaToResp]
  | .bulk (some b), _ => by simp [respToLua, luaToResp]
  | .array none, h => by simp [ConvStable] at h
  | .array (some xs), h => by
    simp only [ConvStable] at h
    simp only [respToLua, luaToResp, lua_roundtrip_list xs h]
theorem lua_roundtrip_list : ∀ xs : List Resp, ConvStableL xs = true → luaToRespL (respToLuaL xs) = xs
  | [], _ => by simp [respToLuaL, luaToRespL]
  | x :: xs, h => by
    simp only [ConvStableL, Bool.and_eq_true, Bool.not_eq_true'] at h
    obtain ⟨⟨hn, hx⟩, hxs⟩ := h
    simp only [respToLuaL]
    rw [luaToRespL_cons (respToLua_ne_nil hn), lua_roundtrip_partial x hx, lua_roundtrip_list xs hxs]
end

/-- non-vacuity: a nested reply with status, error, integers, bulk strings (also empty / binary) -/
example : ConvStable (.array (some [.int 1, .bulk (some [0, 255]), .simple (s2b "OK"),
    .array (some [.error (s2b "ERR x"), .bulk (some [])]), .array (some [])])) = true := by decide

/-- documented exception 1: a nil array comes back as a nil bulk (Redis: the same) -/
theorem nil_array_becomes_nil_bulk : luaToResp (respToLua (.array none)) = .bulk none := by
  simp [respToLua, luaToResp]

/-- exception 2 (known finding): a nil bulk is Lua `nil`, not `false`, so an array is cut at it -/
theorem array_cut_at_nil :
    luaToResp (respToLua (.array (some [.int 1, .bulk none, .int 3]))) = .array (some [.int 1]) := by
  simp [respToLua, respToLuaL, luaToResp, luaToRespL]

theorem lua_roundtrip_counterexample : ¬ C16_lua_roundtrip := by
  intro h
  have := h (.array none)
  rw [nil_array_becomes_nil_bulk] at this
  exact Resp.noConfusion this

/-- repaired: a Lua float is answered as an integer reply (Redis drops the fraction) -/
theorem lua_number_becomes_integer (i : Int) : luaToResp (.num i) = .int i := by
  simp [luaToResp]

/-- a Lua float of ANY value is answered as an integer reply inside `i64` (`n as i64`: truncation toward zero,
    saturation, NaN → 0) — `LuaVal.num i` is the special case of an integral value below 2^53 -/
theorem lua_float_reply_in_i64 (bits : Nat) :
    -9223372036854775808 ≤ f64ToI64 bits ∧ f64ToI64 bits ≤ 9223372036854775807 := by
  unfold f64ToI64
  generalize f64Mag ((bits / 2 ^ 52) % 2048) (bits % 2 ^ 52) = mag
  split
  · split
    · omega
    · split <;> omega
  · split
    · omega
    · split <;> split <;> omega

/-- pinned values of the cast: fraction dropped toward zero on both sides, ±0, the largest double below
    2^63, 2^63 itself and beyond (saturation), infinities, NaN, the smallest subnormal -/
theorem lua_float_reply_cases :
    f64ToI64 0x400D99999999999A = 3 ∧ f64ToI64 0xC00D99999999999A = -3 ∧      -- ±3.7
    f64ToI64 0x3FE0000000000000 = 0 ∧ f64ToI64 0xBFEFFFFFFFFFFFFF = 0 ∧      -- 0.5, −0.99…
    f64ToI64 0 = 0 ∧ f64ToI64 0x8000000000000000 = 0 ∧                          -- ±0
    f64ToI64 0x4014000000000000 = 5 ∧                                           -- 10/2
    f64ToI64 0x43DFFFFFFFFFFFFF = 9223372036854774784 ∧                         -- largest double < 2^63
    f64ToI64 0x43E0000000000000 = 9223372036854775807 ∧                         -- 2^63 saturates
    f64ToI64 0xC3E0000000000000 = -9223372036854775808 ∧                        -- −2^63 exactly
    f64ToI64 0xC3E0000000000001 = -9223372036854775808 ∧
    f64ToI64 0x7FF0000000000000 = 9223372036854775807 ∧ f64ToI64 0xFFF0000000000000 = -9223372036854775808 ∧
    f64ToI64 0x7FF8000000000000 = 0 ∧ f64ToI64 1 = 0 ∧
    f64ToI64 0x4340000000000000 = 9007199254740992 := by
  decide +kernel

/-! ## 6. option order (SET, EXPIRE, PEXPIRE, GETEX) -/

/-- lift a body result into a parse result -/
def liftB : BRes → Res
  | .ok c => .ok c
  | .error e => .error (.body e)

def setSpec : Spec := customSpec "SET" (.atLeast 2) (reqAtLeast "SET" 2) CB.set
def expireSpec : Spec := customSpec "EXPIRE" (.atLeast 2) (reqAtLeast "EXPIRE" 2) (CB.expire (s2b "Expire"))
def pexpireSpec : Spec := customSpec "PEXPIRE" (.atLeast 2) (reqAtLeast "PEXPIRE" 2) (CB.expire (s2b "PExpire"))
def getexSpec : Spec := customSpec "GETEX" (.atLeast 1) (wrongArgs "getex") CB.getex

theorem find_set : findEntry table (s2b "SET") = some (.cmd setSpec) := by rfl
theorem find_expire : findEntry table (s2b "EXPIRE") = some (.cmd expireSpec) := by rfl
theorem find_pexpire : findEntry table (s2b "PEXPIRE") = some (.cmd pexpireSpec) := by rfl
theorem find_getex : findEntry table (s2b "GETEX") = some (.cmd getexSpec) := by rfl

theorem parse_set {name : Bytes} (hn : kw name = s2b "SET") (k v : Bytes) (opts : List Bytes) :
    parseCmd (name :: k :: v :: opts) = liftB (Bodies.set (k :: v :: opts)) := by
  rw [parse_of_find (by rw [hn]; exact find_set)]
  simp only [setSpec, customSpec, Spec.run, Arity.ok, List.length_cons, Body.run, CB.set, liftB]
  have : decide (2 ≤ opts.length + 1 + 1) = true := by simp
  simp only [this, if_true]
  cases Bodies.set (k :: v :: opts) <;> rfl

theorem parse_expire {name : Bytes} (hn : kw name = s2b "EXPIRE") (k n : Bytes) (opts : List Bytes) :
    parseCmd (name :: k :: n :: opts) = liftB (Bodies.expire (s2b "Expire") (k :: n :: opts)) := by
  rw [parse_of_find (by rw [hn]; exact find_expire)]
  simp only [expireSpec, customSpec, Spec.run, Arity.ok, List.length_cons, Body.run, CB.expire, liftB]
  have : decide (2 ≤ opts.length + 1 + 1) = true := by simp
  simp only [this, if_true]
  cases Bodies.expire (s2b "Expire") (k :: n :: opts) <;> rfl

theorem parse_pexpire {name : Bytes} (hn : kw name = s2b "PEXPIRE") (k n : Bytes) (opts : List Bytes) :
    parseCmd (name :: k :: n :: opts) = liftB (Bodies.expire (s2b "PExpire") (k :: n :: opts)) := by
  rw [parse_of_find (by rw [hn]; exact find_pexpire)]
  simp only [pexpireSpec, customSpec, Spec.run, Arity.ok, List.length_cons, Body.run, CB.expire, liftB]
  have : decide (2 ≤ opts.length + 1 + 1) = true := by simp
  simp only [this, if_true]
  cases Bodies.expire (s2b "PExpire") (k :: n :: opts) <;> rfl

theorem parse_getex {name : Bytes} (hn : kw name = s2b "GETEX") (k : Bytes) (opts : List Bytes) :
    parseCmd (name :: k :: opts) = liftB (Bodies.getex (k :: opts)) := by
  rw [parse_of_find (by rw [hn]; exact find_getex)]
  simp only [getexSpec, customSpec, Spec.run, Arity.ok, List.length_cons, Body.run, CB.getex, liftB]
  have : decide (1 ≤ opts.length + 1) = true := by simp
  simp only [this, if_true]
  cases Bodies.getex (k :: opts) <;> rfl

/-- full statement: the order of the options of SET does not matter -/
def C16_option_order_irrelevant : Prop :=
  ∀ (k v : Bytes) (bs bs' : List Block), bs.Perm bs' → WellFormed Bodies.setOpts bs →
    parseCmd (s2b "SET" :: k :: v :: flat bs) = parseCmd (s2b "SET" :: k :: v :: flat bs')

/-- proved form: … when no option occurs twice (any letter case of name and keywords) -/
theorem option_order_irrelevant_set_partial {name : Bytes} (hn : kw name = s2b "SET") (k v : Bytes)
    {bs bs' : List Block} (hp : bs.Perm bs') (hwf : WellFormed Bodies.setOpts bs)
    (hnr : NoRepeat Bodies.setOpts bs) :
    parseCmd (name :: k :: v :: flat bs) = parseCmd (name :: k :: v :: flat bs') := by
  obtain ⟨h1, h2, hh, ho⟩ := scan_perm Bodies.setOpts (fun _ => some (.lit .syntax)) hp hwf hnr
  rw [parse_set hn, parse_set hn]
  simp only [Bodies.set, h1, h2, bind, Except.bind, hh, ho]

theorem option_order_irrelevant_expire_partial {name : Bytes} (hn : kw name = s2b "EXPIRE") (k n : Bytes)
    {bs bs' : List Block} (hp : bs.Perm bs') (hwf : WellFormed Bodies.expireOpts bs)
    (hnr : NoRepeat Bodies.expireOpts bs) :
    parseCmd (name :: k :: n :: flat bs) = parseCmd (name :: k :: n :: flat bs') := by
  obtain ⟨h1, h2, hh, _⟩ := scan_perm Bodies.expireOpts (fun w => some (.fmt .unsupportedOption w)) hp hwf hnr
  rw [parse_expire hn, parse_expire hn]
  simp only [Bodies.expire, h1, h2, bind, Except.bind, hh]

theorem option_order_irrelevant_pexpire_partial {name : Bytes} (hn : kw name = s2b "PEXPIRE") (k n : Bytes)
    {bs bs' : List Block} (hp : bs.Perm bs') (hwf : WellFormed Bodies.expireOpts bs)
    (hnr : NoRepeat Bodies.expireOpts bs) :
    parseCmd (name :: k :: n :: flat bs) = parseCmd (name :: k :: n :: flat bs') := by
  obtain ⟨h1, h2, hh, _⟩ := scan_perm Bodies.expireOpts (fun w => some (.fmt .unsupportedOption w)) hp hwf hnr
  rw [parse_pexpire hn, parse_pexpire hn]
  simp only [Bodies.expire, h1, h2, bind, Except.bind, hh]

theorem option_order_irrelevant_getex_partial {name : Bytes} (hn : kw name = s2b "GETEX") (k : Bytes)
    {bs bs' : List Block} (hp : bs.Perm bs') (hwf : WellFormed Bodies.getexOpts bs)
    (hnr : NoRepeat Bodies.getexOpts bs) :
    parseCmd (name :: k :: flat bs) = parseCmd (name :: k :: flat bs') := by
  obtain ⟨h1, h2, hh, ho⟩ := scan_perm Bodies.getexOpts (fun _ => some (.lit .syntax)) hp hwf hnr
  rw [parse_getex hn, parse_getex hn]
  simp only [Bodies.getex, h1, h2, bind, Except.bind, hh, ho]

/-- non-vacuity: `EX 10 nx get` are three well-formed blocks without repetition, 6 orders -/
example : WellFormed Bodies.setOpts [⟨s2b "EX", [s2b "10"]⟩, ⟨s2b "nx", []⟩, ⟨s2b "GET", []⟩] ∧
    NoRepeat Bodies.setOpts [⟨s2b "EX", [s2b "10"]⟩, ⟨s2b "nx", []⟩, ⟨s2b "GET", []⟩] ∧
    kw (s2b "set") = s2b "SET" := by decide

/-- with a repeated valued option the last occurrence wins (as in Redis): the order matters -/
theorem option_order_counterexample : ¬ C16_option_order_irrelevant := by
  intro h
  have := h (s2b "k") (s2b "v") [⟨s2b "EX", [s2b "1"]⟩, ⟨s2b "EX", [s2b "2"]⟩]
    [⟨s2b "EX", [s2b "2"]⟩, ⟨s2b "EX", [s2b "1"]⟩] (List.Perm.swap _ _ _) (by decide)
  exact absurd this (by decide)

/-! ## 7. conflicting options -/

theorem blockSeen_of_kw (tbl : List OptSpec) (b : Block) (hs : (blockSeen tbl b).isSome = true)
    (i : Nat) (o : OptSpec) (hf : findOpt tbl (kw b.word) 0 = some (i, o)) :
    ∃ ts, blockSeen tbl b = some (i, ts) := by
  cases hb : blockSeen tbl b with
  | none => rw [hb] at hs; simp at hs
  | some e =>
    refine ⟨e.2, ?_⟩
    have : e.1 = i := by
      unfold blockSeen at hb
      rw [hf] at hb
      simp only at hb
      split at hb
      · simp at hb
      · split at hb
        · simp at hb; rw [← hb]
        · split at hb <;> simp at hb; rw [← hb]
        · split at hb <;> simp at hb; rw [← hb]
        · simp at hb
    rw [← this]

/-- a well-formed block list that contains option word `w` (any case) has recorded index `i` -/
theorem has_of_word (tbl : List OptSpec) {bs : List Block} (hwf : WellFormed tbl bs) {w : Bytes} {i : Nat}
    {o : OptSpec} (hf : findOpt tbl w 0 = some (i, o)) (hex : ∃ b ∈ bs, kw b.word = w) :
    (seenOf tbl bs).has i = true := by
  obtain ⟨b, hb, hw⟩ := hex
  obtain ⟨ts, hts⟩ := blockSeen_of_kw tbl b (hwf b hb) i o (by rw [hw]; exact hf)
  exact has_of_block tbl hb hts

/-- full statement (as Redis): besides the pairs below, `SET … EX … PX …` and `ZADD … NX XX` /
    `GT LT` / `NX GT` are conflicts -/
def C16_conflicts_as_redis : Prop :=
  (∀ k v, ∃ e, parseCmd [s2b "SET", k, v, s2b "EX", s2b "1", s2b "PX", s2b "2"] = .error e) ∧
  (∀ k m, ∃ e, parseCmd [s2b "ZADD", k, s2b "NX", s2b "XX", s2b "1", m] = .error e)

/-- SET: NX and XX together are rejected, wherever they stand, whatever else is there -/
theorem conflicting_options_rejected_set_nx_xx {name : Bytes} (hn : kw name = s2b "SET") (k v : Bytes)
    {bs : List Block} (hwf : WellFormed Bodies.setOpts bs)
    (hnx : ∃ b ∈ bs, kw b.word = s2b "NX") (hxx : ∃ b ∈ bs, kw b.word = s2b "XX") :
    parseCmd (name :: k :: v :: flat bs) = .error (.body (.lit .nxxx)) := by
  have h0 := has_of_word Bodies.setOpts hwf (w := s2b "NX") (i := 0) (by rfl) hnx
  have h1 := has_of_word Bodies.setOpts hwf (w := s2b "XX") (i := 1) (by rfl) hxx
  rw [parse_set hn]
  simp only [Bodies.set, scan_blocks _ _ bs hwf, bind, Except.bind, h0, h1, Bool.and_self, if_true, liftB]

/-- SET: KEEPTTL with EX / PX / EXAT / PXAT is rejected -/
theorem conflicting_options_rejected_set_keepttl {name : Bytes} (hn : kw name = s2b "SET") (k v : Bytes)
    {bs : List Block} (hwf : WellFormed Bodies.setOpts bs)
    (hk : ∃ b ∈ bs, kw b.word = s2b "KEEPTTL")
    (he : (∃ b ∈ bs, kw b.word = s2b "EX") ∨ (∃ b ∈ bs, kw b.word = s2b "PX") ∨
          (∃ b ∈ bs, kw b.word = s2b "EXAT") ∨ (∃ b ∈ bs, kw b.word = s2b "PXAT")) :
    ∃ e, parseCmd (name :: k :: v :: flat bs) = .error e := by
  have h7 := has_of_word Bodies.setOpts hwf (w := s2b "KEEPTTL") (i := 7) (by rfl) hk
  have hany : ((seenOf Bodies.setOpts bs).has 3 || (seenOf Bodies.setOpts bs).has 4 ||
      (seenOf Bodies.setOpts bs).has 5 || (seenOf Bodies.setOpts bs).has 6) = true := by
    rcases he with h | h | h | h
    · simp [has_of_word Bodies.setOpts hwf (w := s2b "EX") (i := 3) (by rfl) h]
    · simp [has_of_word Bodies.setOpts hwf (w := s2b "PX") (i := 4) (by rfl) h]
    · simp [has_of_word Bodies.setOpts hwf (w := s2b "EXAT") (i := 5) (by rfl) h]
    · simp [has_of_word Bodies.setOpts hwf (w := s2b "PXAT") (i := 6) (by rfl) h]
  rw [parse_set hn]
  simp only [Bodies.set, scan_blocks _ _ bs hwf, bind, Except.bind, h7, hany, Bool.and_self, if_true]
  split <;> exact ⟨_, rfl⟩

/-- EXPIRE: NX with XX, GT or LT is rejected -/
theorem conflicting_options_rejected_expire_nx {name : Bytes} (hn : kw name = s2b "EXPIRE") (k n : Bytes)
    (i : Int) (hi : parseI64 n = some i)
    {bs : List Block} (hwf : WellFormed Bodies.expireOpts bs)
    (hnx : ∃ b ∈ bs, kw b.word = s2b "NX")
    (ho : (∃ b ∈ bs, kw b.word = s2b "XX") ∨ (∃ b ∈ bs, kw b.word = s2b "GT") ∨ (∃ b ∈ bs, kw b.word = s2b "LT")) :
    parseCmd (name :: k :: n :: flat bs) = .error (.body (.lit .expireNx)) := by
  have h0 := has_of_word Bodies.expireOpts hwf (w := s2b "NX") (i := 0) (by rfl) hnx
  have hany : ((seenOf Bodies.expireOpts bs).has 1 || (seenOf Bodies.expireOpts bs).has 2 ||
      (seenOf Bodies.expireOpts bs).has 3) = true := by
    rcases ho with h | h | h
    · simp [has_of_word Bodies.expireOpts hwf (w := s2b "XX") (i := 1) (by rfl) h]
    · simp [has_of_word Bodies.expireOpts hwf (w := s2b "GT") (i := 2) (by rfl) h]
    · simp [has_of_word Bodies.expireOpts hwf (w := s2b "LT") (i := 3) (by rfl) h]
  rw [parse_expire hn]
  simp only [Bodies.expire, aInt, Arg.extract, hi, scan_blocks _ _ bs hwf, bind, Except.bind, h0, hany,
    Bool.and_self, if_true, liftB]

/-- EXPIRE: GT and LT together are rejected -/
theorem conflicting_options_rejected_expire_gt_lt {name : Bytes} (hn : kw name = s2b "EXPIRE") (k n : Bytes)
    (i : Int) (hi : parseI64 n = some i)
    {bs : List Block} (hwf : WellFormed Bodies.expireOpts bs)
    (hgt : ∃ b ∈ bs, kw b.word = s2b "GT") (hlt : ∃ b ∈ bs, kw b.word = s2b "LT") :
    ∃ e, parseCmd (name :: k :: n :: flat bs) = .error e := by
  have h2 := has_of_word Bodies.expireOpts hwf (w := s2b "GT") (i := 2) (by rfl) hgt
  have h3 := has_of_word Bodies.expireOpts hwf (w := s2b "LT") (i := 3) (by rfl) hlt
  rw [parse_expire hn]
  simp only [Bodies.expire, aInt, Arg.extract, hi, scan_blocks _ _ bs hwf, bind, Except.bind, h2, h3,
    Bool.and_self, if_true]
  split <;> exact ⟨_, rfl⟩

/-- GETEX: PERSIST with an expiry option is rejected -/
theorem conflicting_options_rejected_getex {name : Bytes} (hn : kw name = s2b "GETEX") (k : Bytes)
    {bs : List Block} (hwf : WellFormed Bodies.getexOpts bs)
    (hp : ∃ b ∈ bs, kw b.word = s2b "PERSIST") (hex : ∃ b ∈ bs, kw b.word = s2b "EX") :
    parseCmd (name :: k :: flat bs) = .error (.body (.lit .syntax)) := by
  have h4 := has_of_word Bodies.getexOpts hwf (w := s2b "PERSIST") (i := 4) (by rfl) hp
  have h0 := has_of_word Bodies.getexOpts hwf (w := s2b "EX") (i := 0) (by rfl) hex
  have hc : [(seenOf Bodies.getexOpts bs).has 0, (seenOf Bodies.getexOpts bs).has 1, (seenOf Bodies.getexOpts bs).has 2,
      (seenOf Bodies.getexOpts bs).has 3, (seenOf Bodies.getexOpts bs).has 4].count true > 1 := by
    rw [h0, h4]
    cases (seenOf Bodies.getexOpts bs).has 1 <;> cases (seenOf Bodies.getexOpts bs).has 2 <;>
      cases (seenOf Bodies.getexOpts bs).has 3 <;> decide
  rw [parse_getex hn]
  simp only [Bodies.getex, scan_blocks _ _ bs hwf, bind, Except.bind, hc, if_true, liftB]

/-- non-vacuity: `XX get nX` / `keepttl PX 5` are well-formed and contain the conflicting words -/
example : WellFormed Bodies.setOpts [⟨s2b "XX", []⟩, ⟨s2b "get", []⟩, ⟨s2b "nX", []⟩] ∧
    parseCmd [s2b "set", s2b "k", s2b "v", s2b "XX", s2b "get", s2b "nX"] = .error (.body (.lit .nxxx)) := by decide
example : parseCmd [s2b "SET", s2b "k", s2b "v", s2b "keepttl", s2b "PX", s2b "5"] = .error (.body (.lit .syntax)) := by decide
example : parseCmd [s2b "EXPIRE", s2b "k", s2b "5", s2b "GT", s2b "nx"] = .error (.body (.lit .expireNx)) := by decide

/-- what Redis rejects and this grammar accepts (all three paths agree; C01's business):
    SET with EX and PX, ZADD with NX and XX -/
theorem set_ex_px_not_rejected :
    (parseCmd [s2b "SET", s2b "k", s2b "v", s2b "EX", s2b "1", s2b "PX", s2b "2"]).isOk = true := by decide
theorem zadd_nx_xx_not_rejected :
    (parseCmd [s2b "ZADD", s2b "k", s2b "NX", s2b "XX", s2b "1", s2b "m"]).isOk = true := by decide

theorem conflicts_as_redis_counterexample : ¬ C16_conflicts_as_redis := by
  intro h
  obtain ⟨e, he⟩ := h.1 (s2b "k") (s2b "v")
  have := set_ex_px_not_rejected
  rw [he] at this
  simp [Except.isOk, Except.toBool] at this


/-! ## 8. where the translator accepts, it builds the command the RESP grammar builds -/

def luaCustoms : List Bytes :=
  [s2b "SET", s2b "EXPIRE", s2b "LMOVE", s2b "ZADD", s2b "ZRANGE", s2b "ZRANGEBYSCORE"]

/-- table-level test of a translator entry against the RESP grammar's entry of the same name -/
def luaCheck : Entry → Bool
  | .cmd l =>
    luaCustoms.contains l.name ||
    match findEntry table l.name with
    | some (.cmd m) => aritySub l.arity m.arity && bodyOkSub l.body m.body
    | _ => false
  | .family _ _ _ _ => false

theorem luaTable_checked : luaTable.all luaCheck = true := by decide +kernel

theorem findEntry_name {tbl : List Entry} {k : Bytes} {e : Entry} (h : findEntry tbl k = some e) : e.name = k := by
  induction tbl with
  | nil => simp [findEntry] at h
  | cons x xs ih =>
    simp only [findEntry] at h
    split at h
    · rename_i hx; simp at h; rw [← h]; exact hx
    · exact ih h

theorem run_ok {s : Spec} {args : List Bytes} {c : Cmd} (h : s.run args = .ok c) :
    s.arity.ok args.length = true ∧ s.body.run args = .ok c := by
  unfold Spec.run at h
  cases ha : s.arity.ok args.length with
  | false => rw [ha] at h; simp at h
  | true =>
    rw [ha] at h
    simp only [if_true] at h
    cases hb : s.body.run args with
    | error e => rw [hb] at h; simp at h
    | ok c' => rw [hb] at h; simp only [Except.ok.injEq] at h; subst h; exact ⟨rfl, rfl⟩

theorem run_of {s : Spec} {args : List Bytes} (ha : s.arity.ok args.length = true) :
    s.run args = liftB (s.body.run args) := by
  unfold Spec.run
  rw [ha]
  simp only [if_true, liftB]
  cases s.body.run args <;> rfl

def luaSetSpec : Spec := customSpec "SET" (.atLeast 2) (reqAtLeast "SET" 2) CB.luaSet
def luaExpireSpec : Spec := customSpec "EXPIRE" (.exact 2) (req "EXPIRE" 2) CB.luaExpire
def lmoveSpec : Spec := customSpec "LMOVE" (.exact 4) (req "LMOVE" 4) CB.lmove
def luaZaddSpec : Spec := customSpec "ZADD" (.atLeast 3) (s2b "ZADD requires key and score-member pairs")
  (CB.zadd { kind := .flt, onErr := some .luaZaddScore })
def zaddSpec : Spec := customSpec "ZADD" (.atLeast 3) (s2b "ZADD requires key and score-member pairs") (CB.zadd aFlt)
def luaZrangeSpec : Spec := customSpec "ZRANGE" (.exact 3) (req "ZRANGE" 3) CB.luaZrange
def zrangeSpec : Spec := customSpec "ZRANGE" (.between 3 4) (s2b "ZRANGE requires 3 or 4 arguments") (CB.zrange (s2b "ZRange"))

theorem find_lua_set : findEntry luaTable (s2b "SET") = some (.cmd luaSetSpec) := by rfl
theorem find_lua_expire : findEntry luaTable (s2b "EXPIRE") = some (.cmd luaExpireSpec) := by rfl
theorem find_lua_lmove : findEntry luaTable (s2b "LMOVE") = some (.cmd lmoveSpec) := by rfl
theorem find_lmove : findEntry table (s2b "LMOVE") = some (.cmd lmoveSpec) := by rfl
theorem find_lua_zadd : findEntry luaTable (s2b "ZADD") = some (.cmd luaZaddSpec) := by rfl
theorem find_zadd : findEntry table (s2b "ZADD") = some (.cmd zaddSpec) := by rfl
theorem find_lua_zrange : findEntry luaTable (s2b "ZRANGE") = some (.cmd luaZrangeSpec) := by rfl
theorem find_zrange : findEntry table (s2b "ZRANGE") = some (.cmd zrangeSpec) := by rfl
def luaZrbsSpec : Spec := customSpec "ZRANGEBYSCORE" (.atLeast 3) (reqAtLeast "ZRANGEBYSCORE" 3)
  (CB.zrangebyscore (aIntE .luaLimitOffset) (aIntE .luaLimitCount) .luaLimitMissing .unknownZrbs)
def zrbsSpec : Spec := customSpec "ZRANGEBYSCORE" (.atLeast 3) (reqAtLeast "ZRANGEBYSCORE" 3)
  (CB.zrangebyscore aInt aInt .limitMissing .unknownZrbs)
theorem find_lua_zrbs : findEntry luaTable (s2b "ZRANGEBYSCORE") = some (.cmd luaZrbsSpec) := by rfl
theorem find_zrbs : findEntry table (s2b "ZRANGEBYSCORE") = some (.cmd zrbsSpec) := by rfl

/-- proved form of "redis.call parses like the RESP parser": whenever the translator accepts a
    frame, the RESP grammar accepts it with the SAME command (every field).  No exception is left
    since the translator tests the SET NX/XX conflict and parses the LIMIT count as the RESP
    parsers do. -/
theorem lua_agrees_partial (name : Bytes) (args : List Bytes) (c : Cmd)
    (h : parseLua (name :: args) = .ok c) : parseCmd (name :: args) = .ok c := by
  simp only [parseLua] at h
  cases he : findEntry luaTable (kw name) with
  | none => rw [he] at h; simp at h
  | some e =>
    rw [he] at h
    simp only [parseWith, he] at h
    have hchk := (List.all_eq_true.mp luaTable_checked) e (findEntry_mem he)
    have hname := findEntry_name he
    cases e with
    | family a b c d => simp [luaCheck] at hchk
    | cmd l =>
      simp only at h
      simp only [Entry.name] at hname
      obtain ⟨har, hbody⟩ := run_ok h
      by_cases h1 : kw name = s2b "SET"
      · rw [h1, find_lua_set] at he
        simp only [Option.some.injEq, Entry.cmd.injEq] at he
        subst he
        have hb : Bodies.luaSet args = .ok c := hbody
        rw [parse_of_find (s := setSpec) (by rw [h1]; exact find_set), run_of (s := setSpec) har]
        show liftB (Bodies.set args) = _
        rw [luaSet_ok args c hb]; rfl
      · by_cases h2 : kw name = s2b "EXPIRE"
        · rw [h2, find_lua_expire] at he
          simp only [Option.some.injEq, Entry.cmd.injEq] at he
          subst he
          have hl : args.length = 2 := by simpa [luaExpireSpec, customSpec, Arity.ok] using har
          have hb : Bodies.luaExpire args = .ok c := hbody
          rw [parse_of_find (s := expireSpec) (by rw [h2]; exact find_expire),
            run_of (s := expireSpec) (by simp [expireSpec, customSpec, Arity.ok, hl])]
          show liftB (Bodies.expire (s2b "Expire") args) = _
          rw [luaExpire_ok args c hl hb]; rfl
        · by_cases h3 : kw name = s2b "LMOVE"
          · rw [h3, find_lua_lmove] at he
            simp only [Option.some.injEq, Entry.cmd.injEq] at he
            subst he
            rw [parse_of_find (s := lmoveSpec) (by rw [h3]; exact find_lmove)]
            exact h
          · by_cases h4 : kw name = s2b "ZADD"
            · rw [h4, find_lua_zadd] at he
              simp only [Option.some.injEq, Entry.cmd.injEq] at he
              subst he
              have hb : Bodies.zadd { kind := .flt, onErr := some .luaZaddScore } args = .ok c := hbody
              rw [parse_of_find (s := zaddSpec) (by rw [h4]; exact find_zadd), run_of (s := zaddSpec) har]
              show liftB (Bodies.zadd aFlt args) = _
              rw [zadd_ok (a := { kind := .flt, onErr := some .luaZaddScore }) (b := aFlt) rfl args c hb]; rfl
            · by_cases h5 : kw name = s2b "ZRANGE"
              · rw [h5, find_lua_zrange] at he
                simp only [Option.some.injEq, Entry.cmd.injEq] at he
                subst he
                have hl : args.length = 3 := by simpa [luaZrangeSpec, customSpec, Arity.ok] using har
                have hb : Bodies.luaZrange args = .ok c := hbody
                rw [parse_of_find (s := zrangeSpec) (by rw [h5]; exact find_zrange),
                  run_of (s := zrangeSpec) (by simp [zrangeSpec, customSpec, Arity.ok, hl])]
                show liftB (Bodies.zrange (s2b "ZRange") args) = _
                rw [luaZrange_ok args c hl hb]; rfl
              · by_cases h6 : kw name = s2b "ZRANGEBYSCORE"
                · rw [h6, find_lua_zrbs] at he
                  simp only [Option.some.injEq, Entry.cmd.injEq] at he
                  subst he
                  have hb : Bodies.zrangebyscore (aIntE .luaLimitOffset) (aIntE .luaLimitCount) .luaLimitMissing
                      .unknownZrbs args = .ok c := hbody
                  rw [parse_of_find (s := zrbsSpec) (by rw [h6]; exact find_zrbs), run_of (s := zrbsSpec) har]
                  show liftB (Bodies.zrangebyscore aInt aInt .limitMissing .unknownZrbs args) = _
                  rw [zrangebyscore_ok (aIntE .luaLimitOffset) (aIntE .luaLimitCount) aInt aInt .luaLimitMissing .limitMissing .unknownZrbs .unknownZrbs rfl rfl args c hb]; rfl
                · -- a DSL entry: the table-level test applies
                  have hnc : luaCustoms.contains l.name = false := by
                    rw [hname]
                    simp only [luaCustoms, List.contains_cons, List.contains_nil, Bool.or_false, Bool.or_eq_false_iff,
                      beq_eq_false_iff_ne, ne_eq]
                    exact ⟨h1, h2, h3, h4, h5, h6⟩
                  simp only [luaCheck, hnc, Bool.false_or] at hchk
                  rw [hname] at hchk
                  cases hm : findEntry table (kw name) with
                  | none => rw [hm] at hchk; simp at hchk
                  | some e' =>
                    rw [hm] at hchk
                    cases e' with
                    | family a b c d => simp at hchk
                    | cmd m =>
                      simp only [Bool.and_eq_true] at hchk
                      rw [parse_of_find hm, run_of (arity_sub hchk.1 _ har), body_ok_sub hchk.2 args c hbody]
                      rfl

/-- `lua_agrees_partial` is an equality of whole commands, i.e. of EVERY field (key, value, ex, px,
    exat, pxat, nx, xx, get, keepttl for SET).  Spelled out for the field no reply shows: a SET the
    translator accepts never keeps the old TTL (`keepttl = false`, `exat = pxat = None`).  The
    translator's `Command` is not observable in the code, so this is tied to /repo by the
    twin-executor effect oracle (keys primed with TTLs, remaining TTLs compared). -/
theorem lua_set_never_keepttl (name k v : Bytes) (opts : List Bytes) (c : Cmd)
    (hn : kw name = s2b "SET") (h : parseLua (name :: k :: v :: opts) = .ok c) :
    c.ctor = s2b "Set" ∧ ∃ key val ex px nx xx get,
      c.toks = [key, val, ex, px, .none, .none, .b nx, .b xx, .b get, .b false] := by
  simp only [parseLua, hn, find_lua_set, parseWith] at h
  obtain ⟨_, hb⟩ := run_ok h
  have hb' : Bodies.luaSet (k :: v :: opts) = .ok c := hb
  simp only [Bodies.luaSet, bind, Except.bind] at hb'
  cases hs : scanOpts Bodies.luaSetOpts (fun w => some (.fmt .luaUnknownSet w)) opts with
  | error e => rw [hs] at hb'; simp at hb'
  | ok s =>
    rw [hs] at hb'
    simp only at hb'
    split at hb'
    · simp at hb'
    · simp only [Except.ok.injEq] at hb'
      subst hb'
      exact ⟨rfl, _, _, _, _, _, _, _, rfl⟩

example : parseLua [s2b "SET", s2b "k", s2b "v2"] =
    .ok ⟨s2b "Set", [.s (s2b "k"), .d (s2b "v2"), .none, .none, .none, .none, .b false, .b false, .b false, .b false]⟩ := by decide

/-- non-vacuity: accepted by the translator, same command -/
example : parseLua [s2b "hset", s2b "h", s2b "f", s2b "1"] = parseCmd [s2b "hset", s2b "h", s2b "f", s2b "1"] ∧
    (parseLua [s2b "hset", s2b "h", s2b "f", s2b "1"]).isOk = true := by decide

/-- the former exceptions, pinned: `LIMIT 0 -1` is accepted by both with the same command, a count
    of 2^63 is rejected by both -/
theorem lua_zrangebyscore_limit_same :
    parseLua [s2b "ZRANGEBYSCORE", s2b "z", s2b "0", s2b "1", s2b "LIMIT", s2b "0", s2b "-1"] =
      parseCmd [s2b "ZRANGEBYSCORE", s2b "z", s2b "0", s2b "1", s2b "LIMIT", s2b "0", s2b "-1"] ∧
    (parseLua [s2b "ZRANGEBYSCORE", s2b "z", s2b "0", s2b "1", s2b "LIMIT", s2b "0", s2b "-1"]).isOk = true ∧
    (parseLua [s2b "ZRANGEBYSCORE", s2b "z", s2b "0", s2b "1", s2b "LIMIT", s2b "0", s2b "9223372036854775808"]).isOk = false ∧
    (parseCmd [s2b "ZRANGEBYSCORE", s2b "z", s2b "0", s2b "1", s2b "LIMIT", s2b "0", s2b "9223372036854775808"]).isOk = false := by
  decide


/-! ## 9. which differences between redis.call and the client path the current code has, exactly

These statements delimit the recorded findings by their CAUSE: the harness reports a listed
signature only for the inputs named here and anything else under an unlisted signature. -/

/-- the translator's table: exactly these command names (in match order) -/
def luaNames : List String :=
  ["GET", "SET", "DEL", "INCR", "DECR", "INCRBY", "HGET", "HSET", "HDEL", "LPUSH", "RPUSH", "LPOP", "RPOP", "LLEN",
   "SADD", "SREM", "SMEMBERS", "EXISTS", "EXPIRE", "TTL", "TYPE", "HINCRBY", "LRANGE", "RPOPLPUSH", "LMOVE", "HGETALL",
   "SISMEMBER", "ZADD", "ZREM", "ZRANGE", "ZSCORE", "ZCARD", "ZCOUNT", "ZRANGEBYSCORE"]

theorem lua_table_names : luaTable.map Entry.name = luaNames.map s2b := by decide +kernel

theorem luaTable_all_cmd : luaTable.all (fun e => match e with | .cmd _ => true | _ => false) = true := by
  decide +kernel

def luaArityErrs : List Bytes :=
  luaTable.flatMap fun e => match e with
    | .cmd s => [s.arityErr]
    | .family _ a subs _ => a :: subs.map (·.arityErr)

theorem take_ne_of_prefix_ne {a b x y : Bytes} (m : Nat) (hm1 : m ≤ a.length) (hm2 : m ≤ b.length)
    (h : a.take m ≠ b.take m) : a ++ x ≠ b ++ y := by
  intro he
  apply h
  have := congrArg (List.take m) he
  rwa [List.take_append_of_le_length hm1, List.take_append_of_le_length hm2] at this

theorem lua_arity_ne_unknown : luaArityErrs.all (fun a => a.take unknownPre.length != unknownPre) = true := by
  decide +kernel

theorem lit_ne_unknown : ∀ l : Lit, (l.text.take unknownPre.length != unknownPre) = true := by
  intro l; cases l <;> decide

theorem fmt_ne_unknown : ∀ f : Fmt,
    (f.pre.take (min f.pre.length unknownPre.length) != unknownPre.take (min f.pre.length unknownPre.length)) = true := by
  intro f; cases f <;> decide

theorem ne_unknown_of_take {t : Bytes} (h : (t.take unknownPre.length != unknownPre) = true) (n : Bytes) :
    t ≠ unknownPre ++ n ++ unknownSuf := by
  intro he
  rw [he, List.append_assoc, List.take_left'] at h
  simp at h
  rfl

theorem berr_text_ne_unknown (e : BErr) (n : Bytes) : e.text ≠ some (unknownPre ++ n ++ unknownSuf) := by
  cases e with
  | crash => simp [BErr.text]
  | unreachable =>
    simp only [BErr.text, ne_eq, Option.some.injEq]
    exact ne_unknown_of_take (by decide) n
  | lit l =>
    simp only [BErr.text, ne_eq, Option.some.injEq]
    exact ne_unknown_of_take (lit_ne_unknown l) n
  | fmt f p =>
    simp only [BErr.text, ne_eq, Option.some.injEq, List.append_assoc]
    have h := fmt_ne_unknown f
    simp only [bne_iff_ne, ne_eq] at h
    exact take_ne_of_prefix_ne _ (Nat.min_le_left _ _) (Nat.min_le_right _ _) h

/-- a command comes back "unknown" from redis.call exactly when the translator's table has no entry
    for its (normalised) name; no other error path of the translator has that text.  So an
    "unknown" answer for a name in `luaNames` is not the recorded finding but a new defect. -/
theorem lua_unknown_iff_not_in_luaTable (name : Bytes) (args : List Bytes) :
    (∃ n, errText (parseLua (name :: args)) = some (unknownPre ++ n ++ unknownSuf)) ↔
      findEntry luaTable (kw name) = none := by
  constructor
  · intro ⟨n, hn⟩
    cases he : findEntry luaTable (kw name) with
    | none => rfl
    | some e =>
      exfalso
      have hall := (List.all_eq_true.mp luaTable_all_cmd) e (findEntry_mem he)
      cases e with
      | family a b c d => simp at hall
      | cmd l =>
        simp only [parseLua, he, parseWith] at hn
        unfold Spec.run at hn
        split at hn
        · cases hb : l.body.run args with
          | ok c => rw [hb] at hn; simp [errText] at hn
          | error b =>
            rw [hb] at hn
            simp only [errText, Err.text] at hn
            exact berr_text_ne_unknown b n hn
        · simp only [errText, Err.text, Option.some.injEq] at hn
          have hm : l.arityErr ∈ luaArityErrs := by
            simp only [luaArityErrs, List.mem_flatMap]
            exact ⟨.cmd l, findEntry_mem he, by simp⟩
          have := List.all_eq_true.mp lua_arity_ne_unknown _ hm
          exact ne_unknown_of_take this n hn
  · intro he
    exact ⟨kw name, by simp [parseLua, he, errText, Err.text]⟩

/-- the names whose ARITY error text differs between the translator and the RESP grammar, with
    both texts (translator, RESP grammar) -/
def luaArityDiff : List (Bytes × Bytes × Bytes) :=
  luaTable.filterMap fun e => match e with
    | .cmd l => match findEntry table l.name with
      | some (.cmd m) => if l.arityErr = m.arityErr then none else some (l.name, l.arityErr, m.arityErr)
      | _ => none
    | _ => none

theorem lua_arity_text_differs_only_on :
    luaArityDiff =
      [ (s2b "GET", s2b "GET requires 1 argument", wrongArgs "get"),
        (s2b "INCR", s2b "INCR requires 1 argument", wrongArgs "incr"),
        (s2b "DECR", s2b "DECR requires 1 argument", wrongArgs "decr"),
        (s2b "INCRBY", s2b "INCRBY requires 2 arguments", wrongArgs "incrby"),
        (s2b "HDEL", s2b "HDEL requires key and at least 1 field", s2b "HDEL requires at least 2 arguments"),
        (s2b "LPUSH", s2b "LPUSH requires key and at least 1 value", s2b "LPUSH requires at least 2 arguments"),
        (s2b "RPUSH", s2b "RPUSH requires key and at least 1 value", s2b "RPUSH requires at least 2 arguments"),
        (s2b "SADD", s2b "SADD requires key and at least 1 member", s2b "SADD requires at least 2 arguments"),
        (s2b "SREM", s2b "SREM requires key and at least 1 member", s2b "SREM requires at least 2 arguments"),
        (s2b "EXPIRE", s2b "EXPIRE requires 2 arguments", s2b "EXPIRE requires at least 2 arguments"),
        (s2b "ZREM", s2b "ZREM requires key and at least 1 member", s2b "ZREM requires at least 2 arguments"),
        (s2b "ZRANGE", s2b "ZRANGE requires 3 arguments", s2b "ZRANGE requires 3 or 4 arguments") ] := by
  decide +kernel


/-- one row per translator entry: every error it can answer -/
structure LuaErrRow where
  name : Bytes
  arity : Bytes
  lits : List Lit
  fmts : List Fmt
  deriving DecidableEq, Repr

/-- the error literals / formatted errors of the translator's hand-written bodies -/
def luaCustomErrs (name : Bytes) : Option (List Lit × List Fmt) :=
  if name = s2b "SET" then some ([.luaSetExInt, .luaSetEx, .luaSetPxInt, .luaSetPx, .nxxx], [.luaUnknownSet])
  else if name = s2b "EXPIRE" then some ([.luaExpireInt], [])
  else if name = s2b "LMOVE" then some ([.lmoveFrom, .lmoveTo], [])
  else if name = s2b "ZADD" then some ([.zaddPairs, .luaZaddScore], [])
  else if name = s2b "ZRANGE" then some ([.luaZrangeStart, .luaZrangeStop], [])
  else if name = s2b "ZRANGEBYSCORE" then some ([.luaLimitOffset, .luaLimitCount, .luaLimitMissing], [.unknownZrbs])
  else none

def luaRow (l : Spec) : LuaErrRow :=
  match luaCustomErrs l.name with
  | some (ls, fs) => ⟨l.name, l.arityErr, ls, fs⟩
  | none => ⟨l.name, l.arityErr, l.body.lits, []⟩

/-- the translator's error alphabet, per command (derived from `luaTable`) -/
def luaErrTable : List LuaErrRow :=
  luaTable.filterMap fun e => match e with
    | .cmd l => some (luaRow l)
    | .family _ _ _ _ => none

def rowAllows (r : LuaErrRow) : Err → Bool
  | .arity t => t == r.arity
  | .body (.lit l) => r.lits.contains l
  | .body (.fmt f _) => r.fmts.contains f
  | _ => false

theorem luaTable_dsl_ok :
    luaTable.all (fun e => match e with
      | .cmd l => (luaCustomErrs l.name).isSome || dslOk l
      | _ => false) = true := by decide +kernel

/-- every error the translator answers for a command is the "unknown command" error (no table
    entry) or is listed in the command's row of `luaErrTable`: its arity text, one of its error
    literals, or one of its formatted errors.  An error text outside the row is not one of the
    recorded differences but a new defect. -/
theorem lua_error_alphabet (name : Bytes) (args : List Bytes) (err : Err)
    (h : parseLua (name :: args) = .error err) :
    (findEntry luaTable (kw name) = none ∧ err = .unknown (kw name)) ∨
    ∃ r ∈ luaErrTable, r.name = kw name ∧ rowAllows r err = true := by
  simp only [parseLua] at h
  cases he : findEntry luaTable (kw name) with
  | none => rw [he] at h; simp only [Except.error.injEq] at h; exact Or.inl ⟨rfl, h.symm⟩
  | some e =>
    right
    rw [he] at h
    simp only [parseWith, he] at h
    have hmem := findEntry_mem he
    have hd := (List.all_eq_true.mp luaTable_dsl_ok) e hmem
    have hname := findEntry_name he
    cases e with
    | family a b c d => simp at hd
    | cmd l =>
      simp only [Entry.name] at hname
      simp only at h hd
      refine ⟨luaRow l, List.mem_filterMap.mpr ⟨.cmd l, hmem, rfl⟩, ?_, ?_⟩
      · unfold luaRow; split <;> exact hname
      · unfold Spec.run at h
        cases har : l.arity.ok args.length with
        | false =>
          rw [har] at h
          simp only [Bool.false_eq_true, if_false, Except.error.injEq] at h
          subst h
          unfold luaRow; split <;> simp [rowAllows]
        | true =>
          rw [har] at h
          simp only [if_true] at h
          cases hb : l.body.run args with
          | ok c => rw [hb] at h; simp at h
          | error b =>
            rw [hb] at h
            simp only [Except.error.injEq] at h
            subst h
            by_cases h1 : kw name = s2b "SET"
            · rw [h1, find_lua_set] at he
              simp only [Option.some.injEq, Entry.cmd.injEq] at he
              subst he
              have hl : 2 ≤ args.length := by simpa [luaSetSpec, customSpec, Arity.ok] using har
              rcases luaSet_err hl (show Bodies.luaSet args = .error b from hb) with ⟨x, hx, rfl⟩ | ⟨w, rfl⟩
              · simp only [List.mem_cons, List.mem_nil_iff, or_false] at hx
                rcases hx with rfl | rfl | rfl | rfl | rfl <;> decide
              · show (luaRow luaSetSpec).fmts.contains Fmt.luaUnknownSet = true
                decide
            · by_cases h2 : kw name = s2b "EXPIRE"
              · rw [h2, find_lua_expire] at he
                simp only [Option.some.injEq, Entry.cmd.injEq] at he
                subst he
                have hl : args.length = 2 := by simpa [luaExpireSpec, customSpec, Arity.ok] using har
                rw [luaExpire_err hl (show Bodies.luaExpire args = .error b from hb)]
                decide
              · by_cases h3 : kw name = s2b "LMOVE"
                · rw [h3, find_lua_lmove] at he
                  simp only [Option.some.injEq, Entry.cmd.injEq] at he
                  subst he
                  have hl : args.length = 4 := by simpa [lmoveSpec, customSpec, Arity.ok] using har
                  rcases lmove_err hl (show Bodies.lmove args = .error b from hb) with rfl | rfl <;> decide
                · by_cases h4 : kw name = s2b "ZADD"
                  · rw [h4, find_lua_zadd] at he
                    simp only [Option.some.injEq, Entry.cmd.injEq] at he
                    subst he
                    have hl : 3 ≤ args.length := by simpa [luaZaddSpec, customSpec, Arity.ok] using har
                    rcases zadd_err _ hl (show Bodies.zadd { kind := .flt, onErr := some .luaZaddScore } args = .error b from hb)
                      with rfl | ⟨x, hx, rfl⟩
                    · decide
                    · simp [argErrs] at hx; subst hx; decide
                  · by_cases h5 : kw name = s2b "ZRANGE"
                    · rw [h5, find_lua_zrange] at he
                      simp only [Option.some.injEq, Entry.cmd.injEq] at he
                      subst he
                      have hl : args.length = 3 := by simpa [luaZrangeSpec, customSpec, Arity.ok] using har
                      rcases luaZrange_err hl (show Bodies.luaZrange args = .error b from hb) with rfl | rfl <;> decide
                    · by_cases h6 : kw name = s2b "ZRANGEBYSCORE"
                      · rw [h6, find_lua_zrbs] at he
                        simp only [Option.some.injEq, Entry.cmd.injEq] at he
                        subst he
                        have hl : 3 ≤ args.length := by simpa [luaZrbsSpec, customSpec, Arity.ok] using har
                        rcases zrbs_err _ _ _ _ hl (show Bodies.zrangebyscore (aIntE .luaLimitOffset) (aIntE .luaLimitCount)
                            .luaLimitMissing .unknownZrbs args = .error b from hb) with ⟨x, hx, rfl⟩ | ⟨w, rfl⟩
                        · simp [argErrs, aIntE] at hx
                          rcases hx with rfl | rfl | rfl <;> decide
                        · show (luaRow luaZrbsSpec).fmts.contains Fmt.unknownZrbs = true
                          decide
                      · have hnone : luaCustomErrs l.name = none := by
                          rw [hname]; simp [luaCustomErrs, h1, h2, h3, h4, h5, h6]
                        simp only [hnone, Option.isSome_none, Bool.false_or] at hd
                        obtain ⟨x, hx, rfl⟩ := dsl_err hd har hb
                        simp only [luaRow, hnone, rowAllows, List.contains_iff_mem]
                        exact hx

/-- the commands for which the translator has an error literal of its own (a text the RESP
    grammar never answers), with the literals -/
theorem lua_own_literals :
    (luaErrTable.filterMap fun r =>
        let own := r.lits.filter fun l => !(([Lit.nxxx, .lmoveFrom, .lmoveTo, .zaddPairs] : List Lit).contains l)
        if own.isEmpty then none else some (r.name, own)) =
      [ (s2b "SET", [.luaSetExInt, .luaSetEx, .luaSetPxInt, .luaSetPx]),
        (s2b "INCRBY", [.luaIncrbyInt]),
        (s2b "EXPIRE", [.luaExpireInt]),
        (s2b "HINCRBY", [.luaHincrbyInt]),
        (s2b "LRANGE", [.luaLrangeStart, .luaLrangeStop]),
        (s2b "ZADD", [.luaZaddScore]),
        (s2b "ZRANGE", [.luaZrangeStart, .luaZrangeStop]),
        (s2b "ZRANGEBYSCORE", [.luaLimitOffset, .luaLimitCount, .luaLimitMissing]) ] := by decide +kernel


/-- table-level test for the other direction: a DSL entry of the translator has the SAME arity
    rule as the RESP grammar's entry and the same slots -/
def luaCheckRev : Entry → Bool
  | .cmd l =>
    luaCustoms.contains l.name ||
    match findEntry table l.name with
    | some (.cmd m) => l.arity == m.arity && bodyOkSub m.body l.body
    | _ => false
  | .family _ _ _ _ => false

theorem luaTable_checked_rev : luaTable.all luaCheckRev = true := by decide +kernel

/-- which frames the RESP grammar accepts and redis.call refuses — exactly: a command without a
    translator entry; `SET` with one of the option words the translator lacks (it stops at the first:
    `EXAT`, `PXAT`, `KEEPTTL`); `EXPIRE` with flags (three or more arguments); `ZRANGE` with a fourth
    argument.  A refusal of an accepted frame outside this list is not a recorded finding. -/
theorem lua_rejects_accepted_only_on (name : Bytes) (args : List Bytes) (c : Cmd) (e : Err)
    (hc : parseCmd (name :: args) = .ok c) (he : parseLua (name :: args) = .error e) :
    (findEntry luaTable (kw name) = none ∧ e = .unknown (kw name)) ∨
    (kw name = s2b "SET" ∧ ∃ w ∈ setExtra, e = .body (.fmt .luaUnknownSet w)) ∨
    (kw name = s2b "EXPIRE" ∧ e = .arity (req "EXPIRE" 2) ∧ 3 ≤ args.length) ∨
    (kw name = s2b "ZRANGE" ∧ e = .arity (req "ZRANGE" 3) ∧ args.length = 4) := by
  simp only [parseLua] at he
  cases hf : findEntry luaTable (kw name) with
  | none => rw [hf] at he; simp only [Except.error.injEq] at he; exact Or.inl ⟨rfl, he.symm⟩
  | some en =>
    right
    rw [hf] at he
    simp only [parseWith, hf] at he
    have hchk := (List.all_eq_true.mp luaTable_checked_rev) en (findEntry_mem hf)
    have hname := findEntry_name hf
    cases en with
    | family a b c d => simp [luaCheckRev] at hchk
    | cmd l =>
      simp only at he
      simp only [Entry.name] at hname
      by_cases h1 : kw name = s2b "SET"
      · left
        refine ⟨h1, ?_⟩
        rw [h1, find_lua_set] at hf
        simp only [Option.some.injEq, Entry.cmd.injEq] at hf
        subst hf
        rw [parse_of_find (s := setSpec) (by rw [h1]; exact find_set)] at hc
        obtain ⟨har, hb⟩ := run_ok hc
        rw [run_of (s := luaSetSpec) har] at he
        rcases set_ok_lua args c hb with h' | ⟨w, hw, h'⟩
        · have : luaSetSpec.body.run args = .ok c := h'
          rw [this] at he; simp [liftB] at he
        · have : luaSetSpec.body.run args = .error (.fmt .luaUnknownSet w) := h'
          rw [this] at he
          simp only [liftB, Except.error.injEq] at he
          exact ⟨w, hw, he.symm⟩
      · right
        by_cases h2 : kw name = s2b "EXPIRE"
        · left
          refine ⟨h2, ?_⟩
          rw [h2, find_lua_expire] at hf
          simp only [Option.some.injEq, Entry.cmd.injEq] at hf
          subst hf
          rw [parse_of_find (s := expireSpec) (by rw [h2]; exact find_expire)] at hc
          obtain ⟨har, hb⟩ := run_ok hc
          have har' : 2 ≤ args.length := by simpa [expireSpec, customSpec, Arity.ok] using har
          by_cases hl : args.length = 2
          · exfalso
            rw [run_of (s := luaExpireSpec) (by simp [luaExpireSpec, customSpec, Arity.ok, hl])] at he
            have : luaExpireSpec.body.run args = .ok c := expire_ok_lua args c hl hb
            rw [this] at he; simp [liftB] at he
          · have hno : luaExpireSpec.arity.ok args.length = false := by
              simp [luaExpireSpec, customSpec, Arity.ok, hl]
            unfold Spec.run at he
            rw [hno] at he
            simp only [Bool.false_eq_true, if_false, Except.error.injEq] at he
            exact ⟨he.symm, by omega⟩
        · right
          by_cases h5 : kw name = s2b "ZRANGE"
          · refine ⟨h5, ?_⟩
            rw [h5, find_lua_zrange] at hf
            simp only [Option.some.injEq, Entry.cmd.injEq] at hf
            subst hf
            rw [parse_of_find (s := zrangeSpec) (by rw [h5]; exact find_zrange)] at hc
            obtain ⟨har, hb⟩ := run_ok hc
            have har' : 3 ≤ args.length ∧ args.length ≤ 4 := by simpa [zrangeSpec, customSpec, Arity.ok] using har
            by_cases hl : args.length = 3
            · exfalso
              rw [run_of (s := luaZrangeSpec) (by simp [luaZrangeSpec, customSpec, Arity.ok, hl])] at he
              have : luaZrangeSpec.body.run args = .ok c := zrange_ok_lua args c hl hb
              rw [this] at he; simp [liftB] at he
            · have hno : luaZrangeSpec.arity.ok args.length = false := by
                simp [luaZrangeSpec, customSpec, Arity.ok, hl]
              unfold Spec.run at he
              rw [hno] at he
              simp only [Bool.false_eq_true, if_false, Except.error.injEq] at he
              exact ⟨he.symm, by omega⟩
          · exfalso
            by_cases h3 : kw name = s2b "LMOVE"
            · rw [h3, find_lua_lmove] at hf
              simp only [Option.some.injEq, Entry.cmd.injEq] at hf
              subst hf
              rw [parse_of_find (s := lmoveSpec) (by rw [h3]; exact find_lmove)] at hc
              rw [hc] at he; simp at he
            · by_cases h4 : kw name = s2b "ZADD"
              · rw [h4, find_lua_zadd] at hf
                simp only [Option.some.injEq, Entry.cmd.injEq] at hf
                subst hf
                rw [parse_of_find (s := zaddSpec) (by rw [h4]; exact find_zadd)] at hc
                obtain ⟨har, hb⟩ := run_ok hc
                rw [run_of (s := luaZaddSpec) har] at he
                have : luaZaddSpec.body.run args = .ok c :=
                  zadd_ok (a := aFlt) (b := { kind := .flt, onErr := some .luaZaddScore }) rfl args c hb
                rw [this] at he; simp [liftB] at he
              · by_cases h6 : kw name = s2b "ZRANGEBYSCORE"
                · rw [h6, find_lua_zrbs] at hf
                  simp only [Option.some.injEq, Entry.cmd.injEq] at hf
                  subst hf
                  rw [parse_of_find (s := zrbsSpec) (by rw [h6]; exact find_zrbs)] at hc
                  obtain ⟨har, hb⟩ := run_ok hc
                  rw [run_of (s := luaZrbsSpec) har] at he
                  have : luaZrbsSpec.body.run args = .ok c :=
                    zrangebyscore_ok aInt aInt (aIntE .luaLimitOffset) (aIntE .luaLimitCount) .limitMissing .luaLimitMissing
                      .unknownZrbs .unknownZrbs rfl rfl args c hb
                  rw [this] at he; simp [liftB] at he
                · have hnc : luaCustoms.contains l.name = false := by
                    rw [hname]
                    simp only [luaCustoms, List.contains_cons, List.contains_nil, Bool.or_false, Bool.or_eq_false_iff,
                      beq_eq_false_iff_ne, ne_eq]
                    exact ⟨h1, h2, h3, h4, h5, h6⟩
                  simp only [luaCheckRev, hnc, Bool.false_or] at hchk
                  rw [hname] at hchk
                  cases hm : findEntry table (kw name) with
                  | none => rw [hm] at hchk; simp at hchk
                  | some e' =>
                    rw [hm] at hchk
                    cases e' with
                    | family a b c d => simp at hchk
                    | cmd m =>
                      simp only [Bool.and_eq_true, beq_iff_eq] at hchk
                      rw [parse_of_find hm] at hc
                      obtain ⟨har, hb⟩ := run_ok hc
                      rw [run_of (s := l) (by rw [hchk.1]; exact har), body_ok_sub hchk.2 args c hb] at he
                      simp [liftB] at he

/-- non-vacuity: each listed shape occurs -/
example :
    (parseCmd [s2b "SET", s2b "k", s2b "v", s2b "GET", s2b "keepttl"]).isOk = true ∧
    parseLua [s2b "SET", s2b "k", s2b "v", s2b "GET", s2b "keepttl"] = .error (.body (.fmt .luaUnknownSet (s2b "KEEPTTL"))) ∧
    (parseCmd [s2b "EXPIRE", s2b "k", s2b "5", s2b "NX"]).isOk = true ∧
    parseLua [s2b "EXPIRE", s2b "k", s2b "5", s2b "NX"] = .error (.arity (req "EXPIRE" 2)) ∧
    (parseCmd [s2b "ZRANGE", s2b "z", s2b "0", s2b "-1", s2b "WITHSCORES"]).isOk = true ∧
    parseLua [s2b "ZRANGE", s2b "z", s2b "0", s2b "-1", s2b "WITHSCORES"] = .error (.arity (req "ZRANGE" 3)) := by decide


/-! ## 10. Lua-side values the conversion meets besides replies -/

/-- a function / thread / userdata is answered as a nil bulk and — unlike `nil` — does not end an array -/
theorem lua_other_is_nil_bulk_and_no_cut (xs : List LuaVal) :
    luaToResp .other = .bulk none ∧ luaToRespL (.other :: xs) = .bulk none :: luaToRespL xs := by
  simp [luaToResp, luaToRespL]

/-- a string argument of redis.call reaches the command byte for byte -/
theorem lua_arg_string_byte_exact (b : Bytes) : luaArgBytes (.str b) = some b := rfl

/-- exactly strings, integers and floats are accepted as arguments -/
theorem lua_arg_refused_iff (v : LuaVal) :
    luaArgBytes v = none ↔ (match v with | .str _ => False | .int _ => False | .num _ => False | _ => True) := by
  cases v <;> simp [luaArgBytes]

/-- an integer argument arrives as digits the RESP grammar reads back as the same integer (at the
    extremes; the general statement needs `Int.repr` lemmas and is exercised, not proved) -/
theorem lua_arg_integer_extremes :
    parseI64 (intText 9223372036854775807) = some 9223372036854775807 ∧
    parseI64 (intText (-9223372036854775808)) = some (-9223372036854775808) ∧
    parseI64 (intText 0) = some 0 ∧ parseI64 (intText (-1)) = some (-1) := by decide +kernel

end C16
end RedisVerif
