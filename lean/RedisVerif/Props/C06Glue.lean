import RedisVerif.Props.C06
import RedisVerif.Lemmas.GlueCluster

/-!
# C06, layer 2 — "what a replica serves to clients equals what its replication state says"

Model: `Model/Glue.lean` — one `ReplicatedShardActor` = (`exec` : the reference Redis model M7
stepped at the actor's constant instant 0, `rs` : the shard replication state M2);
`Node.client` = `Execute` arm (execute, gate `command_applied`, `record_mutation_post_execute` on
the POST-state), `Node.deliver` = `apply_remote_delta_impl` (merge, then re-materialise the merged
value), `GCluster` = n such nodes whose `rs` components form the layer-1 `Cluster`.

* `served_equals_replicated_partial` — for every history (any length) of client commands and
  deliveries on a node that lies in the supported fragment (`Glue.Supported`, decidable: it runs
  the model), for every key: the entry the executor serves (value AND remaining TTL,
  `Redis.view` at instant 0) is `materialise` of the replication state's value.
* one kernel-checked `…_counterexample` per excluded class (`Glue.Reason`); each is replayed on
  the real actors by `harness/src/c06.rs scenarios()` on every run.  (Four former classes —
  `SET … EXAT/PXAT/KEEPTTL`, `INCR*/APPEND` on keys with a TTL, a remote hash over a local
  string, multi-key `DEL` — were repaired by `fix:` commits; their witnesses are now `example`s
  of supported histories.)
* `converged_reads_equal_partial` — layer 1 composed with layer 2: under `KindStable`, `Delivered`
  and the cluster-level supported fragment, all nodes answer GET / HGETALL / EXISTS identically.
* `served_winner_partial` — … and for a string key that answer is the value of the write with
  the greatest (time, replica) stamp.
-/
namespace RedisVerif
namespace C06

open Glue Redis

/-! ## full-strength statements -/

/-- every node, after every history, serves for every key what its replication state says -/
def C06_served_equals_replicated : Prop :=
  ∀ (rid : Nat) (causal : Bool) (hist : List NEv) (k : Nat),
    served ((Node.init rid causal).run hist) k =
      materialise (NMap.get ((Node.init rid causal).run hist).rs.keys k)

/-- GET, HGETALL and EXISTS of one key are answered alike by two nodes -/
def ReadsEqual (a b : Node) (k : Nat) : Prop :=
  (execStep a.exec (.get k)).2 = (execStep b.exec (.get k)).2 ∧
  (execStep a.exec (.hgetall k)).2 = (execStep b.exec (.hgetall k)).2 ∧
  (execStep a.exec (.exists [k])).2 = (execStep b.exec (.exists [k])).2

instance (a b : Node) (k : Nat) : Decidable (ReadsEqual a b k) := by
  unfold ReadsEqual; infer_instance

/-- once every delta of a key has been delivered everywhere, all nodes answer reads alike -/
def C06_converged_reads_equal : Prop :=
  ∀ (n : Nat) (causal : Bool) (hist : List GEv) (k : Nat),
    Delivered ((GCluster.init n causal).run hist).proj k →
    ∀ (i j : Nat) (ni nj : Node),
      ((GCluster.init n causal).run hist).nodes[i]? = some ni →
      ((GCluster.init n causal).run hist).nodes[j]? = some nj → ReadsEqual ni nj k

/-! ## the proved forms -/

/-- **C06 (a replica serves what its replication state says), partial**: hypothesis
    `Glue.Supported` (decidable).  Outside it only: commands the recorder ignores that change the
    keyspace (outside the property's command list) and malformed deltas (non-canonical, empty
    register, other CRDT kinds, `expiry_ms` 0 or beyond `i64`) — one counterexample theorem
    each, below.  Inside it: SET with every option, DEL, INCR/DECR/INCRBY/DECRBY/APPEND/GETSET
    with or without TTL, HSET/HDEL/HINCRBY, failing and wrong-type commands, every read, and
    deliveries of arbitrary well-formed string / hash / tombstone deltas including type changes. -/
theorem served_equals_replicated_partial (rid : Nat) (causal : Bool) (hist : List NEv)
    (hs : Supported (Node.init rid causal) hist) (k : Nat) :
    served ((Node.init rid causal).run hist) k =
      materialise (NMap.get ((Node.init rid causal).run hist).rs.keys k) :=
  (ginv_run (ginv_init rid causal) hist hs).srv k

/-- **C06 (… also after a restart)**: a checkpoint (distinct keys, canonical values, in-range
    expiries — all decidable) recovered into a fresh actor through `ApplyRecoveredState`: the
    actor serves what its replication state says.  (Recovery over a key the node already knows is
    a plain insert without merge: `recovered_over_existing_counterexample`.) -/
theorem recovered_serves_replicated_partial (rid : Nat) (causal : Bool) (kvs : List (Nat × RV))
    (hnd : (kvs.map (·.1)).Nodup) (hok : ∀ p ∈ kvs, p.2.WF ∧ ExpiryOk p.2) (k : Nat) :
    served (recoverAll (Node.init rid causal) kvs) k =
      materialise (NMap.get (recoverAll (Node.init rid causal) kvs).rs.keys k) :=
  (ginv_recoverAll kvs _ (ginv_init rid causal) (fun _ _ => rfl) hnd hok).srv k

/-! ### reads depend on the served value only -/

/-- value part of what a node serves -/
def servedVal (n : Node) (k : Nat) : Option Value := (served n k).map (·.val)

theorem servedVal_eq (n : Node) (k : Nat) :
    servedVal n k = (NMap.get (purge n.exec 0) k).map (·.val) := by
  simp only [servedVal, served_eq, Option.map_map]
  cases NMap.get (purge n.exec 0) k <;> rfl

theorem reads_of_servedVal {a b : Node} {k : Nat} (h : servedVal a k = servedVal b k) :
    ReadsEqual a b k := by
  rw [servedVal_eq, servedVal_eq] at h
  simp only [ReadsEqual, execStep, step, exec, execGet, execHGetAll, execExists, lookupStr,
    lookupHash, List.filter_cons, List.filter_nil]
  cases ha : NMap.get (purge a.exec 0) k with
  | none =>
    cases hb : NMap.get (purge b.exec 0) k with
    | none => simp
    | some eb => rw [ha, hb] at h; simp at h
  | some ea =>
    cases hb : NMap.get (purge b.exec 0) k with
    | none => rw [ha, hb] at h; simp at h
    | some eb =>
      rw [ha, hb] at h
      simp only [Option.map_some, Option.some.injEq] at h
      simp only [h, Option.isSome_some, if_true]
      cases eb.val <;> simp

/-- value part of `materialise`: a function of the CRDT content alone -/
def matValOf : Crdt → Option Value
  | .lww r => r.get.map Value.str
  | .hash h =>
    (match liveFields h with
     | [] => none
     | p :: l => some (.hash (p :: l)))
  | _ => none

theorem materialise_val (rv : RV) : (materialise (some rv)).map (·.val) = matValOf rv.crdt := by
  obtain ⟨crdt, vc, expiry, ts, rf⟩ := rv
  cases crdt with
  | lww r => simp only [materialise, matValOf]; cases r.get <;> rfl
  | hash h => simp only [materialise, matValOf]; cases liveFields h <;> rfl
  | gcounter c => rfl
  | pncounter p n => rfl
  | gset s => rfl
  | orset e n => rfl

theorem materialise_val_of_strip {o1 o2 : Option RV} (h : o1.map RV.strip = o2.map RV.strip) :
    (materialise o1).map (·.val) = (materialise o2).map (·.val) := by
  cases o1 with
  | none =>
    cases o2 with
    | none => rfl
    | some b => simp at h
  | some a =>
    cases o2 with
    | none => simp at h
    | some b =>
      simp only [Option.map_some, Option.some.injEq] at h
      have hc : a.crdt = b.crdt := by have := congrArg RV.crdt h; simpa [RV.strip] using this
      rw [materialise_val, materialise_val, hc]

/-- **C06 (all replicas answer reads alike), partial** — layer 1 composed with layer 2: for every
    number of nodes and every history of client commands and deliveries in the supported fragment
    of the cluster (`Glue.GSupported` = the node-level fragment at every step; a multi-key DEL is
    split per key as `ReplicatedShardedState::execute` does), for every key whose deltas keep one
    CRDT kind and have all been delivered
    everywhere: every two nodes — the writer included — answer GET, HGETALL and EXISTS identically. -/
theorem converged_reads_equal_partial (n : Nat) (causal : Bool) (hist : List GEv) (k K : Nat)
    (hs : GSupported (GCluster.init n causal) hist)
    (hk : KindStable ((GCluster.init n causal).run hist).proj k K)
    (hd : Delivered ((GCluster.init n causal).run hist).proj k)
    (i j : Nat) (ni nj : Node)
    (hi : ((GCluster.init n causal).run hist).nodes[i]? = some ni)
    (hj : ((GCluster.init n causal).run hist).nodes[j]? = some nj) : ReadsEqual ni nj k := by
  obtain ⟨hall, evs, hproj⟩ := run_proj hist _ (allinv_init n causal) hs
  rw [proj_init] at hproj
  have hagree : Agree ((GCluster.init n causal).run hist).proj k := by
    rw [hproj] at hk hd ⊢
    exact rs_converges_of_kind_stable n causal evs k K hk hd
  have hpi : ((GCluster.init n causal).run hist).proj.nodes[i]? = some ni.rs := by
    rw [proj_nodes_get, hi]; rfl
  have hpj : ((GCluster.init n causal).run hist).proj.nodes[j]? = some nj.rs := by
    rw [proj_nodes_get, hj]; rfl
  have hstrip := hagree i j ni.rs nj.rs hpi hpj
  apply reads_of_servedVal
  simp only [servedVal]
  rw [(hall ni (List.mem_of_getElem? hi)).srv k, (hall nj (List.mem_of_getElem? hj)).srv k]
  exact materialise_val_of_strip hstrip

/-- **C06 (the agreed value is the greatest-stamp write), at the level of what clients read**:
    for a key that only ever held strings, what every node serves is the value of a register
    issued for the key whose stamp is greater than the stamp of every other write of the key. -/
theorem served_winner_partial (n : Nat) (causal : Bool) (hist : List GEv) (k : Nat)
    (hs : GSupported (GCluster.init n causal) hist)
    (hk : KindStable ((GCluster.init n causal).run hist).proj k 0)
    (hd : Delivered ((GCluster.init n causal).run hist).proj k)
    (i : Nat) (ni : Node) (hi : ((GCluster.init n causal).run hist).nodes[i]? = some ni)
    (v : RV) (hv : NMap.get ni.rs.keys k = some v) :
    ∃ r : Lww, servedVal ni k = r.get.map Value.str ∧
      (∃ m ∈ ((GCluster.init n causal).run hist).sent, m.key = k ∧ m.val.crdt = .lww r) ∧
      ∀ m ∈ ((GCluster.init n causal).run hist).sent, m.key = k → ∀ r', m.val.crdt = .lww r' →
        (r'.ts.lt r.ts = true ∨ r' = r) := by
  obtain ⟨hall, evs, hproj⟩ := run_proj hist _ (allinv_init n causal) hs
  rw [proj_init] at hproj
  have hpi : ((Cluster.init n causal).run evs).nodes[i]? = some ni.rs := by
    rw [← hproj, proj_nodes_get, hi]; rfl
  have hsent : ((GCluster.init n causal).run hist).sent = ((Cluster.init n causal).run evs).sent :=
    congrArg Cluster.sent hproj
  rw [hproj] at hk hd
  obtain ⟨r, hr, hex, hmax⟩ :=
    winner_is_max_stamp_of_kind_stable n causal evs k hk hd i ni.rs hpi v hv
  refine ⟨r, ?_, by rw [hsent]; exact hex, by rw [hsent]; exact hmax⟩
  simp only [servedVal]
  rw [(hall ni (List.mem_of_getElem? hi)).srv k, hv, materialise_val, hr]
  rfl

/-! ## counterexamples: one per excluded class (each replayed on the real actors) -/

/-- a tombstone issued by replica 2 at time 30 -/
def foreignTombstone : RV :=
  { crdt := .lww (Lww.delete ⟨30, 2⟩), vc := none, expiry := none, ts := ⟨30, 2⟩, rf := none }

def kA : Nat := 7
def kB : Nat := 8
def fF' : Nat := 3

/-- `MSET a w` on a fresh node: the executor has `a`, the replication state does not -/
def nonReplicatedRun : List NEv := [.client (.mset [(kA, [119])])]

theorem non_replicated_writer_counterexample :
    unsupported (Node.init 1 false) (.client (.mset [(kA, [119])])) = some .nonReplicatedWriter ∧
    served ((Node.init 1 false).run nonReplicatedRun) kA ≠
      materialise (NMap.get ((Node.init 1 false).run nonReplicatedRun).rs.keys kA) := by
  decide

/-! ### repaired classes: the former witnesses are supported histories now -/

/-- `SET a v PXAT 5000`; `SET a v EX 100; SET a w KEEPTTL`; `SET c 5 EX 100; INCR c; APPEND c 1` -/
def expiryOptsRun : List NEv :=
  [ .client (.set kA [118] .always (.pxat 5000) false),
    .client (.set kA [118] .always (.ex 100) false), .client (.set kA [119] .always .keepttl false),
    .client (.set kB [53] .always (.ex 100) false), .client (.incr kB), .client (.append kB [49]) ]

example : Supported (Node.init 1 false) expiryOptsRun ∧
    (served ((Node.init 1 false).run expiryOptsRun) kA).map (·.ttl) = some (some 100000) ∧
    (served ((Node.init 1 false).run expiryOptsRun) kB).map (·.ttl) = some (some 100000) := by
  decide

/-- the delta of `HSET x f 1` issued by replica 2 -/
def hashDelta : RV := ((Shard.init 2 false).recordHashWrite kA [(fF', [49])]).2

/-- `SET x v` on node 1, then the concurrent `HSET x f 1` of node 2 arrives and wins by stamp:
    the string is deleted, the hash is served -/
def hashOverStringRun : List NEv :=
  [.client (.set kA [118] .always .none false), .deliver kA hashDelta]

example : Supported (Node.init 1 false) hashOverStringRun ∧
    (served ((Node.init 1 false).run hashOverStringRun) kA).map (·.val) =
      some (.hash [(fF', [49])]) := by
  decide

/-- a crafted register that is neither a tombstone nor a value -/
def emptyRegister : RV :=
  { crdt := .lww { value := none, ts := ⟨5, 9⟩, tomb := false }, vc := none, expiry := none,
    ts := ⟨5, 9⟩, rf := none }

def badDeltaRun : List NEv := [.client (.set kA [118] .always .none false), .deliver kA emptyRegister]

theorem bad_delta_counterexample :
    ¬ Supported (Node.init 1 false) badDeltaRun ∧
    served ((Node.init 1 false).run badDeltaRun) kA ≠
      materialise (NMap.get ((Node.init 1 false).run badDeltaRun).rs.keys kA) := by
  decide

/-- a crafted live value with `expiry_ms = 0`: `SET … PX 0` is rejected -/
def expiryZero : RV := { RV.withValue [118] ⟨5, 9⟩ with expiry := some 0 }

def expiryZeroRun : List NEv := [.deliver kA expiryZero]

theorem expiry_zero_counterexample :
    unsupported (Node.init 1 false) (.deliver kA expiryZero) = some .expiryRange ∧
    served ((Node.init 1 false).run expiryZeroRun) kA ≠
      materialise (NMap.get ((Node.init 1 false).run expiryZeroRun).rs.keys kA) := by
  decide

/-- `SET a v`, then a recovered tombstone for `a`: plain insert, nothing is deleted -/
theorem recovered_over_existing_counterexample :
    served ((((Node.init 1 false).client (.set kA [118] .always .none false)).1).recovered kA foreignTombstone) kA ≠
      materialise (NMap.get
        ((((Node.init 1 false).client (.set kA [118] .always .none false)).1).recovered kA foreignTombstone).rs.keys kA) := by
  decide

/-- FLUSHALL / FLUSHDB at the actor: the executor is emptied, the replication state (keys AND
    Lamport clock) is left as it is — the recorder's `FlushDb | FlushAll => None` -/
theorem flush_leaves_replication_state (n : Node) :
    (n.client .flushall).1.rs = n.rs ∧ (n.client .flushdb).1.rs = n.rs ∧
    (n.client .flushall).1.exec = [] ∧ (n.client .flushdb).1.exec = [] := by
  simp [Node.client, record, execStep, Redis.step, Redis.exec, Redis.execFlush, applied,
    Redis.Reply.isError, Redis.Reply.ok]

/-- `SET a v; FLUSHALL`: the node serves nothing, its replication state (hence `snapshot_state()`,
    the checkpoint, and the node itself after a restart) still holds `a` — an instance of the
    non-replicated-writer class (FLUSH* is outside the property's command list) -/
def flushLingersRun : List NEv := [.client (.set kA [118] .always .none false), .client .flushall]

theorem flushall_lingers_counterexample :
    ¬ Supported (Node.init 1 false) flushLingersRun ∧
    served ((Node.init 1 false).run flushLingersRun) kA = none ∧
    materialise (NMap.get ((Node.init 1 false).run flushLingersRun).rs.keys kA) ≠ none := by
  decide

theorem C06_served_equals_replicated_false : ¬ C06_served_equals_replicated := fun h =>
  non_replicated_writer_counterexample.2 (h 1 false nonReplicatedRun kA)

/-- the shard actor hands back ONE delta per command: for `DEL a b` only b's tombstone (this is
    why `ReplicatedShardedState::execute` now sends one DEL per key) -/
theorem shard_multi_key_del_hands_back_last_delta :
    ((((Node.init 1 false).run
        [.client (.set kA [49] .always .none false), .client (.set kB [50] .always .none false)]).client
        (.del [kA, kB])).2.2).map (·.1) = some kB := by
  decide

/-- `SETNX a w` on node 0 of two (a writer the recorder ignores): nothing is sent, so everything
    sent is delivered, yet node 1 does not serve `a` -/
def nonReplicatedClusterRun : List GEv := [.client 0 (.setnx kA [119])]

theorem non_replicated_cluster_counterexample :
    ¬ GSupported (GCluster.init 2 false) nonReplicatedClusterRun ∧
    Delivered ((GCluster.init 2 false).run nonReplicatedClusterRun).proj kA ∧
    KindStable ((GCluster.init 2 false).run nonReplicatedClusterRun).proj kA 0 ∧
    ¬ (∀ (i j : Nat) (ni nj : Node),
        ((GCluster.init 2 false).run nonReplicatedClusterRun).nodes[i]? = some ni →
        ((GCluster.init 2 false).run nonReplicatedClusterRun).nodes[j]? = some nj →
        ReadsEqual ni nj kA) := by
  refine ⟨by decide, by decide, by decide, ?_⟩
  intro h
  have := h 0 1 _ _ rfl rfl
  revert this
  decide

theorem C06_converged_reads_equal_false : ¬ C06_converged_reads_equal := fun h =>
  non_replicated_cluster_counterexample.2.2.2
    (h 2 false nonReplicatedClusterRun kA non_replicated_cluster_counterexample.2.1)

/-! ## the front end since e29f660: MSET is one SET per pair -/

/-- an MSET is never outside the fragment: its step keeps every node's invariant (served =
    replicated) and is a run of layer-1 steps, one delta per pair -/
theorem mset_split_step_ok (g : GCluster) (h : AllInv g) (i : Nat) (kvs : List (Nat × BS)) :
    AllInv (g.step (.client i (.mset kvs))) ∧
    ∃ evs : List Ev, (g.step (.client i (.mset kvs))).proj = g.proj.run evs := by
  simp only [GCluster.step, splitCmd]
  exact fold_single_sets i kvs g h

/-- the MSET ships its pairs; after delivery both nodes serve them -/
theorem mset_split_replicates :
    let g := (GCluster.init 2 false).run [.client 0 (.mset [(kA, [119]), (kB, [120])]), .deliver 1 0, .deliver 1 1]
    g.sent.length = 2 ∧ Delivered g.proj kA ∧ Delivered g.proj kB ∧
    (∀ ni ∈ g.nodes, ∀ nj ∈ g.nodes, ReadsEqual ni nj kA ∧ ReadsEqual ni nj kB) := by
  decide

/-- **fixed defect C06:front-end:multi-key-routed-by-first-key** (e29f660): before the repair the
    MSET went whole to one shard actor, which does not record it — nothing was shipped, the peer
    never served the pair -/
theorem mset_unsplit_counterexample :
    let g := (GCluster.init 2 false).runPre [.client 0 (.mset [(kA, [119])])]
    g.sent = [] ∧ ¬ (∀ ni ∈ g.nodes, ∀ nj ∈ g.nodes, ReadsEqual ni nj kA) := by
  decide

/-! ## non-vacuity -/

/-- one node: conditional SETs (one rejected), GET-flavoured SET, expiry, INCRBY, APPEND on keys
    without TTL, GETSET, DEL, hash writes / deletes / HINCRBY, a failing HSET on a string, reads,
    and deliveries of a foreign string (stale and fresh), a foreign hash and a tombstone -/
def goodNodeRun : List NEv :=
  [ .client (.set kA [53] .always .none false), .client (.set kA [54] .nx .none false),
    .client (.set kA [55] .xx (.px 1500) true), .client (.incrby kB 5), .client (.append kB [49]),
    .client (.getset kA [56]), .client (.hset 9 [(fF', [49]), (4, [50])]), .client (.hincrby 9 fF' 2),
    .client (.hdel 9 [4]), .client (.hset kA [(fF', [49])]), .client (.get kA), .client (.ttl kA),
    .deliver kA (RV.withValue [57] ⟨1, 2⟩), .deliver kA (RV.withValue [58] ⟨9, 2⟩),
    .deliver 9 { hashDelta with ts := ⟨20, 2⟩ }, .client (.del [kB, 9]), .client (.hset 9 [(4, [51])]),
    .deliver kB foreignTombstone ]

set_option maxRecDepth 4000 in
example : Supported (Node.init 1 true) goodNodeRun ∧ goodNodeRun.length = 18 ∧
    served ((Node.init 1 true).run goodNodeRun) kA ≠ none ∧
    served ((Node.init 1 true).run goodNodeRun) 9 ≠ none ∧
    (NMap.get ((Node.init 1 true).run goodNodeRun).rs.keys kB).map RV.strip = some foreignTombstone := by
  decide

/-- a checkpoint with a string carrying a TTL, a hash with a live and a tombstoned field, and a
    tombstone -/
def goodCheckpoint : List (Nat × RV) :=
  [ (kA, { RV.withValue [118] ⟨4, 2⟩ with expiry := some 5000 }),
    (9, { hashDelta with crdt := .hash [(fF', Lww.set [49] ⟨1, 2⟩), (4, Lww.delete ⟨2, 2⟩)] }),
    (kB, foreignTombstone) ]

example : (goodCheckpoint.map (·.1)).Nodup ∧ (∀ p ∈ goodCheckpoint, p.2.WF ∧ ExpiryOk p.2) ∧
    served (recoverAll (Node.init 1 false) goodCheckpoint) kA ≠ none ∧
    served (recoverAll (Node.init 1 false) goodCheckpoint) 9 ≠ none := by
  decide

/-- three nodes, concurrent writers on one string key and on different fields of one hash key,
    reordered and duplicated deliveries, everything delivered in the end -/
def goodClusterRun : List GEv :=
  [ .client 0 (.set kA [49] .always (.ex 100) false), .client 1 (.set kA [50] .nx .none false),
    .client 2 (.incr kA), .client 0 (.hset 9 [(fF', [49])]), .client 1 (.hset 9 [(4, [50])]),
    .client 1 (.hdel 9 [4]), .client 2 (.get kA),
    .deliver 1 0, .deliver 2 0, .deliver 2 1, .deliver 0 1, .deliver 0 2, .deliver 1 2,
    .deliver 1 2, .deliver 1 3, .deliver 2 3, .deliver 0 5, .deliver 0 4, .deliver 2 5,
    .deliver 2 4, .deliver 2 4,
    -- a multi-key DEL: one tombstone per key (messages 6 and 7)
    .client 0 (.del [kA, 9]), .deliver 1 6, .deliver 1 7, .deliver 2 7, .deliver 2 6 ]

example : GSupported (GCluster.init 3 false) goodClusterRun ∧
    KindStable ((GCluster.init 3 false).run goodClusterRun).proj kA 0 ∧
    Delivered ((GCluster.init 3 false).run goodClusterRun).proj kA ∧
    KindStable ((GCluster.init 3 false).run goodClusterRun).proj 9 5 ∧
    Delivered ((GCluster.init 3 false).run goodClusterRun).proj 9 ∧
    ((GCluster.init 3 false).run goodClusterRun).sent.length = 8 := by
  decide

end C06
end RedisVerif
