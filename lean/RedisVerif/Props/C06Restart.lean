import RedisVerif.Props.C06

/-!
# C06 with crashes: a node restarts empty and gets its own deltas back

History shape (class "restart over old state"): node r issues deltas, crashes, comes back with an
empty `ShardReplicaState` (clock 0), receives deltas again — its OWN old ones among them, from its
WAL (`apply_recovered_state(None, deltas)` = `apply_remote_deltas`), from a peer's redelivery or
anti-entropy — and accepts writes again.

* `rs_converges_with_restarts` — for every number of nodes, every history of local writes,
  deliveries (to anybody, the origin included) and restarts: if the deltas of the key are
  compatible (`Compat`: one kind, a (slot, stamp) pair names one register — decidable) and every
  delta of the key has been applied at EVERY node since that node's last restart
  (`DeliveredAll`), all nodes hold the same content and stamp.  Conjunct: every node satisfies
  the clock invariant of C08 (`Shard.Inv`: the Lamport clock dominates every stored stamp) — it
  is what makes a write after recovery supersede what was recovered; `apply_remote_delta`
  advancing the clock for EVERY delta, own ones included, is what preserves it across a restart.
* `own_echo_skips_clock_counterexample` — the variant "do not advance the clock for a delta
  stamped with our own replica id": r1 writes three times, restarts, gets its three deltas
  back (clock stays 0), writes again → stamp (1, r1), which it had already used: the peer keeps
  the third write, r1 serves the fourth; `Compat` is false (two registers under one stamp) and
  the nodes disagree for ever.
* `write_before_own_recovery_counterexample` — the hypothesis `Compat` is not for free once
  state can be lost: a node that writes BEFORE it has its own history back re-issues stamp
  (1, r1) under the code that exists as well (C08: "across restart the claim is relative to what
  recovery hands back").  The binaries recover before they serve, so this order needs lost data.
* `restart_free_delivered_all` — without restarts the old `Delivered` (every OTHER node) is
  `DeliveredAll` (a node has absorbed what it issued).
-/
namespace RedisVerif
namespace C06

open Cluster

/-- every delta issued for key `k` has been applied at EVERY node (the origin included: after a
    restart it has to get its own deltas back) since that node last restarted -/
def DeliveredAll (c : Cluster) (k : Nat) : Prop :=
  ∀ m ∈ c.sent, m.key = k → ∀ j, j < c.nodes.length → (⟨j, k, m.val⟩ : Absorbed) ∈ c.log

instance (c : Cluster) (k : Nat) : Decidable (DeliveredAll c k) := by
  unfold DeliveredAll; infer_instance

theorem restart_free_delivered_all (n : Nat) (causal : Bool) (evs : List Ev) (k : Nat)
    (hd : Delivered ((init n causal).run evs) k) : DeliveredAll ((init n causal).run evs) k := by
  intro m hm hk j hj
  by_cases ho : j = m.origin
  · have := sentLog_run _ evs (sentLog_init n causal) m hm
    rw [ho, ← hk]; exact this
  · exact hd m hm hk j hj ho

/-! ## the invariant survives a restart -/

theorem absorbed_restart_self (c : Cluster) (i k : Nat) (s : Shard) (hs : c.nodes[i]? = some s) :
    (c.restart i).absorbed i k = [] := by
  simp only [restart, hs, absorbed]
  rw [List.filterMap_eq_nil_iff]
  intro a ha
  simp only [List.mem_filter, decide_eq_true_eq] at ha
  simp [ha.2]

theorem absorbed_restart_other (c : Cluster) (i i' k : Nat) (h : i' ≠ i) :
    (c.restart i).absorbed i' k = c.absorbed i' k := by
  simp only [restart]
  cases hs : c.nodes[i]? with
  | none => rfl
  | some s =>
    simp only [absorbed]
    induction c.log with
    | nil => rfl
    | cons a l ih =>
      simp only [List.filter_cons]
      by_cases ha : a.node = i
      · have hne : ¬ (a.node = i' ∧ a.key = k) := fun hh => h (hh.1.symm.trans ha)
        simp only [ha, ne_eq, not_true_eq_false, decide_false, Bool.false_eq_true, if_false,
          List.filterMap_cons]
        rw [ih]
        have : ¬ (i = i' ∧ a.key = k) := fun hh => h hh.1.symm
        simp [ha, this]
      · simp only [ne_eq, ha, not_false_eq_true, decide_true, if_true, List.filterMap_cons]
        rw [ih]

theorem J_restart {U : List Msg} {k K : Nat} {c : Cluster} (hj : J U k K c) (i : Nat) :
    J U k K (c.restart i) := by
  cases hs : c.nodes[i]? with
  | none => simp only [restart, hs]; exact hj
  | some s =>
    have hilt : i < c.nodes.length := (List.getElem?_eq_some_iff.mp hs).1
    refine ⟨?_, ?_, ?_, ?_, ?_⟩
    · intro s' hs'
      simp only [restart, hs] at hs'
      rcases mem_set hs' with h | h
      · subst h
        refine ⟨Shard.inv_init _ _, ?_, ⟨NMap.wf_nil, ?_⟩, rfl⟩
        · intro p hp; cases hp
        · intro p hp; cases hp
      · exact hj.nodes_inv _ h
    · simp only [restart, hs]; exact hj.sent_ok
    · intro i' s' hs'
      by_cases hii : i' = i
      · subst hii
        rw [absorbed_restart_self c i' k s hs]
        simp only [restart, hs] at hs'
        rw [List.getElem?_set_self hilt] at hs'
        cases hs'
        simp [Shard.init, foldOpt, NMap.get]
      · rw [absorbed_restart_other c i i' k hii]
        simp only [restart, hs] at hs'
        rw [List.getElem?_set_ne (Ne.symm hii)] at hs'
        exact hj.value i' s' hs'
    · intro a ha
      simp only [restart, hs, List.mem_filter] at ha ⊢
      exact hj.log_sent a ha.1
    · simp only [restart, hs]; exact hj.sub

theorem sent_restart (c : Cluster) (i : Nat) : (c.restart i).sent = c.sent := by
  simp only [restart]; split <;> rfl

theorem sent_mono_runR (c : Cluster) (evs : List REv) : ∀ m ∈ c.sent, m ∈ (c.runR evs).sent := by
  induction evs generalizing c with
  | nil => intro m hm; exact hm
  | cons e evs ih =>
    intro m hm
    apply ih (c.stepR e)
    cases e with
    | ev e => exact sent_mono_step c e m hm
    | restart i => simp only [stepR, sent_restart]; exact hm

theorem J_runR {U : List Msg} {k K : Nat} (hc : Compat U k K) (c : Cluster) (evs : List REv)
    (hj : J U k K c) (hsub : ∀ m ∈ (c.runR evs).sent, m ∈ U) : J U k K (c.runR evs) := by
  induction evs generalizing c with
  | nil => exact hj
  | cons e evs ih =>
    have hsub' : ∀ m ∈ (c.stepR e).sent, m ∈ U :=
      fun m hm => hsub m (sent_mono_runR (c.stepR e) evs m hm)
    apply ih (c.stepR e) _ hsub
    cases e with
    | ev e =>
      cases e with
      | loc i op => exact J_step_loc hc hj i op hsub'
      | deliver j idx => exact J_step_deliver hj j idx
    | restart i => exact J_restart hj i

/-- **C06 with restarts**: any number of nodes; any history of local writes, deliveries (own
    deltas echoed back included) and restarts with an empty state; for a key whose deltas are
    compatible, once every delta of the key has been applied at every node since its last
    restart, all nodes hold the same CRDT content and stamp — and every node satisfies the C08
    clock invariant (its Lamport clock dominates every stamp it stores). -/
theorem rs_converges_with_restarts (n : Nat) (causal : Bool) (evs : List REv) (k K : Nat)
    (hc : Compat ((init n causal).runR evs).sent k K)
    (hd : DeliveredAll ((init n causal).runR evs) k) :
    Agree ((init n causal).runR evs) k ∧ ∀ s ∈ ((init n causal).runR evs).nodes, s.Inv := by
  have hj : J ((init n causal).runR evs).sent k K ((init n causal).runR evs) :=
    J_runR hc (init n causal) evs (J_init _ k K n causal) (fun m hm => hm)
  refine ⟨?_, fun s hs => (hj.nodes_inv s hs).1⟩
  intro i j si sj hsi hsj
  rw [hj.value i si hsi, hj.value j sj hsj]
  have hilt : i < ((init n causal).runR evs).nodes.length := (List.getElem?_eq_some_iff.mp hsi).1
  have hjlt : j < ((init n causal).runR evs).nodes.length := (List.getElem?_eq_some_iff.mp hsj).1
  have hmove : ∀ (a b : Nat), b < ((init n causal).runR evs).nodes.length →
      ∀ v, v ∈ ((init n causal).runR evs).absorbed a k → v ∈ ((init n causal).runR evs).absorbed b k := by
    intro a b hb v hv
    simp only [absorbed, List.mem_filterMap] at hv ⊢
    obtain ⟨x, hx, hxv⟩ := hv
    split at hxv
    · rename_i hcond
      simp only [Option.some.injEq] at hxv
      obtain ⟨m, hm, hmk, hmv⟩ := hj.log_sent x hx
      have hmk' : m.key = k := by rw [hmk]; exact hcond.2
      exact ⟨⟨b, k, m.val⟩, hd m hm hmk' b hb, by simp [hmv, hxv]⟩
    · cases hxv
  exact foldOpt_eq_of_same_elems hc.1 (absorbed_in_carrier hc hj i) (absorbed_in_carrier hc hj j)
    (fun v => ⟨hmove i j hjlt v, hmove j i hilt v⟩)

/-! ## witnesses -/

def kR : Nat := 107

/-- r1 (node 0) writes k three times and ships to node 1; r1 restarts empty; its three deltas
    come back (WAL replay / redelivery); r1 writes k again and ships -/
def restartRun : List REv :=
  [ .ev (.loc 0 (.write kR [1] none)), .ev (.loc 0 (.write kR [2] none)), .ev (.loc 0 (.write kR [3] none)),
    .ev (.deliver 1 0), .ev (.deliver 1 1), .ev (.deliver 1 2),
    .restart 0,
    .ev (.deliver 0 0), .ev (.deliver 0 1), .ev (.deliver 0 2),
    .ev (.loc 0 (.write kR [4] none)),
    .ev (.deliver 1 3) ]

/-- the code that exists: the echoes advance r1's clock past (3, r1); the fourth write is stamped
    (5, r1) and wins everywhere -/
example :
    let c := (init 2 false).runR restartRun
    Compat c.sent kR 0 ∧ DeliveredAll c kR ∧ (c.sent.map (·.val.ts.time)) = [1, 2, 3, 5] ∧
    (c.nodes.map (fun s => (NMap.get s.keys kR).bind RV.get)) = [some [4], some [4]] := by
  decide

/-- **the variant that skips the clock update for own-stamped deltas** (the seeded change
    `C06-own-stamped-delta-skips-clock-update`): after the restart the echoes leave r1's clock at
    0, the fourth write is stamped (1, r1) — a stamp r1 had already used for another value — the
    peer keeps the third write, r1 serves the fourth: delivered everywhere, never equal -/
theorem own_echo_skips_clock_counterexample :
    let c := restartRun.foldl stepSkipOwn (init 2 false)
    DeliveredAll c kR ∧ ¬ Compat c.sent kR 0 ∧ (c.sent.map (·.val.ts.time)) = [1, 2, 3, 1] ∧
    (c.nodes.map (fun s => (NMap.get s.keys kR).bind RV.get)) = [some [4], some [3]] ∧
    -- right after the echoes r1's clock (0) is below a stamp it stores (3): the C08 invariant is gone
    ((restartRun.take 10).foldl stepSkipOwn (init 2 false)).nodes.map (fun s => decide s.Inv) = [false, true] ∧
    ((init 2 false).runR (restartRun.take 10)).nodes.map (fun s => decide s.Inv) = [true, true] := by
  decide

/-- a node that writes BEFORE it has its own history back re-uses stamp (1, r1) under the code that
    exists too: `Compat` fails, the replicas disagree although everything is delivered -/
def earlyWriteRun : List REv :=
  [ .ev (.loc 0 (.write kR [1] none)), .ev (.deliver 1 0), .restart 0,
    .ev (.loc 0 (.write kR [9] none)), .ev (.deliver 1 1), .ev (.deliver 0 0), .ev (.deliver 0 1) ]

theorem write_before_own_recovery_counterexample :
    let c := (init 2 false).runR earlyWriteRun
    DeliveredAll c kR ∧ ¬ Compat c.sent kR 0 ∧ (c.sent.map (·.val.ts)) = [⟨1, 1⟩, ⟨1, 1⟩] ∧
    (c.nodes.map (fun s => (NMap.get s.keys kR).bind RV.get)) = [some [9], some [1]] := by
  decide

/-- recovery first (what the binaries do): no write of node `i` between its restart and the
    re-delivery of every delta it had issued before — decidable on the event list -/
def RecoversBeforeWrite (n : Nat) (causal : Bool) : List REv → List REv → Prop
  | _, [] => True
  | pre, e :: rest =>
    (match e with
     | .ev (.loc i _) =>
       -- every delta node i had issued is in its log again
       ∀ m ∈ ((init n causal).runR pre).sent, m.origin = i →
         (⟨i, m.key, m.val⟩ : Absorbed) ∈ ((init n causal).runR pre).log
     | _ => True) ∧ RecoversBeforeWrite n causal (pre ++ [e]) rest

example : RecoversBeforeWrite 2 false [] restartRun ∧ ¬ RecoversBeforeWrite 2 false [] earlyWriteRun := by
  constructor
  · simp only [RecoversBeforeWrite, restartRun]; decide
  · simp only [RecoversBeforeWrite, earlyWriteRun]; decide

end C06
end RedisVerif
