import RedisVerif.Props.C09Compose
import RedisVerif.Lemmas.WalOrder

/-!
# C10 ∘ C09 — recovery returns the written entries IN THE ORDER THEY WERE WRITTEN

C10 asks that recovery return "only entries that were actually appended, each bit-identical to what was
written and in append order".  `Props/C10.lean` proves the order inside ONE file image
(`entries_of_prefix`: a prefix of the appended entries); `recovered_from` (Lemmas/WalSource.lean) proves
membership along histories.  Here the whole statement, along every history of the rotator / actor
(`Lemmas/WalOrder.lean`: ghost log of what was handed to `append`; files are created with keys above every
existing one, appends go to the highest key, deletions / crashes / torn writes only shorten):

* **`recovered_is_subsequence_of_written`** — at EVERY instant of EVERY history (all message sequences, batchings,
  thresholds, fault oracles, crashes, restarts, truncations; either rotator variant, either format, any
  checksum function), what `recover_all_entries` returns from the crash image is a SUBLIST of the entries
  handed to `WalRotator::append`, in the order they were handed over: nothing invented, nothing altered,
  nothing duplicated, nothing reordered — within a file and ACROSS files (recovery's sequence order is
  append order).
* `recovered_deltas_in_write_order` — the same one level up: `recover_entries_after(T)` on any crash image
  succeeds and returns a sublist of the deltas of the `Write` messages stamped `≥ T`, in message order.
-/
namespace RedisVerif
namespace C10

open Wal Bincode Driver Concrete C09

/-- byte level: every history, every instant -/
theorem recovered_is_subsequence_of_written (fix tk : Bool) (fmt : Format) (crc : Bytes → Nat) (φ : Nat → Outcome)
    (maxSize : Nat) (evs : List Ev) (hev : ∀ ev ∈ evs, ev.Ok fmt crc) (t : Nat) (st : Store)
    (hst : (Actor.run fix tk φ fmt crc maxSize evs).rot.w.storeAt t = some st) :
    List.Sublist (durable fmt crc st) (entriesOf fmt crc evs) := by
  obtain ⟨g, h, hL⟩ := orot_run fix tk φ maxSize evs hev
  rw [← hL]
  exact orot_recovered h t st hst

theorem allSome_eq_map {α β : Type} (f : α → Option β) (g : α → β) (l : List α) (h : ∀ a ∈ l, f a = some (g a)) :
    allSome f l = some (l.map g) := by
  induction l with
  | nil => rfl
  | cons x xs ih =>
    simp only [allSome, h x (by simp), ih (fun a ha => h a (List.mem_cons_of_mem _ ha)), List.map_cons]

theorem entriesOf_devs (devs : List DEv) :
    entriesOf .v2 crc32 (devs.map DEv.toEv) = (writesOf devs).map (fun p => entryOf p.1 p.2) := by
  induction devs with
  | nil => rfl
  | cons dev r ih => cases dev <;> simp [entriesOf, writesOf, DEv.toEv, entryOf, ih]

/-- delta level: `recover_entries_after(T)` on any crash image of any history succeeds and returns a sublist
    of the deltas of the `Write` messages stamped `≥ T`, in message order -/
theorem recovered_deltas_in_write_order (φ : Nat → Outcome) (maxSize : Nat) (devs : List DEv)
    (hfit : ∀ p ∈ writesOf devs, DeltaFits p.1 p.2) (t : Nat) (st : Store)
    (hst : (Actor.run true false φ .v2 crc32 maxSize (devs.map DEv.toEv)).rot.w.storeAt t = some st) (T : Nat) :
    ∃ ds, recoverAfter .v2 crc32 deDelta T (crashImage st) = some ds ∧
      List.Sublist ds (((writesOf devs).filter (fun p => decide (T ≤ p.2))).map (·.1)) := by
  have hsub := recovered_is_subsequence_of_written true false .v2 crc32 φ maxSize _ (ok_of_fits devs hfit) t st hst
  rw [entriesOf_devs] at hsub
  unfold durable at hsub
  -- the decoded delta of an entry
  let g : Entry → WDelta := fun e => (deDelta e.data).getD default
  have hg : ∀ p ∈ writesOf devs, deDelta (entryOf p.1 p.2).data = some p.1 := fun p hp => deDelta_entryOf p.1 p.2 (hfit p hp)
  have hmem : ∀ e ∈ recoverAll .v2 crc32 (crashImage st), ∃ p ∈ writesOf devs, e = entryOf p.1 p.2 := by
    intro e he
    have := hsub.subset he
    obtain ⟨p, hp, rfl⟩ := List.mem_map.mp this
    exact ⟨p, hp, rfl⟩
  refine ⟨((recoverAll .v2 crc32 (crashImage st)).filter (fun e => decide (T ≤ e.ts))).map g, ?_, ?_⟩
  · unfold recoverAfter
    apply allSome_eq_map
    intro e he
    obtain ⟨p, hp, rfl⟩ := hmem e (List.mem_filter.mp he).1
    show deDelta (entryOf p.1 p.2).data = some ((deDelta (entryOf p.1 p.2).data).getD default)
    rw [hg p hp]; rfl
  · have h1 := (hsub.filter (fun e => decide (T ≤ e.ts))).map g
    -- on the written entries: the filter is the filter on stamps, the decoding is the delta
    have : ∀ (l : List (WDelta × Nat)), (∀ p ∈ l, p ∈ writesOf devs) →
        ((l.map (fun p => entryOf p.1 p.2)).filter (fun e => decide (T ≤ e.ts))).map g
          = ((l.filter (fun p => decide (T ≤ p.2))).map (·.1)) := by
      intro l
      induction l with
      | nil => intro _; rfl
      | cons p l ih =>
        intro hl
        have hp := hl p (by simp)
        have ih' := ih (fun q hq => hl q (List.mem_cons_of_mem _ hq))
        simp only [List.map_cons, List.filter_cons]
        have hts : (entryOf p.1 p.2).ts = p.2 := rfl
        rw [hts]
        split
        · simp only [List.map_cons]
          rw [ih']
          congr 1
          show (deDelta (entryOf p.1 p.2).data).getD default = p.1
          rw [hg p hp]; rfl
        · exact ih'
    rw [this (writesOf devs) (fun p hp => hp)] at h1
    exact h1

-- non-vacuity: three writes over two files (threshold 17), a crash: what comes back is in write order
example : (durable .v2 crc32 (Actor.run true false (fun _ => .ok) .v2 crc32 17
    [.write ⟨1, [1], 3⟩, .write ⟨2, [2], 1⟩, .flush, .write ⟨3, [3], 2⟩, .flush]).rot.w.store).map (·.ts) = [3, 1, 2] := by
  decide +kernel

end C10
end RedisVerif
