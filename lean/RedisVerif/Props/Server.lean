import RedisVerif.Model.Server
import RedisVerif.Props.C02M7

/-!
# One node, end to end: the composed server refines ONE M7 store

`Model/Server.lean` composes the layer models — command frame → `Grammar.parseCmdZc` (C16) →
`toCmd7` → entry point (`Model/Dispatch`) → `R.N` shards over the M7 executor with per-shard clocks
(`Model/Shards7`, C03) → `RespValue` → `Resp.encode3` (C15).  `server_refines_m7`: for every list
of command frames read at non-decreasing virtual times, every shard count `N ≥ 1`, every routing
table and EVERY classification of frames into fast / batched / generic entry points, the bytes the
composed node writes are exactly the encoding of what the parsed commands answer when run one
after the other on ONE M7 store (`Redis.step`), frame by frame; frames the parser rejects answer
the parser's error text (`encode_error_into`) and change nothing; and from the time of the last
frame on no reader can tell the final shards from the final store (`Rel7`); every key has one home.

Hypothesis `Supported` (decidable, per frame).  OUTSIDE it:
* two-key commands (RENAME, RENAMENX, RPOPLPUSH, LMOVE, SORT … STORE) and MSETNX whose keys live on
  different shards — the known findings `C03:two-key:*`, `C03:multi-key:MSETNX` (refuted:
  `server_two_key_counterexample`);
* RANDOMKEY (a relation: `C03.randomkey_refines`), KEYS `*` (equal up to ORDER inside the reply:
  `C03.step7_refines` / `replyEqv7`; the byte string depends on the shard count);
* commands without an M7 counterpart answer `Out.outside` on both sides and are not claimed (list:
  header of `Model/Server.lean`; SCAN's cursor defect `C03:scan-cursor` lives there).
The connection read loop (byte stream → frames, pipelining, MULTI) stacks on the seam `Server.run`.
-/
namespace RedisVerif
namespace Server

open Shards Shards.M7 NMap C03 C02
open Redis (Entry cmdKeys)

/-! ## one command of the sharding model against one M7 command -/

/-- what it takes for a sharding-model command `sc` (after `post`-processing its reply) to BE the
    M7 command `c` on one executor -/
structure Same (now : Nat) (sc : Cmd sig7) (post : Reply → Reply) (c : Redis.Cmd) : Prop where
  st : ∀ s, WF s → (exec7.exec s sc).1 = (Redis.exec s now c).1
  rep : ∀ s, WF s → toM7 (post (exec7.exec s sc).2) = some (Redis.exec s now c).2
  nk : ∀ s l, (exec7.exec s sc).2 ≠ .keys l
  nr : ∀ s o, (exec7.exec s sc).2 ≠ .rkey o

theorem stepSc_refines {R : Routes} (hv : R.Valid) (hN : 0 < R.N) {st : Shards Entry} {s1 : Redis.State}
    {t now : Nat} (h : Rel7 R st s1 t) (ht : t ≤ now) (sc : Cmd sig7) (post : Reply → Reply)
    (c : Redis.Cmd) (hrt : Routable R true sc = true) (hsame : Same now sc post c) (W : Nat → Bool)
    (hcov : ∀ K, cmdKeys c = some K → ∀ k ∈ K, W (R.bytes k) = true)
    (hall : cmdKeys c = none → ∀ i, W i = true) :
    toM7 (post (execN exec7 R true (sweep W now st) sc).2) = some (Redis.step s1 now c).2 ∧
    Rel7 R (execN exec7 R true (sweep W now st) sc).1 (Redis.step s1 now c).1 now := by
  have hinv0 := inv_sweep h.inv W now
  have hwa := hinv0.wf_abs
  have hwp := Redis.wf_purge now h.wf1
  obtain ⟨hi, ha, hq⟩ := shards_refine_single_m7 R hv hN hinv0 sc hrt
  obtain ⟨hrel0, hswept⟩ := rel_after_sweep h ht W
  obtain ⟨e1, e2⟩ := exec_agree now c (abs (sweep W now st)) (Redis.purge s1 now) hwa hwp
    (fun K hK k hk => hswept k (hcov K hK k hk))
    (fun hG => NMap.ext hwa hwp (fun k => hswept k (hall hG _)))
    hrel0
  have hx := eq_of_replyEqv hq (hsame.nk _) (hsame.nr _)
  refine ⟨?_, hi, wf_exec hwp now c, ?_⟩
  · rw [hx, hsame.rep _ hwa]
    show some _ = some (Redis.exec (Redis.purge s1 now) now c).2
    rw [e1]
  · intro t' ht' k
    show lv t' (get (abs (execN exec7 R true (sweep W now st) sc).1) k) =
      lv t' (get (Redis.exec (Redis.purge s1 now) now c).1 k)
    rw [ha, hsame.st _ hwa]
    exact e2 t' ht' k

/-! ## the entry points -/

theorem toM7_of_eqv7 {y : Reply} {b : Redis.Reply} (h : replyEqv7 y b = true) (hk : ∀ l, y ≠ .keys l) :
    toM7 y = some b := by
  cases y with
  | keys l => exact absurd rfl (hk l)
  | one r => simpa [replyEqv7] using h
  | many l => simpa [replyEqv7] using h
  | scan c l => simpa [replyEqv7] using h
  | rkey o => simpa [replyEqv7] using h

theorem inject_not_keys (s : Store sig7.Val) (now : Nat) (c : Redis.Cmd) (hc : c ≠ .keys) :
    ∀ l, (exec7.exec s (inject now c)).2 ≠ .keys l := by
  intro l
  cases c
  all_goals first
    | (show (exec7.exec1 s _ (now, _)).2 ≠ _; rw [exec1_pos (op := (now, _)) rfl]; intro h; cases h)
    | (show (exec7.exec2 s _ _ (now, _)).2 ≠ _; rw [exec2_pos (op := (now, _)) rfl]; intro h; cases h)
    | skip
  case keys => exact absurd rfl hc
  case sort k st =>
    cases st
    · show (exec7.exec1 s _ (now, _)).2 ≠ _; rw [exec1_pos (op := (now, _)) rfl]; intro h; cases h
    · show (exec7.exec2 s _ _ (now, _)).2 ≠ _; rw [exec2_pos (op := (now, _)) rfl]; intro h; cases h
  case msetnx kvs =>
    show (if kvs.any (fun kv => present s kv.1) then (s, Reply.one (.int 0))
      else (kvs.foldl (setStr exec7) s, Reply.one (.int 1))).2 ≠ _
    cases kvs.any (fun kv => present s kv.1) <;> (intro h; cases h)
  all_goals (intro h; cases h)

/-- the generic path (`execute`) -/
theorem same_inject (now : Nat) (c : Redis.Cmd) (hr : ∀ ch, c ≠ .randomkey ch) (hk : c ≠ .keys) :
    Same now (inject now c) id c where
  st := fun s hs => (exec7_inject s now c hs hr).1
  rep := fun s hs => toM7_of_eqv7 (exec7_inject s now c hs hr).2 (inject_not_keys s now c hk)
  nk := fun s => inject_not_keys s now c hk
  nr := fun s => inject_not_rkey s now c hr

/-- `get_direct` IS the GET command -/
theorem getDirect_eq (s : Store sig7.Val) (k : Nat) :
    toM7 (.one (getDirect exec7 s k)) = some (Redis.execGet s k).2 ∧ (Redis.execGet s k).1 = s := by
  unfold getDirect Redis.execGet Redis.lookupStr
  cases get s k with
  | none => exact ⟨rfl, rfl⟩
  | some e =>
    obtain ⟨v, dl⟩ := e
    cases v <;> exact ⟨rfl, rfl⟩

/-- `set_direct` IS the plain SET command -/
theorem setDirect_eq (s : Store sig7.Val) (now k : Nat) (v : Redis.BS) :
    Redis.exec s now (.set k v .always .none false) = (setStr exec7 s (k, v), Redis.Reply.ok) := by
  show Redis.execSet s now k v .always .none false = _
  simp [Redis.execSet, Redis.setPlan, Redis.setCore, Redis.planDl, setStr, exec7]

/-- the pooled fast path of GET (`pooled_fast_get` → `get_direct`) -/
theorem same_fastGet (now k : Nat) : Same now (.fastGet k) id (.get k) where
  st := fun s _ => (getDirect_eq s k).2.symm
  rep := fun s _ => (getDirect_eq s k).1
  nk := fun _ _ h => by cases h
  nr := fun _ _ h => by cases h

theorem same_fastSet (now k : Nat) (v : Redis.BS) : Same now (.fastSet k v) id (.set k v .always .none false) where
  st := fun s _ => by rw [setDirect_eq]; rfl
  rep := fun s _ => by rw [setDirect_eq]; rfl
  nk := fun _ _ h => by cases h
  nr := fun _ _ h => by cases h

/-- one item of `fast_batch_get_pipeline` -/
theorem same_batchGet (now k : Nat) : Same now (.batchGet [k]) unwrap1 (.get k) where
  st := fun s _ => (getDirect_eq s k).2.symm
  rep := fun s _ => (getDirect_eq s k).1
  nk := fun _ _ h => by cases h
  nr := fun _ _ h => by cases h

theorem same_batchSet (now k : Nat) (v : Redis.BS) :
    Same now (.batchSet [(k, v)]) unwrap1 (.set k v .always .none false) where
  st := fun s _ => by rw [setDirect_eq]; rfl
  rep := fun s _ => by rw [setDirect_eq]; rfl
  nk := fun _ _ h => by cases h
  nr := fun _ _ h => by cases h

/-- **whichever entry point the frame class selects**, one supported command at time `now ≥ t`
    answers — after `toM7` — exactly like `Redis.step` on one store, and the shards stay
    indistinguishable from it -/
theorem execVia_refines {R : Routes} (hv : R.Valid) (hN : 0 < R.N) {st : Shards Entry} {s1 : Redis.State}
    {t now : Nat} (h : Rel7 R st s1 t) (ht : t ≤ now) (cls : FrameClass) (c : Redis.Cmd)
    (hr : Routable7 R c = true) (hk : c ≠ .keys) :
    toM7 (execVia R cls now st c).2 = some (Redis.step s1 now c).2 ∧
    Rel7 R (execVia R cls now st c).1 (Redis.step s1 now c).1 now := by
  have hnr : ∀ ch, c ≠ .randomkey ch := by
    intro ch e; rw [e] at hr; simp [Routable7] at hr
  have generic : toM7 (execNT7code R now st c).2 = some (Redis.step s1 now c).2 ∧
      Rel7 R (execNT7code R now st c).1 (Redis.step s1 now c).1 now :=
    stepSc_refines hv hN h ht (inject now c) id c (routable_inject R now c hr) (same_inject now c hnr hk)
      (recv R (inject now c)) (fun K hK k hk' => recv_covers R now c hr K hK k hk')
      (fun hG i => recv_all R now c hG i)
  have one (sc : Cmd sig7) (post : Reply → Reply) (k : Nat) (c' : Redis.Cmd) (hc' : cmdKeys c' = some [k])
      (hs : Same now sc post c') (hrt : Routable R true sc = true)
      (hrecv : recv R sc (R.bytes k) = true) :
      toM7 (post (execSc R now st sc).2) = some (Redis.step s1 now c').2 ∧
      Rel7 R (execSc R now st sc).1 (Redis.step s1 now c').1 now :=
    stepSc_refines hv hN h ht sc post c' hrt hs (recv R sc)
      (fun K hK x hx => by
        rw [hc'] at hK; injection hK with hK; subst hK
        simp only [List.mem_singleton] at hx; subst hx; exact hrecv)
      (fun hG => by rw [hc'] at hG; cases hG)
  unfold execVia
  split
  · rename_i k _
    exact one (.fastGet k) id k (.get k) rfl (same_fastGet now k) rfl (by simp [recv, cmdShard])
  · rename_i k v _
    exact one (.fastSet k v) id k _ rfl (same_fastSet now k v) rfl (by simp [recv, cmdShard])
  · rename_i k _
    exact one (.batchGet [k]) unwrap1 k (.get k) rfl (same_batchGet now k) rfl (by simp [recv])
  · rename_i k v _
    exact one (.batchSet [(k, v)]) unwrap1 k _ rfl (same_batchSet now k v) rfl (by simp [recv])
  · exact generic

/-! ## one frame, then every frame list -/

theorem handle_refines {R : Routes} (hv : R.Valid) (hN : 0 < R.N) (classify : Classify)
    {st : Shards Entry} {s1 : Redis.State} {t now : Nat} (h : Rel7 R st s1 t) (ht : t ≤ now)
    (f : Frame) (hs : Supported R f = true) :
    (handle R classify st now f).2 = (specHandle s1 now f).2 ∧
    Rel7 R (handle R classify st now f).1 (specHandle s1 now f).1 now := by
  unfold handle specHandle
  unfold Supported at hs
  cases hp : Grammar.parseCmdZc f with
  | error e =>
    simp only
    cases encodeParseErr e <;> exact ⟨rfl, h.mono ht⟩
  | ok gc =>
    simp only [hp] at hs ⊢
    cases hc : toCmd7 gc with
    | none => exact ⟨rfl, h.mono ht⟩
    | some c =>
      simp only [hc] at hs ⊢
      have hk : c ≠ .keys := by intro e; rw [e] at hs; simp at hs
      have hr : Routable7 R c = true := by
        cases c <;> first | exact hs | exact absurd rfl hk
      obtain ⟨e1, e2⟩ := execVia_refines hv hN h ht (classify f) c hr hk
      rw [e1]
      exact ⟨rfl, e2⟩

/-- **`server_refines_m7`** — the composed node on `R.N` shards against ONE M7 store -/
theorem server_refines_m7 (R : Routes) (hv : R.Valid) (hN : 0 < R.N) (classify : Classify)
    (frames : List (Nat × Frame)) (hm : MonoF 0 frames) (hs : ∀ x ∈ frames, Supported R x.2 = true) :
    (run R classify (Shards.init Entry R.N) frames).2 = (specRun Redis.init frames).2 ∧
    (∀ T, (∀ x ∈ frames, x.1 ≤ T) → ∀ k,
      lv T (get (abs (run R classify (Shards.init Entry R.N) frames).1) k) =
      lv T (get (specRun Redis.init frames).1 k)) ∧
    (∀ i k, (get (shard (run R classify (Shards.init Entry R.N) frames).1 i) k).isSome → i = R.bytes k) := by
  have key : ∀ (fs : List (Nat × Frame)) (st : Shards Entry) (s1 : Redis.State) (t : Nat),
      Rel7 R st s1 t → MonoF t fs → (∀ x ∈ fs, Supported R x.2 = true) →
      (run R classify st fs).2 = (specRun s1 fs).2 ∧
      ∀ T, t ≤ T → (∀ x ∈ fs, x.1 ≤ T) → Rel7 R (run R classify st fs).1 (specRun s1 fs).1 T := by
    intro fs
    induction fs with
    | nil => intro st s1 t h _ _; exact ⟨rfl, fun T hT _ => h.mono hT⟩
    | cons x xs ih =>
      intro st s1 t h hm hs
      obtain ⟨now, f⟩ := x
      obtain ⟨e1, e2⟩ := handle_refines hv hN classify h hm.1 f (hs (now, f) (by simp))
      obtain ⟨e3, e4⟩ := ih _ _ now e2 hm.2 (fun y hy => hs y (by simp [hy]))
      refine ⟨?_, fun T _ hx => e4 T (hx (now, f) (by simp)) (fun y hy => hx y (by simp [hy]))⟩
      show (handle R classify st now f).2 :: (run R classify (handle R classify st now f).1 xs).2 =
        (specHandle s1 now f).2 :: (specRun (specHandle s1 now f).1 xs).2
      rw [e1, e3]
  obtain ⟨q, hrel⟩ := key frames _ _ 0 (rel7_init R) hm hs
  have hT : ∀ x ∈ frames, x.1 ≤ (frames.map (·.1)).sum := fun x hx => le_sum_of_mem (List.mem_map_of_mem hx)
  exact ⟨q, fun T hT' k => (hrel T (Nat.zero_le _) hT').view T (Nat.le_refl _) k,
    fun i k hk => ((hrel _ (Nat.zero_le _) hT).inv.home i k hk).symm⟩

/-- a frame the parser rejects answers the parser's error text and changes nothing (both sides) -/
theorem parse_error_changes_nothing (R : Routes) (classify : Classify) (st : Shards Entry) (now : Nat)
    (f : Frame) (e : Grammar.Err) (hp : Grammar.parseCmdZc f = .error e) :
    (handle R classify st now f).1 = st ∧
    (handle R classify st now f).2 = (match e.text with | some t => .bytes (Resp.encodeErr t) | none => .crash) := by
  unfold handle encodeParseErr
  rw [hp]
  cases he : e.text <;> simp [he]

/-! ## non-vacuity and the refuted part -/

def fr (l : List String) : Frame := l.map Grammar.s2b

/-- keys `a`, `c` on shard 0, `b` on shard 1 -/
def routesS : Routes := Routes.ofTable 2
  [(keyCode (Grammar.s2b "a"), (0, 0)), (keyCode (Grammar.s2b "b"), (1, 1)), (keyCode (Grammar.s2b "c"), (0, 0))]

theorem routesS_valid : routesS.Valid := ofTable_valid 2 _ (by decide) (by decide)

/-- strings with a deadline crossing, a sorted set with float syntax, a hash, a list, a same-shard
    RENAME, fan-outs, a rejected frame, an unknown command, lower-case names -/
def exFrames : List (Nat × Frame) :=
  [(5, fr ["SET", "a", "1", "PX", "100"]), (6, fr ["incr", "a"]), (7, fr ["ZADD", "b", "1.0", "x", "-inf", "y"]),
   (8, fr ["zrangebyscore", "b", "(-inf", "+inf", "WITHSCORES"]), (9, fr ["GET"]), (10, fr ["MGET", "a", "b", "c"]),
   (200, fr ["GET", "a"]), (201, fr ["PING"]), (202, fr ["HSET", "a", "f", "v"]), (203, fr ["HGETALL", "a"]),
   (204, fr ["LPUSH", "a", "x"]), (205, fr ["RENAME", "a", "c"]), (206, fr ["DEL", "a", "b", "c"]), (207, fr ["DBSIZE"])]

example : MonoF 0 exFrames ∧ ∀ x ∈ exFrames, Supported routesS x.2 = true := by decide

/-- … also when GET / SET frames go down the fast path and the batch collectors -/
def clsFast : Classify := fun f =>
  match f with
  | [_, _] => .getFast
  | [_, _, _] => .setBatch
  | _ => .generic

example : (run routesS clsFast (Shards.init Entry 2) exFrames).2 = (specRun Redis.init exFrames).2 :=
  (server_refines_m7 routesS routesS_valid (by decide) clsFast exFrames (by decide) (by decide)).1

/-- RENAME across shards, end to end: the bytes of the following GET differ (`$-1` vs `$1 1`) -/
def badFrames : List (Nat × Frame) :=
  [(0, fr ["SET", "a", "1"]), (0, fr ["RENAME", "a", "b"]), (0, fr ["GET", "b"])]

theorem server_two_key_counterexample :
    (run routesS (fun _ => .generic) (Shards.init Entry 2) badFrames).2[2]? = some (.bytes [36, 45, 49, 13, 10]) ∧
    (specRun Redis.init badFrames).2[2]? = some (.bytes [36, 49, 13, 10, 49, 13, 10]) ∧
    Supported routesS (fr ["RENAME", "a", "b"]) = false := by decide

end Server
end RedisVerif
