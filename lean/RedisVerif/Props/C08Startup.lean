import RedisVerif.Props.C08

/-!
# C08 over the FULL start-up sequence of the production node

`bin/server_persistent.rs` does not recover in one call.  Its `main` runs

1. `StreamingIntegration::recover(&state)` → `state.apply_recovered_state(checkpoint, segment deltas)`,
2. the WAL replay: `recover_all_entries` → `to_delta` → a SECOND
   `state.apply_recovered_state(None, wal deltas)` (all entries: "CRDT idempotency makes duplicate
   replay safe"), and only then starts the workers and serves clients.

`startup` transcribes that sequence over the node model (`ShardedNode.recoverNode`, every shard
with its own Lamport clock).  Theorems, for any node, any routing function, any three sources —
overlapping, reordered, from other replicas too:

* `startup_eq_one_recovery` — the two calls equal ONE recovery with `segments ++ wal`;
* `startup_clock_covers` — afterwards the clock of shard `s` is strictly above every stamp (outer
  and per-field) of every value any of the three sources held for a key of `s`;
* `startup_dominates` / `startup_write_wins` — every write the shard acknowledges afterwards (after
  any further history) is stamped above all of them and wins the merge on a peer that holds them;
* `startup_no_repeat` — **no stamp repeats across the restart**: every stamp the new incarnation
  issues on shard `s` (along ANY later history) is strictly greater than every stamp read back
  from checkpoint, segments or WAL for that shard — in particular than every stamp the previous
  incarnation issued and persisted;
* `startup_skip_wal_counterexample` — a start-up that skips the WAL replay (e.g. "segments were
  loaded, the WAL is redundant") re-issues a stamp: two writes flushed to a segment, three more
  acknowledged from the WAL only, restart → the next write is stamped (4, r) again, with another
  value; a peer that holds the old (4, r) keeps it.
-/
namespace RedisVerif
namespace C08

open Shard ShardedNode

/-- the start-up of `server_persistent`; `replayWal = false` is the variant of
    `startup_skip_wal_counterexample`, not the code that exists -/
def startupWith (replayWal : Bool) (route : Nat → Nat) (nd : ShardedNode)
    (ckpt segs wal : List (Nat × RV)) : ShardedNode :=
  let nd1 := recoverNode false route nd ckpt segs
  if replayWal then recoverNode false route nd1 [] wal else nd1

/-- the code that exists -/
def startup (route : Nat → Nat) (nd : ShardedNode) (ckpt segs wal : List (Nat × RV)) :
    ShardedNode := startupWith true route nd ckpt segs wal

theorem startup_eq_one_recovery (route : Nat → Nat) (nd : ShardedNode)
    (ckpt segs wal : List (Nat × RV)) :
    startup route nd ckpt segs wal = recoverNode false route nd ckpt (segs ++ wal) := by
  simp [startup, startupWith, recoverNode, List.foldl_append]

/-- after `apply_recovered_state` the clock of shard `s` is strictly above every stamp of every
    recovered value routed to `s`, and stays there -/
theorem recovery_clock_covers (route : Nat → Nat) (nd : ShardedNode)
    (ckpt deltas : List (Nat × RV)) (hdom : ∀ p ∈ ckpt ++ deltas, p.2.Dominated)
    (s : Nat) (sh' : Shard) (hs : (recoverNode false route nd ckpt deltas)[s]? = some sh')
    (p : Nat × RV) (hp : p ∈ ckpt ++ deltas) (hr : route p.1 = s) (post : List Op) :
    ∀ t ∈ p.2.allStamps, t.time < (run sh' post).clock.time := by
  rw [recoverNode_shard] at hs
  cases hsh : nd[s]? with
  | none => rw [hsh] at hs; cases hs
  | some sh =>
    rw [hsh] at hs
    simp only [Option.map_some, Option.some.injEq] at hs
    subst hs
    have hmem : (Op.recovered p.1 p.2 ∈ shardRecoveryOps route s ckpt deltas) ∨
        (Op.remote p.1 p.2 ∈ shardRecoveryOps route s ckpt deltas) := by
      rcases List.mem_append.mp hp with hc | hdl
      · left
        exact List.mem_append_left _ (List.mem_map.mpr ⟨p, List.mem_filter.mpr ⟨hc, by simp [hr]⟩, rfl⟩)
      · right
        exact List.mem_append_right _ (List.mem_map.mpr ⟨p, List.mem_filter.mpr ⟨hdl, by simp [hr]⟩, rfl⟩)
    have key : ∀ o, o ∈ shardRecoveryOps route s ckpt deltas →
        (o = .remote p.1 p.2 ∨ o = .recovered p.1 p.2) →
        ∀ t ∈ p.2.allStamps, t.time < (run (run sh (shardRecoveryOps route s ckpt deltas)) post).clock.time := by
      intro o ho hoo
      obtain ⟨pre, suf, hsplit⟩ := List.append_of_mem ho
      have hv : p.2.Dominated := hdom p hp
      have hcov := observe_covers (run sh pre) p.1 p.2 o hv hoo
      intro t ht
      have h1 := hcov t ht
      have h2 : (step (run sh pre) o).1.clock.time ≤
          (run (run sh (shardRecoveryOps route s ckpt deltas)) post).clock.time := by
        rw [hsplit, run_append]
        show (step (run sh pre) o).1.clock.time ≤ (run (run (run sh pre) (o :: suf)) post).clock.time
        have : run (run sh pre) (o :: suf) = run (step (run sh pre) o).1 suf := rfl
        rw [this]
        exact Nat.le_trans (run_clock_monotone _ suf) (run_clock_monotone _ post)
      omega
    rcases hmem with hm | hm
    · exact key _ hm (Or.inr rfl)
    · exact key _ hm (Or.inl rfl)

theorem mem_sources {ckpt segs wal : List (Nat × RV)} {p : Nat × RV}
    (hp : p ∈ ckpt ++ segs ++ wal) : p ∈ ckpt ++ (segs ++ wal) := by
  simpa [List.append_assoc] using hp

/-- **start-up covers all three sources** -/
theorem startup_clock_covers (route : Nat → Nat) (nd : ShardedNode)
    (ckpt segs wal : List (Nat × RV)) (hdom : ∀ p ∈ ckpt ++ segs ++ wal, p.2.Dominated)
    (s : Nat) (sh' : Shard) (hs : (startup route nd ckpt segs wal)[s]? = some sh')
    (p : Nat × RV) (hp : p ∈ ckpt ++ segs ++ wal) (hr : route p.1 = s) (post : List Op) :
    ∀ t ∈ p.2.allStamps, t.time < (run sh' post).clock.time := by
  rw [startup_eq_one_recovery] at hs
  exact recovery_clock_covers route nd ckpt (segs ++ wal)
    (fun q hq => hdom q (by simpa [List.append_assoc] using hq)) s sh' hs p (mem_sources hp) hr post

/-- **C08 over the production start-up**: every write acknowledged after it — after any further
    history on that shard — is stamped strictly above every stamp of every value read back from
    checkpoint, segments or WAL for that shard. -/
theorem startup_dominates (route : Nat → Nat) (nd : ShardedNode)
    (ckpt segs wal : List (Nat × RV)) (hdom : ∀ p ∈ ckpt ++ segs ++ wal, p.2.Dominated)
    (s : Nat) (sh' : Shard) (hs : (startup route nd ckpt segs wal)[s]? = some sh')
    (p : Nat × RV) (hp : p ∈ ckpt ++ segs ++ wal) (hr : route p.1 = s)
    (post : List Op) (w : Op) (d : RV)
    (he : effective (run sh' post) w = true) (hd : (step (run sh' post) w).2 = some d) :
    ∀ t ∈ p.2.allStamps, t.lt d.ts = true := by
  rw [startup_eq_one_recovery] at hs
  exact node_recovery_dominates route nd ckpt (segs ++ wal)
    (fun q hq => hdom q (by simpa [List.append_assoc] using hq)) s sh' hs p (mem_sources hp) hr
    post w d he hd

/-- … and wins the merge on a peer that holds the recovered value, both ways round -/
theorem startup_write_wins (route : Nat → Nat) (nd : ShardedNode)
    (ckpt segs wal : List (Nat × RV)) (hdom : ∀ p ∈ ckpt ++ segs ++ wal, p.2.Dominated)
    (s : Nat) (sh' : Shard) (hs : (startup route nd ckpt segs wal)[s]? = some sh')
    (p : Nat × RV) (hp : p ∈ ckpt ++ segs ++ wal) (hr : route p.1 = s)
    (k : Nat) (v : Bytes) (e : Option Nat) :
    (RV.merge p.2 (recordWrite sh' k v e).2).crdt = (recordWrite sh' k v e).2.crdt ∧
    (RV.merge (recordWrite sh' k v e).2 p.2).crdt = (recordWrite sh' k v e).2.crdt := by
  rw [startup_eq_one_recovery] at hs
  exact node_recovery_write_wins route nd ckpt (segs ++ wal)
    (fun q hq => hdom q (by simpa [List.append_assoc] using hq)) s sh' hs p (mem_sources hp) hr k v e

/-- **stamps never repeat across the restart**, whatever the new incarnation does afterwards:
    every stamp it issues on shard `s` is strictly greater than every stamp read back for `s` -/
theorem startup_no_repeat (route : Nat → Nat) (nd : ShardedNode)
    (ckpt segs wal : List (Nat × RV)) (hdom : ∀ p ∈ ckpt ++ segs ++ wal, p.2.Dominated)
    (s : Nat) (sh' : Shard) (hs : (startup route nd ckpt segs wal)[s]? = some sh')
    (p : Nat × RV) (hp : p ∈ ckpt ++ segs ++ wal) (hr : route p.1 = s) (rest : List Op) :
    ∀ t ∈ issued sh' rest, ∀ u ∈ p.2.allStamps, u.lt t = true := by
  intro t ht u hu
  apply Stamp.lt_of_time_lt
  have h1 := startup_clock_covers route nd ckpt segs wal hdom s sh' hs p hp hr [] u hu
  have h2 := issued_gt_clock sh' rest t ht
  have : (run sh' []).clock.time = sh'.clock.time := rfl
  omega

/-- the start-up without the WAL replay: SET k ×2 flushed to a segment, SET k ×3 more acknowledged
    from the WAL only; restart; the next SET k is stamped (4, r) — a stamp the node had already
    issued for ANOTHER value; a peer that holds the old (4, r) keeps the old value -/
theorem startup_skip_wal_counterexample :
    let w : Nat → RV := fun t => RV.withValue [t] ⟨t, 1⟩
    let segs : List (Nat × RV) := [(6, w 1), (6, w 2)]
    let wal : List (Nat × RV) := [(6, w 3), (6, w 4), (6, w 5)]
    let nd := startupWith false (fun _ => 0) (ShardedNode.init 1 false 1) [] segs wal
    let ok := startup (fun _ => 0) (ShardedNode.init 1 false 1) [] segs wal
    (∃ sh, nd[0]? = some sh ∧ (recordWrite sh 6 [9] none).2.ts = (w 4).ts ∧
      (RV.merge (w 4) (recordWrite sh 6 [9] none).2).get = some [4]) ∧
    (∃ sh, ok[0]? = some sh ∧ (recordWrite sh 6 [9] none).2.ts = ⟨7, 1⟩) := by
  decide

/-- non-vacuity: checkpoint + overlapping segments + WAL over two shards; the clocks after the
    start-up and the stamps of the first writes -/
example :
    let tomb : RV := { crdt := .lww (Lww.delete ⟨3, 1⟩), vc := none, expiry := none, ts := ⟨3, 1⟩, rf := none }
    let ckpt : List (Nat × RV) := [(6, tomb), (7, RV.withValue [1] ⟨9, 1⟩)]
    let segs : List (Nat × RV) := [(6, RV.withValue [2] ⟨4, 2⟩), (7, RV.withValue [1] ⟨9, 1⟩)]
    let wal : List (Nat × RV) := [(7, RV.withValue [1] ⟨9, 1⟩), (6, RV.withValue [5] ⟨12, 1⟩)]
    let nd := startup (fun k => k % 2) (ShardedNode.init 1 false 2) ckpt segs wal
    (∀ p ∈ ckpt ++ segs ++ wal, p.2.Dominated) ∧
      (nd[0]?).map (·.clock.time) = some 13 ∧ (nd[1]?).map (·.clock.time) = some 12 := by
  decide

end C08
end RedisVerif
