import RedisVerif.Props.C03
import RedisVerif.Lemmas.Shards7

/-!
# C03 over the M7 reference executor — the locality assumption discharged, with time

`Props/C03.lean` proves "N shards answer like one" for an ABSTRACT per-shard executor of which
locality (`Exec.Local`) is assumed.  This file removes the assumption for the executor model that
C01 validates against the real `CommandExecutor` on every run (`Model/Redis.lean`, ~95 commands,
five value types, expiry):

* `m7_locality` — every M7 command that names keys (`Redis.cmdKeys c = some K`) preserves canonical
  form, leaves every key outside `K` alone, and its reply and the new entries of `K` are functions
  of the old entries of `K` (and of `now` and the arguments).  `m7_global_not_local`: for DBSIZE /
  KEYS / FLUSHALL / RANDOMKEY the law is FALSE — which is why the code fans them out.
* `m7_exec_local` — `Exec.Local exec7`: the hypothesis of every theorem of `Props/C03.lean` holds for
  the M7 instance; `shards_refine_single_m7`, `home_unique_m7`, `shard_count_unobservable_m7_untimed`
  are those theorems with NO executor hypothesis left.
* time: `step7_refines` — a command at virtual time `now` on `R.N` shards, of which the shards that get
  a message adopt the time (`set_time` = evict what has expired; ANY superset `W` of those shards may
  sweep as well — TTL ticks are unobservable), answers like `Redis.step` on one store, and the two
  stay indistinguishable to every later reader (`Rel7`).  `shard_count_unobservable_m7` — every timed
  run with monotone virtual time: the replies of `R.N` shards are those of `Redis.run` on ONE store
  (up to order inside KEYS).  Hypothesis `Routable7` (decidable): not RANDOMKEY (a relation —
  `randomkey_refines`), two-key commands / MSETNX only with their keys on one shard; the cross-shard
  case is refuted on the M7 instance too (`m7_two_key_counterexample`).
-/
namespace RedisVerif
namespace C03

open Shards NMap Shards.M7
open Redis (Entry cmdKeys)

/-! ## locality: a theorem about the reference executor -/

/-- **locality of the M7 reference executor**, every command family -/
theorem m7_locality (now : Nat) (c : Redis.Cmd) (K : List Nat) (hK : cmdKeys c = some K) :
    Redis.LocalOn K (fun s => Redis.exec s now c) := Redis.exec_localOn now c K hK

/-- the same for `step` (expiry included): the reply and the new entries of the named keys are
    functions of what a reader at `now` sees of the named keys; every other key keeps what a reader
    at `now` sees of it -/
theorem m7_step_local (now : Nat) (c : Redis.Cmd) (K : List Nat) (hK : cmdKeys c = some K)
    (s s' : Redis.State) (hs : WF s) (hs' : WF s') (h : ∀ k ∈ K, lv now (get s k) = lv now (get s' k)) :
    (Redis.step s now c).2 = (Redis.step s' now c).2 ∧
    (∀ k ∈ K, get (Redis.step s now c).1 k = get (Redis.step s' now c).1 k) ∧
    (∀ k, k ∉ K → get (Redis.step s now c).1 k = lv now (get s k)) := by
  have L := Redis.exec_localOn now c K hK
  have hp := Redis.wf_purge now hs
  have hp' := Redis.wf_purge now hs'
  obtain ⟨e1, e2⟩ := L.loc (Redis.purge s now) (Redis.purge s' now) hp hp'
    (fun k hk => by rw [get_purge_lv hs, get_purge_lv hs', h k hk])
  refine ⟨e1, e2, ?_⟩
  intro k hk
  show get (Redis.exec (Redis.purge s now) now c).1 k = _
  rw [L.frame _ k hp hk, get_purge_lv hs]

/-- the commands without `cmdKeys` are NOT local: DBSIZE on two stores that agree on every key the
    command names (it names none) answers differently -/
theorem m7_global_not_local :
    (Redis.exec [] 0 .dbsize).2 ≠ (Redis.exec [(1, ⟨.str [], none⟩)] 0 .dbsize).2 ∧
    (Redis.exec [] 0 .keys).2 ≠ (Redis.exec [(1, ⟨.str [], none⟩)] 0 .keys).2 ∧
    (Redis.exec [] 0 (.randomkey none)).2 ≠ (Redis.exec [(1, ⟨.str [], none⟩)] 0 (.randomkey none)).2 ∧
    get (Redis.exec [(1, ⟨.str [], none⟩)] 0 .flushall).1 1 ≠ get [(1, (⟨.str [], none⟩ : Entry))] 1 := by
  decide

/-- **the hypothesis of the C03 theorems holds for the M7 instance of the sharding model** -/
theorem m7_exec_local : Exec.Local exec7 := exec7_local

/-! ## the untimed theorems, no executor hypothesis left -/

theorem shards_refine_single_m7 (R : Routes) (hv : R.Valid) (hN : 0 < R.N) {st : Shards Entry}
    (h : Inv R st) (c : Cmd sig7) (hr : Routable R true c = true) :
    Inv R (execN exec7 R true st c).1 ∧
    abs (execN exec7 R true st c).1 = (exec7.exec (abs st) c).1 ∧
    replyEqv (execN exec7 R true st c).2 (exec7.exec (abs st) c).2 = true :=
  shards_refine_single exec7_local R true hv hN (consistent_fixed R) h c hr

theorem home_unique_m7 (R : Routes) (hv : R.Valid) (hN : 0 < R.N) (cmds : List (Cmd sig7))
    (hr : ∀ c ∈ cmds, Routable R true c = true) (i k : Nat)
    (hk : (get (shard (runN exec7 R true (Shards.init Entry R.N) cmds).1 i) k).isSome) :
    i = R.bytes k :=
  home_unique exec7_local R true hv hN (consistent_fixed R) cmds hr i k hk

theorem shard_count_unobservable_m7_untimed (R : Routes) (hv : R.Valid) (hN : 0 < R.N)
    (cmds : List (Cmd sig7)) (hr : ∀ c ∈ cmds, Routable R true c = true) :
    obsEqv (observe exec7 R true cmds) (observe exec7 oneShard true cmds) :=
  shard_count_unobservable_repaired exec7_local R hv hN cmds hr

end C03
end RedisVerif
