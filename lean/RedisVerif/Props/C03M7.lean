import RedisVerif.Props.C03
import RedisVerif.Lemmas.Shards7
import RedisVerif.Model.Dispatch

/-!
# C03 over the M7 reference executor — the locality assumption discharged, with time

`Props/C03.lean` proves "N shards answer like one" for an ABSTRACT per-shard executor of which
locality (`Exec.Local`) is assumed.  This file removes the assumption for the executor model that
C01 validates against the real `CommandExecutor` on every run (`Model/Redis.lean`, ~95 commands,
five value types, expiry):

* `m7_locality` — every M7 command that names keys (`Redis.cmdKeys c = some K`) preserves canonical
  form, leaves every key outside `K` alone, and its reply and the new entries of `K` are functions
  of the old entries of `K` (and of `now` and the arguments).  `m7_global_not_local`: for DBSIZE /
  KEYS / FLUSHALL / RANDOMKEY the law is FALSE — which is why the code fans them out.
* `m7_exec_local` — `Exec.Local exec7`: the hypothesis of every theorem of `Props/C03.lean` holds for
  the M7 instance; `shards_refine_single_m7`, `home_unique_m7`, `shard_count_unobservable_m7_untimed`
  are those theorems with NO executor hypothesis left.
* time: `step7_refines` — a command at virtual time `now` on `R.N` shards, of which the shards that get
  a message adopt the time (`set_time` = evict what has expired; ANY superset `W` of those shards may
  sweep as well — TTL ticks are unobservable), answers like `Redis.step` on one store, and the two
  stay indistinguishable to every later reader (`Rel7`).  `shard_count_unobservable_m7` — every timed
  run with monotone virtual time: the replies of `R.N` shards are those of `Redis.run` on ONE store
  (up to order inside KEYS).  Hypothesis `Routable7` (decidable): not RANDOMKEY (a relation —
  `randomkey_refines`), two-key commands / MSETNX only with their keys on one shard; the cross-shard
  case is refuted on the M7 instance too (`m7_two_key_counterexample`).
-/
namespace RedisVerif
namespace C03

open Shards NMap Shards.M7
open Redis (Entry cmdKeys)

/-! ## locality: a theorem about the reference executor -/

/-- **locality of the M7 reference executor**, every command family -/
theorem m7_locality (now : Nat) (c : Redis.Cmd) (K : List Nat) (hK : cmdKeys c = some K) :
    Redis.LocalOn K (fun s => Redis.exec s now c) := Redis.exec_localOn now c K hK

/-- the same for `step` (expiry included): the reply and the new entries of the named keys are
    functions of what a reader at `now` sees of the named keys; every other key keeps what a reader
    at `now` sees of it -/
theorem m7_step_local (now : Nat) (c : Redis.Cmd) (K : List Nat) (hK : cmdKeys c = some K)
    (s s' : Redis.State) (hs : WF s) (hs' : WF s') (h : ∀ k ∈ K, lv now (get s k) = lv now (get s' k)) :
    (Redis.step s now c).2 = (Redis.step s' now c).2 ∧
    (∀ k ∈ K, get (Redis.step s now c).1 k = get (Redis.step s' now c).1 k) ∧
    (∀ k, k ∉ K → get (Redis.step s now c).1 k = lv now (get s k)) := by
  have L := Redis.exec_localOn now c K hK
  have hp := Redis.wf_purge now hs
  have hp' := Redis.wf_purge now hs'
  obtain ⟨e1, e2⟩ := L.loc (Redis.purge s now) (Redis.purge s' now) hp hp'
    (fun k hk => by rw [get_purge_lv hs, get_purge_lv hs', h k hk])
  refine ⟨e1, e2, ?_⟩
  intro k hk
  show get (Redis.exec (Redis.purge s now) now c).1 k = _
  rw [L.frame _ k hp hk, get_purge_lv hs]

/-- the commands without `cmdKeys` are NOT local: DBSIZE on two stores that agree on every key the
    command names (it names none) answers differently -/
theorem m7_global_not_local :
    (Redis.exec [] 0 .dbsize).2 ≠ (Redis.exec [(1, ⟨.str [], none⟩)] 0 .dbsize).2 ∧
    (Redis.exec [] 0 .keys).2 ≠ (Redis.exec [(1, ⟨.str [], none⟩)] 0 .keys).2 ∧
    (Redis.exec [] 0 (.randomkey none)).2 ≠ (Redis.exec [(1, ⟨.str [], none⟩)] 0 (.randomkey none)).2 ∧
    get (Redis.exec [(1, ⟨.str [], none⟩)] 0 .flushall).1 1 ≠ get [(1, (⟨.str [], none⟩ : Entry))] 1 := by
  decide

/-- **the hypothesis of the C03 theorems holds for the M7 instance of the sharding model** -/
theorem m7_exec_local : Exec.Local exec7 := exec7_local

/-! ## the untimed theorems, no executor hypothesis left -/

theorem shards_refine_single_m7 (R : Routes) (hv : R.Valid) (hN : 0 < R.N) {st : Shards Entry}
    (h : Inv R st) (c : Cmd sig7) (hr : Routable R true c = true) :
    Inv R (execN exec7 R true st c).1 ∧
    abs (execN exec7 R true st c).1 = (exec7.exec (abs st) c).1 ∧
    replyEqv (execN exec7 R true st c).2 (exec7.exec (abs st) c).2 = true :=
  shards_refine_single exec7_local R true hv hN (consistent_fixed R) h c hr

theorem home_unique_m7 (R : Routes) (hv : R.Valid) (hN : 0 < R.N) (cmds : List (Cmd sig7))
    (hr : ∀ c ∈ cmds, Routable R true c = true) (i k : Nat)
    (hk : (get (shard (runN exec7 R true (Shards.init Entry R.N) cmds).1 i) k).isSome) :
    i = R.bytes k :=
  home_unique exec7_local R true hv hN (consistent_fixed R) cmds hr i k hk

theorem shard_count_unobservable_m7_untimed (R : Routes) (hv : R.Valid) (hN : 0 < R.N)
    (cmds : List (Cmd sig7)) (hr : ∀ c ∈ cmds, Routable R true c = true) :
    obsEqv (observe exec7 R true cmds) (observe exec7 oneShard true cmds) :=
  shard_count_unobservable_repaired exec7_local R hv hN cmds hr

/-! ## time: sweeps are unobservable, N shards refine `Redis.step` -/

/-- from time `t` on, no reader can tell the `R.N` shards from the one store -/
structure Rel7 (R : Routes) (st : Shards Entry) (s1 : Redis.State) (t : Nat) : Prop where
  inv : Inv R st
  wf1 : WF s1
  view : ∀ t', t ≤ t' → ∀ k, lv t' (get (abs st) k) = lv t' (get s1 k)

theorem rel7_init (R : Routes) : Rel7 R (Shards.init Entry R.N) [] 0 :=
  ⟨inv_init R, wf_nil, fun _ _ _ => by rw [abs_init]⟩

theorem routable_inject (R : Routes) (now : Nat) (c : Redis.Cmd) (h : Routable7 R c = true) :
    Routable R true (inject now c) = true := by
  cases c <;> first | rfl | skip
  all_goals first
    | exact h
    | (rename_i st; cases st <;> first | rfl | exact h)

/-- replies: N-shard reply ~ (one executor on the union) ~ M7 reply -/
theorem replyEqv7_of_eqv {x y : Reply} {b : Redis.Reply} (h1 : replyEqv x y = true)
    (hy : ∀ o, y ≠ .rkey o) (h2 : replyEqv7 y b = true) : replyEqv7 x b = true := by
  cases y with
  | rkey o => exact absurd rfl (hy o)
  | keys l =>
    cases x <;> simp only [replyEqv, beq_iff_eq, reduceCtorEq, List.isPerm_iff] at h1
    rename_i l'
    cases b <;> simp only [replyEqv7, toM7, beq_iff_eq, Option.some.injEq, reduceCtorEq, List.isPerm_iff] at h2 ⊢
    exact (h1.map _).trans h2
  | one r =>
    cases x <;> simp only [replyEqv, beq_iff_eq, reduceCtorEq] at h1
    rw [h1]; exact h2
  | many l =>
    cases x <;> simp only [replyEqv, beq_iff_eq, reduceCtorEq] at h1
    rw [h1]; exact h2
  | scan c l =>
    cases x <;> simp only [replyEqv, beq_iff_eq, reduceCtorEq] at h1
    rw [h1]; exact h2


/-- `exec7_inject` plus: the reply is never a RANDOMKEY reply -/
theorem inject_not_rkey (s : Store sig7.Val) (now : Nat) (c : Redis.Cmd) (hr : ∀ ch, c ≠ .randomkey ch) :
    ∀ o, (exec7.exec s (inject now c)).2 ≠ .rkey o := by
  intro o
  cases c
  all_goals first
    | (show (exec7.exec1 s _ (now, _)).2 ≠ _; rw [exec1_pos (op := (now, _)) rfl]; intro h; cases h)
    | (show (exec7.exec2 s _ _ (now, _)).2 ≠ _; rw [exec2_pos (op := (now, _)) rfl]; intro h; cases h)
    | skip
  case randomkey ch => exact absurd rfl (hr ch)
  case sort k st =>
    cases st
    · show (exec7.exec1 s _ (now, _)).2 ≠ _; rw [exec1_pos (op := (now, _)) rfl]; intro h; cases h
    · show (exec7.exec2 s _ _ (now, _)).2 ≠ _; rw [exec2_pos (op := (now, _)) rfl]; intro h; cases h
  case msetnx kvs =>
    show (if kvs.any (fun kv => present s kv.1) then (s, Reply.one (.int 0))
      else (kvs.foldl (setStr exec7) s, Reply.one (.int 1))).2 ≠ _
    cases kvs.any (fun kv => present s kv.1) <;> (intro h; cases h)
  all_goals (intro h; cases h)

/-- **one timed command**: `R.N` shards of which (at least) the shards that get a message adopt the
    time, against `Redis.step` on one store -/
theorem step7_refines {R : Routes} (hv : R.Valid) (hN : 0 < R.N) {st : Shards Entry} {s1 : Redis.State}
    {t now : Nat} (h : Rel7 R st s1 t) (ht : t ≤ now) (c : Redis.Cmd) (hr : Routable7 R c = true)
    (W : Nat → Bool) (hW : ∀ i, recv R (inject now c) i = true → W i = true) :
    replyEqv7 (execNT7 R W now st c).2 (Redis.step s1 now c).2 = true ∧
    Rel7 R (execNT7 R W now st c).1 (Redis.step s1 now c).1 now := by
  have hnr : ∀ ch, c ≠ .randomkey ch := by
    intro ch e; rw [e] at hr; simp [Routable7] at hr
  -- the shards after adopting the time
  have hinv0 := inv_sweep h.inv W now
  have hwa := hinv0.wf_abs
  have hwp := Redis.wf_purge now h.wf1
  -- N shards = one executor on the union
  obtain ⟨hi, ha, hq⟩ := shards_refine_single_m7 R hv hN hinv0 (inject now c) (routable_inject R now c hr)
  -- … = the M7 command on the union
  obtain ⟨hs7, hr7⟩ := exec7_inject (abs (sweep W now st)) now c hwa hnr
  have hnk := inject_not_rkey (abs (sweep W now st)) now c hnr
  -- the union (partially swept) against the purged one store
  have hget : ∀ k, get (abs (sweep W now st)) k =
      if W (R.bytes k) then lv now (get (abs st) k) else get (abs st) k := get_abs_sweep h.inv W now
  have hrel0 : ∀ t', now ≤ t' → ∀ k, lv t' (get (abs (sweep W now st)) k) = lv t' (get (Redis.purge s1 now) k) := by
    intro t' ht' k
    rw [hget k, get_purge_lv h.wf1, lv_lv ht']
    split
    · rw [lv_lv ht']; exact h.view t' (Nat.le_trans ht ht') k
    · exact h.view t' (Nat.le_trans ht ht') k
  have hswept : ∀ k, W (R.bytes k) = true → get (abs (sweep W now st)) k = get (Redis.purge s1 now) k := by
    intro k hk
    rw [hget k, if_pos hk, get_purge_lv h.wf1]
    exact h.view now ht k
  obtain ⟨e1, e2⟩ := exec_agree now c (abs (sweep W now st)) (Redis.purge s1 now) hwa hwp
    (fun K hK k hk => hswept k (hW _ (recv_covers R now c hr K hK k hk)))
    (fun hG => NMap.ext hwa hwp (fun k => hswept k (hW _ (recv_all R now c hG _))))
    hrel0
  refine ⟨?_, hi, wf_exec hwp now c, ?_⟩
  · show replyEqv7 (execN exec7 R true (sweep W now st) (inject now c)).2 (Redis.exec (Redis.purge s1 now) now c).2 = true
    rw [← e1]
    exact replyEqv7_of_eqv hq hnk hr7
  · intro t' ht' k
    show lv t' (get (abs (execN exec7 R true (sweep W now st) (inject now c)).1) k) =
      lv t' (get (Redis.exec (Redis.purge s1 now) now c).1 k)
    rw [ha, hs7]
    exact e2 t' ht' k

theorem Rel7.mono {R : Routes} {st : Shards Entry} {s1 : Redis.State} {t T : Nat}
    (h : Rel7 R st s1 t) (hT : t ≤ T) : Rel7 R st s1 T :=
  ⟨h.inv, h.wf1, fun t' ht' k => h.view t' (Nat.le_trans hT ht') k⟩

/-- **every timed run** (the code's discipline: exactly the shards that get a message adopt the
    time): same replies, and from any time `T` not before the last command on, no reader can tell
    the final shards from the final one store -/
theorem run7_refines {R : Routes} (hv : R.Valid) (hN : 0 < R.N) (cmds : List (Nat × Redis.Cmd))
    (hr : ∀ x ∈ cmds, Routable7 R x.2 = true) {st : Shards Entry} {s1 : Redis.State} {t : Nat}
    (h : Rel7 R st s1 t) (hm : Mono7 t cmds) :
    repliesEqv7 (run7 R st cmds).2 (Redis.run s1 cmds).2 = true ∧
    ∀ T, t ≤ T → (∀ x ∈ cmds, x.1 ≤ T) → Rel7 R (run7 R st cmds).1 (Redis.run s1 cmds).1 T := by
  induction cmds generalizing st s1 t with
  | nil => exact ⟨rfl, fun T hT _ => h.mono hT⟩
  | cons x xs ih =>
    obtain ⟨now, c⟩ := x
    obtain ⟨q, hrel⟩ := step7_refines hv hN h hm.1 c (hr (now, c) (by simp)) (recv R (inject now c)) (fun _ hi => hi)
    obtain ⟨q', hrel'⟩ := ih (fun y hy => hr y (by simp [hy])) hrel hm.2
    refine ⟨?_, fun T _ hx => hrel' T (hx (now, c) (by simp)) (fun y hy => hx y (by simp [hy]))⟩
    show repliesEqv7 ((execNT7code R now st c).2 :: (run7 R (execNT7code R now st c).1 xs).2)
      ((Redis.step s1 now c).2 :: (Redis.run (Redis.step s1 now c).1 xs).2) = true
    simp only [repliesEqv7, Bool.and_eq_true]
    exact ⟨q, q'⟩

/-! ## the statement over M7 -/

/-- **C03 over the reference executor, full strength**: for every timed command sequence with
    monotone virtual time, `R.N` shards (each with its own clock, sweeping when a message arrives)
    give the replies of the M7 model on ONE store -/
def C03_statement_m7 : Prop :=
  ∀ (R : Routes), R.Valid → 0 < R.N → ∀ cmds : List (Nat × Redis.Cmd), Mono7 0 cmds →
    repliesEqv7 (run7 R (Shards.init Entry R.N) cmds).2 (Redis.run Redis.init cmds).2 = true

/-- **proved form**: hypothesis `Routable7` (decidable) on every command -/
theorem shard_count_unobservable_m7_partial (R : Routes) (hv : R.Valid) (hN : 0 < R.N)
    (cmds : List (Nat × Redis.Cmd)) (hm : Mono7 0 cmds) (hr : ∀ x ∈ cmds, Routable7 R x.2 = true) :
    repliesEqv7 (run7 R (Shards.init Entry R.N) cmds).2 (Redis.run Redis.init cmds).2 = true ∧
    ∀ T, (∀ x ∈ cmds, x.1 ≤ T) → ∀ k,
      lv T (get (abs (run7 R (Shards.init Entry R.N) cmds).1) k) = lv T (get (Redis.run Redis.init cmds).1 k) := by
  obtain ⟨q, hrel⟩ := run7_refines hv hN cmds hr (rel7_init R) hm
  exact ⟨q, fun T hT k => (hrel T (Nat.zero_le _) hT).view T (Nat.le_refl _) k⟩

theorem le_sum_of_mem {l : List Nat} {x : Nat} (h : x ∈ l) : x ≤ l.sum := by
  induction l with
  | nil => cases h
  | cons a l ih =>
    simp only [List.mem_cons] at h
    simp only [List.sum_cons]
    rcases h with rfl | h
    · omega
    · have := ih h; omega

/-- every key has exactly one home in every state a timed M7 run reaches -/
theorem home_unique_m7_timed (R : Routes) (hv : R.Valid) (hN : 0 < R.N)
    (cmds : List (Nat × Redis.Cmd)) (hm : Mono7 0 cmds) (hr : ∀ x ∈ cmds, Routable7 R x.2 = true)
    (i k : Nat) (hk : (get (shard (run7 R (Shards.init Entry R.N) cmds).1 i) k).isSome) : i = R.bytes k := by
  obtain ⟨_, hrel⟩ := run7_refines hv hN cmds hr (rel7_init R) hm
  have hT : ∀ x ∈ cmds, x.1 ≤ (cmds.map (·.1)).sum := by
    intro x hx
    exact le_sum_of_mem (List.mem_map_of_mem hx)
  exact ((hrel _ (Nat.zero_le _) hT).inv.home i k hk).symm

/-! ### non-vacuity and the refuted part -/

/-- keys 1, 3 on shard 0, key 2 on shard 1 -/
def routes7 : Routes := Routes.ofTable 2 [(1, (0, 0)), (2, (1, 1)), (3, (0, 0))]

theorem routes7_valid : routes7.Valid := ofTable_valid 2 _ (by decide) (by decide)

/-- a run that crosses a deadline on a shard that saw no message since, with a list, a hash, a
    same-shard RENAME, DEL over both shards and DBSIZE -/
def exRun7 : List (Nat × Redis.Cmd) :=
  [(0, .set 1 [118] .always (.px 100) false), (10, .rpush 2 [[97], [98]]), (50, .get 1),
   (200, .hset 2 [(7, [120])] ), (200, .get 1), (200, .dbsize), (210, .set 1 [119] .always .none false),
   (220, .rename 1 3), (230, .lrange 2 0 (-1)), (240, .mget [3, 2, 1]), (250, .del [3, 2]), (260, .dbsize)]

example : Mono7 0 exRun7 ∧ ∀ x ∈ exRun7, Routable7 routes7 x.2 = true := by decide

example : (run7 routes7 (Shards.init Entry 2) exRun7).2.map toM7 =
    (Redis.run Redis.init exRun7).2.map some := by decide

/-- RENAME across shards on the M7 instance: the destination is planted on the source's shard, the
    next GET of the destination goes to its own home and finds nothing (known finding
    `C03:two-key:RENAME`, replayed on the real code on every run) -/
def badRun7 : List (Nat × Redis.Cmd) :=
  [(0, .set 1 [118] .always .none false), (0, .rename 1 2), (0, .get 2)]

theorem m7_two_key_counterexample :
    (run7 routes7 (Shards.init Entry 2) badRun7).2[2]? = some (.one (.ext .nil)) ∧
    (Redis.run Redis.init badRun7).2[2]? = some (.bulk [118]) ∧
    Routable7 routes7 (.rename 1 2) = false := by decide

theorem C03_statement_m7_counterexample : ¬ C03_statement_m7 := by
  intro h
  have := h routes7 routes7_valid (by decide) badRun7 (by decide)
  revert this
  decide


/-! ## whichever entry point carries the request

  `Shards.EntryPoint` = the `pub fn`s of `ShardedActorState` through which a client request reaches a shard
  mailbox, `Shards.dispatch` = which of them the connection handler calls for which frames; both
  tables are compared with the ones derived from the source on every run (`ENTRYPOINTS`, `DISPATCH`). -/

section dispatch
variable {S : Sig} {E : Exec S}

/-- every entry point sends the request for key `k` to the home of `k` -/
theorem entry_routes_home (R : Routes) (e : EntryPoint) (k : Key) (v : Bytes) (op : S.Op) :
    cmdShard R true (e.cmd (S := S) k v op) = R.bytes k ∧ SingleKey (e.cmd (S := S) k v op) = true ∧
    cmdKey (e.cmd (S := S) k v op) = k := by
  cases e <;> exact ⟨rfl, rfl, rfl⟩

/-- … hence so does the connection handler, whatever frame class it recognised -/
theorem dispatch_routes_home (R : Routes) (f : FrameClass) (k : Key) (v : Bytes) (op : S.Op) :
    cmdShard R true ((dispatch f).cmd (S := S) k v op) = R.bytes k :=
  (entry_routes_home R (dispatch f) k v op).1

/-- every entry point is in the table the connection handler dispatches into or is driven directly
    (`fast_get` / `fast_set` have no caller in the connection handler: public API only) -/
theorem dispatch_targets_are_entries : ∀ f, dispatch f ∈ EntryPoint.all := by
  intro f; cases f <;> decide

/-- **whichever entry point carries it**, a request for key `k` does to the union of the shards what
    one executor does to one store, and answers the same -/
theorem entry_refines (hL : E.Local) (R : Routes) (hv : R.Valid) (hN : 0 < R.N) {st : Shards S.Val}
    (h : Inv R st) (e : EntryPoint) (k : Key) (v : Bytes) (op : S.Op) :
    Inv R (execN E R true st (e.cmd k v op)).1 ∧
    abs (execN E R true st (e.cmd k v op)).1 = (E.exec (abs st) (e.cmd k v op)).1 ∧
    replyEqv (execN E R true st (e.cmd k v op)).2 (E.exec (abs st) (e.cmd k v op)).2 = true :=
  shards_refine_single hL R true hv hN (consistent_fixed R) h (e.cmd k v op) (by cases e <;> rfl)

end dispatch

end C03
end RedisVerif
