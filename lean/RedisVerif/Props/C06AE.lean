import RedisVerif.Props.C06Msg
import RedisVerif.Lemmas.ClusterAE

/-!
# C06 with anti-entropy — "loss followed by redelivery OR ANTI-ENTROPY, partitions that heal"

Layer 1 so far (`Props/C06.lean`, `C06Msg.lean`) lets a node absorb *issued deltas* only.  What
anti-entropy hands over is not an issued delta: `get_keys_in_buckets` / `handle_sync_request` /
`get_all_deltas` wrap the VALUE the sender holds now — the merge of everything it has absorbed —
and the receiver feeds it to the same `apply_remote_delta`.  `Model/ClusterAE.lean` adds exactly
that to the cluster model: `snapshot i k` builds a transfer from node `i`'s current value of `k`,
`applySnap j idx` applies a transfer at node `j`, at any later time, any number of times, or never
(a late, duplicated or lost `SyncResponse`; the crosswise exchange of `run_anti_entropy_sync`; a
full-state push after a partition healed).

* `rs_converges_among_ae` — **one theorem for every way an update can reach a replica**: any
  number of nodes, any history of local writes, delta deliveries (any order / duplication / loss)
  and state transfers (any source, any time, any multiplicity), any set `S` of responsible
  replicas: once every update of the key has reached every replica of `S` — by a delivery of
  the delta itself or inside a transferred value — the replicas of `S` hold the same content and
  stamp.  Only hypothesis besides delivery: the key keeps one data type (`KindStable`, decidable;
  `Compat` is again derived: `compat_of_kind_stable_ae`).
* `winner_is_max_stamp_ae` — and for a string key that value is the write with the greatest stamp.
* `lost_delta_repaired_by_transfer` / `lost_delta_without_transfer` — the same history (a delta
  lost for good on its way to node 2) with and without a later transfer from a node that has it.
* `stale_transfer_harmless` — a transfer built BEFORE a newer write and applied after it
  does not roll the newer write back.
-/
namespace RedisVerif
namespace C06

open Cluster ACluster

/-- `Compat` follows from kind stability in executions with state transfers too -/
theorem compat_of_kind_stable_ae (n : Nat) (causal : Bool) (evs : List AEv) (k K : Nat)
    (h : KindStable ((ACluster.init n causal).run evs).base k K) :
    Compat ((ACluster.init n causal).run evs).base.sent k K :=
  ⟨regs_consistent_of_runA n causal evs k,
    fun m hm hk => ⟨sent_wf_of_runA n causal evs m hm, h m hm hk⟩⟩

theorem JA_of_kind_stable (n : Nat) (causal : Bool) (evs : List AEv) (k K : Nat)
    (h : KindStable ((ACluster.init n causal).run evs).base k K) :
    JA ((ACluster.init n causal).run evs).base.sent k K ((ACluster.init n causal).run evs) :=
  JA_run (compat_of_kind_stable_ae n causal evs k K h) _ evs (JA_init _ k K n causal) (fun m hm => hm)

theorem sentLog_of_runA (n : Nat) (causal : Bool) (evs : List AEv) :
    SentLog ((ACluster.init n causal).run evs).base :=
  sentLog_runA _ evs (sentLog_init n causal)

/-- **C06 with anti-entropy (replication state converges among the responsible replicas)**.
    `DeliveredTo` reads the absorption log, to which a state transfer contributes every delta the
    transferred value had absorbed. -/
theorem rs_converges_among_ae (n : Nat) (causal : Bool) (evs : List AEv) (k K : Nat) (S : List Nat)
    (hk : KindStable ((ACluster.init n causal).run evs).base k K)
    (hd : DeliveredTo ((ACluster.init n causal).run evs).base S k) :
    AgreeAmong ((ACluster.init n causal).run evs).base S k := by
  have hc := compat_of_kind_stable_ae n causal evs k K hk
  have hj := (JA_of_kind_stable n causal evs k K hk).base
  have hsl := sentLog_of_runA n causal evs
  intro i hiS j hjS si sj hsi hsj
  rw [hj.value i si hsi, hj.value j sj hsj]
  exact foldOpt_eq_of_same_elems hc.1 (absorbed_in_carrier hc hj i) (absorbed_in_carrier hc hj j)
    (fun v => ⟨same_absorbed_among hj hsl hd i j hjS v, same_absorbed_among hj hsl hd j i hiS v⟩)

/-- … for all nodes -/
theorem rs_converges_ae (n : Nat) (causal : Bool) (evs : List AEv) (k K : Nat)
    (hk : KindStable ((ACluster.init n causal).run evs).base k K)
    (hd : Delivered ((ACluster.init n causal).run evs).base k) :
    Agree ((ACluster.init n causal).run evs).base k := by
  have := rs_converges_among_ae n causal evs k K _ hk ((delivered_to_all _ k).mp hd)
  intro i j si sj hsi hsj
  exact this i (List.mem_range.mpr (List.getElem?_eq_some_iff.mp hsi).1)
    j (List.mem_range.mpr (List.getElem?_eq_some_iff.mp hsj).1) si sj hsi hsj

/-- **C06 with anti-entropy (the agreed value is the write with the greatest stamp)**, string keys:
    a responsible replica that every update has reached — as a delta or inside a transferred
    value — holds the register of some write of the key, and every other write of the key carries
    a strictly smaller stamp (or is that register). -/
theorem winner_is_max_stamp_ae (n : Nat) (causal : Bool) (evs : List AEv) (k : Nat) (S : List Nat)
    (hk : KindStable ((ACluster.init n causal).run evs).base k 0)
    (hd : DeliveredTo ((ACluster.init n causal).run evs).base S k)
    (i : Nat) (hiS : i ∈ S) (si : Shard) (hsi : ((ACluster.init n causal).run evs).base.nodes[i]? = some si)
    (v : RV) (hv : NMap.get si.keys k = some v) :
    ∃ r, v.crdt = .lww r ∧
      (∃ m ∈ ((ACluster.init n causal).run evs).base.sent, m.key = k ∧ m.val.crdt = .lww r) ∧
      ∀ m ∈ ((ACluster.init n causal).run evs).base.sent, m.key = k → ∀ r', m.val.crdt = .lww r' →
        (r'.ts.lt r.ts = true ∨ r' = r) := by
  have hc := compat_of_kind_stable_ae n causal evs k 0 hk
  have hj := (JA_of_kind_stable n causal evs k 0 hk).base
  have hsl := sentLog_of_runA n causal evs
  have hval := hj.value i si hsi
  rw [hv] at hval
  simp only [Option.map_some] at hval
  have hcar := absorbed_in_carrier hc hj i
  have hF : InCarrier 0 (regsOf ((ACluster.init n causal).run evs).base.sent k) v.strip :=
    foldOpt_carrier hc.1 hcar hval.symm
  obtain ⟨r, hr⟩ := Shard.kind_lww (c := v.crdt) (by have := hF.2.1; simpa [RV.strip] using this)
  refine ⟨r, hr, ?_, ?_⟩
  · have := hF.2.2 (0, r) (by simp [RV.strip, hr, Crdt.slots])
    simp only [regsOf, List.mem_flatMap, List.mem_filter, decide_eq_true_eq] at this
    obtain ⟨m, ⟨hm, hmk⟩, hslot⟩ := this
    refine ⟨m, hm, hmk, ?_⟩
    have hk0 := (hc.2 m hm hmk).2
    obtain ⟨r0, hr0⟩ := Shard.kind_lww hk0
    rw [hr0] at hslot ⊢
    simp [Crdt.slots] at hslot
    rw [hslot]
  · intro m hm hmk r' hr'
    have hmabs : m.val.strip ∈ ((ACluster.init n causal).run evs).base.absorbed i k := by
      simp only [absorbed, List.mem_filterMap]
      by_cases ho : i = m.origin
      · exact ⟨⟨m.origin, m.key, m.val⟩, hsl m hm, by simp [ho, hmk]⟩
      · exact ⟨⟨i, k, m.val⟩, hd m hm hmk i hiS ho, by simp⟩
    have hle : ACI.le RV.merge m.val.strip v.strip := by
      cases hl : ((ACluster.init n causal).run evs).base.absorbed i k with
      | nil => rw [hl] at hmabs; cases hmabs
      | cons a l =>
        rw [hl] at hval hmabs hcar
        simp only [foldOpt, Option.some.injEq] at hval
        have hub := (aci_rv 0 _ hc.1).fold_upper l a (hcar a (by simp))
          (fun b hb => hcar b (by simp [hb]))
        rw [hval]
        cases hmabs with
        | head => exact hub.1
        | tail _ h' => exact hub.2 _ h'
    unfold ACI.le at hle
    have hcr := congrArg RV.crdt hle
    simp only [RV.merge, RV.mergeWith, RV.strip, hr, hr', Crdt.mergeWithTimestamps,
      Crdt.tryMerge, Crdt.lww.injEq] at hcr
    simp only [Lww.merge] at hcr
    split at hcr
    · left; assumption
    · right; exact hcr

/-- an execution without state transfers is a layer-1 execution (the new model extends the old) -/
theorem runA_ev (c : ACluster) (es : List Ev) :
    (c.run (es.map AEv.ev)).base = c.base.run es ∧ (c.run (es.map AEv.ev)).snaps = c.snaps := by
  induction es generalizing c with
  | nil => exact ⟨rfl, rfl⟩
  | cons e es ih =>
    have := ih (c.step (.ev e))
    simp only [List.map_cons, ACluster.run, List.foldl_cons, Cluster.run] at this ⊢
    exact this

/-! ## witnesses -/

def valAt (c : ACluster) (i k : Nat) : Option (Option Bytes) :=
  c.base.nodes[i]?.map (fun s => (NMap.get s.keys k).bind RV.get)

/-- three nodes; node 0 accepts `SET x a` then `SET x b`; node 1 receives both deltas, node 2
    only the first: the second delta is lost for good on its way to node 2 -/
def lossRun : List AEv :=
  [ .ev (.loc 0 (.write kX [97] none)), .ev (.loc 0 (.write kX [98] none)),
    .ev (.deliver 1 0), .ev (.deliver 1 1), .ev (.deliver 2 0) ]

theorem lost_delta_without_transfer :
    let c := (ACluster.init 3 false).run lossRun
    KindStable c.base kX 0 ∧ ¬ Delivered c.base kX ∧
    valAt c 0 kX = some (some [98]) ∧ valAt c 1 kX = some (some [98]) ∧ valAt c 2 kX = some (some [97]) := by
  decide

/-- … later node 1 (not the writer) hands node 2 the value it holds: every update has reached
    every node, all agree — the writer included -/
theorem lost_delta_repaired_by_transfer :
    let c := (ACluster.init 3 false).run (lossRun ++ [.snapshot 1 kX, .applySnap 2 0])
    KindStable c.base kX 0 ∧ Delivered c.base kX ∧
    valAt c 0 kX = some (some [98]) ∧ valAt c 1 kX = some (some [98]) ∧ valAt c 2 kX = some (some [98]) := by
  decide

/-- a transfer built BEFORE a newer write and applied AFTER it (a late `SyncResponse`), twice:
    the newer write stays; the stale transfer only adds what it carries -/
theorem stale_transfer_harmless :
    let c := (ACluster.init 2 false).run
      [ .ev (.loc 0 (.write kX [97] none)), .snapshot 0 kX, .ev (.loc 0 (.write kX [98] none)),
        .ev (.deliver 1 1), .applySnap 1 0, .applySnap 1 0 ]
    KindStable c.base kX 0 ∧ Delivered c.base kX ∧
    valAt c 0 kX = some (some [98]) ∧ valAt c 1 kX = some (some [98]) := by
  decide

/-- non-vacuity: hash key, concurrent writers, a delta lost and repaired by a transfer, a delete,
    all delivered among the responsible replicas {0, 2} while node 1 stays behind -/
example :
    let c := (ACluster.init 3 true).run
      [ .ev (.loc 0 (.hwrite kY [(1, [49])])), .ev (.loc 2 (.hwrite kY [(2, [50])])),
        .ev (.deliver 1 0), .snapshot 2 kY, .applySnap 0 0, .snapshot 0 kY, .applySnap 2 1,
        .ev (.loc 0 (.hdelete kY [2])), .snapshot 0 kY, .applySnap 2 2 ]
    KindStable c.base kY 5 ∧ DeliveredTo c.base [0, 2] kY ∧ ¬ Delivered c.base kY ∧ c.snaps.length = 3 := by
  decide

end C06
end RedisVerif
