import RedisVerif.Props.C07Reach

/-!
# C07 / C08 over clusters of PRODUCTION nodes (16 shard clocks per node, one replica id)

`Props/C07Reach.lean` is about `Cluster`: every node is ONE `Shard` and replica ids are distinct.
A production node (`ReplicatedShardedState`) is `S` shard actors that ALL carry the node's replica id
and each have their own Lamport clock: shard 3 and shard 7 of node 1 both issue the stamp (1, r1).
"A stamp identifies one write" is therefore false node-wide — it is true per (node, shard), and that
is enough because a key only ever lives on the shard its hash selects, on every node, for local
writes (`execute` → `hash_key`), deliveries (`apply_remote_deltas` → `hash_key`) and recovery alike.

`NCluster` is the cluster of such nodes (`ShardedNode` of C08, routing function `route` = `hash_key`
as a parameter).  `sim_run`: for every shard index `s`, the `s`-th shards of all nodes together with
the deltas whose key routes to `s` ARE an execution of `Cluster` (events on other shards do not
touch them).  Hence the theorems over `Reach` hold for the production cluster:
`nreachable_tie_consistent`, `nreachable_merge_comm`, `nreachable_merge_assoc`.
`same_stamp_two_shards`: the two shards of one node do issue the same stamp — for different keys.
-/
namespace RedisVerif
namespace C07

open Cluster

/-- a cluster of production nodes and the deltas shipped so far -/
structure NCluster where
  nodes : List ShardedNode
  sent : List Msg
  deriving Repr

inductive NEv where
  | loc (i : Nat) (op : LOp)
  | deliver (j : Nat) (idx : Nat)
  deriving DecidableEq, Repr

namespace NCluster

/-- `n` nodes of `S` shards each; every shard of node `i` carries replica id `i + 1` -/
def init (n S : Nat) (causal : Bool) : NCluster :=
  { nodes := (List.range n).map (fun i => ShardedNode.init (i + 1) causal S), sent := [] }

/-- a local command goes to the shard of its key (`ReplicatedShardedState::execute`); a delivered
    delta goes to the shard of ITS key (`apply_remote_deltas`) -/
def step (route : Nat → Nat) (c : NCluster) : NEv → NCluster
  | .loc i op =>
    match c.nodes[i]? with
    | none => c
    | some nd =>
      match nd[route op.key]? with
      | none => c
      | some sh =>
        let r := Shard.step sh op.toOp
        match r.2 with
        | some d =>
          { nodes := c.nodes.set i (nd.set (route op.key) r.1), sent := c.sent ++ [⟨i, op.key, d⟩] }
        | none => { c with nodes := c.nodes.set i (nd.set (route op.key) r.1) }
  | .deliver j idx =>
    match c.nodes[j]?, c.sent[idx]? with
    | some nd, some m =>
      match nd[route m.key]? with
      | none => c
      | some sh =>
        { c with nodes := c.nodes.set j (nd.set (route m.key) (Shard.applyRemote sh m.key m.val)) }
    | _, _ => c

def run (route : Nat → Nat) (c : NCluster) (evs : List NEv) : NCluster := evs.foldl (step route) c

end NCluster

/-- shard `s` of every node + the deltas for keys of `s`: the single-shard cluster `C` simulates it -/
structure Sim (route : Nat → Nat) (s : Nat) (c : NCluster) (C : Cluster) : Prop where
  nodes : C.nodes.length = c.nodes.length ∧
    ∀ (i : Nat) (nd : ShardedNode), c.nodes[i]? = some nd →
      ∃ sh : Shard, nd[s]? = some sh ∧ C.nodes[i]? = some sh
  sent : C.sent = c.sent.filter (fun m => route m.key = s)

theorem filter_index {α : Type} (p : α → Bool) (l : List α) (idx : Nat) (m : α)
    (h : l[idx]? = some m) (hp : p m = true) :
    (l.filter p)[(l.take idx).countP p]? = some m := by
  induction l generalizing idx with
  | nil => simp at h
  | cons x l ih =>
    cases idx with
    | zero =>
      simp only [List.getElem?_cons_zero, Option.some.injEq] at h
      subst h
      simp [List.filter_cons, hp]
    | succ idx =>
      simp only [List.getElem?_cons_succ] at h
      have := ih idx h
      by_cases hx : p x = true
      · simp [List.filter_cons, hx, List.take_succ_cons, List.countP_cons, this]
      · simp only [Bool.not_eq_true] at hx
        simp [List.filter_cons, hx, List.take_succ_cons, List.countP_cons, this]

def NEv.Valid : NEv → Bool
  | .loc _ op => op.Valid
  | .deliver _ _ => true

theorem sim_init (route : Nat → Nat) (s n S : Nat) (causal : Bool) (hs : s < S) :
    Sim route s (NCluster.init n S causal) (Cluster.init n causal) where
  nodes := by
    refine ⟨by simp [NCluster.init, Cluster.init], ?_⟩
    intro i nd hnd
    simp only [NCluster.init, List.getElem?_map] at hnd
    cases hr : (List.range n)[i]? with
    | none => simp [hr] at hnd
    | some x =>
      simp only [hr, Option.map_some, Option.some.injEq] at hnd
      subst hnd
      refine ⟨Shard.init (x + 1) causal, ?_, ?_⟩
      · simp [ShardedNode.init, List.getElem?_replicate, hs]
      · simp [Cluster.init, List.getElem?_map, hr]
  sent := by simp [NCluster.init, Cluster.init]

/-- one event of the production cluster is at most one event of the cluster of `s`-th shards -/
theorem sim_step (route : Nat → Nat) (s : Nat) {c : NCluster} {C : Cluster} (h : Sim route s c C)
    (e : NEv) (hv : e.Valid = true) :
    ∃ evs' : List Ev, (∀ e' ∈ evs', e'.Valid = true) ∧ Sim route s (c.step route e) (C.run evs') := by
  have hnil : ∀ c', c' = c → ∃ evs' : List Ev, (∀ e' ∈ evs', e'.Valid = true) ∧
      Sim route s c' (C.run evs') := by
    intro c' hc'
    subst hc'
    exact ⟨[], by simp, h⟩
  cases e with
  | loc i op =>
    simp only [NCluster.step]
    cases hi : c.nodes[i]? with
    | none => exact hnil _ rfl
    | some nd =>
      simp only
      cases hsh : nd[route op.key]? with
      | none => exact hnil _ rfl
      | some sh =>
        simp only
        have hilt : i < c.nodes.length := (List.getElem?_eq_some_iff.mp hi).1
        have hklt : route op.key < nd.length := (List.getElem?_eq_some_iff.mp hsh).1
        obtain ⟨sh0, hs0, hC0⟩ := h.nodes.2 i nd hi
        by_cases hr : route op.key = s
        · -- the event belongs to shard s
          rw [hr] at hsh
          rw [hs0] at hsh
          cases hsh
          refine ⟨[.loc i op], by simpa [Ev.Valid, NEv.Valid] using hv, ?_⟩
          simp only [Cluster.run, List.foldl_cons, List.foldl_nil, Cluster.step, hC0]
          have hiltC : i < C.nodes.length := by rw [h.nodes.1]; exact hilt
          cases hd : (Shard.step sh op.toOp).2 with
          | none =>
            refine ⟨⟨by simp [h.nodes.1], ?_⟩, h.sent⟩
            intro i' nd' hnd'
            by_cases hii : i' = i
            · subst hii
              rw [List.getElem?_set_self hilt] at hnd'
              cases hnd'
              refine ⟨(Shard.step sh op.toOp).1, ?_, ?_⟩
              · rw [hr, List.getElem?_set_self (by rw [← hr]; exact hklt)]
              · rw [List.getElem?_set_self hiltC]
            · rw [List.getElem?_set_ne (Ne.symm hii)] at hnd'
              obtain ⟨x, hx1, hx2⟩ := h.nodes.2 i' nd' hnd'
              exact ⟨x, hx1, by rw [List.getElem?_set_ne (Ne.symm hii)]; exact hx2⟩
          | some d =>
            refine ⟨⟨by simp [h.nodes.1], ?_⟩, ?_⟩
            · intro i' nd' hnd'
              by_cases hii : i' = i
              · subst hii
                rw [List.getElem?_set_self hilt] at hnd'
                cases hnd'
                refine ⟨(Shard.step sh op.toOp).1, ?_, ?_⟩
                · rw [hr, List.getElem?_set_self (by rw [← hr]; exact hklt)]
                · rw [List.getElem?_set_self hiltC]
              · rw [List.getElem?_set_ne (Ne.symm hii)] at hnd'
                obtain ⟨x, hx1, hx2⟩ := h.nodes.2 i' nd' hnd'
                exact ⟨x, hx1, by rw [List.getElem?_set_ne (Ne.symm hii)]; exact hx2⟩
            · simp [List.filter_append, h.sent, hr]
        · -- another shard: shard s and its deltas are untouched
          refine ⟨[], by simp, ?_⟩
          simp only [Cluster.run, List.foldl_nil]
          have hnodes : ∀ (i' : Nat) (nd' : ShardedNode),
              (c.nodes.set i (nd.set (route op.key) (Shard.step sh op.toOp).1))[i']? = some nd' →
              ∃ x : Shard, nd'[s]? = some x ∧ C.nodes[i']? = some x := by
            intro i' nd' hnd'
            by_cases hii : i' = i
            · subst hii
              rw [List.getElem?_set_self hilt] at hnd'
              cases hnd'
              exact ⟨sh0, by rw [List.getElem?_set_ne hr]; exact hs0, hC0⟩
            · rw [List.getElem?_set_ne (Ne.symm hii)] at hnd'
              exact h.nodes.2 i' nd' hnd'
          cases hd : (Shard.step sh op.toOp).2 with
          | none => exact ⟨⟨by simp [h.nodes.1], hnodes⟩, h.sent⟩
          | some d =>
            refine ⟨⟨by simp [h.nodes.1], hnodes⟩, ?_⟩
            simp [List.filter_append, h.sent, hr]
  | deliver j idx =>
    simp only [NCluster.step]
    cases hj : c.nodes[j]? with
    | none => exact hnil _ rfl
    | some nd =>
      cases hm : c.sent[idx]? with
      | none => exact hnil _ rfl
      | some m =>
        simp only
        cases hsh : nd[route m.key]? with
        | none => exact hnil _ rfl
        | some sh =>
          simp only
          have hjlt : j < c.nodes.length := (List.getElem?_eq_some_iff.mp hj).1
          have hklt : route m.key < nd.length := (List.getElem?_eq_some_iff.mp hsh).1
          obtain ⟨sh0, hs0, hC0⟩ := h.nodes.2 j nd hj
          by_cases hr : route m.key = s
          · rw [hr, hs0] at hsh
            cases hsh
            have hidx := filter_index (fun m => decide (route m.key = s)) c.sent idx m hm (by simp [hr])
            rw [← h.sent] at hidx
            refine ⟨[.deliver j ((c.sent.take idx).countP (fun m => decide (route m.key = s)))],
              by simp [Ev.Valid], ?_⟩
            simp only [Cluster.run, List.foldl_cons, List.foldl_nil, Cluster.step, hC0, hidx]
            have hjltC : j < C.nodes.length := by rw [h.nodes.1]; exact hjlt
            refine ⟨⟨by simp [h.nodes.1], ?_⟩, h.sent⟩
            intro i' nd' hnd'
            by_cases hii : i' = j
            · subst hii
              rw [List.getElem?_set_self hjlt] at hnd'
              cases hnd'
              refine ⟨Shard.applyRemote sh m.key m.val, ?_, ?_⟩
              · rw [hr, List.getElem?_set_self (by rw [← hr]; exact hklt)]
              · rw [List.getElem?_set_self hjltC]
            · rw [List.getElem?_set_ne (Ne.symm hii)] at hnd'
              obtain ⟨x, hx1, hx2⟩ := h.nodes.2 i' nd' hnd'
              exact ⟨x, hx1, by rw [List.getElem?_set_ne (Ne.symm hii)]; exact hx2⟩
          · refine ⟨[], by simp, ?_⟩
            simp only [Cluster.run, List.foldl_nil]
            refine ⟨⟨by simp [h.nodes.1], ?_⟩, h.sent⟩
            intro i' nd' hnd'
            by_cases hii : i' = j
            · subst hii
              rw [List.getElem?_set_self hjlt] at hnd'
              cases hnd'
              exact ⟨sh0, by rw [List.getElem?_set_ne hr]; exact hs0, hC0⟩
            · rw [List.getElem?_set_ne (Ne.symm hii)] at hnd'
              exact h.nodes.2 i' nd' hnd'

theorem cluster_run_append (C : Cluster) (a b : List Ev) : C.run (a ++ b) = (C.run a).run b := by
  simp [Cluster.run, List.foldl_append]

/-- **the `s`-th shards of a production cluster are an execution of `Cluster`** -/
theorem sim_run (route : Nat → Nat) (s : Nat) (evs : List NEv) : ∀ {c : NCluster} {C : Cluster},
    Sim route s c C → (∀ e ∈ evs, e.Valid = true) →
    ∃ evs' : List Ev, (∀ e' ∈ evs', e'.Valid = true) ∧ Sim route s (c.run route evs) (C.run evs') := by
  induction evs with
  | nil => intro c C h _; exact ⟨[], by simp, h⟩
  | cons e evs ih =>
    intro c C h hv
    obtain ⟨e1, hv1, h1⟩ := sim_step route s h e (hv e List.mem_cons_self)
    obtain ⟨e2, hv2, h2⟩ := ih h1 (fun x hx => hv x (List.mem_cons_of_mem _ hx))
    refine ⟨e1 ++ e2, ?_, ?_⟩
    · intro x hx
      rcases List.mem_append.mp hx with hx | hx
      · exact hv1 x hx
      · exact hv2 x hx
    · rw [cluster_run_append]
      exact h2

/-- the values of key `k` a production cluster can produce: stored under `k` on the shard of `k` of
    any node, shipped for `k` by any node, closed under merge -/
inductive NReach (route : Nat → Nat) (c : NCluster) (k : Nat) : RV → Prop
  | stored (i : Nat) (nd : ShardedNode) (sh : Shard) (v : RV) :
      c.nodes[i]? = some nd → nd[route k]? = some sh → NMap.get sh.keys k = some v →
      NReach route c k v
  | sent (m : Msg) : m ∈ c.sent → m.key = k → NReach route c k m.val
  | merge (a b : RV) : NReach route c k a → NReach route c k b → NReach route c k (RV.merge a b)

theorem reach_of_nreach {route : Nat → Nat} {c : NCluster} {C : Cluster} {k : Nat}
    (h : Sim route (route k) c C) {v : RV} (hv : NReach route c k v) : Reach C k v := by
  induction hv with
  | stored i nd sh v hi hsh hg =>
    obtain ⟨sh0, hs0, hC0⟩ := h.nodes.2 i nd hi
    rw [hs0] at hsh
    cases hsh
    exact Reach.stored i _ v hC0 hg
  | sent m hm hk =>
    refine Reach.sent m ?_ hk
    rw [h.sent]
    exact List.mem_filter.mpr ⟨hm, by simp [hk]⟩
  | merge a b _ _ iha ihb => exact Reach.merge a b iha ihb

/-- the production cluster after a history -/
abbrev nexec (route : Nat → Nat) (n S : Nat) (causal : Bool) (evs : List NEv) : NCluster :=
  (NCluster.init n S causal).run route evs

/-- **`TieConsistent` over a cluster of production nodes** (any number of nodes, `S` shards each
    with its own clock and the node's replica id, any history) -/
theorem nreachable_tie_consistent (route : Nat → Nat) (n S : Nat) (causal : Bool) (evs : List NEv)
    (hv : ∀ e ∈ evs, e.Valid = true) (k : Nat) (hk : route k < S) (a b : RV)
    (ha : NReach route (nexec route n S causal evs) k a)
    (hb : NReach route (nexec route n S causal evs) k b) : TieConsistent a b := by
  obtain ⟨evs', hv', hsim⟩ := sim_run route (route k) evs (sim_init route (route k) n S causal hk) hv
  exact reachable_tie_consistent n causal evs' hv' k a b (reach_of_nreach hsim ha)
    (reach_of_nreach hsim hb)

/-- **C07 (commutativity) over a cluster of production nodes — no tie hypothesis.** -/
theorem nreachable_merge_comm (route : Nat → Nat) (n S : Nat) (causal : Bool) (evs : List NEv)
    (hv : ∀ e ∈ evs, e.Valid = true) (k : Nat) (hk : route k < S) (a b : RV)
    (ha : NReach route (nexec route n S causal evs) k a)
    (hb : NReach route (nexec route n S causal evs) k b) : RV.merge a b = RV.merge b a := by
  obtain ⟨evs', hv', hsim⟩ := sim_run route (route k) evs (sim_init route (route k) n S causal hk) hv
  exact reachable_merge_comm n causal evs' hv' k a b (reach_of_nreach hsim ha)
    (reach_of_nreach hsim hb)

/-- **C07 (associativity) over a cluster of production nodes, for a key used as one type** -/
theorem nreachable_merge_assoc (route : Nat → Nat) (n S : Nat) (causal : Bool) (evs : List NEv)
    (hv : ∀ e ∈ evs, e.Valid = true) (k K : Nat) (hk : route k < S)
    (hK : ∀ m ∈ (nexec route n S causal evs).sent, m.key = k → m.val.crdt.kind = K)
    (a b c : RV) (ha : NReach route (nexec route n S causal evs) k a)
    (hb : NReach route (nexec route n S causal evs) k b)
    (hc : NReach route (nexec route n S causal evs) k c) :
    RV.merge a (RV.merge b c) = RV.merge (RV.merge a b) c := by
  obtain ⟨evs', hv', hsim⟩ := sim_run route (route k) evs (sim_init route (route k) n S causal hk) hv
  refine reachable_merge_assoc n causal evs' hv' k K ?_ a b c (reach_of_nreach hsim ha)
    (reach_of_nreach hsim hb) (reach_of_nreach hsim hc)
  intro m hm hmk
  have : m ∈ (nexec route n S causal evs).sent := by
    have := hsim.sent
    rw [this] at hm
    exact (List.mem_filter.mp hm).1
  exact hK m this hmk

/-- the two shards of ONE node issue the SAME stamp (1, r1) — for keys of different shards: stamps
    are unique per (node, shard), which is per key, not per node -/
theorem same_stamp_two_shards :
    let c := nexec (fun k => k % 2) 1 2 false [.loc 0 (.write 6 [1] none), .loc 0 (.write 7 [2] none)]
    c.sent.map (fun m => (m.key, m.val.ts)) = [(6, ⟨1, 1⟩), (7, ⟨1, 1⟩)] := by
  decide

end C07
end RedisVerif
