import RedisVerif.Model.Wal
import RedisVerif.Lemmas.Wal
import RedisVerif.Driver.Crc32

/-!
# C10 — WAL recovery yields only intact appended entries; truncation keeps newer ones

Model: `RedisVerif.Wal` (M3, `Model/Wal.lean`): `decode`/`Entry.encode` = `WalEntry::{decode,
encode}`, `fileEntries` = `WalReader::open` + `entries`, `recoverAll` =
`WalRotator::recover_all_entries`, `truncateBefore` = `WalRotator::truncate_before`.
The checksum function is a parameter `crc` of every definition and theorem; the concrete
examples instantiate it with the executable CRC-32 of `Driver/Crc32.lean`.

Proved at full strength: `decode_encode`, `entries_of_prefix` (+ `entries_intact`),
`corruption_stops` (hypothesis `CrcDetects`, decidable), `files_independent`, `truncate_safe`.
`C10_only_appended` (every entry recovered from a damaged image was appended) is FALSE of the
code: the entry checksum covers the payload only, so a changed timestamp byte passes
(`timestamp_flip_counterexample`), and sixteen zero bytes are a valid empty entry whenever
`crc [] = 0`, which CRC-32 satisfies (`zero_fill_counterexample`).  Proved instead:
`only_appended_partial` (truncation, or an intact prefix followed by bytes whose first entry the
CRC rejects).
-/
namespace RedisVerif
namespace C10

open Wal

/-! ## round trip -/

/-- `decode (encode e ++ rest) = some (e, |encode e|)` for every entry that fits the field
    widths and carries the checksum of its payload -/
theorem decode_encode (crc : Bytes → Nat) (e : Entry) (rest : Bytes)
    (hf : e.Fits) (hv : e.Valid crc) :
    decode crc (e.encode ++ rest) = some (e, e.size) ∧ e.size = e.encode.length :=
  ⟨Wal.decode_encode crc e rest hf hv, by rw [Entry.size, encode_length]⟩

example : (Entry.mk' Driver.crc32 [1, 2, 255] 7).Fits ∧ (Entry.mk' Driver.crc32 [1, 2, 255] 7).Valid Driver.crc32 := by
  decide

/-! ## torn files -/

/-- the whole file reads back exactly what was appended, in append order -/
theorem entries_intact (crc : Bytes → Nat) (seq : Nat) (es : List Entry)
    (hs : seq < 2 ^ 64) (hok : AllOk crc es) : fileEntries crc (fileImage seq es) = es :=
  fileEntries_fileImage crc seq es hs hok

/-- EVERY prefix of a well-formed file image (torn file header, torn entry header, torn
    payload, cut at an entry boundary) reads as a prefix of the appended entries — in order,
    bit-identical, nothing else.  (The model has no crash outcome here because the Rust code
    has no reachable panic: every index is guarded by a length test; the harness checks
    that with `catch_unwind` on every truncation length.) -/
theorem entries_of_prefix (crc : Bytes → Nat) (seq : Nat) (es : List Entry)
    (hs : seq < 2 ^ 64) (hok : AllOk crc es) (n : Nat) :
    ∃ k, fileEntries crc ((fileImage seq es).take n) = es.take k :=
  fileEntries_take crc seq es hs hok n

example : AllOk Driver.crc32 [Entry.mk' Driver.crc32 [1] 9, Entry.mk' Driver.crc32 [] 3] := by decide

/-! ## corruption -/

/-- the checksum catches the first damaged entry: if the declared payload of `bad` is
    present at all, its CRC differs from the stored one (decidable) -/
def CrcDetects (crc : Bytes → Nat) (bad : Bytes) : Prop :=
  overhead + leVal (bad.take 4) ≤ bad.length →
    crc ((bad.drop overhead).take (leVal (bad.take 4))) ≠ leVal ((bad.drop 12).take 4)

instance (crc : Bytes → Nat) (bad : Bytes) : Decidable (CrcDetects crc bad) := by
  unfold CrcDetects; infer_instance

theorem decode_none_of_detects (crc : Bytes → Nat) (bad : Bytes) (h : CrcDetects crc bad) :
    decode crc bad = none := by
  unfold decode
  split
  · rfl
  · simp only
    split
    · rfl
    · rw [if_neg (h (by omega))]

/-- recovery of a file ends at the last intact entry when the first damaged one is caught:
    whatever follows (`bad` includes everything up to the end of the file) is not yielded -/
theorem corruption_stops (crc : Bytes → Nat) (seq : Nat) (es : List Entry) (bad : Bytes)
    (hs : seq < 2 ^ 64) (hok : AllOk crc es) (hd : CrcDetects crc bad) :
    fileEntries crc (fileImage seq es ++ bad) = es := by
  unfold fileImage
  rw [List.append_assoc, fileEntries_image crc seq _ hs, entries_encs_append crc es bad hok,
    entries_of_decode_none crc bad (decode_none_of_detects crc bad hd), List.append_nil]

/-- instance: the payload and/or the stored checksum of an entry were changed (same length)
    and the CRC notices — everything from that entry on is dropped, including later intact
    entries of the same file -/
theorem corruption_stops_payload (crc : Bytes → Nat) (seq : Nat) (es : List Entry)
    (d' : Bytes) (ts c' : Nat) (rest : Bytes)
    (hs : seq < 2 ^ 64) (hok : AllOk crc es) (hf : Entry.Fits ⟨d', ts, c'⟩) (hne : crc d' ≠ c') :
    fileEntries crc (fileImage seq es ++ ((Entry.mk d' ts c').encode ++ rest)) = es := by
  apply corruption_stops crc seq es _ hs hok
  intro _
  obtain ⟨hl, ht, hc⟩ := hf
  have heq : (Entry.mk d' ts c').encode ++ rest
      = le 4 d'.length ++ (le 8 ts ++ (le 4 c' ++ (d' ++ rest))) := by simp [Entry.encode]
  obtain ⟨f1, _, f3, f4, _⟩ := hdr_fields d'.length ts c' (d' ++ rest)
  rw [heq, f1, f3, overhead, f4, leVal_le 4 _ (by simpa using hl), leVal_le 4 _ (by simpa using hc),
    List.take_left' rfl]
  exact hne

-- a flipped payload bit is caught by CRC-32 (non-vacuity of `CrcDetects`)
example : CrcDetects Driver.crc32 ((Entry.mk [1, 2, 2] 7 (Driver.crc32 [1, 2, 3])).encode) := by decide

/-! ## files are independent -/

/-- recovery is the concatenation, in sequence order, of per-file results: whatever the
    bytes `f'` of one file are (unreadable, short, corrupt), the entries of all files before
    and after it are returned unchanged and in place -/
theorem files_independent (crc : Bytes → Nat) (a b : Image) (s : Nat) (f' : Bytes) :
    recoverAll crc (a ++ (s, f') :: b) = recoverAll crc a ++ fileEntries crc f' ++ recoverAll crc b := by
  rw [recoverAll_append, recoverAll_cons, List.append_assoc]

/-- an unreadable file (too short, wrong magic, wrong version) contributes nothing -/
theorem unreadable_contributes_nothing (crc : Bytes → Nat) (f' : Bytes) (h : openFile f' = none) :
    fileEntries crc f' = [] := by
  unfold fileEntries readFile; rw [h]

example : openFile [82, 87, 65] = none := by decide

/-! ## only appended entries come back -/

/-- the damage classes of the property: truncation, one changed byte, truncation followed by
    a zero-filled tail -/
def Damaged (orig img : Bytes) : Prop :=
  (∃ n, img = orig.take n) ∨ (∃ i b, i < orig.length ∧ img = orig.set i b) ∨
    (∃ n m, img = orig.take n ++ List.replicate m 0)

/-- FULL-STRENGTH statement: whatever recovery returns from a damaged image of a file was
    appended to that file, bit-identical in every field -/
def C10_only_appended (crc : Bytes → Nat) : Prop :=
  ∀ (seq : Nat) (es : List Entry), seq < 2 ^ 64 → AllOk crc es →
    ∀ img, Damaged (fileImage seq es) img → ∀ e ∈ fileEntries crc img, e ∈ es

/-- proved form: (1) every truncation, (2) an intact prefix followed by arbitrary bytes whose
    first entry the checksum rejects -/
theorem only_appended_partial (crc : Bytes → Nat) (seq : Nat) (es : List Entry)
    (hs : seq < 2 ^ 64) (hok : AllOk crc es) :
    (∀ n, ∀ e ∈ fileEntries crc ((fileImage seq es).take n), e ∈ es) ∧
    (∀ k bad, CrcDetects crc bad →
      ∀ e ∈ fileEntries crc (fileImage seq (es.take k) ++ bad), e ∈ es) := by
  constructor
  · intro n e he
    obtain ⟨k, hk⟩ := entries_of_prefix crc seq es hs hok n
    rw [hk] at he
    exact List.mem_of_mem_take he
  · intro k bad hd e he
    rw [corruption_stops crc seq (es.take k) bad hs
      (fun x hx => hok x (List.mem_of_mem_take hx)) hd] at he
    exact List.mem_of_mem_take he

/-- the timestamp is outside the checksum: changing one byte of it (here byte 1 of the stamp
    of the only entry, 5 → 261) yields an entry that was never appended — for EVERY checksum
    function, since the payload and its checksum are untouched -/
theorem timestamp_flip_counterexample (crc : Bytes → Nat) (hr : crc [7] < 2 ^ 32) :
    ¬ C10_only_appended crc := by
  intro h
  have hok : AllOk crc [Entry.mk' crc [7] 5] := by
    intro e he
    simp only [List.mem_singleton] at he
    subst he
    exact ⟨⟨by simp [Entry.mk'], by simp [Entry.mk'], hr⟩, rfl⟩
  have hok' : AllOk crc [Entry.mk' crc [7] 261] := by
    intro e he
    simp only [List.mem_singleton] at he
    subst he
    exact ⟨⟨by simp [Entry.mk'], by simp [Entry.mk'], hr⟩, rfl⟩
  have himg : (fileImage 1 [Entry.mk' crc [7] 5]).set 21 1 = fileImage 1 [Entry.mk' crc [7] 261] := by
    simp [fileImage, header, magic, encs, Entry.encode, Entry.mk', le]
  have := h 1 [Entry.mk' crc [7] 5] (by decide) hok _
    (Or.inr (Or.inl ⟨21, 1, by simp [fileImage, header, magic, encs, Entry.encode, le_length, Entry.mk'], rfl⟩))
    (Entry.mk' crc [7] 261)
  rw [himg, entries_intact crc 1 _ (by decide) hok'] at this
  have := this (by simp)
  simp [Entry.mk'] at this

theorem timestamp_flip_counterexample_crc32 : ¬ C10_only_appended Driver.crc32 :=
  timestamp_flip_counterexample Driver.crc32 (by decide)

/-- sixteen zero bytes are a valid EMPTY entry as soon as `crc [] = 0` (true of CRC-32): a
    zero-filled tail yields an entry no writer ever produced -/
theorem zero_entry_decodes (crc : Bytes → Nat) (h0 : crc [] = 0) :
    decode crc (List.replicate 16 0) = some (⟨[], 0, 0⟩, 16) := by
  simp [decode, overhead, leVal, h0]

theorem zero_fill_counterexample (crc : Bytes → Nat) (h0 : crc [] = 0) :
    ¬ C10_only_appended crc := by
  intro h
  have := h 1 [] (by decide) (by intro e he; cases he) (fileImage 1 [] ++ List.replicate 16 0)
    (Or.inr (Or.inr ⟨16, 16, by simp [fileImage, header, magic, encs, le]⟩)) ⟨[], 0, 0⟩
  have hfe : fileEntries crc (fileImage 1 [] ++ List.replicate 16 0) = [⟨[], 0, 0⟩] := by
    unfold fileImage
    rw [List.append_assoc, fileEntries_image crc 1 _ (by decide)]
    simp only [encs, List.flatMap_nil, List.nil_append]
    rw [entries_step, zero_entry_decodes crc h0]
    simp only
    rw [List.drop_of_length_le (by simp), entries_of_decode_none crc [] (by simp [decode, overhead])]
  rw [hfe] at this
  simpa using this (by simp)

theorem crc32_nil : Driver.crc32 [] = 0 := by decide

theorem zero_fill_counterexample_crc32 : ¬ C10_only_appended Driver.crc32 :=
  zero_fill_counterexample Driver.crc32 crc32_nil

theorem allSome_none_of_mem {α β : Type} (f : α → Option β) (l : List α) (a : α)
    (ha : a ∈ l) (hf : f a = none) : allSome f l = none := by
  induction l with
  | nil => cases ha
  | cons x xs ih =>
    simp only [allSome]
    rcases List.mem_cons.mp ha with rfl | h
    · rw [hf]
    · cases f x with
      | none => rfl
      | some v => simp only; rw [ih h]

/-- … and `recover_entries_after(0)` then fails as a whole when that payload does not
    deserialise (`to_delta()?`), hiding every intact entry of every file -/
theorem zero_fill_fails_recover_after {δ : Type} (crc : Bytes → Nat) (de : Bytes → Option δ)
    (h0 : crc [] = 0) (hde : de [] = none) (a b : Image) (s : Nat) (hs : s < 2 ^ 64) :
    recoverAfter crc de 0 (a ++ (s, fileImage s [] ++ List.replicate 16 0) :: b) = none := by
  have hfe : fileEntries crc (fileImage s [] ++ List.replicate 16 0) = [⟨[], 0, 0⟩] := by
    unfold fileImage
    rw [List.append_assoc, fileEntries_image crc s _ hs]
    simp only [encs, List.flatMap_nil, List.nil_append]
    rw [entries_step, zero_entry_decodes crc h0]
    simp only
    rw [List.drop_of_length_le (by simp), entries_of_decode_none crc [] (by simp [decode, overhead])]
  unfold recoverAfter
  apply allSome_none_of_mem _ _ ⟨[], 0, 0⟩ _ hde
  rw [files_independent, hfe, List.mem_filter]
  exact ⟨by simp, by simp⟩

/-! ## truncation -/

/-- FULL-STRENGTH, proved: for EVERY stamp layout (no monotonicity assumed), every threshold
    `T` and every active file: (1) the active file is never removed; (2) no file is added or
    altered; (3) the entries stamped later than `T` that recovery returns are exactly the same
    before and after (same entries, same order, same multiplicity) -/
theorem truncate_safe (crc : Bytes → Nat) (T : Nat) (active : Option Nat) (img : Image) :
    (∀ p ∈ img, active = some p.1 → p ∈ truncateBefore crc T active img) ∧
    (truncateBefore crc T active img).Sublist img ∧
    (recoverAll crc (truncateBefore crc T active img)).filter (fun e => decide (T < e.ts))
      = (recoverAll crc img).filter (fun e => decide (T < e.ts)) := by
  refine ⟨?_, List.filter_sublist, ?_⟩
  · intro p hp ha
    unfold truncateBefore
    rw [List.mem_filter]
    exact ⟨hp, by simp [ha]⟩
  · induction img with
    | nil => rfl
    | cons p img ih =>
      unfold truncateBefore at ih ⊢
      rw [List.filter_cons]
      split
      · rw [recoverAll_cons, recoverAll_cons, List.filter_append, List.filter_append, ih]
      · rename_i hdel
        have hd : deletable crc T p.2 = true := by
          simp only [Bool.or_eq_true, Bool.not_eq_true', not_or, Bool.not_eq_false] at hdel
          exact hdel.2
        rw [recoverAll_cons, List.filter_append, deletable_filter crc T p.2 hd, List.nil_append, ih]

/-- corollary in the words of the property: an entry stamped later than `T` that was
    recoverable before `truncate_before(T)` is recoverable after it -/
theorem truncate_keeps_newer (crc : Bytes → Nat) (T : Nat) (active : Option Nat) (img : Image)
    (e : Entry) (he : e ∈ recoverAll crc img) (ht : T < e.ts) :
    e ∈ recoverAll crc (truncateBefore crc T active img) := by
  have h := (truncate_safe crc T active img).2.2
  have : e ∈ (recoverAll crc img).filter (fun e => decide (T < e.ts)) := by
    rw [List.mem_filter]; exact ⟨he, by simpa using ht⟩
  rw [← h] at this
  exact (List.mem_filter.mp this).1

-- non-vacuity: a non-monotone layout (stamp 9 in an older file than stamp 3); file 1 survives
-- T = 5 because it holds stamp 9, file 2 (stamps ≤ 5) is deleted, file 3 is active
example :
    (truncateBefore Driver.crc32 5 (some 3)
      [(1, fileImage 1 [Entry.mk' Driver.crc32 [1] 9, Entry.mk' Driver.crc32 [2] 2]),
       (2, fileImage 2 [Entry.mk' Driver.crc32 [3] 3]),
       (3, fileImage 3 [Entry.mk' Driver.crc32 [4] 1])]).map (·.1) = [1, 3] := by decide

end C10
end RedisVerif
