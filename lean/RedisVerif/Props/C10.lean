import RedisVerif.Model.Wal
import RedisVerif.Lemmas.Wal
import RedisVerif.Driver.Crc32

/-!
# C10 — WAL recovery yields only intact appended entries; truncation keeps newer ones

Model: `RedisVerif.Wal` (M3, `Model/Wal.lean`): `decode`/`Entry.encode` = `WalEntry::{decode,
encode}`, `fileEntries` = `WalReader::open` + `entries`, `recoverAll` =
`WalRotator::recover_all_entries`, `truncateBefore` = `WalRotator::truncate_before`.
The checksum function is a parameter `crc`; the on-disk format is a parameter `fmt`:
`.v2` is the CURRENT code (entry checksum over `data_length | timestamp | data`, an empty entry
is rejected, version byte 2 — after the `fix:` commit), `.v1` the format before it.

Proved for BOTH formats: `decode_encode`, `entries_intact`, `entries_of_prefix`,
`corruption_stops` (hypothesis `CrcDetects`, decidable), `files_independent`, `truncate_safe`,
`only_appended_partial`.

Proved for the current format `.v2`: `only_appended_v2` — what recovery returns from a damaged
image was appended, for every truncation, every zero-filled tail after a cut at an entry
boundary (unconditionally: `no_phantom_zero_entry`), and every same-length corruption confined
to one entry, WHICHEVER field was hit (length, timestamp, checksum, payload), under
`CrcDetects`; `timestamp_corruption_stops_v2` (a changed stamp now fails the checksum);
`recover_after_survives_zero_fill` (`recover_entries_after` no longer fails on a zero-filled
tail).

About the old format `.v1` (kept as theorems about the same functions; the defects were
repaired): `timestamp_flip_counterexample`, `zero_fill_counterexample`,
`zero_fill_fails_recover_after`.
-/
namespace RedisVerif
namespace C10

open Wal

/-! ## round trip -/

/-- `decode (encode e ++ rest) = some (e, |encode e|)` for every entry that fits the field
    widths, carries the checksum of what the format covers and (v2) is not empty -/
theorem decode_encode (fmt : Format) (crc : Bytes → Nat) (e : Entry) (rest : Bytes)
    (hg : e.Good fmt crc) :
    decode fmt crc (e.encode ++ rest) = some (e, e.size) ∧ e.size = e.encode.length :=
  ⟨Wal.decode_encode fmt crc e rest hg, by rw [Entry.size, encode_length]⟩

example : (Entry.mk' .v2 Driver.crc32 [1, 2, 255] 7).Good .v2 Driver.crc32 := by decide +kernel
example : (Entry.mk' .v1 Driver.crc32 [] 7).Good .v1 Driver.crc32 := by decide +kernel

/-! ## the length field is a 32-bit value: no wrap in the size test -/

/-- the size test of the CURRENT code (`WAL_ENTRY_OVERHEAD.checked_add(data_len)?` in `usize`,
    then `data.len() < total_size`): for EVERY 32-bit length and every number of remaining
    bytes it rejects exactly when `16 + len > remaining`, and otherwise slices `data[16..16+len]`
    — which is the comparison the model's `decode` makes in unbounded `Nat` -/
theorem decode_total_no_wrap (remaining len : Nat) (hl : len < 2 ^ 32) :
    sizeTest .usizeChecked overhead remaining len
      = if remaining < overhead + len then .reject else .slice (overhead + len) := by
  unfold sizeTest totalSize overhead
  simp only
  rw [if_pos (by omega)]
  simp only
  split
  · rfl
  · rw [if_neg (by omega)]

/-- the length `decode` reads from four BYTES is a 32-bit value -/
theorem decode_len_is_u32 (bs : Bytes) (hb : ∀ b ∈ bs, b < 256) : leVal (bs.take 4) < 2 ^ 32 := by
  have h := leVal_lt (bs.take 4) (fun b hbm => hb b (List.mem_of_mem_take hbm))
  have hl : (bs.take 4).length ≤ 4 := by rw [List.length_take]; omega
  calc leVal (bs.take 4) < 256 ^ (bs.take 4).length := h
    _ ≤ 256 ^ 4 := Nat.pow_le_pow_right (by decide) hl
    _ = 2 ^ 32 := by decide

/-- the same holds for every `offset + len` bound test done with a plain `usize` addition
    (record lengths in a segment, data length of a checkpoint): offsets are below `2^63`
    (allocation limit), lengths are 32-bit -/
theorem size_test_no_wrap (a : SizeArith) (ha : a ≠ .u32Wrapping) (base remaining len : Nat)
    (hb : base < 2 ^ 63) (hl : len < 2 ^ 32) :
    sizeTest a base remaining len = if remaining < base + len then .reject else .slice (base + len) := by
  cases a with
  | u32Wrapping => exact absurd rfl ha
  | usizeChecked =>
    unfold sizeTest totalSize
    simp only
    rw [if_pos (by omega)]
    simp only
    split
    · rfl
    · rw [if_neg (by omega)]
  | usizeWrapping =>
    unfold sizeTest totalSize
    simp only
    rw [Nat.mod_eq_of_lt (by omega)]
    split
    · rfl
    · rw [if_neg (by omega)]

/-- … and it is FALSE of 32-bit wrapping arithmetic (`(WAL_ENTRY_OVERHEAD as u32 + data_len) as
    usize`): a length field in 0xFFFFFFF0..=0xFFFFFFFF (a tail that reads back as erased flash)
    with 16 bytes remaining is ACCEPTED with a total of 0..15, and the payload slice
    `data[16..total]` panics — recovery crashes instead of stopping at the last intact entry -/
theorem size_wrap_counterexample :
    sizeTest .u32Wrapping overhead 16 0xFFFFFFF0 = .crash ∧
    sizeTest .u32Wrapping overhead 16 0xFFFFFFFF = .crash ∧
    sizeTest .usizeChecked overhead 16 0xFFFFFFF0 = .reject ∧
    sizeTest .usizeChecked overhead 16 0xFFFFFFFF = .reject := by decide

/-! ## torn files -/

/-- the whole file reads back exactly what was appended, in append order -/
theorem entries_intact (fmt : Format) (crc : Bytes → Nat) (seq : Nat) (es : List Entry)
    (hs : seq < 2 ^ 64) (hok : AllOk fmt crc es) : fileEntries fmt crc (fileImage fmt seq es) = es :=
  fileEntries_fileImage fmt crc seq es hs hok

/-- EVERY prefix of a well-formed file image (torn file header, torn entry header, torn
    payload, cut at an entry boundary) reads as a prefix of the appended entries — in order,
    bit-identical, nothing else.  (The model has no crash outcome here because the Rust code
    has no reachable panic: every index is guarded by a length test; the harness checks
    that with `catch_unwind` on every truncation length.) -/
theorem entries_of_prefix (fmt : Format) (crc : Bytes → Nat) (seq : Nat) (es : List Entry)
    (hs : seq < 2 ^ 64) (hok : AllOk fmt crc es) (n : Nat) :
    ∃ k, fileEntries fmt crc ((fileImage fmt seq es).take n) = es.take k :=
  fileEntries_take fmt crc seq es hs hok n

example : AllOk .v2 Driver.crc32 [Entry.mk' .v2 Driver.crc32 [1] 9, Entry.mk' .v2 Driver.crc32 [0] 3] := by
  decide +kernel

/-! ## corruption -/

/-- the checksum catches the first damaged entry: if the declared payload of `bad` is
    present at all (and, v2, the declared length is not 0 — such an entry is rejected anyway),
    the checksum of the covered bytes differs from the stored one (decidable) -/
def CrcDetects (fmt : Format) (crc : Bytes → Nat) (bad : Bytes) : Prop :=
  overhead + leVal (bad.take 4) ≤ bad.length → ¬ (fmt = .v2 ∧ leVal (bad.take 4) = 0) →
    crc (covered fmt (leVal (bad.take 4)) (leVal ((bad.drop 4).take 8))
        ((bad.drop overhead).take (leVal (bad.take 4)))) ≠ leVal ((bad.drop 12).take 4)

instance (fmt : Format) (crc : Bytes → Nat) (bad : Bytes) : Decidable (CrcDetects fmt crc bad) := by
  unfold CrcDetects; infer_instance

theorem decode_none_of_detects (fmt : Format) (crc : Bytes → Nat) (bad : Bytes)
    (h : CrcDetects fmt crc bad) : decode fmt crc bad = none := by
  unfold decode
  split
  · rfl
  · simp only
    split
    · rfl
    · split
      · rfl
      · rename_i hz hl
        rw [if_neg (h (by omega) hz)]

/-- recovery of a file ends at the last intact entry when the first damaged one is caught:
    whatever follows (`bad` includes everything up to the end of the file) is not yielded -/
theorem corruption_stops (fmt : Format) (crc : Bytes → Nat) (seq : Nat) (es : List Entry)
    (bad : Bytes) (hs : seq < 2 ^ 64) (hok : AllOk fmt crc es) (hd : CrcDetects fmt crc bad) :
    fileEntries fmt crc (fileImage fmt seq es ++ bad) = es := by
  unfold fileImage
  rw [List.append_assoc, fileEntries_image fmt crc seq _ hs, entries_encs_append fmt crc es bad hok,
    entries_of_decode_none fmt crc bad (decode_none_of_detects fmt crc bad hd), List.append_nil]

/-- instance: payload, stamp and/or stored checksum of an entry were changed (length field
    consistent) and the checksum notices — everything from that entry on is dropped, including
    later intact entries of the same file -/
theorem corruption_stops_payload (fmt : Format) (crc : Bytes → Nat) (seq : Nat) (es : List Entry)
    (d' : Bytes) (ts c' : Nat) (rest : Bytes)
    (hs : seq < 2 ^ 64) (hok : AllOk fmt crc es) (hf : Entry.Fits ⟨d', ts, c'⟩)
    (hne : crc (covered fmt d'.length ts d') ≠ c') :
    fileEntries fmt crc (fileImage fmt seq es ++ ((Entry.mk d' ts c').encode ++ rest)) = es := by
  apply corruption_stops fmt crc seq es _ hs hok
  intro _ _
  obtain ⟨hl, ht, hc⟩ := hf
  have heq : (Entry.mk d' ts c').encode ++ rest
      = le 4 d'.length ++ (le 8 ts ++ (le 4 c' ++ (d' ++ rest))) := by simp [Entry.encode]
  obtain ⟨f1, f2, f3, f4, _⟩ := hdr_fields d'.length ts c' (d' ++ rest)
  rw [heq, f1, f2, f3, overhead, f4, leVal_le 4 _ (by simpa using hl), leVal_le 4 _ (by simpa using hc),
    leVal_le 8 _ (by simpa using ht), List.take_left' rfl]
  exact hne

-- a flipped payload bit is caught by CRC-32 (non-vacuity of `CrcDetects`), both formats
example : CrcDetects .v1 Driver.crc32 ((Entry.mk [1, 2, 2] 7 (Driver.crc32 [1, 2, 3])).encode) := by
  decide +kernel
example : CrcDetects .v2 Driver.crc32
    ((Entry.mk [1, 2, 2] 7 (Entry.mk' .v2 Driver.crc32 [1, 2, 3] 7).crc).encode) := by decide +kernel

/-- CURRENT format: the stamp is covered.  An entry whose stamp bytes were changed (`ts'`
    instead of `e.ts`, everything else as written) ends recovery of its file as soon as the
    checksum tells the two covered strings apart -/
theorem timestamp_corruption_stops_v2 (crc : Bytes → Nat) (seq : Nat) (es : List Entry)
    (e : Entry) (ts' : Nat) (rest : Bytes) (hs : seq < 2 ^ 64) (hok : AllOk .v2 crc es)
    (he : e.Good .v2 crc) (ht : ts' < 2 ^ 64)
    (hne : crc (covered .v2 e.data.length ts' e.data) ≠ crc (covered .v2 e.data.length e.ts e.data)) :
    fileEntries .v2 crc (fileImage .v2 seq es ++ ((Entry.mk e.data ts' e.crc).encode ++ rest)) = es := by
  apply corruption_stops_payload .v2 crc seq es e.data ts' e.crc rest hs hok ⟨he.1.1, ht, he.1.2.2⟩
  rw [← he.2.1] at *
  exact hne

-- CRC-32 tells stamp 5 from stamp 261 (the flipped bit of DESIGN.md §6.1)
example : Driver.crc32 (covered .v2 1 261 [7]) ≠ Driver.crc32 (covered .v2 1 5 [7]) := by decide +kernel

/-! ## files are independent -/

/-- recovery is the concatenation, in sequence order, of per-file results: whatever the
    bytes `f'` of one file are (unreadable, short, corrupt), the entries of all files before
    and after it are returned unchanged and in place -/
theorem files_independent (fmt : Format) (crc : Bytes → Nat) (a b : Image) (s : Nat) (f' : Bytes) :
    recoverAll fmt crc (a ++ (s, f') :: b)
      = recoverAll fmt crc a ++ fileEntries fmt crc f' ++ recoverAll fmt crc b := by
  rw [recoverAll_append, recoverAll_cons, List.append_assoc]

/-- an unreadable file (too short, wrong magic, wrong version) contributes nothing -/
theorem unreadable_contributes_nothing (fmt : Format) (crc : Bytes → Nat) (f' : Bytes)
    (h : openFile fmt f' = none) : fileEntries fmt crc f' = [] := by
  unfold fileEntries readFile; rw [h]

example : openFile .v2 [82, 87, 65] = none := by decide
-- a file of the old format is not read by the current code (version byte)
example : openFile .v2 (header .v1 1) = none := by decide

/-! ## only appended entries come back -/

/-- the damage classes of the property: truncation, one changed byte, truncation followed by
    a zero-filled tail -/
def Damaged (orig img : Bytes) : Prop :=
  (∃ n, img = orig.take n) ∨ (∃ i b, i < orig.length ∧ img = orig.set i b) ∨
    (∃ n m, img = orig.take n ++ List.replicate m 0)

/-- FULL-STRENGTH statement: whatever recovery returns from a damaged image of a file was
    appended to that file, bit-identical in every field -/
def C10_only_appended (fmt : Format) (crc : Bytes → Nat) : Prop :=
  ∀ (seq : Nat) (es : List Entry), seq < 2 ^ 64 → AllOk fmt crc es →
    ∀ img, Damaged (fileImage fmt seq es) img → ∀ e ∈ fileEntries fmt crc img, e ∈ es

/-- both formats: (1) every truncation, (2) an intact prefix followed by arbitrary bytes whose
    first entry the checksum rejects -/
theorem only_appended_partial (fmt : Format) (crc : Bytes → Nat) (seq : Nat) (es : List Entry)
    (hs : seq < 2 ^ 64) (hok : AllOk fmt crc es) :
    (∀ n, ∀ e ∈ fileEntries fmt crc ((fileImage fmt seq es).take n), e ∈ es) ∧
    (∀ k bad, CrcDetects fmt crc bad →
      ∀ e ∈ fileEntries fmt crc (fileImage fmt seq (es.take k) ++ bad), e ∈ es) := by
  constructor
  · intro n e he
    obtain ⟨k, hk⟩ := entries_of_prefix fmt crc seq es hs hok n
    rw [hk] at he
    exact List.mem_of_mem_take he
  · intro k bad hd e he
    rw [corruption_stops fmt crc seq (es.take k) bad hs
      (fun x hx => hok x (List.mem_of_mem_take hx)) hd] at he
    exact List.mem_of_mem_take he

/-- CURRENT format: bytes that announce length 0 are never an entry — in particular a
    zero-filled tail of ANY length yields nothing (no checksum assumption) -/
theorem no_phantom_zero_entry (crc : Bytes → Nat) (bs : Bytes) (h : leVal (bs.take 4) = 0) :
    decode .v2 crc bs = none := by
  unfold decode
  split
  · rfl
  · simp only
    rw [if_pos (by simp [h])]

theorem leVal_replicate_zero (n : Nat) : leVal (List.replicate n 0) = 0 := by
  induction n with
  | zero => rfl
  | succ n ih => simp [List.replicate_succ, leVal, ih]

theorem zero_tail_stops_v2 (crc : Bytes → Nat) (seq : Nat) (es : List Entry) (m : Nat)
    (hs : seq < 2 ^ 64) (hok : AllOk .v2 crc es) :
    fileEntries .v2 crc (fileImage .v2 seq es ++ List.replicate m 0) = es := by
  unfold fileImage
  rw [List.append_assoc, fileEntries_image .v2 crc seq _ hs, entries_encs_append .v2 crc es _ hok,
    entries_of_decode_none .v2 crc _ (no_phantom_zero_entry crc _ (by
      rw [List.take_replicate]; exact leVal_replicate_zero _)), List.append_nil]

/-- CURRENT format, the property's damage classes:
    (1) every truncation;
    (2) a cut at an entry boundary followed by a zero-filled tail of any length (unconditional);
    (3) a same-length corruption confined to ONE entry — any of its bytes: length, stamp,
        checksum or payload — when the checksum notices (`CrcDetects` on the bytes from that
        entry on): recovery returns exactly the entries before it.
    In each case everything that comes back was appended, bit-identical, in order. -/
theorem only_appended_v2 (crc : Bytes → Nat) (seq : Nat) (es : List Entry)
    (hs : seq < 2 ^ 64) (hok : AllOk .v2 crc es) :
    (∀ n, ∀ x ∈ fileEntries .v2 crc ((fileImage .v2 seq es).take n), x ∈ es) ∧
    (∀ k m, ∀ x ∈ fileEntries .v2 crc (fileImage .v2 seq (es.take k) ++ List.replicate m 0), x ∈ es) ∧
    (∀ es₁ e es₂ bad, es = es₁ ++ e :: es₂ → bad.length = e.encode.length →
      CrcDetects .v2 crc (bad ++ encs es₂) →
      fileEntries .v2 crc (fileImage .v2 seq es₁ ++ (bad ++ encs es₂)) = es₁ ∧
      ∀ x ∈ fileEntries .v2 crc (fileImage .v2 seq es₁ ++ (bad ++ encs es₂)), x ∈ es) := by
  refine ⟨(only_appended_partial .v2 crc seq es hs hok).1, ?_, ?_⟩
  · intro k m x hx
    rw [zero_tail_stops_v2 crc seq (es.take k) m hs (fun y hy => hok y (List.mem_of_mem_take hy))] at hx
    exact List.mem_of_mem_take hx
  · intro es₁ e es₂ bad hes _ hd
    have hok₁ : AllOk .v2 crc es₁ := fun y hy => hok y (by rw [hes]; exact List.mem_append_left _ hy)
    have := corruption_stops .v2 crc seq es₁ (bad ++ encs es₂) hs hok₁ hd
    refine ⟨this, fun x hx => ?_⟩
    rw [this] at hx
    rw [hes]; exact List.mem_append_left _ hx

-- non-vacuity of (3) with CRC-32: the entry stamped 5 with its second stamp byte flipped
-- (5 → 261) — the very input that the old format accepted
example : CrcDetects .v2 Driver.crc32
    ((Entry.mk' .v2 Driver.crc32 [7] 5).encode.set 5 1 ++ encs []) := by decide +kernel

/-- CURRENT format: a zero-filled tail no longer makes `recover_entries_after` fail — the
    call returns exactly what it returns for the undamaged store -/
theorem recover_after_survives_zero_fill {δ : Type} (crc : Bytes → Nat) (de : Bytes → Option δ)
    (a b : Image) (s : Nat) (es : List Entry) (m t : Nat) (hs : s < 2 ^ 64) (hok : AllOk .v2 crc es) :
    recoverAfter .v2 crc de t (a ++ (s, fileImage .v2 s es ++ List.replicate m 0) :: b)
      = recoverAfter .v2 crc de t (a ++ (s, fileImage .v2 s es) :: b) := by
  unfold recoverAfter
  rw [files_independent, files_independent, zero_tail_stops_v2 crc s es m hs hok,
    entries_intact .v2 crc s es hs hok]

/-! ## the old format `.v1` (before the fix) -/

/-- OLD format: the timestamp is outside the checksum: changing one byte of it (here byte 1 of
    the stamp of the only entry, 5 → 261) yields an entry that was never appended — for EVERY
    checksum function, since the payload and its checksum are untouched -/
theorem timestamp_flip_counterexample (crc : Bytes → Nat) (hr : crc [7] < 2 ^ 32) :
    ¬ C10_only_appended .v1 crc := by
  intro h
  have hg : ∀ t, t < 2 ^ 64 → (Entry.mk' .v1 crc [7] t).Good .v1 crc := by
    intro t ht
    exact ⟨⟨by simp [Entry.mk'], by simpa [Entry.mk'] using ht, hr⟩, rfl, fun hc => by cases hc⟩
  have hok : AllOk .v1 crc [Entry.mk' .v1 crc [7] 5] := by
    intro e he
    simp only [List.mem_singleton] at he
    subst he
    exact hg 5 (by decide)
  have hok' : AllOk .v1 crc [Entry.mk' .v1 crc [7] 261] := by
    intro e he
    simp only [List.mem_singleton] at he
    subst he
    exact hg 261 (by decide)
  have himg : (fileImage .v1 1 [Entry.mk' .v1 crc [7] 5]).set 21 1
      = fileImage .v1 1 [Entry.mk' .v1 crc [7] 261] := by
    simp [fileImage, header, magic, encs, Entry.encode, Entry.mk', le, covered, Format.version]
  have := h 1 [Entry.mk' .v1 crc [7] 5] (by decide) hok _
    (Or.inr (Or.inl ⟨21, 1, by
      simp [fileImage, header, magic, encs, Entry.encode, le_length, Entry.mk'], rfl⟩))
    (Entry.mk' .v1 crc [7] 261)
  rw [himg, entries_intact .v1 crc 1 _ (by decide) hok'] at this
  have := this (by simp)
  simp [Entry.mk'] at this

theorem timestamp_flip_counterexample_crc32 : ¬ C10_only_appended .v1 Driver.crc32 :=
  timestamp_flip_counterexample Driver.crc32 (by decide)

/-- OLD format: sixteen zero bytes are a valid EMPTY entry as soon as `crc [] = 0` (true of
    CRC-32): a zero-filled tail yields an entry no writer ever produced -/
theorem zero_entry_decodes (crc : Bytes → Nat) (h0 : crc [] = 0) :
    decode .v1 crc (List.replicate 16 0) = some (⟨[], 0, 0⟩, 16) := by
  simp [decode, overhead, leVal, covered, h0]

theorem zero_fill_entries_v1 (crc : Bytes → Nat) (h0 : crc [] = 0) (s : Nat) (hs : s < 2 ^ 64) :
    fileEntries .v1 crc (fileImage .v1 s [] ++ List.replicate 16 0) = [⟨[], 0, 0⟩] := by
  unfold fileImage
  rw [List.append_assoc, fileEntries_image .v1 crc s _ hs]
  simp only [encs, List.flatMap_nil, List.nil_append]
  rw [entries_step, zero_entry_decodes crc h0]
  simp only
  rw [List.drop_of_length_le (by simp), entries_of_decode_none .v1 crc [] (by simp [decode, overhead])]

theorem zero_fill_counterexample (crc : Bytes → Nat) (h0 : crc [] = 0) :
    ¬ C10_only_appended .v1 crc := by
  intro h
  have := h 1 [] (by decide) (by intro e he; cases he) (fileImage .v1 1 [] ++ List.replicate 16 0)
    (Or.inr (Or.inr ⟨16, 16, by simp [fileImage, header, magic, encs, le]⟩)) ⟨[], 0, 0⟩
  rw [zero_fill_entries_v1 crc h0 1 (by decide)] at this
  simpa using this (by simp)

theorem crc32_nil : Driver.crc32 [] = 0 := by decide

theorem zero_fill_counterexample_crc32 : ¬ C10_only_appended .v1 Driver.crc32 :=
  zero_fill_counterexample Driver.crc32 crc32_nil

theorem allSome_none_of_mem {α β : Type} (f : α → Option β) (l : List α) (a : α)
    (ha : a ∈ l) (hf : f a = none) : allSome f l = none := by
  induction l with
  | nil => cases ha
  | cons x xs ih =>
    simp only [allSome]
    rcases List.mem_cons.mp ha with rfl | h
    · rw [hf]
    · cases f x with
      | none => rfl
      | some v => simp only; rw [ih h]

/-- OLD format: … and `recover_entries_after(0)` then failed as a whole when that payload did
    not deserialise (`to_delta()?`), hiding every intact entry of every file -/
theorem zero_fill_fails_recover_after {δ : Type} (crc : Bytes → Nat) (de : Bytes → Option δ)
    (h0 : crc [] = 0) (hde : de [] = none) (a b : Image) (s : Nat) (hs : s < 2 ^ 64) :
    recoverAfter .v1 crc de 0 (a ++ (s, fileImage .v1 s [] ++ List.replicate 16 0) :: b) = none := by
  unfold recoverAfter
  apply allSome_none_of_mem _ _ ⟨[], 0, 0⟩ _ hde
  rw [files_independent, zero_fill_entries_v1 crc h0 s hs, List.mem_filter]
  exact ⟨by simp, by simp⟩

/-! ## truncation -/

/-- FULL-STRENGTH, proved: for EVERY stamp layout (no monotonicity assumed), every threshold
    `T` and every active file: (1) the active file is never removed; (2) no file is added or
    altered; (3) the entries stamped later than `T` that recovery returns are exactly the same
    before and after (same entries, same order, same multiplicity) -/
theorem truncate_safe (fmt : Format) (crc : Bytes → Nat) (T : Nat) (active : Option Nat) (img : Image) :
    (∀ p ∈ img, active = some p.1 → p ∈ truncateBefore fmt crc T active img) ∧
    (truncateBefore fmt crc T active img).Sublist img ∧
    (recoverAll fmt crc (truncateBefore fmt crc T active img)).filter (fun e => decide (T < e.ts))
      = (recoverAll fmt crc img).filter (fun e => decide (T < e.ts)) := by
  refine ⟨?_, List.filter_sublist, ?_⟩
  · intro p hp ha
    unfold truncateBefore
    rw [List.mem_filter]
    exact ⟨hp, by simp [ha]⟩
  · induction img with
    | nil => rfl
    | cons p img ih =>
      unfold truncateBefore at ih ⊢
      rw [List.filter_cons]
      split
      · rw [recoverAll_cons, recoverAll_cons, List.filter_append, List.filter_append, ih]
      · rename_i hdel
        have hd : deletable fmt crc T p.2 = true := by
          simp only [Bool.or_eq_true, Bool.not_eq_true', not_or, Bool.not_eq_false] at hdel
          exact hdel.2
        rw [recoverAll_cons, List.filter_append, deletable_filter fmt crc T p.2 hd, List.nil_append, ih]

/-- corollary in the words of the property: an entry stamped later than `T` that was
    recoverable before `truncate_before(T)` is recoverable after it -/
theorem truncate_keeps_newer (fmt : Format) (crc : Bytes → Nat) (T : Nat) (active : Option Nat)
    (img : Image) (e : Entry) (he : e ∈ recoverAll fmt crc img) (ht : T < e.ts) :
    e ∈ recoverAll fmt crc (truncateBefore fmt crc T active img) := by
  have h := (truncate_safe fmt crc T active img).2.2
  have : e ∈ (recoverAll fmt crc img).filter (fun e => decide (T < e.ts)) := by
    rw [List.mem_filter]; exact ⟨he, by simpa using ht⟩
  rw [← h] at this
  exact (List.mem_filter.mp this).1

-- non-vacuity: a non-monotone layout (stamp 9 in an older file than stamp 3); file 1 survives
-- T = 5 because it holds stamp 9, file 2 (stamps ≤ 5) is deleted, file 3 is active
example :
    (truncateBefore .v2 Driver.crc32 5 (some 3)
      [(1, fileImage .v2 1 [Entry.mk' .v2 Driver.crc32 [1] 9, Entry.mk' .v2 Driver.crc32 [2] 2]),
       (2, fileImage .v2 2 [Entry.mk' .v2 Driver.crc32 [3] 3]),
       (3, fileImage .v2 3 [Entry.mk' .v2 Driver.crc32 [4] 1])]).map (·.1) = [1, 3] := by decide +kernel

/-! ## file names, listing order, foreign files in the directory -/

/-- `listing_order_eq_sequence_order_partial`: for sequences BELOW 2^32 the listing order of the
    rotator's file names (byte-wise order of `wal-{:08x}.wal`) is the order of the sequences … -/
theorem listing_order_eq_sequence_order_partial (a b : Nat) (ha : a < 2 ^ 32) (hb : b < 2 ^ 32) :
    nameLt (walName a) (walName b) = decide (a < b) := by
  rw [walName_small a ha, walName_small b hb, nameLt_append_left,
    nameLt_append_right _ _ _ (by rw [hexW_length, hexW_length])]
  exact nameLt_hexW 8 a b (by simpa using ha) (by simpa using hb)

/-- … and exactly at 2^32 it stops: `wal-100000000.wal` is listed BEFORE `wal-ffffffff.wal`
    (the name grows by a digit).  Nothing in the current code depends on the listing order of WAL
    names (recovery sorts by parsed sequence, truncation identifies the open file by its name). -/
theorem listing_order_breaks_at_2_32 :
    nameLt (walName (2 ^ 32)) (walName (2 ^ 32 - 1)) = true ∧
    nameLt (walName (2 ^ 32 - 1)) (walName (2 ^ 32)) = false := by decide +kernel

-- the names at the boundaries, and what `parse_wal_sequence` makes of near-WAL names
example : walName 255 = "wal-000000ff.wal".toUTF8.toList.map (·.toNat) := by decide +kernel
example : parseSeq (walName (2 ^ 64 - 1)) = some (2 ^ 64 - 1) ∧ parseSeq (walName (2 ^ 32)) = some (2 ^ 32) ∧
    parseSeq (walName 0) = some 0 := by decide +kernel
example :
    parseSeq ("wal-0000000A.wal".toUTF8.toList.map (·.toNat)) = some 10 ∧          -- upper case: an alias of sequence 10
    parseSeq ("wal-+5.wal".toUTF8.toList.map (·.toNat)) = some 5 ∧                -- leading '+', no padding
    parseSeq ("wal-zzzzzzzz.wal".toUTF8.toList.map (·.toNat)) = none ∧
    parseSeq ("wal-0000000g.wal".toUTF8.toList.map (·.toNat)) = none ∧
    parseSeq ("wal-00000001.wal.tmp".toUTF8.toList.map (·.toNat)) = none ∧
    parseSeq ("wal-.wal".toUTF8.toList.map (·.toNat)) = none ∧
    parseSeq ("wal-10000000000000000.wal".toUTF8.toList.map (·.toNat)) = none ∧  -- 2^64: overflow
    parseSeq [] = none ∧ parseSeq ("wal-manifest.json".toUTF8.toList.map (·.toNat)) = none := by
  decide +kernel

/-- `truncate_never_removes_active`: for EVERY directory (any sequences, any foreign files, any
    listing order) and every threshold, the file whose name is the open writer's name survives
    `truncate_before` -/
theorem truncate_never_removes_active (fmt : Format) (crc : Bytes → Nat) (T : Nat) (dir : Dir)
    (active : Name) (b : Bytes) (h : (active, b) ∈ dir) :
    (active, b) ∈ truncateBeforeD fmt crc T (some active) dir := by
  unfold truncateBeforeD
  rw [List.mem_filter]
  exact ⟨h, by simp⟩

/-- truncation over a directory with foreign files: nothing is added or altered, and every entry
    stamped later than `T` that recovery returned before is returned after -/
theorem truncate_keeps_newer_dir (fmt : Format) (crc : Bytes → Nat) (T : Nat) (active : Option Name)
    (dir : Dir) :
    (truncateBeforeD fmt crc T active dir).Sublist dir ∧
    ∀ e ∈ recoverAllD fmt crc dir, T < e.ts → e ∈ recoverAllD fmt crc (truncateBeforeD fmt crc T active dir) := by
  refine ⟨List.filter_sublist, fun e he ht => ?_⟩
  rw [mem_recoverAllD] at he ⊢
  obtain ⟨p, hp, hs, hx⟩ := he
  refine ⟨p, ?_, hs, hx⟩
  unfold truncateBeforeD
  rw [List.mem_filter]
  refine ⟨hp, ?_⟩
  cases hd : deletable fmt crc T p.2 with
  | false => simp
  | true =>
    have := deletable_filter fmt crc T p.2 hd
    have hmem : e ∈ (fileEntries fmt crc p.2).filter (fun e => decide (T < e.ts)) := by
      rw [List.mem_filter]; exact ⟨hx, by simpa using ht⟩
    rw [this] at hmem
    cases hmem

/-- a damaged or foreign file never hides the entries of the WAL files of the directory -/
theorem files_independent_dir (fmt : Format) (crc : Bytes → Nat) (a b : Dir) (n : Name) (f f' : Bytes)
    (p : Name × Bytes) (hp : p ∈ a ++ b) (hs : (parseSeq p.1).isSome) :
    ∀ e ∈ fileEntries fmt crc p.2,
      e ∈ recoverAllD fmt crc (a ++ (n, f) :: b) ∧ e ∈ recoverAllD fmt crc (a ++ (n, f') :: b) := by
  intro e he
  have hm : ∀ g, p ∈ a ++ (n, g) :: b := by
    intro g
    rcases List.mem_append.mp hp with h | h
    · exact List.mem_append_left _ h
    · exact List.mem_append_right _ (List.mem_cons_of_mem _ h)
  exact ⟨(mem_recoverAllD fmt crc _ e).mpr ⟨p, hm f, hs, he⟩, (mem_recoverAllD fmt crc _ e).mpr ⟨p, hm f', hs, he⟩⟩

/-- recovery ignores every name that does not parse as a WAL file -/
theorem foreign_files_ignored (fmt : Format) (crc : Bytes → Nat) (a b : Dir) (n : Name) (f : Bytes)
    (hn : parseSeq n = none) : recoverAllD fmt crc (a ++ (n, f) :: b) = recoverAllD fmt crc (a ++ b) := by
  unfold recoverAllD walFiles
  rw [List.filterMap_append, List.filterMap_cons, hn, List.filterMap_append]
  rfl

def bytesOf (s : String) : Bytes := s.toUTF8.toList.map (·.toNat)

/-- the variant that spares "whichever name comes last in the listing" instead of the open
    writer's own name: (1) the open file is `wal-100000000.wal` and `wal-ffffffff.wal` (an older
    file) is listed after it; (2) a foreign file `wal-manifest.json` is listed after the open file
    `wal-00000001.wal`.  In both directories `truncate_before(5)` with all stamps ≤ 5 deletes the
    ACTIVE file -/
theorem truncate_last_listed_counterexample :
    let e := Entry.mk' .v2 Driver.crc32 [1] 1
    let d1 : Dir := [(walName (2 ^ 32), fileImage .v2 (2 ^ 32) [e]), (walName (2 ^ 32 - 1), fileImage .v2 (2 ^ 32 - 1) [e])]
    let d2 : Dir := [(walName 1, fileImage .v2 1 [e]), (bytesOf "wal-manifest.json", [123, 125])]
    lastListed d1 = some (walName (2 ^ 32 - 1)) ∧
    (truncateBeforeD .v2 Driver.crc32 5 (lastListed d1) d1).map (·.1) = [walName (2 ^ 32 - 1)] ∧
    (truncateBeforeD .v2 Driver.crc32 5 (some (walName (2 ^ 32))) d1).map (·.1) = [walName (2 ^ 32)] ∧
    (truncateBeforeD .v2 Driver.crc32 5 (lastListed d2) d2).map (·.1) = [bytesOf "wal-manifest.json"] ∧
    (truncateBeforeD .v2 Driver.crc32 5 (some (walName 1)) d2).map (·.1) = [walName 1, bytesOf "wal-manifest.json"] := by
  decide +kernel

/-- a new rotator over a directory continues after the highest sequence that parses — also
    across the name-width change at 2^32 — and panics ("WAL sequence overflow") on its first rotate
    when a file with sequence 2^64 - 1 exists (model outcome `none`) -/
theorem new_rotator_at_boundaries :
    let e := Entry.mk' .v2 Driver.crc32 [1] 1
    ((DRot.new [(walName (2 ^ 32 - 1), fileImage .v2 (2 ^ 32 - 1) [])]).append .v2 100 e).map (fun r => r.dir.map (·.1))
      = some [walName (2 ^ 32), walName (2 ^ 32 - 1)] ∧
    ((DRot.new [(bytesOf "wal-+5.wal", []), (bytesOf "zzz", [])]).append .v2 100 e).map (fun r => r.cur) = some (some 6) ∧
    (DRot.new [(walName (2 ^ 64 - 1), [])]).append .v2 100 e = none := by
  decide +kernel

end C10
end RedisVerif
