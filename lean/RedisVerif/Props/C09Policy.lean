import RedisVerif.Model.WalActor
import RedisVerif.Lemmas.WalPolicy
import RedisVerif.Props.C09

/-!
# C09, the other fsync policies — what `EverySecond` and `No` do and do NOT promise

`FsyncPolicy::EverySecond` / `No` (`run_everysec_mode`, `run_no_mode`) answer a write as soon as it
is appended.  The model (`Actor.stepP`) transcribes them; the theorems pin the WEAKER contract, so
that a change making `Always` behave like them (ack before fsync: breaks `C09.durable_survives`
and the correspondence) or making them behave like `Always` (breaks the witnesses below and the
correspondence) is noticed:

* `everysec_disk_eq_always` — an EverySecond history drives the rotator — hence the store, the
  I/O call trace and EVERY crash image — exactly like the Always-mode history in which each tick
  is a group-commit flush.  The two modes differ ONLY in when the answer is sent.
* `everysec_ack_fate` — every write answered `Ok` early is, in that Always history, still pending
  or answered: its durability is decided by the fsync of the NEXT tick; and conversely everything
  that flush confirms was answered `Ok` early.
* `everysec_durable_once_tick_synced` — a write answered `Ok` is recovered from the crash image at
  every instant from the moment the fsync of the next tick has SUCCEEDED (any history, faults,
  rotation thresholds, restarts).  What a crash can lose is therefore bounded by (a) the writes
  since the last tick's fsync call and (b) the batches whose tick fsync FAILED (that failure is
  only logged).
* `everysec_ack_is_not_durable` (witness): `Ok`, then a crash before the tick — the write is gone.
  `always_same_history_not_acked_before_sync` — the same history in Always mode has not answered.
* `everysec_failed_tick_is_not_retried` (witness, observed behaviour outside the property): after a
  failed tick fsync the counter is reset, so later ticks do nothing until another write arrives:
  the write stays non-durable however many ticks follow.
* `no_mode_never_syncs` — in No mode the actor never calls `rotator.sync()`: the only fsyncs in a
  trace are those `rotate()` issues when it closes a file; `no_mode_ack_is_not_durable` (witness).
-/
namespace RedisVerif
namespace C09

open Wal

/-- EverySecond = Always with ticks as flushes, as far as the disk is concerned -/
theorem everysec_disk_eq_always (φ : Nat → Outcome) (fmt : Format) (crc : Bytes → Nat) (maxSize : Nat)
    (evs : List Ev) :
    (Actor.runP .everySecond φ fmt crc maxSize evs).rot
      = (Actor.run true false φ fmt crc maxSize (evs.map Ev.asAlways)).rot ∧
    (Actor.runP .everySecond φ fmt crc maxSize evs).tbound
      = (Actor.run true false φ fmt crc maxSize (evs.map Ev.asAlways)).tbound := by
  have h := (link_foldl φ fmt crc evs _ _ (link_init maxSize).1 (link_init maxSize).2).1
  exact ⟨h.1, h.2.2⟩

/-- the fate of an early `Ok` is decided by the flush that the next tick is -/
theorem everysec_ack_fate (φ : Nat → Outcome) (fmt : Format) (crc : Bytes → Nat) (maxSize : Nat) (evs : List Ev) :
    (∀ r ∈ (Actor.run true false φ fmt crc maxSize (evs.map Ev.asAlways)).acks, r.res = .ok →
      ∃ r' ∈ (Actor.runP .everySecond φ fmt crc maxSize evs).acks,
        r'.id = r.id ∧ r'.entry = r.entry ∧ r'.res = .ok) ∧
    (∀ r' ∈ (Actor.runP .everySecond φ fmt crc maxSize evs).acks, r'.res = .ok →
      (r'.id, r'.entry) ∈ (Actor.run true false φ fmt crc maxSize (evs.map Ev.asAlways)).pending ∨
      ∃ r ∈ (Actor.run true false φ fmt crc maxSize (evs.map Ev.asAlways)).acks,
        r.id = r'.id ∧ r.entry = r'.entry) := by
  have h := (link_foldl φ fmt crc evs _ _ (link_init maxSize).1 (link_init maxSize).2).2
  exact ⟨h.2.1, h.2.2⟩

/-- THE WEAKER CONTRACT: once the fsync of the tick that follows a write has succeeded (= the
    Always history confirms it, at I/O index `r.io`), the write is recovered from the crash image
    at every later instant of the EverySecond run -/
theorem everysec_durable_once_tick_synced (fmt : Format) (crc : Bytes → Nat) (φ : Nat → Outcome)
    (maxSize : Nat) (evs : List Ev) (hw : ∀ ev ∈ evs, ev.Ok fmt crc) :
    ∀ r ∈ (Actor.run true false φ fmt crc maxSize (evs.map Ev.asAlways)).acks, r.res = .ok →
      ∀ t st, r.io ≤ t →
        (Actor.runP .everySecond φ fmt crc maxSize evs).rot.w.storeAt t = some st →
        r.entry ∈ durable fmt crc st ∨
          r.entry.ts < (Actor.runP .everySecond φ fmt crc maxSize evs).tbound := by
  intro r hr hok t st hle hst
  obtain ⟨h1, h2⟩ := everysec_disk_eq_always φ fmt crc maxSize evs
  rw [h1] at hst
  rw [h2]
  exact durable_survives fmt crc φ maxSize (evs.map Ev.asAlways)
    (fun ev hev => by
      obtain ⟨ev', hev', rfl⟩ := List.mem_map.mp hev
      exact asAlways_ok fmt crc ev' (hw ev' hev'))
    r hr hok t st hle hst

-- non-vacuity: write, tick (fsync succeeds): answered Ok early and confirmed by the ghost flush
example : ((Actor.run true false (fun _ => .ok) .v2 Driver.crc32 1000
    ([Ev.write w1, .tick].map Ev.asAlways)).acks.map (fun r => (r.id, r.res))) = [(1, .ok)] := by decide +kernel

/-- the answer is NOT a durability claim: one write, answered `Ok` after 3 I/O calls (create,
    header, entry), machine crash before any tick — recovery returns nothing -/
theorem everysec_ack_is_not_durable :
    ((Actor.runP .everySecond (fun _ => .ok) .v2 Driver.crc32 1000 [.write w1]).acks.map
      (fun r => (r.id, r.res, r.io))) = [(1, .ok, 3)] ∧
    durable .v2 Driver.crc32 (Actor.runP .everySecond (fun _ => .ok) .v2 Driver.crc32 1000 [.write w1]).rot.w.store = [] := by
  decide +kernel

/-- Always mode on the same history has NOT answered (the write waits for the group fsync) -/
theorem always_same_history_not_acked_before_sync :
    (Actor.runP .always (fun _ => .ok) .v2 Driver.crc32 1000 [.write w1]).acks = [] ∧
    ((Actor.runP .always (fun _ => .ok) .v2 Driver.crc32 1000 [.write w1]).pending.map (·.1)) = [1] := by
  decide +kernel

/-- … and after the tick it is durable (instance of `everysec_durable_once_tick_synced`) -/
theorem everysec_durable_after_tick_witness :
    (durable .v2 Driver.crc32
      (Actor.runP .everySecond (fun _ => .ok) .v2 Driver.crc32 1000 [.write w1, .tick]).rot.w.store).map (·.ts) = [1] := by
  decide +kernel

/-- observed, outside the property: the tick fsync fails (I/O call 3), the counter is reset, and
    three more ticks issue NO call at all — the write answered `Ok` is still not durable and will
    not be until another write arrives -/
theorem everysec_failed_tick_is_not_retried :
    let a := Actor.runP .everySecond (fun i => if i = 3 then .fail else .ok) .v2 Driver.crc32 1000
      [.write w1, .tick, .tick, .tick, .tick]
    a.rot.w.trace.length = 4 ∧ a.esync = 0 ∧ durable .v2 Driver.crc32 a.rot.w.store = [] ∧
      a.acks.map (fun r => (r.id, r.res)) = [(1, .ok)] := by
  decide +kernel

/-- … the next write's tick then covers both (same file) -/
theorem everysec_next_write_repairs_witness :
    (durable .v2 Driver.crc32
      (Actor.runP .everySecond (fun i => if i = 3 then .fail else .ok) .v2 Driver.crc32 1000
        [.write w1, .tick, .tick, .write w2, .tick]).rot.w.store).map (·.ts) = [1, 2] := by
  decide +kernel

/-! ## No mode -/

/-- `Rot.sync` is never called in No mode: the rotator after a step is the rotator after the
    append / truncation / restart alone (ticks, flushes and clean shutdowns leave it untouched) -/
theorem no_mode_never_syncs (φ : Nat → Outcome) (fmt : Format) (crc : Bytes → Nat) (a : Actor) (ev : Ev) :
    (Actor.stepP .no φ fmt crc a ev).rot =
      match ev with
      | .write w => (Rot.append true fmt φ a.rot (Entry.mk' fmt crc w.data w.ts)).1
      | .forget w => (Rot.append true fmt φ a.rot (Entry.mk' fmt crc w.data w.ts)).1
      | .tick => a.rot
      | .flush => a.rot
      | .truncate T => Rot.truncate fmt crc φ T a.rot
      | .reopen true reuse => Rot.reopen reuse { a.rot with w := a.rot.w.push (crashStore a.rot.w.store) .crash }
      | .reopen false reuse => Rot.reopen reuse a.rot :=
  no_mode_step_rot φ fmt crc a ev

/-- two writes and any number of ticks in one file: answered `Ok`, no fsync call in the trace,
    nothing durable -/
theorem no_mode_ack_is_not_durable :
    let a := Actor.runP .no (fun _ => .ok) .v2 Driver.crc32 1000 [.write w1, .tick, .write w2, .tick]
    a.acks.map (fun r => (r.id, r.res)) = [(2, .ok), (1, .ok)] ∧
      a.rot.w.trace = [.append 1 17 .ok, .append 1 17 .ok, .append 1 16 .ok, .create 1 true false] ∧
      durable .v2 Driver.crc32 a.rot.w.store = [] := by
  decide +kernel

/-- the only fsync a No-mode run ever issues is the one `rotate()` does when it closes a file
    (threshold 17: every entry its own file) — which makes the closed file durable -/
theorem no_mode_rotation_syncs_closed_file_witness :
    let a := Actor.runP .no (fun _ => .ok) .v2 Driver.crc32 17 [.write w1, .write w2]
    (durable .v2 Driver.crc32 a.rot.w.store).map (·.ts) = [1] ∧ Call.sync 1 true ∈ a.rot.w.trace := by
  decide +kernel

/-- EverySecond / No: every `write_durable` caller is answered exactly once, at once, in order -/
theorem policy_acks_exactly_once (p : Policy) (hp : p ≠ .always) (φ : Nat → Outcome) (fmt : Format) (crc : Bytes → Nat)
    (maxSize : Nat) (evs : List Ev) :
    (Actor.runP p φ fmt crc maxSize evs).pending = [] ∧
    (Actor.runP p φ fmt crc maxSize evs).acks.map (·.id) = (evs.flatMap Ev.ids).reverse := by
  have := runP_now_ids p hp φ fmt crc evs (Actor.init maxSize) rfl
  simpa [Actor.runP, Actor.init] using this

/-! ## the schedule of the real loop, `Shutdown` messages included -/

/-- bursts of mailbox messages handled at the top of the loop / inside the group-commit wait / in the
    drain loop, a `Shutdown` stopping the actor or (inside the wait) not, callers after a stop never
    handled: every write acknowledged `Ok` survives every crash — all bursts, batch sizes, faults -/
theorem durable_survives_bursts (fmt : Format) (crc : Bytes → Nat) (φ : Nat → Outcome) (maxSize maxEntries : Nat)
    (bs : List (List Msg)) (hb : ∀ g ∈ bs, ∀ m ∈ g, m.Ok fmt crc) :
    ∀ r ∈ (Sched.runBursts maxEntries φ fmt crc { a := Actor.init maxSize } bs).a.acks, r.res = .ok →
      ∀ t st, r.io ≤ t →
        (Sched.runBursts maxEntries φ fmt crc { a := Actor.init maxSize } bs).a.rot.w.storeAt t = some st →
        r.entry ∈ durable fmt crc st ∨
          r.entry.ts < (Sched.runBursts maxEntries φ fmt crc { a := Actor.init maxSize } bs).a.tbound :=
  survives_of_ainv (sinv_runBursts maxEntries φ bs _ ⟨inv_init fmt crc maxSize, Nat.le_refl _⟩ hb).1

/-- a `Shutdown` inside the group-commit wait does NOT stop the actor (observed, outside the
    property): write 1 opens the wait, the shutdown is answered, write 2 is still handled and made
    durable; the same shutdown as the FIRST message of the burst stops it — write 1 is never handled -/
theorem shutdown_inside_wait_does_not_stop_witness :
    let s := Sched.runBursts 8 (fun _ => .ok) .v2 Driver.crc32 { a := Actor.init 1000 }
      [[.ev (.write w1), .shutdown, .ev (.write w2)]]
    s.alive = true ∧ s.a.acks.map (fun r => (r.id, r.res)) = [(2, .ok), (1, .ok)] ∧
    (let s' := Sched.runBursts 8 (fun _ => .ok) .v2 Driver.crc32 { a := Actor.init 1000 }
      [[.shutdown, .ev (.write w1)]]
     s'.alive = false ∧ s'.dropped = [1] ∧ s'.a.acks = []) := by decide +kernel

/-! ## the configuration constructors -/

/-- `WalConfig::always_fsync` and `WalConfig::test` select the policy `durable_survives` is about;
    `WalConfig::default` and `every_second` do NOT (they select the policy whose answer is not a
    durability claim) -/
theorem config_constructors_policy :
    Config.alwaysFsync.policy = .always ∧ Config.test.policy = .always ∧
    Config.default.policy = .everySecond ∧ Config.everySecondCfg.policy = .everySecond ∧
    Config.default.enabled = false := by decide

/-- the three serde names select three different policies; nothing else parses -/
theorem policy_names :
    Policy.ofName "Always" = some .always ∧ Policy.ofName "EverySecond" = some .everySecond ∧
    Policy.ofName "No" = some .no ∧ Policy.ofName "always" = none := by decide

end C09
end RedisVerif
