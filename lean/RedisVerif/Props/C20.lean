import RedisVerif.Model.SimRng
import RedisVerif.Model.SimKernel
import RedisVerif.Model.SimHarness
import RedisVerif.Lemmas.Sim
import RedisVerif.Model.SimMore
import RedisVerif.Lemmas.SimMore
import RedisVerif.Model.SimMulti
import RedisVerif.Model.SimBuggify
import RedisVerif.Lemmas.NMap

/-!
# C20 — Simulation is reproducible: same seed, same trace, same verdict

A Lean function is deterministic by construction, so `run s c = run s c` says nothing.  What is
claimed here is different (DESIGN §4 C20):

* the models of `Model/SimRng`, `Model/SimKernel`, `Model/SimHarness` PREDICT, from (seed,
  configuration) alone, what the real RNG wrappers, the simulation kernel and whole DST harnesses
  print; the correspondence check runs the real code in several fresh processes and compares
  with the prediction, so a hidden input of the real code (hash seeds, wall clock, entropy,
  leftovers of an earlier run) is a disagreement;
* the theorems below are the part that does NOT follow from "the model is a function":
  - **T1** wherever the real code iterates a `HashMap`/`HashSet` in a way that can reach its
    output, the model takes the iteration order / rendering as an explicit parameter and the
    theorem says what is independent of it (`orset_verdict_independent_of_set_rendering`,
    `gcounter_value_order_independent`, `dst_step_order_independent` for the current code) and what is NOT
    (`orset_violation_text_depends_on_order_counterexample`,
    `dst_recovery_depends_on_map_order_counterexample`);
  - **T2** the kernel: the timer heap of `SimulationContext` delivers in an order that is a
    function of the scheduled (wake, id) keys only, whatever the insertion order
    (`timer_order_insertion_independent`, `timer_process_fires_due_in_key_order`, ids unique:
    `timerq_wf_preserved`); the event heap of `simulator::Simulation` orders by time ONLY, so the
    order among simultaneous events is decided by the heap algorithm and the push order
    (`event_order_not_determined_by_time_counterexample`) — still a function of the op
    sequence, which is why the model transcribes std's `BinaryHeap`; the buggify decision draws
    nothing when suppressed / disabled / zero probability and is otherwise a function of
    (probability bits, one `gen_range(0, 10^6)` draw);
  - **T3** the RNG wrappers: range bounds for every state, shuffles are permutations, the only
    way the rejection loop can run out of the model's fuel is 128 consecutive rejected words
    (`sampling_fuel_partial`), each of which has probability < 1/2 for a uniform word
    (`zone_ge_half`); `Bernoulli(1.0)` draws nothing.
-/
namespace RedisVerif
namespace C20

open SimRng SimKernel SimHarness SimLemmas SimMore SimMoreLemmas SimMulti SimBuggify SimFaultTable

/-! ## T3 — the RNG wrappers -/

/-- `SimulatedRng::gen_range(min, max)` returns a value of `[min, max)`, or `min` without touching
    the generator when the range is empty — for every generator state -/
def C20_sim_gen_range_in_bounds : Prop :=
  ∀ (lo hi : Nat) (r r' : Rng) (v : Nat), simGenRange lo hi r = (.ok v, r') →
    (lo < hi → lo ≤ v ∧ v < hi) ∧ (hi ≤ lo → v = lo ∧ r' = r)

theorem sim_gen_range_in_bounds : C20_sim_gen_range_in_bounds := by
  intro lo hi r r' v h
  unfold simGenRange at h
  split at h
  · rename_i hge
    simp only [Prod.mk.injEq, Draw.ok.injEq] at h
    exact ⟨fun hlt => by omega, fun _ => ⟨h.1.symm, h.2.symm⟩⟩
  · rename_i hlt
    have := sampleLoop64_bounds lo (hi - lo) (by omega) _ _ _ _ h
    exact ⟨fun _ => by omega, fun hle => by omega⟩

/-- a hand-built generator state (the kernel does not have to evaluate ChaCha): buffer of 64
    equal words, nothing consumed -/
def rngConst (w : UInt32) : Rng :=
  { key := Vector.replicate 8 0, ctr := 0, buf := Vector.replicate 64 w, idx := 0 }

/-- buffer `3, 0, 0, …`: the first 64-bit word is 3, all later ones 0 -/
def rngThreeThenZero : Rng :=
  { key := Vector.replicate 8 0, ctr := 0, buf := (Vector.replicate 64 0).set 0 3, idx := 0 }

/-- non-vacuity: the hypothesis `… = (.ok v, r')` is met by a concrete state and the value is
    strictly inside the range (word 0xDEADBEEFDEADBEEF, range 12: high product half 10) -/
example : (simGenRange 5 17 (rngConst 0xDEADBEEF)).1 = .ok 15 := by decide

/-- non-vacuity of the rejection branch: for range 2^63+1 the word 3 is rejected (low product half
    2^63+3 > zone = 2^63), the next word 0 is accepted: two words consumed, value = low end -/
example : (simGenRange 7 (7 + 2 ^ 63 + 1) rngThreeThenZero).1 = .ok 7 ∧
    (simGenRange 7 (7 + 2 ^ 63 + 1) rngThreeThenZero).2.idx = 4 := by decide

/-- … and the empty range returns `min` without touching the generator -/
example : (simGenRange 9 9 rngThreeThenZero).1 = .ok 9 ∧ (simGenRange 9 9 rngThreeThenZero).2.idx = 0 := by decide

/-- `DeterministicRng::gen_range` -/
def C20_det_gen_range_in_bounds : Prop :=
  ∀ (lo hi : Nat) (r : Rng),
    (lo < hi → lo ≤ (detGenRange lo hi r).1 ∧ (detGenRange lo hi r).1 < hi) ∧
    (hi ≤ lo → detGenRange lo hi r = (lo, r))

theorem det_gen_range_in_bounds : C20_det_gen_range_in_bounds := by
  intro lo hi r
  unfold detGenRange
  constructor
  · intro hlt
    have : ¬ lo ≥ hi := by omega
    simp only [this, if_false]
    have := Nat.mod_lt (r.nextU64.1.toNat) (show 0 < hi - lo by omega)
    omega
  · intro hle
    have : lo ≥ hi := hle
    simp [this]

example : (detGenRange 5 17 (rngConst 0xDEADBEEF)).1 = 12 ∧ detGenRange 9 9 (rngConst 1) = (9, rngConst 1) := by
  constructor
  · decide
  · rfl

/-- full strength: the rejection loop always terminates with a value.  Not provable without an
    analysis of the ChaCha8 output; see `sampling_fuel_partial`. -/
def C20_sampling_total : Prop :=
  ∀ (lo hi : Nat) (r : Rng), (simGenRange lo hi r).1 ≠ .fuel

/-- the model's answer is `fuel` exactly when 128 consecutive 64-bit words of the stream are all
    rejected for this range … -/
theorem sampling_fuel_partial (lo hi : Nat) (r : Rng) (h : lo < hi) :
    (simGenRange lo hi r).1 = .fuel ↔ rejects64 (hi - lo) rejectFuel r := by
  unfold simGenRange
  have : ¬ lo ≥ hi := by omega
  simp only [this, if_false]
  exact sampleLoop64_fuel_iff lo (hi - lo) rejectFuel r

/-- … and a word is rejected only when its low product half lies above `zone`, which covers at
    least half of all words (`2^63 ≤ zone + 1`): < 2^-128 for a uniform stream.  On the states the
    correspondence runs reach, `fuel` never occurs (the driver would print it). -/
theorem zone_ge_half (range : Nat) (h0 : 0 < range) (h : range < 2 ^ 64) :
    2 ^ 63 ≤ zone 64 range + 1 ∧ zone 64 range < 2 ^ 64 := SimLemmas.zone_ge_half range h0 h

/-- concrete zones: 10^6 (the buggify range) rejects 2^64 - 17592186044416000000 of 2^64 words
    (< 5 %); 2^63 + 1 is the worst case, it rejects just under half -/
example : zone 64 1000000 = 17592186044415999999 ∧ zone 64 (2 ^ 63 + 1) = 2 ^ 63 ∧ zone 32 7 = 3758096383 := by decide

/-- non-vacuity of `sampling_fuel_partial`'s right-hand side: one rejected word, concretely -/
example : rejects64 (2 ^ 63 + 1) 1 rngThreeThenZero := by
  unfold rejects64 rejects64
  decide

/-- `shuffle` of either wrapper returns a permutation of its input -/
def C20_shuffle_is_permutation : Prop :=
  (∀ (a : Array Nat) (r : Rng), (detShuffle a r).1.Perm a) ∧
  (∀ (a b : Array Nat) (r r' : Rng), simShuffle a r = (.ok b, r') → b.Perm a)

theorem shuffle_is_permutation : C20_shuffle_is_permutation :=
  ⟨fun a r => detShuffleLoop_perm _ a r, fun a b r r' h => simShuffleLoop_perm _ a b r r' h⟩

def bits_1_0 : Nat := 0x3FF0000000000000

/-- `gen_bool(1.0)` is `ALWAYS_TRUE`: no word is consumed; `gen_bool(0.0)` consumes one -/
theorem bernoulli_one_draws_nothing (r : Rng) : simGenBool (F64.ofBits bits_1_0) r = (.val true, r) := by
  have : bernoulliPInt (F64.ofBits bits_1_0) = .always := by decide
  simp [simGenBool, this]

set_option exponentiation.threshold 1100 in
theorem bernoulli_zero_draws_one (r : Rng) :
    simGenBool (F64.ofBits 0) r = (.val false, r.nextU64.2) := by
  have : bernoulliPInt (F64.ofBits 0) = .some 0 := by decide
  simp [simGenBool, this]

/-- `p_int` of the literal probabilities the modelled harnesses use: 0.1, 0.3, 0.5, 0.7 -/
theorem bernoulli_literal_table :
    bernoulliPInt (F64.ofBits 0x3FB999999999999A) = .some 1844674407370955264 ∧
    bernoulliPInt (F64.ofBits 0x3FD3333333333333) = .some 5534023222112865280 ∧
    bernoulliPInt (F64.ofBits 0x3FE0000000000000) = .some 9223372036854775808 ∧
    bernoulliPInt (F64.ofBits 0x3FE6666666666666) = .some 12912720851596685312 := by decide

/-! ## T2 — the kernel -/

/-- the content of the timer heap, as the model keeps it, does not depend on the order in which
    the timers were added: delivery is a function of the (wake, id) keys only -/
def C20_timer_order_insertion_independent : Prop :=
  ∀ (l l' : List (Nat × Nat)), l.Perm l' → buildTimers l = buildTimers l'

theorem timer_order_insertion_independent : C20_timer_order_insertion_independent :=
  buildTimers_perm_invariant

example : buildTimers [(5, 0), (3, 1), (5, 2), (3, 3)] = [(3, 1), (3, 3), (5, 0), (5, 2)] := by decide

/-- well-formed timer context: sorted by key, ids below the counter, ids pairwise distinct -/
def TimerQ.WF (q : TimerQ) : Prop :=
  q.timers.Pairwise keyLe ∧ (∀ e ∈ q.timers, e.2 < q.nextId) ∧ (q.timers.map (·.2)).Nodup

theorem takeWhile_sublist_mem {α} (p : α → Bool) (l : List α) : ∀ x ∈ l.takeWhile p, x ∈ l :=
  fun _ hx => (List.takeWhile_sublist p).mem hx

theorem dropWhile_mem {α} (p : α → Bool) (l : List α) : ∀ x ∈ l.dropWhile p, x ∈ l :=
  fun _ hx => (List.dropWhile_sublist p).mem hx

/-- `add_timer`, `advance_to`, `advance_by`, `process_timers` preserve well-formedness; in
    particular timer ids are never reused, so `TimerEntry::cmp` never sees two equal keys -/
theorem timerq_wf_preserved (q : TimerQ) (h : TimerQ.WF q) :
    (∀ w, TimerQ.WF (q.addTimer w).2) ∧ (∀ t, TimerQ.WF (q.advanceTo t)) ∧
    (∀ d, TimerQ.WF (q.advanceBy d)) ∧ TimerQ.WF q.process.2 := by
  obtain ⟨hs, hid, hnd⟩ := h
  refine ⟨?_, ?_, ?_, ?_⟩
  · intro w
    refine ⟨insertSorted_sorted _ _ hs, ?_, ?_⟩
    · intro e he
      rcases (insertSorted_mem _ _ _).mp he with rfl | he
      · exact Nat.lt_succ_self _
      · exact Nat.lt_succ_of_lt (hid e he)
    · have hp := (insertSorted_perm (w, q.nextId) q.timers).map (·.2)
      refine (hp.nodup_iff).mpr ?_
      simp only [List.map_cons]
      refine List.nodup_cons.mpr ⟨?_, hnd⟩
      intro hmem
      obtain ⟨e, he, heq⟩ := List.mem_map.mp hmem
      have := hid e he
      omega
  · intro t
    unfold TimerQ.advanceTo
    split <;> exact ⟨hs, hid, hnd⟩
  · intro d; exact ⟨hs, hid, hnd⟩
  · refine ⟨hs.sublist (List.dropWhile_sublist _), ?_, ?_⟩
    · intro e he; exact hid e (dropWhile_mem _ _ e he)
    · exact hnd.sublist ((List.dropWhile_sublist _).map _)

instance : DecidableRel keyLe := fun a b => by unfold keyLe; infer_instance

/-- non-vacuity: a reachable, non-empty timer context with a tie in the wake time -/
example : TimerQ.WF ((((({} : TimerQ).addTimer 7).2.addTimer 3).2.addTimer 7).2) := by
  refine ⟨by decide, by decide, by decide⟩

/-- on a sorted list, "take while due" is "all that are due" -/
theorem takeWhile_eq_filter_of_sorted (now : Nat) :
    ∀ (l : List (Nat × Nat)), l.Pairwise keyLe →
      l.takeWhile (fun e => decide (e.1 ≤ now)) = l.filter (fun e => decide (e.1 ≤ now))
  | [], _ => rfl
  | x :: xs, h => by
    have hx := List.pairwise_cons.mp h
    by_cases hd : x.1 ≤ now
    · simp only [List.takeWhile_cons, List.filter_cons, hd, decide_true, if_true]
      rw [takeWhile_eq_filter_of_sorted now xs hx.2]
    · simp only [List.takeWhile_cons, List.filter_cons, hd, decide_false]
      have : ∀ y ∈ xs, ¬ y.1 ≤ now := by
        intro y hy
        have := hx.1 y hy
        unfold keyLe at this
        omega
      simp only [Bool.false_eq_true, if_false]
      symm
      apply List.filter_eq_nil_iff.mpr
      intro y hy
      simpa using this y hy

/-- `process_timers` wakes exactly the timers whose wake time has been reached, in (wake, id)
    order, and leaves exactly the others -/
def C20_timer_process_fires_due_in_key_order : Prop :=
  ∀ (q : TimerQ), TimerQ.WF q →
    q.process.1 = (q.timers.filter (fun e => decide (e.1 ≤ q.now))).map (·.2) ∧
    (∀ e ∈ q.process.2.timers, q.now < e.1) ∧
    ((q.timers.filter (fun e => decide (e.1 ≤ q.now))).Pairwise keyLe)

theorem timer_process_fires_due_in_key_order : C20_timer_process_fires_due_in_key_order := by
  intro q h
  obtain ⟨hs, _, _⟩ := h
  refine ⟨?_, ?_, hs.sublist List.filter_sublist⟩
  · simp only [TimerQ.process]
    rw [takeWhile_eq_filter_of_sorted q.now q.timers hs]
  · intro e he
    simp only [TimerQ.process] at he
    -- the head of dropWhile fails the test, everything after it is larger
    generalize hl : q.timers = l at he hs
    clear hl
    induction l with
    | nil => simp at he
    | cons x xs ih =>
      have hx := List.pairwise_cons.mp hs
      by_cases hd : x.1 ≤ q.now
      · simp only [List.dropWhile_cons, hd, decide_true, if_true] at he
        exact ih he hx.2
      · simp only [List.dropWhile_cons, hd, decide_false, Bool.false_eq_true, if_false] at he
        rcases List.mem_cons.mp he with rfl | hm
        · omega
        · have := hx.1 e hm
          unfold keyLe at this
          omega

/-- virtual time never goes backwards -/
theorem virtual_time_monotone (q : TimerQ) (hn : q.now < 2 ^ 64) :
    (∀ t, q.now ≤ (q.advanceTo t).now) ∧ (∀ d, q.now ≤ (q.advanceBy d).now) := by
  constructor
  · intro t; unfold TimerQ.advanceTo; split <;> simp <;> omega
  · intro d; simp only [TimerQ.advanceBy]; omega

/-- full strength for the EVENT heap of `simulator::Simulation`: the delivery order is a function
    of the scheduled times -/
def C20_event_order_determined_by_time : Prop :=
  ∀ (a b : Event), a.time = b.time →
    (heapPop Event.le (heapPush Event.le (heapPush Event.le #[] a) b)).1 =
    (heapPop Event.le (heapPush Event.le (heapPush Event.le #[] b) a)).1

/-- `impl Ord for Event` compares `time` only: two events scheduled for the same instant are
    delivered in an order that depends on the order in which they were pushed (and, with more
    events, on std's sift algorithm).  Still a function of the operation sequence — which is why
    the model transcribes `BinaryHeap` — but not of the keys. -/
theorem event_order_not_determined_by_time_counterexample : ¬ C20_event_order_determined_by_time := by
  intro h
  have := h ⟨5, 0, .timer 0⟩ ⟨5, 1, .timer 1⟩ rfl
  revert this
  decide

/-- pop `n` events -/
def popN : Nat → Array Event → List Nat
  | 0, _ => []
  | n + 1, h => match heapPop Event.le h with
    | (some e, h) => e.host :: popN n h
    | (none, _) => []

/-- with five simultaneous events the delivery order is not even the push order -/
theorem event_order_not_fifo_counterexample :
    popN 5 ((List.range 5).foldl (fun h i => heapPush Event.le h ⟨5, i, .timer i⟩) #[]) = [0, 2, 4, 1, 3] := by
  decide

/-- the buggify decision consumes nothing from the generator when it is suppressed, when the
    configured probability is zero (or the configuration is disabled: `get` returns 0.0) … -/
theorem buggify_no_draw (r : Rng) (p : F64) :
    shouldBuggify true p r = (.ok false, r) ∧
    shouldBuggify false (F64.ofBits 0) r = (.ok false, r) ∧
    shouldBuggifyWithProb true true p r = (.ok false, r) ∧
    shouldBuggifyWithProb false false p r = (.ok false, r) := by
  refine ⟨by simp [shouldBuggify], ?_, by simp [shouldBuggifyWithProb], by simp [shouldBuggifyWithProb]⟩
  have h1 : (F64.ofBits 0).isNaN = false := by decide
  have h2 : (F64.ofBits 0).isZero = true := by decide
  simp [shouldBuggify, h1, h2]

/-- … and otherwise is `gen_range(0, 10^6) as f64 / 10^6 < prob`, evaluated exactly; thresholds
    for the literal 0.01 (moderate PACKET_DROP), 0.05 and 0.001: the comparison is strict, so
    exactly `prob * 10^6` of the 10^6 values trigger -/
theorem buggify_threshold_table :
    buggifyTriggered 9999 (F64.ofBits 0x3F847AE147AE147B) = true ∧
    buggifyTriggered 10000 (F64.ofBits 0x3F847AE147AE147B) = false ∧
    buggifyTriggered 49999 (F64.ofBits 0x3FA999999999999A) = true ∧
    buggifyTriggered 50000 (F64.ofBits 0x3FA999999999999A) = false ∧
    buggifyTriggered 999 (F64.ofBits 0x3F50624DD2F1A9FC) = true ∧
    buggifyTriggered 1000 (F64.ofBits 0x3F50624DD2F1A9FC) = false ∧
    buggifyTriggered 0 (F64.ofBits 0x3F50624DD2F1A9FC) = true ∧
    buggifyTriggered 999999 (F64.ofBits 0x3FF0000000000000) = true := by decide

/-! ## T1 — iteration orders that reach a harness's output -/

/-- `GCounter::value()` sums `counts.values()` in `HashMap` order: any order gives the same sum -/
def C20_gcounter_value_order_independent : Prop :=
  ∀ (c c' : List (Nat × Nat)), c.Perm c' → GCounter.value c = GCounter.value c'

theorem gcounter_value_order_independent : C20_gcounter_value_order_independent := by
  intro c c' h
  unfold GCounter.value
  rw [(h.map (·.2)).sum_nat]

/-- `ORSetDSTHarness::check_convergence` formats the two `HashSet`s with `{:?}` — in iteration
    order.  Whether a violation is reported, how many, for which replicas (hence `converged` and
    `is_success`) does not depend on the rendering … -/
def C20_orset_verdict_independent_of_set_rendering : Prop :=
  ∀ (f g : NSet → String) (rs : List ORSet),
    (orsetViol f rs).length = (orsetViol g rs).length ∧
    ((orsetViol f rs).isEmpty = (orsetViol g rs).isEmpty)

theorem orset_verdict_independent_of_set_rendering : C20_orset_verdict_independent_of_set_rendering := by
  intro f g rs
  have hl : (orsetViol f rs).length = (orsetViol g rs).length := by
    unfold orsetViol
    cases rs with
    | nil => rfl
    | cons r0 rest =>
      simp only
      generalize enumFrom1 (r0 :: rest) = l
      induction l with
      | nil => rfl
      | cons x xs ih =>
        simp only [List.filterMap_cons]
        split <;> split <;> simp_all
  have he : ∀ (a b : List String), a.length = b.length → a.isEmpty = b.isEmpty := by
    intro a b h; cases a <;> cases b <;> simp_all
  exact ⟨hl, he _ _ hl⟩

/-- full strength: the violation TEXT the harness reports is the same whatever order the two
    sets are iterated in (`π`, `π'` list each set in some order) -/
def C20_orset_violation_text_independent_of_order : Prop :=
  ∀ (π π' : NSet → NSet), (∀ s, (π s).Perm s) → (∀ s, (π' s).Perm s) → ∀ (rs : List ORSet),
    orsetViol (fun s => showSet (π s)) rs = orsetViol (fun s => showSet (π' s)) rs

/-- … but the text is not: two iteration orders of the same sets give different strings for a
    non-converged replica vector.  (Reached by the real harness only when `sync_all` fails to
    converge.) -/
theorem orset_violation_text_depends_on_order_counterexample :
    ¬ C20_orset_violation_text_independent_of_order := by
  intro h
  have := h id List.reverse (fun _ => List.Perm.refl _) (fun s => List.reverse_perm s)
    [{ elems := [(1, [0]), (2, [1])] }, { elems := [(3, [0]), (4, [1])] }]
  revert this
  decide

/-! ### `DSTSimulation::step` iterates `CrashSimulator::node_states` (a `HashMap`) and draws per element -/

/-- a scripted word stream: `range lo hi` takes the next word modulo the width, `bool` its parity -/
def scripted : Sampler (List Nat) where
  range lo hi
    | [] => .error "eof"
    | x :: xs => .ok (if lo ≥ hi then lo else lo + x % (hi - lo), xs)
  bool _
    | [] => .error "eof"
    | x :: xs => .ok (x % 2 == 1, xs)

def nodesOf {σ} : Except String (Dst σ) → Option (List NState)
  | .ok d => some d.nodes
  | .error _ => none

/-- the PINNED code: `crashed_nodes()` in map order -/
def cfg2 : DstCfg := ⟨2, 0, false, false, 0, 0, 100, 5000, 60000, false⟩

/-- full strength: the recovery loop of one step (the only place of `DSTSimulation::step` that
    iterates the node map and draws) is a function of (state, generator) — whatever order the node
    map is iterated in, however many nodes are down.  Parameter: which variant of
    `CrashSimulator::crashed_nodes` (`sorted = true`: current code, 3012c3c). -/
def C20_dst_step_independent_of_map_order (sorted : Bool) : Prop :=
  ∀ (σ : Type) (S : Sampler σ) (c : DstCfg) (pi pi' : List Nat) (d : Dst σ), c.sortedNodes = sorted →
    pi.Perm pi' → recoverLoop S c pi d = recoverLoop S c pi' d

/-- the current code: proved at full strength — any number of nodes down, any two iteration
    orders of the map, any generator -/
theorem dst_step_order_independent : C20_dst_step_independent_of_map_order true := by
  intro σ S c pi pi' d hs hp
  unfold recoverLoop crashedNodes
  rw [hs]
  simp only [if_true]
  rw [sortNat_perm_invariant _ _ (hp.filter _)]

/-- the pinned code: two nodes are down; the stream says "recover the first one visited (for
    100+7 ms), not the second": WHICH node comes back depends on the iteration order of the map —
    and with it every later draw, crash, recovery and the final result.  This is what the
    cross-process runs of the pinned `DSTSimulation` showed (fixed: 3012c3c, was
    `C20:trace-differs-across-processes:dst`). -/
theorem dst_recovery_depends_on_map_order_counterexample : ¬ C20_dst_step_independent_of_map_order false := by
  intro h
  have := congrArg nodesOf (h (List Nat) scripted cfg2 [0, 1] [1, 0]
    { g := [1, 7, 0], now := 50, nodes := [.crashed 10, .crashed 20] } rfl (List.Perm.swap 1 0 []))
  revert this
  decide

example : nodesOf (recoverLoop scripted { cfg2 with sortedNodes := true } [1, 0]
    { g := [1, 7, 0], now := 50, nodes := [.crashed 10, .crashed 20] }) = some [.recovering 50 157, .crashed 20] := by decide

/-- the recovery loop sees the order only through the sub-list of crashed nodes … -/
theorem recoverLoop_depends_on_crashed_order_only {σ} (S : Sampler σ) (c : DstCfg) (pi pi' : List Nat) (d : Dst σ)
    (h : pi.filter (fun i => (d.nodes.getD i .running).isCrashed) = pi'.filter (fun i => (d.nodes.getD i .running).isCrashed)) :
    recoverLoop S c pi d = recoverLoop S c pi' d := by
  unfold recoverLoop crashedNodes
  rw [h]

/-- … so — in EITHER variant — a step does not depend on the map order whenever at most one node is down at that
    point (decidable hypothesis; the `calm` preset never crashes a node, and the model run says
    for every step of every run whether the hypothesis held) -/
theorem dst_step_order_independent_partial {σ} (S : Sampler σ) (c : DstCfg) (pi pi' : List Nat) (d : Dst σ)
    (hp : pi.Perm pi')
    (h1 : (pi.filter (fun i => (d.nodes.getD i .running).isCrashed)).length ≤ 1) :
    recoverLoop S c pi d = recoverLoop S c pi' d := by
  apply recoverLoop_depends_on_crashed_order_only
  have hf := hp.filter (fun i => (d.nodes.getD i .running).isCrashed)
  generalize pi.filter (fun i => (d.nodes.getD i .running).isCrashed) = a at hf h1
  generalize pi'.filter (fun i => (d.nodes.getD i .running).isCrashed) = b at hf
  match a, h1 with
  | [], _ => exact (List.nil_perm.mp hf).symm ▸ rfl
  | [x], _ => exact (List.singleton_perm.mp hf).symm ▸ rfl

example : (([0, 1, 2] : List Nat).filter (fun i => (([.running, .crashed 3, .running] : List NState).getD i .running).isCrashed)).length ≤ 1 := by decide

/-- recoveries that complete are processed node by node: independent of any order (the model
    folds over the node list; the real code iterates `recovering_nodes()` in map order) -/
theorem completeRecoveries_pointwise (now : Nat) (nodes : List NState) :
    (completeRecoveries now nodes).1 = nodes.map (fun s => match s with
      | .recovering _ e => if now ≥ e then .running else s
      | _ => s) := by
  induction nodes with
  | nil => rfl
  | cons s rest ih =>
    unfold completeRecoveries at ih ⊢
    simp only [List.foldr_cons, List.map_cons]
    cases s with
    | running => simp [ih]
    | crashed t => simp [ih]
    | recovering a e =>
      by_cases hge : now ≥ e <;> simp [hge, ih]

/-! ### the thread-local BUGGIFY context and the store-based DST harnesses -/

/-- full strength: a WAL / streaming / compaction DST run is independent of the BUGGIFY context an
    earlier run left on the thread.  Parameter: does the harness install its own configuration
    (`true`: current code, 474577c). -/
def C20_store_harness_independent_of_previous_context (installsOwn : Bool) : Prop :=
  ∀ (σ α : Type) (body : BugCtx → σ → α) (prev prev' : BugCtx) (g : σ),
    storeHarnessRun installsOwn prev body g = storeHarnessRun installsOwn prev' body g

/-- the current code: whatever the harness does with the context it sees, it sees its own -/
theorem store_harness_independent_of_previous_context :
    C20_store_harness_independent_of_previous_context true := by
  intro σ α body prev prev' g
  rfl

/-- the pinned code: after a run that left `FaultConfig::disabled()` behind, a fault site with
    probability 1.0 does not fire and does not draw; in a fresh thread (`moderate`: enabled) it
    draws and fires (fixed: 474577c, was `C20:trace-depends-on-earlier-run:{wal,streaming,compaction}`) -/
theorem store_harness_depends_on_previous_context_counterexample :
    ¬ C20_store_harness_independent_of_previous_context false := by
  intro h
  have := h (List Nat) (Option (List Bool × List Nat))
    (fun ctx g => match faultSites scripted [0x3FF0000000000000] ctx g with | .ok r => some r | .error _ => none)
    { enabled := false } { enabled := true } [5, 6]
  revert this
  decide

/-- a disabled context consumes nothing from the generator: the later draws of the run shift -/
theorem disabled_context_draws_nothing {σ} (S : Sampler σ) (p : Nat) (g : σ) :
    storeDecision S { enabled := false } p g = .ok (false, g) := rfl

/-! ### the WAL DST model: what recovery yields from a file of items -/

/-- a file whose header was not written completely (empty, or a strict prefix) yields nothing;
    a complete header followed by entries yields them up to the first partial item — the
    item-level reading of C10 `entries_of_prefix` the WAL harness model rests on -/
theorem wal_recover_file_table (a b c : Nat) :
    recoverFile { items := [] } = [] ∧
    recoverFile { items := [.prefix] } = [] ∧
    recoverFile { items := [.header] } = [] ∧
    recoverFile { items := [.header, .entry a, .entry b] } = [a, b] ∧
    recoverFile { items := [.header, .entry a, .prefix] } = [a] ∧
    recoverFile { items := [.header, .prefix, .entry c] } = [] := by
  simp [recoverFile]

/-- a crash keeps exactly the durable items of every file, file by file (the real code iterates
    `files.values_mut()` of a `HashMap`: no file's truncation depends on another file) -/
theorem wal_crash_pointwise (w : Wal) :
    (wCrash.run w).toOption.map (fun r => r.2.files) =
      some (w.files.map fun f => { f with items := f.items.take f.synced }) := rfl

/-! ## T4 — whole runs: the trace does not depend on the hidden inputs the models make explicit

The step-level results above are lifted to whole runs, and three more harness models carry an
explicit `env`-like parameter: the iteration order `pi` of a hash container, the command executor
(`exec`: where a wall-clock read or an arbitrary pick of the system under test would enter), the
persistence / store side of a workload-driven harness (`store`: wall clock of `ProductionClock`,
`created_at_ms`, real sleeps, the BUGGIFY context). -/

/-- full strength, whole run: the trace of a `DSTSimulation` run (every step's node states and the
    result line, as text) is the same whatever order `CrashSimulator::node_states` is iterated in.
    Parameter: the variant of `crashed_nodes()` (`true` = current code). -/
def C20_dst_run_independent_of_map_order (sorted : Bool) : Prop :=
  ∀ (seed ops : Nat) (c : DstCfg) (pi pi' : List Nat), c.sortedNodes = sorted → pi.Perm pi' →
    runDst seed ops c pi = runDst seed ops c pi'

theorem dst_run_order_independent : C20_dst_run_independent_of_map_order true := by
  intro seed ops c pi pi' hs hp
  unfold runDst
  cases dstInit chacha c (Rng.new seed.toUInt64) with
  | error e => rfl
  | ok d => simp only [bind, Except.bind, dstLoop_perm c pi pi' hs hp]

/-- the same over ANY generator, as states: `ops` consecutive steps -/
def C20_dst_states_independent_of_map_order (sorted : Bool) : Prop :=
  ∀ (σ : Type) (S : Sampler σ) (c : DstCfg) (pi pi' : List Nat) (ops : Nat) (d : Dst σ), c.sortedNodes = sorted →
    pi.Perm pi' → (dstRun S c pi ops d).toOption.map (·.nodes) = (dstRun S c pi' ops d).toOption.map (·.nodes)

theorem dst_states_order_independent : C20_dst_states_independent_of_map_order true := by
  intro σ S c pi pi' ops d hs hp
  unfold dstRun
  rw [repeatM_congr _ _ (fun a => dstStep_perm S c pi pi' a hs hp)]

/-- the pinned variant, over three whole steps: two nodes go down in the first step; which one is
    recovering after the third depends on the map order -/
theorem dst_states_depend_on_map_order_counterexample : ¬ C20_dst_states_independent_of_map_order false := by
  intro h
  have := h (List Nat) scripted { cfg2 with enableCrash := true, crashProb := 0x3FF0000000000000 } [0, 1] [1, 0] 2
    { g := [5, 0, 0, 0, 0, 5, 1, 7, 0], now := 0, nodes := [.running, .running] } rfl (List.Perm.swap 1 0 [])
  revert this
  decide

/-- non-vacuity of the sorted statement on the same data: both orders give the same states -/
example : (dstRun scripted { cfg2 with enableCrash := true, crashProb := 0x3FF0000000000000, sortedNodes := true } [1, 0] 2
    { g := [5, 0, 0, 0, 0, 5, 1, 7, 0], now := 0, nodes := [.running, .running] }).toOption.map (·.nodes) =
    some [.recovering 12 119, .crashed 6] := by decide

/-- `RedisDSTSimulation` embeds `DSTSimulation::step`: its whole trace (operation history with
    keys, values, replies and times, result, statistics) is independent of the map order too — any
    generator, any key distribution -/
def C20_redis_dst_run_independent_of_map_order (sorted : Bool) : Prop :=
  ∀ (σ : Type) (S : Sampler σ) (c : RCfg) (pi pi' : List Nat) (ops : Nat) (g : σ), c.dst.sortedNodes = sorted →
    pi.Perm pi' → redisLines S c pi ops g = redisLines S c pi' ops g

theorem redis_dst_run_order_independent : C20_redis_dst_run_independent_of_map_order true := by
  intro σ S c pi pi' ops g hs hp
  unfold redisLines
  cases redisInit S c g with
  | error e => rfl
  | ok s0 => simp only [bind, Except.bind, redisLoop_perm S c pi pi' hs hp]

/-- non-vacuity: a two-node run over the scripted generator produces a history line -/
example : (redisLines scripted ⟨{ cfg2 with sortedNodes := true }, false, .uniform 5⟩ [1, 0] 1
    [3, 2, 0, 4, 8, 1, 3, 77, 9, 0, 2, 5, 0, 1, 0, 1, 1, 4, 4, 4, 9, 1, 2, 3, 4, 5, 6, 7, 8, 9]).toOption.map (·.length) = some 7 := by decide

/-- full strength: the invoke / complete time of every operation of a scenario
    (`ScenarioBuilder::run` and `run_with_eviction`) is the same whatever the command executor
    answers and however it evolves — two arbitrary executors over arbitrary state and reply types.
    A reply that depends on a hidden input (the wall clock of `ACL GENPASS`, the member `SPOP`
    picks, the order of `KEYS`) can therefore not shift the timeline, and neither can eviction. -/
def C20_scenario_timing_independent_of_executor : Prop :=
  ∀ (ε ρ ε' ρ' : Type) (exec : ε → Nat → Nat → ε × ρ) (exec' : ε' → Nat → Nat → ε' × ρ')
    (evict : ε → Nat → ε) (evict' : ε' → Nat → ε') (seed : Nat) (c : ScCfg) (script : List ScOp) (e0 : ε) (e0' : ε'),
    timing (scenario exec evict seed c script e0) = timing (scenario exec' evict' seed c script e0')

theorem scenario_timing_independent_of_executor : C20_scenario_timing_independent_of_executor := by
  intro ε ρ ε' ρ' exec exec' evict evict' seed c script e0 e0'
  have h0 : ScSim ({ rng := Rng.new seed.toUInt64, ex := e0 } : ScSt ε ρ) ({ rng := Rng.new seed.toUInt64, ex := e0' } : ScSt ε' ρ') :=
    ⟨rfl, rfl, rfl⟩
  unfold timing scenario
  simp only
  split
  · obtain ⟨_, hn, hl⟩ := scRun_sim exec exec' c (enumOps (sortByTime script)) _ _ h0
    simp only [List.map_reverse, hl, hn]
  · obtain ⟨_, hn, hl⟩ := scEvictLoop_sim exec exec' evict evict' c (lastTime script) (script.length + lastTime script / c.evictMs + 3)
      (enumOps (sortByTime script)) c.evictMs _ _ h0
    simp only [List.map_reverse, hl, hn]

/-- the script is executed in time order, ties in the order given (stable sort) -/
example : sortByTime [⟨5, 0⟩, ⟨3, 1⟩, ⟨5, 2⟩, ⟨3, 3⟩] = [⟨3, 1⟩, ⟨3, 3⟩, ⟨5, 0⟩, ⟨5, 2⟩] := by decide

/-- without BUGGIFY delays an operation completes when it is invoked, at its scripted time; the
    final time is the last scripted time (no generator state needed) -/
example : timing (scenario (ε := Unit) (ρ := Unit) (fun _ _ _ => ((), ())) (fun _ _ => ()) 7 ⟨false, F64.ofBits 0, 0⟩ [⟨5, 0⟩, ⟨3, 1⟩] ()) =
    ([(1, 3, 3), (0, 5, 5)], 5) := by
  unfold timing scenario
  rfl

/-- full strength: the operations a workload-driven harness records (`StreamingDSTHarness`,
    `CompactionDSTHarness`: one `next_operation()` per step, handed to the persistence side) are
    exactly the workload's, whatever the persistence / store side does and reads — any state
    machine `store`, any outcome type -/
def C20_workload_ops_independent_of_store : Prop :=
  ∀ (τ ω : Type) (store : τ → WOp → τ × ω) (ops : List WOp) (t : τ), (harnessLoop store ops t).map (·.1) = ops

theorem workload_ops_independent_of_store : C20_workload_ops_independent_of_store :=
  fun _ _ store ops t => harnessLoop_ops store ops t

example : (harnessLoop (fun (n : Nat) (o : WOp) => (n + 1, decide (o = .flush) || n % 2 == 0)) [.write 3, .flush, .delete 3, .first] 0) =
    [(.write 3, true), (.flush, true), (.delete 3, true), (.first, false)] := by decide

set_option maxRecDepth 8000 in
/-- the probability bands of `next_operation` on the extreme rolls: word 0 is roll 0.0 (below any
    positive probability), the largest word rounds to 2^64 = roll 1.0 (below no probability ≤ 1) -/
theorem workload_roll_table :
    rollLt 0 (F64.ofBits 0x3F947AE147AE147B) = true ∧ rollLt 0 (F64.ofBits 0) = false ∧
    rollLt (2 ^ 64 - 1) (F64.ofBits 0x3FF0000000000000) = false ∧ rollLt (2 ^ 63) (F64.ofBits 0x3FE0000000000000) = false ∧
    rollLt (2 ^ 63 - 1024) (F64.ofBits 0x3FE0000000000000) = true := by decide

/-! ### `check_invariants` of hash_dst / set_dst: the shadow `HashSet` is iterated -/

/-- full strength: WHETHER `check_invariants` fails (hence `invariant_violations`, `is_success`, the
    early stop of `run`) does not depend on the order in which the shadow set is visited nor on how
    the set differences are rendered — for ANY implementation of the data structure, correct or not -/
def C20_hash_check_verdict_independent_of_order : Prop :=
  ∀ (fmt fmt' : NSet → String) (impl : Impl) (expected pi pi' : NSet), pi.Perm pi' →
    isOk (hashCheck fmt impl expected pi) = isOk (hashCheck fmt' impl expected pi')

theorem hash_check_verdict_independent_of_order : C20_hash_check_verdict_independent_of_order := by
  intro fmt fmt' impl expected pi pi' hp
  rw [hashCheck_isOk, hashCheck_isOk]
  unfold hashCheckOk
  rw [find?_isNone_perm (fun f => !impl.exists_ f) pi pi' hp, find?_isNone_perm (fun f => !impl.getSome f) pi pi' hp]

/-- full strength for the TEXT: the message `check_invariants` returns is the same for every
    visiting order -/
def C20_hash_check_text_independent_of_order : Prop :=
  ∀ (impl : Impl) (expected pi pi' : NSet), pi.Perm pi' →
    errText (hashCheck showSet impl expected pi) = errText (hashCheck showSet impl expected pi')

/-- … it is not: with two fields missing from a buggy structure the FIRST one in hash order is
    named (latent: reached only when the data structure under test is wrong) -/
theorem hash_check_text_depends_on_order_counterexample : ¬ C20_hash_check_text_independent_of_order := by
  intro h
  have := h { len := 2, isEmpty := false, exists_ := fun _ => false, getSome := fun _ => false, keys := [] } [1, 2] [1, 2] [2, 1]
    (List.Perm.swap 2 1 [])
  revert this
  decide

/-- a data structure that meets its specification passes for every visiting order: the `viol=0`
    the typed harness models predict does not depend on the hash seed -/
theorem hash_check_ok_for_spec (fmt : NSet → String) (fields pi : NSet) (hp : pi.Perm fields) :
    isOk (hashCheck fmt (specImpl fields) fields pi) = true := by
  have hnone : pi.find? (fun f => !fields.contains f) = none := by
    apply List.find?_eq_none.mpr
    intro x hx
    have : x ∈ fields := hp.mem_iff.mp hx
    simp [this]
  rw [hashCheck_isOk]
  simp [hashCheckOk, specImpl, hnone]
  exact fun x hx => hp.mem_iff.mp hx

example : isOk (hashCheck showSet (specImpl [1, 4, 9]) [1, 4, 9] [9, 1, 4]) = true := by decide

/-! ### a final-state accessor that lists a `HashMap` -/

def C20_accessor_independent_of_map_order (sorted : Bool) : Prop :=
  ∀ (pi pi' : List Nat), pi.Perm pi' → getAllDeltas sorted pi = getAllDeltas sorted pi'

/-- the code as it is: the accessor's result is the map order
    (`C20:accessor-in-map-order:multi-node-api:get_all_deltas`, replayed on every run) -/
theorem accessor_order_depends_on_map_order_counterexample : ¬ C20_accessor_independent_of_map_order false := by
  intro h
  have := h [0, 1] [1, 0] (List.Perm.swap 1 0 [])
  revert this
  decide

/-- the repaired code: independent of the map order -/
theorem accessor_sorted_order_independent : C20_accessor_independent_of_map_order true := by
  intro pi pi' hp
  simp only [getAllDeltas, if_true]
  exact sortNat_perm_invariant _ _ hp

example : getAllDeltas true [3, 1, 2] = [1, 2, 3] ∧ getAllDeltas false [3, 1, 2] = [3, 1, 2] := by decide

/-! ### BUGGIFY statistics in the result -/

/-- full strength: what a simulation reports does not depend on what ran earlier on the thread.
    Parameter: does creating a simulation reset the thread's statistics (`true`: fixes-sim-s3). -/
def C20_result_stats_independent_of_earlier_runs (resetsOnCreate : Bool) : Prop :=
  ∀ (prev prev' own : NMap Nat), finalizeStats resetsOnCreate prev own = finalizeStats resetsOnCreate prev' own

/-- the code as it is: the second of two identical runs in one process reports twice the checks
    (`C20:trace-differs-in-process:dst-api:buggify-stats-cumulative`, replayed on every run) -/
theorem result_stats_depend_on_earlier_runs_counterexample : ¬ C20_result_stats_independent_of_earlier_runs false := by
  intro h
  have := h [(0, 31)] [] [(0, 31)]
  revert this
  decide

/-- the repaired code -/
theorem result_stats_independent_of_earlier_runs : C20_result_stats_independent_of_earlier_runs true :=
  fun _ _ _ => rfl

example : finalizeStats false [(0, 31)] [(0, 31)] = [(0, 62)] ∧ finalizeStats true [(0, 31)] [(0, 31)] = [(0, 31)] := by decide


/-! ## T5 — `MultiNodeSimulation` / `run_partition_test` (Model/SimMulti)

The cluster simulation iterates a `HashMap` at two places that reach its output: the keys
`get_keys_in_buckets` selects for an anti-entropy exchange (the receiver's Lamport clock advances
once per delta, so their ORDER is observable) and the routing table of a selective gossip round
(`send_deltas` draws loss and delay per target).  Both orders are explicit parameters of the model
(`pi`, `rho`: any function that lists what it is given in some order). -/

/-- `f` lists what it is given in some order -/
def IsOrder (f : List Nat → List Nat) : Prop := ∀ l, (f l).Perm l

theorem isOrder_id : IsOrder id := fun l => List.Perm.refl l
theorem isOrder_reverse : IsOrder List.reverse := fun l => List.reverse_perm l

/-- full strength: one anti-entropy exchange (`run_anti_entropy_sync`) leaves the same cluster state
    whatever order the two `replicated_keys` maps are iterated in.  Parameter: the variant of
    `get_keys_in_buckets` (`true` = current code: selected keys sorted, dc1be9d). -/
def C20_mn_sync_independent_of_map_order (sorted : Bool) : Prop :=
  ∀ (pi pi' : List Nat → List Nat), IsOrder pi → IsOrder pi' → ∀ (c : Cfg) (s : MN) (a b : Nat),
    (MN.sync (selectKeys sorted pi c.perSync) c s a b).nodes = (MN.sync (selectKeys sorted pi' c.perSync) c s a b).nodes

theorem selectKeys_sorted_order_independent (pi pi' : List Nat → List Nat) (h : IsOrder pi) (h' : IsOrder pi') (per : Nat) :
    selectKeys true pi per = selectKeys true pi' per := by
  funext inB m
  unfold selectKeys
  simp only [if_true]
  rw [sortNat_perm_invariant _ _ (((h m.keys).trans (h' m.keys).symm).filter _)]

theorem mn_sync_order_independent : C20_mn_sync_independent_of_map_order true := by
  intro pi pi' h h' c s a b
  rw [selectKeys_sorted_order_independent pi pi' h h']

/-- a cluster state with a hand-built generator (never consulted by an anti-entropy exchange):
    node 0 wrote two keys (stamps 1 and 2), node 1 knows nothing -/
def mnTwoKeys : MN :=
  { rng := rngConst 0,
    nodes := [{ clock := 2, keys := [(0, ⟨some 1, 1, 1⟩), (1, ⟨some 2, 2, 1⟩)] }, {}] }

def cfgTwo : Cfg := ⟨2, F64.ofBits 0, 1, 10, true, false, 100, 1000, #[(0x6b30, 3, []), (0x6b31, 200, [])]⟩

/-- the pinned code: the receiver's Lamport clock is `max(local, remote) + 1` per delta, so the
    order in which the sender's map yields the two keys is observable: 3 when the older stamp comes
    first, 4 when the newer one does (was `C20:trace-differs-across-processes:multi-node:lamport-clock-after-anti-entropy`,
    fixed: dc1be9d) -/
theorem mn_sync_depends_on_map_order_counterexample : ¬ C20_mn_sync_independent_of_map_order false := by
  intro h
  have := congrArg (fun ns => ns.map (·.clock)) (h id List.reverse isOrder_id isOrder_reverse cfgTwo mnTwoKeys 0 1)
  revert this
  decide

/-- non-vacuity of the sorted statement on the same data: both orders give clock 3, both keys cross -/
example : ((MN.sync (selectKeys true List.reverse 1000) cfgTwo mnTwoKeys 0 1).nodes.map fun nd => (nd.clock, nd.keys.keys)) = [(2, [0, 1]), (3, [0, 1])] := by
  decide

/-- full strength: a selective gossip round leaves the same cluster state and the same messages in
    flight whatever order the routing table is visited in.  Parameter: the variant of `gossip_round`
    (`true` = current code: routes sorted by target, 7f8c4c6). -/
def C20_mn_gossip_independent_of_route_order (sorted : Bool) : Prop :=
  ∀ (rho rho' : List Nat → List Nat), IsOrder rho → IsOrder rho' → ∀ (c : Cfg) (s : MN),
    (MN.gossipRound (routeOrder sorted rho) c s).queue.map (fun m => (m.src, m.dst, m.at_)) =
    (MN.gossipRound (routeOrder sorted rho') c s).queue.map (fun m => (m.src, m.dst, m.at_))

theorem routeOrder_sorted_order_independent (rho rho' : List Nat → List Nat) (h : IsOrder rho) (h' : IsOrder rho') :
    routeOrder true rho = routeOrder true rho' := by
  funext ts
  unfold routeOrder
  simp only [if_true]
  rw [sortNat_perm_invariant _ _ ((h ts).trans (h' ts).symm)]

theorem mn_gossip_route_order_independent : C20_mn_gossip_independent_of_route_order true := by
  intro rho rho' h h' c s
  rw [routeOrder_sorted_order_independent rho rho' h h']

/-- generator buffer `0, 0, 7, 0, 0, …`: the 64-bit words are 0, 7, 0, 0, … -/
def rngSecondSeven : Rng :=
  { key := Vector.replicate 8 0, ctr := 0, buf := (Vector.replicate 64 0).set 2 7, idx := 0 }

/-- three nodes, selective routing; node 0 has one pending delta of a key owned by nodes 1 and 2 -/
def mnRoutes : MN :=
  { rng := rngSecondSeven,
    nodes := [{ clock := 1, keys := [(0, ⟨some 1, 1, 1⟩)], pending := [(0, ⟨some 1, 1, 1⟩)] }, {}, {}] }

def cfgRoutes : Cfg := ⟨3, F64.ofBits 0, 1, 10, true, true, 100, 1000, #[(0x6b30, 3, [1, 2])]⟩

set_option maxRecDepth 8000 in
/-- the pinned code: `send_deltas` draws the delay per target in the order the routing table yields
    them — the FIRST target visited gets the second word of the stream (delay 8), the other one the
    fourth (delay 1): which message is delivered when depends on the map order (was
    `C20:trace-differs-across-processes:multi-node:routing-table-order-in-gossip-round`, fixed: 7f8c4c6) -/
theorem mn_gossip_depends_on_route_order_counterexample : ¬ C20_mn_gossip_independent_of_route_order false := by
  intro h
  have := h id List.reverse isOrder_id isOrder_reverse cfgRoutes mnRoutes
  revert this
  decide

set_option maxRecDepth 8000 in
/-- non-vacuity of the sorted statement on the same data: target 1 is served first whatever the map says -/
example : (MN.gossipRound (routeOrder true List.reverse) cfgRoutes mnRoutes).queue.map (fun m => (m.src, m.dst, m.at_)) = [(0, 1, 8), (0, 2, 1)] := by
  decide

/-- full strength, whole run: the trace of a cluster scenario — every scripted step's reply, Lamport
    clocks, pending queues, in-flight messages, the closing lines with winners, stamps and verdicts —
    is the same for any two iteration orders of the replica maps and any two visiting orders of the
    routing tables; any seed, configuration, script (also the scripts of `run_partition_test`).
    Parameters: the variants of `get_keys_in_buckets` and `gossip_round` (`true true` = current code). -/
def C20_mn_run_independent_of_map_orders (sortsSync sortsRoutes : Bool) : Prop :=
  ∀ (pi pi' rho rho' : List Nat → List Nat), IsOrder pi → IsOrder pi' → IsOrder rho → IsOrder rho' →
    ∀ (c : Cfg) (style seed : Nat) (script : List Op) (fin : List Nat) (during after : Nat),
      runWith sortsSync sortsRoutes pi rho c style seed script fin during after =
      runWith sortsSync sortsRoutes pi' rho' c style seed script fin during after

theorem mn_run_order_independent : C20_mn_run_independent_of_map_orders true true := by
  intro pi pi' rho rho' h h' g g' c style seed script fin during after
  unfold runWith
  rw [selectKeys_sorted_order_independent pi pi' h h', routeOrder_sorted_order_independent rho rho' g g']

/-- `run_partition_test` collects its test keys into a `HashSet` and asks `all(check_key_convergence)`:
    the verdict of a convergence round does not depend on the order the set is visited in -/
theorem partition_test_keys_order_independent (s : MN) (keys keys' : List Nat) (h : keys.Perm keys') :
    keys.all s.keyConverged = keys'.all s.keyConverged := by
  induction h with
  | nil => rfl
  | cons x _ ih => simp only [List.all_cons, ih]
  | swap x y l => simp only [List.all_cons]; cases s.keyConverged x <;> cases s.keyConverged y <;> rfl
  | trans _ _ ih1 ih2 => exact ih1.trans ih2

/-- the receiver's clock after a batch of deltas: the pinned defect in one line -/
example : (({} : Node).applyAll [(0, ⟨some 1, 1, 1⟩), (1, ⟨some 2, 2, 1⟩)]).clock = 3 ∧
    (({} : Node).applyAll [(1, ⟨some 2, 2, 1⟩), (0, ⟨some 1, 1, 1⟩)]).clock = 4 := by decide

/-- `ReplicatedValue::merge` keeps the larger stamp, ties (same time, same replica: the same write) keep the local one -/
theorem rv_merge_table (v w : Option Nat) :
    RV.merge ⟨v, 5, 1⟩ ⟨w, 6, 1⟩ = ⟨w, 6, 1⟩ ∧ RV.merge ⟨v, 6, 1⟩ ⟨w, 5, 2⟩ = ⟨v, 6, 1⟩ ∧
    RV.merge ⟨v, 5, 1⟩ ⟨w, 5, 2⟩ = ⟨w, 5, 2⟩ ∧ RV.merge ⟨v, 5, 2⟩ ⟨w, 5, 2⟩ = ⟨v, 5, 2⟩ := by
  simp [RV.merge, stampGt]

/-- `enforce_pending_capacity` keeps the NEWEST `cap` deltas -/
theorem cap_pending_keeps_newest (cap : Nat) (p : List Delta) :
    (capPending cap p).length = min cap p.length ∧ (capPending cap p) <:+ p := by
  unfold capPending
  refine ⟨by simp only [List.length_drop]; omega, List.drop_suffix _ _⟩

example : capPending 2 [(0, ⟨some 1, 1, 1⟩), (1, ⟨some 2, 2, 1⟩), (2, ⟨some 3, 3, 1⟩)] = [(1, ⟨some 2, 2, 1⟩), (2, ⟨some 3, 3, 1⟩)] := by decide


/-! ## T6 — the BUGGIFY layer (`src/buggify/*`, Model/SimBuggify): every fault decision is a function of (seed, call index)

A Lean function of `(context, calls, generator)` is deterministic by construction; what is proved
is WHICH parts of its arguments a decision can depend on — so that the hidden state of the real
code (the thread-local statistics, the `HashMap`s of the configuration and of the counters, the
position in the stream) is accounted for:

* the decisions and the generator do not depend on the check / trigger counters the thread carries
  (`fault_decisions_independent_of_stats`);
* the number of words a call sequence consumes is a function of the configuration / suppression
  history alone (`fault_stream_position`): the `i`-th decision reads the word at position
  `pos + drawCount(prefix)` — "(seed, call index)" made explicit;
* the whole fault table derived from the source: for every fault of `ALL_FAULTS` under every preset
  the probability `get` returns (exact f64 product) and the exact number of the 10^6 draw values
  that trigger (`preset_get_table`, `preset_threshold_table`). -/

/-- the catalogue generated from `faults.rs`: 40 ids -/
theorem fault_catalogue_size : allFaults.length = 40 := by decide

/-- settings of a context: everything but the counters -/
def sameSettings (a b : Ctx) : Prop := a.cfg = b.cfg ∧ a.suppressed = b.suppressed

/-- what a call sequence returns to its caller and leaves in the generator -/
def visible {σ} (r : Except String (List Bool × Ctx × σ)) : Except String (List Bool × σ) :=
  match r with
  | .ok (ds, _, g) => .ok (ds, g)
  | .error e => .error e

theorem call_sameSettings {σ} (S : Sampler σ) (a b : Ctx) (h : sameSettings a b) (c : Call) (g : σ) :
    (∃ e, a.call S c g = .error e ∧ b.call S c g = .error e) ∨
    (∃ d a' b' g', a.call S c g = .ok (d, a', g') ∧ b.call S c g = .ok (d, b', g') ∧ sameSettings a' b') := by
  obtain ⟨hc, hs⟩ := h
  cases c with
  | check id =>
    simp only [Ctx.call, hc, hs]
    by_cases hsup : b.suppressed
    · simp only [hsup, if_true]; exact .inr ⟨_, _, _, _, rfl, rfl, ⟨rfl, rfl⟩⟩
    · simp only [hsup]
      by_cases hn : noChance (F64.ofBits (b.cfg.get id))
      · simp only [hn, if_true]; exact .inr ⟨_, _, _, _, rfl, rfl, ⟨rfl, rfl⟩⟩
      · simp only [hn]
        cases hr : S.range 0 1000000 g with
        | error e => exact .inl ⟨e, rfl, rfl⟩
        | ok vg =>
          exact .inr ⟨_, _, _, _, rfl, rfl, ⟨rfl, rfl⟩⟩
  | checkProb id bits =>
    simp only [Ctx.call, hc, hs]
    by_cases hsup : (b.suppressed || !b.cfg.enabled)
    · simp only [hsup, if_true]; exact .inr ⟨_, _, _, _, rfl, rfl, ⟨rfl, rfl⟩⟩
    · simp only [hsup]
      cases hr : S.range 0 1000000 g with
      | error e => exact .inl ⟨e, rfl, rfl⟩
      | ok vg =>
        exact .inr ⟨_, _, _, _, rfl, rfl, ⟨rfl, rfl⟩⟩
  | suppress x => exact .inr ⟨_, _, _, _, rfl, rfl, ⟨hc, rfl⟩⟩
  | setConfig cfg => exact .inr ⟨_, _, _, _, rfl, rfl, ⟨rfl, hs⟩⟩
  | resetStats => exact .inr ⟨_, _, _, _, rfl, rfl, ⟨hc, hs⟩⟩

/-- full strength: the decisions a call sequence returns and the state it leaves the generator in
    are the same whatever check / trigger counters the thread carried before (the counters are the
    part of `BUGGIFY_CONTEXT` no harness resets): any generator, any calls, any configuration -/
def C20_fault_decisions_independent_of_stats : Prop :=
  ∀ (σ : Type) (S : Sampler σ) (a b : Ctx), sameSettings a b → ∀ (calls : List Call) (g : σ),
    visible (runCalls S a calls g) = visible (runCalls S b calls g)

theorem fault_decisions_independent_of_stats : C20_fault_decisions_independent_of_stats := by
  intro σ S a b h calls
  induction calls generalizing a b with
  | nil => intro g; rfl
  | cons c rest ih =>
    intro g
    rcases call_sameSettings S a b h c g with ⟨e, ha, hb⟩ | ⟨d, a', b', g', ha, hb, h'⟩
    · simp only [runCalls, ha, hb, bind, Except.bind, visible]
    · have := ih a' b' h' g'
      simp only [runCalls, ha, hb, bind, Except.bind]
      cases hra : runCalls S a' rest g' with
      | error e =>
        cases hrb : runCalls S b' rest g' with
        | error e' => rw [hra, hrb] at this; simpa [visible] using this
        | ok r => rw [hra, hrb] at this; simp [visible] at this
      | ok ra =>
        cases hrb : runCalls S b' rest g' with
        | error e' => rw [hra, hrb] at this; simp [visible] at this
        | ok rb =>
          rw [hra, hrb] at this
          obtain ⟨dsa, ca, ga⟩ := ra
          obtain ⟨dsb, cb, gb⟩ := rb
          simp only [visible, Except.ok.injEq, Prod.mk.injEq] at this
          simp only [visible, pure, Except.pure, this.1, this.2]

/-- non-vacuity: two contexts that differ in their counters only, a sequence with decisions that draw
    (chaos: network.packet_drop triggers for the draw 150000 — `0.05 * 3.0` is `0.15000000000000002`) -/
example : sameSettings { cfg := .chaos, checks := [(0, 31)] } { cfg := .chaos } ∧
    (visible (runCalls streamSampler { cfg := .chaos, checks := [(0, 31)] } [.check 0, .checkProb 6 bits_1_0] (fun _ => 150000, 0))).toOption.map (·.1) =
      some [true, true] := by
  refine ⟨⟨rfl, rfl⟩, ?_⟩
  decide

/-- full strength: over a stream of words, a call sequence started at position `pos` ends at
    `pos + drawCount …`, where `drawCount` looks at the configuration / suppression history only —
    never at a drawn value, a decision or a counter.  The `i`-th decision therefore reads the word at
    a position that is a function of the calls before it: (seed, call index) determines it. -/
def C20_fault_stream_position : Prop :=
  ∀ (ctx : Ctx) (calls : List Call) (f : Nat → Nat) (pos : Nat),
    ∃ ds ctx', runCalls streamSampler ctx calls (f, pos) = .ok (ds, ctx', (f, pos + drawCount ctx.cfg ctx.suppressed calls))

theorem call_stream (ctx : Ctx) (c : Call) (f : Nat → Nat) (pos : Nat) :
    ∃ d ctx', ctx.call streamSampler c (f, pos) = .ok (d, ctx', (f, pos + (if c.draws ctx.cfg ctx.suppressed then 1 else 0))) ∧
      ctx'.cfg = (match c with | .setConfig c' => c' | _ => ctx.cfg) ∧
      ctx'.suppressed = (match c with | .suppress b => b | _ => ctx.suppressed) := by
  cases c with
  | check id =>
    by_cases hsup : ctx.suppressed = true
    · simp [Ctx.call, Call.draws, hsup, pure, Except.pure]
      exact ⟨_, _, ⟨rfl, rfl⟩, rfl, rfl⟩
    · by_cases hn : noChance (F64.ofBits (ctx.cfg.get id)) = true
      · simp [Ctx.call, Call.draws, hsup, hn, pure, Except.pure]
        exact ⟨_, _, ⟨rfl, rfl⟩, rfl, rfl⟩
      · simp [Ctx.call, Call.draws, hsup, hn, streamSampler, bind, Except.bind, pure, Except.pure]
        exact ⟨_, _, ⟨rfl, rfl⟩, rfl, rfl⟩
  | checkProb id bits =>
    by_cases hsup : ctx.suppressed = true
    · simp [Ctx.call, Call.draws, hsup, pure, Except.pure]
      exact ⟨_, _, ⟨rfl, rfl⟩, rfl, rfl⟩
    · by_cases hen : ctx.cfg.enabled = true
      · simp [Ctx.call, Call.draws, hsup, hen, streamSampler, bind, Except.bind, pure, Except.pure]
        exact ⟨_, _, ⟨rfl, rfl⟩, rfl, rfl⟩
      · simp [Ctx.call, Call.draws, hsup, hen, pure, Except.pure]
        exact ⟨_, _, ⟨rfl, rfl⟩, rfl, rfl⟩
  | suppress x => exact ⟨_, _, rfl, rfl, rfl⟩
  | setConfig cfg => exact ⟨_, _, rfl, rfl, rfl⟩
  | resetStats => exact ⟨_, _, rfl, rfl, rfl⟩

theorem fault_stream_position : C20_fault_stream_position := by
  intro ctx calls
  induction calls generalizing ctx with
  | nil => intro f pos; exact ⟨[], ctx, rfl⟩
  | cons c rest ih =>
    intro f pos
    obtain ⟨d, ctx', hc, hcfg, hsup⟩ := call_stream ctx c f pos
    obtain ⟨ds, ctx'', hr⟩ := ih ctx' f (pos + (if c.draws ctx.cfg ctx.suppressed then 1 else 0))
    refine ⟨d.toList ++ ds, ctx'', ?_⟩
    have hpos : pos + (if c.draws ctx.cfg ctx.suppressed then 1 else 0) + drawCount ctx'.cfg ctx'.suppressed rest =
        pos + drawCount ctx.cfg ctx.suppressed (c :: rest) := by
      rw [hcfg, hsup]
      cases c <;> simp only [drawCount] <;> omega
    simp only [runCalls, hc, hr, bind, Except.bind, pure, Except.pure, hpos]
    cases d <;> rfl

/-- non-vacuity, and the formula at work: under `chaos` the suppressed call and the unconfigured
    fault (object_store.put_fail: probability 0) consume nothing; three words for five calls -/
example : drawCount FaultCfg.chaos false [.check 0, .suppress true, .check 0, .suppress false, .check 26, .checkProb 26 0, .check 6] = 3 := by
  decide


/-! ### the whole fault table, derived from the source (`Model/SimFaultTable.lean` is generated from
`faults.rs` / `config.rs`; the real objects are compared with it on every run) -/

/-- the first draw value that does NOT trigger (bisection over `[0, 10^6]`) -/
def thresholdSearch (p : F64) : Nat → Nat → Nat → Nat
  | 0, lo, _ => lo
  | f + 1, lo, hi =>
    if lo ≥ hi then lo
    else
      let mid := (lo + hi) / 2
      if buggifyTriggered mid p then thresholdSearch p f (mid + 1) hi else thresholdSearch p f lo mid

def thresholdOf (bits : Nat) : Nat := thresholdSearch (F64.ofBits bits) 21 0 1000000

/-- `T` is a threshold of the decision at its two ends: the value just below triggers, `T` itself
    does not, and 0 triggers iff anything does -/
def thresholdOk (bits : Nat) : Bool :=
  let p := F64.ofBits bits
  let t := thresholdOf bits
  (t == 0 || buggifyTriggered (t - 1) p) && (t == 1000000 || !buggifyTriggered t p) && (buggifyTriggered 0 p == (t != 0))

/-- full strength: the decision is an exact threshold on the draw — for EVERY draw value -/
def C20_buggify_decision_is_threshold (bits : Nat) : Prop :=
  ∀ r, r < 1000000 → (buggifyTriggered r (F64.ofBits bits) = true ↔ r < thresholdOf bits)

/-- `FaultConfig::get` for every fault of the catalogue under the three presets: the exact f64
    product `base * global_multiplier`, clamped.  (chaos: `0.05 * 3.0` is `0.15000000000000002`, not `0.15`.) -/
theorem preset_get_table :
    (List.range 40).map FaultCfg.calm.get =
      [4547007122018943789, 0, 0, 0, 0, 0, 4562254508917369340, 0, 4547007122018943789, 4547007122018943789, 0, 0, 0, 0, 0, 0,
       0, 0, 0, 0, 0, 0, 0, 0, 0, 0, 0, 0, 0, 0, 0, 0, 0, 0, 0, 0, 0, 0, 0, 0] ∧
    (List.range 40).map FaultCfg.moderate.get =
      [4576918229304087675, 4562254508917369340, 4572414629676717179, 4581421828931458171, 4572414629676717179,
       4576918229304087675, 4587366580439587226, 4572414629676717179, 4576918229304087675, 4576918229304087675,
       4576918229304087675, 4572414629676717179, 4562254508917369340, 4557750909289998844, 4562254508917369340,
       4576918229304087675, 4581421828931458171, 4547007122018943789, 4576918229304087675, 4562254508917369340,
       4562254508917369340, 4547007122018943789, 4581421828931458171, 4557750909289998844, 4562254508917369340,
       4547007122018943789, 0, 0, 0, 0, 0, 0, 0, 0, 0, 4581421828931458171, 4587366580439587226, 4562254508917369340,
       4547007122018943789, 4576918229304087675] ∧
    (List.range 40).map FaultCfg.chaos.get =
      [4594572339843380020, 4584304132692975288, 4588807732320345784, 4599075939470750516, 4588807732320345784,
       4594572339843380020, 4601778099247172812, 4588807732320345784, 4594572339843380020, 4594572339843380020,
       4594572339843380020, 4588807732320345784, 4584304132692975288, 4579800533065604792, 4579800533065604792,
       4594572339843380020, 4599075939470750516, 4569063951553953530, 4594572339843380020, 4579800533065604792,
       4579800533065604792, 4569063951553953530, 4599075939470750516, 4573567551181324026, 4579800533065604792,
       4569063951553953530, 0, 0, 0, 0, 0, 0, 0, 0, 0, 4599075939470750516, 4601778099247172812, 4579800533065604792,
       4569063951553953530, 4594572339843380020] ∧
    (List.range 40).map FaultCfg.disabled.get = List.replicate 40 0 ∧
    (List.range 40).map FaultCfg.new.get = List.replicate 40 0 := by
  decide

set_option maxRecDepth 20000 in
/-- … and, for every fault under every preset, how many of the 10^6 draw values trigger it
    (`_partial`: the two ends of the threshold are checked, `C20_buggify_decision_is_threshold` is the
    full statement — it needs the monotonicity of the correctly rounded quotient `r / 10^6`, not
    proved).  The object-store faults (indices 26–34) are in no preset: they never trigger and never
    draw under `should_buggify`; the streaming stores consult them with an explicit probability. -/
theorem preset_threshold_table_partial :
    (List.range 40).map (fun i => thresholdOf (FaultCfg.calm.get i)) =
      [100, 0, 0, 0, 0, 0, 1000, 0, 100, 100, 0, 0, 0, 0, 0, 0, 0, 0, 0, 0, 0, 0, 0, 0, 0, 0, 0, 0, 0, 0, 0, 0, 0, 0, 0, 0, 0, 0, 0, 0] ∧
    (List.range 40).map (fun i => thresholdOf (FaultCfg.moderate.get i)) =
      [10000, 1000, 5000, 20000, 5000, 10000, 50000, 5000, 10000, 10000, 10000, 5000, 1000, 500, 1000, 10000, 20000, 100,
       10000, 1000, 1000, 100, 20000, 500, 1000, 100, 0, 0, 0, 0, 0, 0, 0, 0, 0, 20000, 50000, 1000, 100, 10000] ∧
    (List.range 40).map (fun i => thresholdOf (FaultCfg.chaos.get i)) =
      [150001, 30000, 60000, 300001, 60000, 150001, 450000, 60000, 150001, 150001, 150001, 60000, 30000, 15000, 15000, 150001,
       300001, 3000, 150001, 15000, 15000, 3000, 300001, 6000, 15000, 3000, 0, 0, 0, 0, 0, 0, 0, 0, 0, 300001, 450000, 15000,
       3000, 150001] ∧
    ((List.range 40).all fun i => thresholdOk (FaultCfg.calm.get i) && thresholdOk (FaultCfg.moderate.get i) && thresholdOk (FaultCfg.chaos.get i)) = true := by
  decide

/-- the convenience macros: `buggify_rarely!` 0.001, `buggify_sometimes!` 0.05, `buggify_often!` 0.20 -/
theorem buggify_macro_thresholds :
    thresholdOf 0x3F50624DD2F1A9FC = 1000 ∧ thresholdOf 0x3FA999999999999A = 50000 ∧ thresholdOf 0x3FC999999999999A = 200000 ∧
    thresholdOk 0x3F50624DD2F1A9FC = true ∧ thresholdOk 0x3FA999999999999A = true ∧ thresholdOk 0x3FC999999999999A = true := by
  decide

/-- what `get` returns is NaN or lies in `[0, 1]` — whatever base probability and multiplier: the
    clamp is the last step -/
theorem fault_get_in_unit_interval (c : FaultCfg) (id : Nat) :
    (F64.ofBits (c.get id)).isNaN = true ∨
    (f64Lt (F64.ofBits (c.get id)) (F64.ofBits 0) = false ∧ f64Lt (F64.ofBits SimBuggify.bits_1_0) (F64.ofBits (c.get id)) = false) := by
  unfold FaultCfg.get
  split
  · right; decide
  · generalize f64Mul _ _ = b
    unfold clampBits
    simp only
    split
    · left; decide
    · split
      · right; decide
      · split
        · right; decide
        · right; constructor <;> simp_all

/-- `set` stores the clamped probability; out-of-range and special values, concretely -/
theorem fault_set_clamps :
    clampBits 0x3FF8000000000000 = SimBuggify.bits_1_0 ∧ clampBits 0xBFD0000000000000 = 0 ∧ clampBits 0x7FF0000000000000 = SimBuggify.bits_1_0 ∧
    clampBits 0xFFF0000000000000 = 0 ∧ clampBits 0x8000000000000000 = 0x8000000000000000 ∧ clampBits bitsNaN = bitsNaN ∧
    maxZeroBits bitsNaN = 0 ∧ maxZeroBits 0xBFF0000000000000 = 0 ∧ maxZeroBits 0x4008000000000000 = 0x4008000000000000 := by
  decide

/-- the exact product at the corners: a subnormal result, an overflow, `0 * inf` -/
theorem f64_mul_table :
    f64Mul (F64.ofBits 0x3F50624DD2F1A9FC) (F64.ofBits 0x3FB999999999999A) = 0x3F1A36E2EB1C432D ∧
    f64Mul (F64.ofBits 0x3FA999999999999A) (F64.ofBits 0x4008000000000000) = 0x3FC3333333333334 ∧
    f64Mul (F64.ofBits 1) (F64.ofBits 0x3FE0000000000000) = 0 ∧
    f64Mul (F64.ofBits 3) (F64.ofBits 0x3FE0000000000000) = 2 ∧
    f64Mul (F64.ofBits 0x7FEFFFFFFFFFFFFF) (F64.ofBits 0x4000000000000000) = bitsInf ∧
    f64Mul (F64.ofBits 0) (F64.ofBits bitsInf) = bitsNaN := by
  decide


/-! ### `FaultConfig::probabilities` is a `HashMap` that is only inserted into and looked up -/

theorem faultcfg_set_comm (c : FaultCfg) (h : NMap.WF c.probs) (k1 v1 k2 v2 : Nat) (hk : k1 ≠ k2) :
    (c.set k1 v1).set k2 v2 = (c.set k2 v2).set k1 v1 := by
  simp only [FaultCfg.set]
  congr 1
  apply NMap.ext (NMap.wf_insert (NMap.wf_insert h)) (NMap.wf_insert (NMap.wf_insert h))
  intro k
  simp only [NMap.get_insert]
  by_cases h1 : k = k1 <;> by_cases h2 : k = k2 <;> simp_all

theorem faultcfg_set_wf (c : FaultCfg) (h : NMap.WF c.probs) (k v : Nat) : NMap.WF (c.set k v).probs :=
  NMap.wf_insert h

theorem faultcfg_setAll_perm (l l' : List (Nat × Nat)) (hp : l.Perm l') :
    (l.map (·.1)).Nodup → ∀ (c : FaultCfg), NMap.WF c.probs → c.setAll l = c.setAll l' := by
  induction hp with
  | nil => intro _ c _; rfl
  | cons x _ ih =>
    intro hn c hc
    simp only [List.map_cons, List.nodup_cons] at hn
    simp only [FaultCfg.setAll, List.foldl_cons]
    exact ih hn.2 (c.set x.1 x.2) (faultcfg_set_wf c hc _ _)
  | swap x y l =>
    intro hn c hc
    simp only [List.map_cons, List.nodup_cons, List.mem_cons, not_or] at hn
    simp only [FaultCfg.setAll, List.foldl_cons]
    rw [faultcfg_set_comm c hc y.1 y.2 x.1 x.2 hn.1.1]
  | trans h1 _ ih1 ih2 =>
    intro hn c hc
    rw [ih1 hn c hc]
    exact ih2 (((h1.map (·.1)).nodup_iff).mp hn) c hc

/-- full strength: a configuration built by `set` calls on DISTINCT faults does not depend on the
    order of the calls — the order of the lines of a preset constructor, or the insertion order of
    the `HashMap`, cannot reach any `get`, hence no decision -/
def C20_fault_config_set_order_independent : Prop :=
  ∀ (l l' : List (Nat × Nat)), l.Perm l' → (l.map (·.1)).Nodup → ∀ (c : FaultCfg), NMap.WF c.probs →
    c.setAll l = c.setAll l'

theorem fault_config_set_order_independent : C20_fault_config_set_order_independent :=
  fun l l' hp hn c hc => faultcfg_setAll_perm l l' hp hn c hc

/-- non-vacuity: the three presets set pairwise distinct faults; `chaos` built backwards is `chaos` -/
example : (calmSets.map (·.1)).Nodup ∧ (moderateSets.map (·.1)).Nodup ∧ (chaosSets.map (·.1)).Nodup ∧
    ({ FaultCfg.new with mult := chaosMult }).setAll chaosSets.reverse = FaultCfg.chaos := by
  refine ⟨by decide, by decide, by decide, ?_⟩
  exact (faultcfg_setAll_perm _ _ (List.reverse_perm chaosSets) (by decide) _ (by decide)).trans rfl

/-- with a repeated fault the LAST `set` wins: there the order matters, as it must -/
example : (FaultCfg.new.setAll [(0, 0x3FE0000000000000), (0, 0x3FF0000000000000)]).get 0 = 0x3FF0000000000000 ∧
    (FaultCfg.new.setAll [(0, 0x3FF0000000000000), (0, 0x3FE0000000000000)]).get 0 = 0x3FE0000000000000 := by decide

end C20
end RedisVerif
