import RedisVerif.Props.C14
import RedisVerif.Props.C14Bincode
import RedisVerif.Lemmas.JsonWire

/-!
# C14 — gossip frames: the serde_json encoding made concrete

`Props/C14.lean` proves `gossip_roundtrip` over an abstract `ser`/`de` pair with the round-trip law as a
hypothesis.  Here `ser` is the byte-exact model of what `GossipMessage::serialize` (`serde_json::to_vec`
over the derived impls and `impl Serialize for SDS`) writes, and `de` the canonical JSON decoder
(`Model/Json.lean`): decimal integers, the exact escape table of serde_json's string writer, byte arrays
as arrays of numbers, integer map keys as strings, externally tagged enums, `null` for `None` — maps and
sets in WIRE order, so every `HashMap` iteration order is covered.  The REAL bytes of every generated frame
are decoded by this model on every run (op `JG`), as are their truncations and (where the document stays
canonical) their bit flips (op `JX`).

* `gossip_json_roundtrip` — `deserialize (serialize m) = m` for EVERY representable message: all five
  variants, any number of deltas of any CRDT kind, any strings (every byte below 0x20, quotes,
  backslashes, non-ASCII), binary payloads, `u64::MAX` stamps — structural induction, no bound.
  `gossip_roundtrip_concrete` is `C14.gossip_roundtrip` with the law discharged.
* `gossip_json_decode_exact` — the decoder accepts no second spelling: whatever it accepts is, byte for
  byte, the serialisation of what it returns; `gossip_json_enc_injective`.
* `gossip_json_truncated_rejected` — no proper prefix of a frame is a frame.
* `gossip_json_delta_same_value_as_bincode` — the two encodings of a delta (WAL / segment payload and
  gossip frame) are encodings of the SAME wire value type: what bincode round-trips and what JSON
  round-trips is one and the same `WDelta`.
-/
namespace RedisVerif
namespace C14

open Json Codec

/-- every representable gossip message survives `serialize` / `deserialize`, bit for bit -/
theorem gossip_json_roundtrip (m : WMsg) (hm : msg.ok m) : deMsg (serMsg m) = some m := by
  unfold deMsg serMsg
  have := closed_msg m [] hm
  rw [List.append_nil] at this
  rw [this]

/-- whatever `deserialize` accepts (among canonical documents) is the serialisation of what it returns -/
theorem gossip_json_decode_exact (bs : Bytes) (m : WMsg) (h : deMsg bs = some m) : bs = serMsg m ∧ msg.ok m := by
  unfold deMsg at h
  split at h
  · rename_i m' hd
    simp only [Option.some.injEq] at h
    subst h
    obtain ⟨e, o⟩ := lawful_msg.exact bs m' [] hd
    exact ⟨by rw [e, List.append_nil]; rfl, o⟩
  · cases h

theorem gossip_json_enc_injective (a b : WMsg) (ha : msg.ok a) (hb : msg.ok b) (h : serMsg a = serMsg b) : a = b := by
  have h1 := gossip_json_roundtrip a ha
  have h2 := gossip_json_roundtrip b hb
  rw [h, h2] at h1
  exact (Option.some.inj h1).symm

/-- a truncated frame is never a frame -/
theorem gossip_json_truncated_rejected (m : WMsg) (hm : msg.ok m) (n : Nat) (hn : n < (serMsg m).length) :
    deMsg ((serMsg m).take n) = none := by
  cases hd : deMsg ((serMsg m).take n) with
  | none => rfl
  | some m' =>
    exfalso
    obtain ⟨e, o⟩ := gossip_json_decode_exact _ m' hd
    -- the full frame is the shorter frame followed by something: the decoder is self-delimiting
    have hsplit : serMsg m = serMsg m' ++ (serMsg m).drop n := by
      rw [← e, List.take_append_drop]
    have h1 := closed_msg m' ((serMsg m).drop n) o
    have h2 := closed_msg m [] hm
    rw [List.append_nil] at h2
    unfold serMsg at hsplit h1 hn
    rw [← hsplit, h2] at h1
    simp only [Option.some.injEq, Prod.mk.injEq] at h1
    have := congrArg List.length h1.2
    simp only [List.length_nil, List.length_drop] at this
    omega

/-- the gossip codec of the abstract theorem, concrete -/
def jsonCodec : SerDe WMsg := { ser := serMsg, de := deMsg }

/-- `C14.gossip_roundtrip` with its hypothesis discharged: a gossip message arrives unchanged -/
theorem gossip_roundtrip_concrete (m : WMsg) (hm : msg.ok m) : gossipDeliver jsonCodec m = some m :=
  gossip_roundtrip jsonCodec m (gossip_json_roundtrip m hm)

/-- one delta, both encodings: the JSON model and the bincode model are codecs of the same wire value,
    each with its round trip -/
theorem gossip_json_delta_same_value_as_bincode (d : Bincode.WDelta) (hj : Json.delta.ok d) (hb : Bincode.delta.ok d) :
    (Json.delta.dec (Json.delta.enc d)).map (·.1) = some d ∧ Bincode.deDelta (Bincode.delta.enc d) = some d := by
  refine ⟨?_, Concrete.deDelta_enc d hb⟩
  have := lawful_delta.rt d [] hj delim_nil
  rw [List.append_nil] at this
  rw [this]; rfl

-- non-vacuity: a frame with every CRDT kind, a key with a quote, a newline, a control byte and a
-- non-ASCII character, a binary payload, round-trips by evaluation too
example : ∀ d ∈ sampleDeltas, deMsg (serMsg (.deltaBatch 2 [d, ⟨[107, 34, 10, 1, 195, 169], d.value, 0⟩] (2 ^ 64 - 1)))
    = some (.deltaBatch 2 [d, ⟨[107, 34, 10, 1, 195, 169], d.value, 0⟩] (2 ^ 64 - 1)) := by decide +kernel

end C14
end RedisVerif
