import RedisVerif.Props.C09
import RedisVerif.Props.C14Bincode
import RedisVerif.Lemmas.WalCompose

/-!
# C09 ∘ C10 ∘ C14 — an acknowledged delta comes back from recovery, bit-identical

One theorem across the three models:

* C09 (`Model/WalActor.lean`): the group-commit actor over the rotator over a store with per-file
  synced length and a fault oracle — `durable_survives`: an `Ok`-acked ENTRY is in the crash image;
* C10 (`Model/Wal.lean`): what recovery reads from a file image — here used along the reachable
  stores of the C09 model (`Lemmas/WalSource.lean`: every file of every store of every history is a
  prefix of a clean image of entries that were appended), so that EVERYTHING recovery returns was
  written: nothing invented, nothing altered, whatever was torn, failed, crashed or truncated;
* C14 (`Model/Bincode.lean`): the payload of an entry is the byte-exact bincode encoding of the
  delta of the `Write` message (`WalEntry::from_delta`), the checksum is the executable CRC-32, and
  `to_delta` is the model's own bincode decoder.

`acked_delta_recovered_bit_identical`: for ALL sequences of messages whose `Write`s carry deltas,
all batchings, rotation thresholds, fault oracles and crash instants `t`: for a `write_durable`
answered `Ok` when at most `t` I/O calls had been issued, `recover_entries_after(T)` on the crash
image at `t` SUCCEEDS (no undecodable payload can fail it) and returns a list containing exactly
the delta that was handed to `write_durable` — equal as a value, and its bincode bytes on disk are
the bytes `from_delta` produced — for every `T` up to its stamp, unless a `TruncateUpTo` at or above
its stamp was handled.  `recovery_returns_only_written_deltas`: at EVERY instant of every history,
`recover_entries_after(T)` on the crash image succeeds and every delta it returns was carried by a
`Write` message stamped `≥ T`.
-/
namespace RedisVerif
namespace C09

open Wal Bincode Driver Concrete

/-! ## the composed theorems -/

/-- at EVERY instant of EVERY history — whatever the faults, torn appends, crashes, restarts and
    truncations — `recover_entries_after(T)` on the crash image succeeds, and every delta it returns
    was carried by a `Write` message stamped `≥ T`: recovery neither fails on, invents nor alters
    anything -/
theorem recovery_returns_only_written_deltas (φ : Nat → Outcome) (maxSize : Nat) (devs : List DEv)
    (hfit : ∀ p ∈ writesOf devs, DeltaFits p.1 p.2) (t : Nat) (st : Store)
    (hst : (Actor.run true false φ .v2 crc32 maxSize (devs.map DEv.toEv)).rot.w.storeAt t = some st) (T : Nat) :
    ∃ ds, recoverAfter .v2 crc32 deDelta T (crashImage st) = some ds ∧
      ∀ d ∈ ds, ∃ ts, (d, ts) ∈ writesOf devs ∧ T ≤ ts := by
  have hs := srcinv_run (P := Written devs) true false φ (written_good devs hfit) maxSize _ (from_written devs)
  obtain ⟨ds, hds, _, h2⟩ := recoverAfter_written devs hfit (crashImage st) (recovered_from hs t st hst).1 T
  exact ⟨ds, hds, fun d hd => by obtain ⟨ts, h1, h2', _⟩ := h2 d hd; exact ⟨ts, h1, h2'⟩⟩

/-- MAIN (C09 ∘ C10 ∘ C14): a `write_durable(delta, ts)` that was answered `Ok` — the ack `r` carries
    the id of that call — is returned by `recover_entries_after(T)` on the crash image at every
    later instant, for every `T ≤ ts`: the call succeeds and the list contains the very delta (and the
    entry on disk is `from_delta(delta, ts)`, byte for byte: `r.entry = entryOf d ts`), unless a
    `TruncateUpTo` at or above `ts` was handled.  All message sequences, batchings, rotation
    thresholds, fault oracles, incarnations, crash instants. -/
theorem acked_delta_recovered_bit_identical (φ : Nat → Outcome) (maxSize : Nat) (devs : List DEv)
    (hfit : ∀ p ∈ writesOf devs, DeltaFits p.1 p.2) :
    ∀ r ∈ (Actor.run true false φ .v2 crc32 maxSize (devs.map DEv.toEv)).acks, r.res = .ok →
      ∃ d ts, (r.id, d, ts) ∈ durableWritesOf devs ∧ r.entry = entryOf d ts ∧
        ∀ t st, r.io ≤ t →
          (Actor.run true false φ .v2 crc32 maxSize (devs.map DEv.toEv)).rot.w.storeAt t = some st →
          (∀ T, T ≤ ts → ∃ ds, recoverAfter .v2 crc32 deDelta T (crashImage st) = some ds ∧ d ∈ ds) ∨
            ts < (Actor.run true false φ .v2 crc32 maxSize (devs.map DEv.toEv)).tbound := by
  intro r hr hok
  obtain ⟨q, hq, hid, hent⟩ := (ackSrc_run devs true false φ maxSize).1 r hr
  obtain ⟨id, d, ts⟩ := q
  simp only at hid hent
  subst hid
  refine ⟨d, ts, hq, hent, fun t st hle hst => ?_⟩
  have hfd : DeltaFits d ts := by
    -- the call is one of the writes of the history
    have : (d, ts) ∈ writesOf devs := by
      clear hr hok hent hst hle
      induction devs with
      | nil => cases hq
      | cons ev rest ih =>
        cases ev with
        | write id' d' ts' =>
          simp only [durableWritesOf, List.mem_cons] at hq
          rcases hq with h | h
          · cases h; simp [writesOf]
          · exact List.mem_cons_of_mem _ (ih (fun p hp => hfit p (List.mem_cons_of_mem _ hp)) h)
        | forget id' d' ts' =>
          exact List.mem_cons_of_mem _ (ih (fun p hp => hfit p (List.mem_cons_of_mem _ hp)) hq)
        | tick => exact ih hfit hq
        | truncate T => exact ih hfit hq
        | flush => exact ih hfit hq
        | reopen c => exact ih hfit hq
    exact hfit _ this
  rcases durable_survives .v2 crc32 φ maxSize _ (ok_of_fits devs hfit) r hr hok t st hle hst with hdur | htr
  · left
    intro T hT
    have hs := srcinv_run (P := Written devs) true false φ (written_good devs hfit) maxSize _ (from_written devs)
    obtain ⟨ds, hds, h1, _⟩ := recoverAfter_written devs hfit (crashImage st) (recovered_from hs t st hst).1 T
    refine ⟨ds, hds, h1 d ts ?_ hfd hT⟩
    rw [← hent]
    exact hdur
  · right
    rw [hent] at htr
    exact htr

/-- the payload on disk is bit-identical to what `bincode::serialize(delta)` produced: two deltas
    whose entries coincide are the same delta (bincode's encoding is injective on representable
    values) — so "the entry is recovered" and "the delta is recovered" say the same thing -/
theorem entryOf_injective (d d' : WDelta) (ts ts' : Nat) (hd : DeltaFits d ts) (hd' : DeltaFits d' ts')
    (h : entryOf d ts = entryOf d' ts') : d = d' ∧ ts = ts' := by
  have h1 : delta.enc d = delta.enc d' := congrArg Entry.data h
  have h2 : ts = ts' := congrArg Entry.ts h
  exact ⟨C14.bincode_enc_injective d d' hd.1 hd'.1 h1, h2⟩

-- non-vacuity: the sample deltas of C14 (every CRDT kind) fit
example : ∀ d ∈ C14.sampleDeltas, deDelta (delta.enc d) = some d ∧ (delta.enc d).length < 2 ^ 32 := by decide +kernel

end C09
end RedisVerif
