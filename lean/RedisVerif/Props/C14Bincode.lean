import RedisVerif.Props.C14
import RedisVerif.Lemmas.Concrete

/-!
# C14 with the parameters made concrete: bincode and CRC-32

`Props/C14.lean` proves the framing theorems over abstract `crc`, `ser`, `de` (with the round-trip
law and `CrcDetects` as hypotheses).  Here the payload codec is the byte-exact model of the bincode
encoding the code uses (`Model/Bincode.lean`: fixed-width little-endian integers, u64 length
prefixes, u32 enum variant index, option / bool bytes, UTF-8 checked strings, maps and sets in wire
order, trailing bytes allowed — compared with the real `bincode::serialize` / `deserialize` on every
run, op `BD`/`BS`), and `crc` is the executable CRC-32 (`Driver/Crc32.lean`, compared with
`crc32fast` on every run).  Nothing is assumed about either any more:

* `bincode_roundtrip` / `bincode_state_roundtrip` — `de (ser v ++ anything) = (v, anything)` for EVERY
  representable delta / checkpoint state: every CRDT kind, any number of entries, any wire order
  of the maps and sets (structural induction, no bound);
* `bincode_decode_exact` — whatever the decoder accepts is byte for byte the encoding of what it
  returns: it never over-reads, accepts no second spelling, returns only representable values;
  `bincode_truncated_payload_rejected` — no proper prefix of an encoding decodes (to anything);
  `bincode_cells_bounded` — the collections / buffers a decoder materialises have fewer elements
  than the bytes it consumed (the real deserialiser has NO byte limit configured —
  `bincode::deserialize` = `DefaultOptions … allow_trailing_bytes`, limit `Infinite` — so this bound
  by the input is the only one there is; serde's `size_hint::cautious` additionally caps every
  pre-allocation at 1 MiB);
* `wal_entry_roundtrip_concrete`, `segment_roundtrip_concrete`, `checkpoint_roundtrip_concrete` — the
  round trips of C14 without the `ser/de` law and without the `… < 2^32` hypotheses on checksums;
* `crc32_linear`, `crc32_detects_window4`, `crc32_detects_burst32`, `crc32_detects_single_byte` — restated from
  `Lemmas/Crc32.lean`; `segment_record_byte_corruption_detected`, `wal_payload_byte_corruption_detected`,
  `wal_stamp_byte_corruption_detected` — a changed byte (any single-bit flip included) of a segment's
  record region / a WAL entry's payload / stamp is an error, for every image, with NO hypothesis
  on the checksum.  Still assumed where used: damage wider than a 32-bit burst / 4 consecutive
  bytes, and damage to a LENGTH field (the checksum then covers a string of another length).
* `checkpoint_load_unvalidated_crashes_counterexample` — `CheckpointReader::load` called without
  `validate` PANICS on a checkpoint cut inside its data section (known finding
  `C14:checkpoint:load-without-validate:panics-on-short-image`; prepared fix: model variant
  `checked = true`, `checkpoint_load_checked_never_crashes`).
-/
namespace RedisVerif
namespace C14

open Wal Codec Bincode Driver Concrete

/-! ## the bincode model -/

theorem bincode_roundtrip (d : WDelta) (rest : Bytes) (hd : delta.ok d) :
    delta.dec (delta.enc d ++ rest) = some (d, rest) := lawful_delta.rt d rest hd

theorem bincode_state_roundtrip (s : WState) (rest : Bytes) (hs : state.ok s) :
    state.dec (state.enc s ++ rest) = some (s, rest) := lawful_state.rt s rest hs

/-- `bincode::deserialize` ignores trailing bytes -/
theorem bincode_trailing_bytes_ignored (d : WDelta) (junk : Bytes) (hd : delta.ok d) :
    deDelta (delta.enc d ++ junk) = some d := by
  unfold deDelta; rw [bincode_roundtrip d junk hd]; rfl

theorem bincode_decode_exact (bs : Bytes) (d : WDelta) (rest : Bytes) (h : delta.dec bs = some (d, rest)) :
    bs = delta.enc d ++ rest ∧ delta.ok d := lawful_delta.exact bs d rest h

theorem bincode_state_decode_exact (bs : Bytes) (s : WState) (rest : Bytes) (h : state.dec bs = some (s, rest)) :
    bs = state.enc s ++ rest ∧ state.ok s := lawful_state.exact bs s rest h

theorem bincode_truncated_payload_rejected (d : WDelta) (hd : delta.ok d) (n : Nat)
    (hn : n < (delta.enc d).length) : deDelta ((delta.enc d).take n) = none := by
  unfold deDelta; rw [lawful_delta.truncated_none d hd n hn]; rfl

theorem bincode_truncated_state_rejected (s : WState) (hs : state.ok s) (n : Nat)
    (hn : n < (state.enc s).length) : deState ((state.enc s).take n) = none := by
  unfold deState; rw [lawful_state.truncated_none s hs n hn]; rfl

theorem bincode_cells_bounded (bs : Bytes) (d : WDelta) (rest : Bytes) (h : delta.dec bs = some (d, rest)) :
    delta.cells d < bs.length - rest.length := lawful_delta.cells_bounded bs d rest h

theorem bincode_state_cells_bounded (bs : Bytes) (s : WState) (rest : Bytes) (h : state.dec bs = some (s, rest)) :
    state.cells s < bs.length - rest.length := lawful_state.cells_bounded bs s rest h

theorem bincode_enc_injective (a b : WDelta) (ha : delta.ok a) (hb : delta.ok b) (h : delta.enc a = delta.enc b) :
    a = b := lawful_delta.enc_injective a b ha hb h

/-- a delta of every CRDT kind, with vector clock, expiry, replication factor, binary payload,
    a non-ASCII key and maps in NON-sorted wire order -/
def sampleDeltas : List WDelta :=
  [ ⟨[107], ⟨.lww ⟨some [255, 0], 7, 1, false⟩, none, none, 7, 1, none⟩, 1⟩,
    ⟨[195, 169], ⟨.gcounter [(9, 1), (2, 5)], some [(3, 4), (1, 2)], some 99, 2 ^ 64 - 1, 2, some 255⟩, 2⟩,
    ⟨[], ⟨.pncounter [(1, 1)] [], none, none, 0, 0, none⟩, 0⟩,
    ⟨[115], ⟨.gset [[98], [97], []], none, none, 1, 1, none⟩, 1⟩,
    ⟨[111], ⟨.orset [([120], [(2, 1), (1, 1)]), ([], [])] [(2, 2), (1, 2)], none, none, 1, 1, none⟩, 1⟩,
    ⟨[104], ⟨.hash [([102], ⟨none, 3, 1, true⟩), ([101], ⟨some [], 4, 2, false⟩)], none, none, 4, 2, none⟩, 1⟩ ]

-- non-vacuity: they are representable, and the laws hold on them by evaluation too
example : ∀ d ∈ sampleDeltas, deDelta (delta.enc d ++ [1, 2, 3]) = some d := by decide +kernel

/-! ## CRC-32 -/

/-- linearity over GF(2): for equal lengths the difference of the checksums is the register run
    over the difference of the messages -/
theorem crc32_linear (a b : Bytes) (h : a.length = b.length) :
    crc32 a ^^^ crc32 b = Crc.raw 0 (Crc.xorB a b) := Crc.crc32_xor a b h

/-- every change confined to (at most) 4 consecutive bytes of a byte message of ANY length
    changes its CRC-32: all single-bit errors, all single-byte errors, all bursts ≤ 25 bits, all
    byte-aligned bursts ≤ 32 bits -/
theorem crc32_detects_window4 (pre w w' post : Bytes) (hlen : w.length = w'.length) (h4 : w.length ≤ 4)
    (hw : ∀ x ∈ w, x < 256) (hw' : ∀ x ∈ w', x < 256) (hne : w ≠ w') :
    crc32 (pre ++ w ++ post) ≠ crc32 (pre ++ w' ++ post) :=
  Crc.crc32_detects_window pre w w' post hlen h4 hw hw' hne

/-- … and every burst of at most 32 bits of the bit stream that straddles five bytes (CRC-32 consumes
    each byte LSB first: the first difference byte is a non-zero multiple of 2^q, the fifth is below
    2^q).  With `crc32_detects_window4`: EVERY burst of ≤ 32 bits, wherever it starts -/
theorem crc32_detects_burst32 (pre w w' post : Bytes) (q t m1 m2 m3 b4 : Nat) (hlen : w.length = w'.length)
    (hx : Crc.xorB w w' = [2 ^ q * t, m1, m2, m3, b4]) (hq : q ≤ 8) (ht : 0 < t) (hb0 : 2 ^ q * t < 256)
    (h1 : m1 < 256) (h2 : m2 < 256) (h3 : m3 < 256) (h4 : b4 < 2 ^ q) :
    crc32 (pre ++ w ++ post) ≠ crc32 (pre ++ w' ++ post) :=
  Crc.crc32_detects_burst32 pre w w' post q t m1 m2 m3 b4 hlen hx hq ht hb0 h1 h2 h3 h4

-- non-vacuity: bits 4..7 of the first byte through bits 0..3 of the fifth (a 32-bit burst, q = 4)
example : crc32 ([9] ++ [0x10, 0, 0, 0, 0x0F] ++ [1, 2]) ≠ crc32 ([9] ++ [0, 0, 0, 0, 0] ++ [1, 2]) :=
  crc32_detects_burst32 [9] [0x10, 0, 0, 0, 0x0F] [0, 0, 0, 0, 0] [1, 2] 4 1 0 0 0 0x0F rfl (by decide)
    (by decide) (by decide) (by decide) (by decide) (by decide) (by decide) (by decide)

theorem crc32_detects_single_byte (m : Bytes) (i v : Nat) (hi : i < m.length) (hm : ∀ x ∈ m, x < 256) (hv : v < 256)
    (hne : m[i]'hi ≠ v) : crc32 (m.set i v) ≠ crc32 m := Crc.crc32_detects_set m i v hi hm hv hne

theorem crc32_is_u32 (bs : Bytes) (hb : ∀ b ∈ bs, b < 256) : crc32 bs < 2 ^ 32 := Crc.crc32_lt bs hb

-- non-vacuity
example : crc32 ([1, 2, 3, 4, 5].set 2 7) ≠ crc32 [1, 2, 3, 4, 5] :=
  crc32_detects_single_byte [1, 2, 3, 4, 5] 2 7 (by decide) (by decide) (by decide) (by decide)

/-! ## the round trips of C14, every parameter concrete -/

/-- `to_delta(decode(encode(from_delta(d, ts))))` = `d`, stamp preserved, anything may follow -/
theorem wal_entry_roundtrip_concrete (d : WDelta) (ts : Nat) (rest : Bytes) (hd : delta.ok d)
    (hts : ts < 2 ^ 64) (hlen : (delta.enc d).length < 2 ^ 32) :
    (decode .v2 crc32 ((Entry.mk' .v2 crc32 (delta.enc d) ts).encode ++ rest)).bind (fun p => deDelta p.1.data) = some d ∧
    (decode .v2 crc32 ((Entry.mk' .v2 crc32 (delta.enc d) ts).encode ++ rest)).map (fun p => p.1.ts) = some ts := by
  apply wal_entry_roundtrip .v2 crc32 delta.enc deDelta d ts rest (deDelta_enc d hd)
  · exact ⟨hlen, hts, Crc.crc32_lt _ (bytes_of_allBytes (allBytes_covered .v2 _ _ _ (lawful_delta.enc_bytes d hd)))⟩
  · intro _; exact enc_ne_nil lawful_delta d

/-- a written segment reads back exactly the deltas written: any batch size, every CRDT kind -/
theorem segment_roundtrip_concrete (strict : Bool) (ds : List WDelta) (ts : List Nat) (img : Bytes)
    (hok : ∀ d ∈ ds, delta.ok d) (hn : ds.length < 2 ^ 32) (hl : ∀ d ∈ ds, (delta.enc d).length < 2 ^ 32)
    (hw : writeSegment crc32 (ds.map delta.enc) ts = some img) :
    readSegment strict crc32 deDelta img = .ok ds := by
  apply segment_roundtrip strict crc32 delta.enc deDelta ds ts img (fun d hd => deDelta_enc d (hok d hd)) _ hw
  apply segFits_crc32
  · simpa using hn
  · intro p hp
    obtain ⟨d, hd, rfl⟩ := List.mem_map.mp hp
    exact hl d hd
  · intro p hp
    obtain ⟨d, hd, rfl⟩ := List.mem_map.mp hp
    exact lawful_delta.enc_bytes d (hok d hd)

/-- a written checkpoint reads back the state written -/
theorem checkpoint_roundtrip_concrete (s : WState) (k t l : Nat) (hs : state.ok s)
    (hl : (state.enc s).length < 2 ^ 32) :
    readCheckpoint crc32 deState (writeCheckpoint crc32 k t l (state.enc s)) = .ok s :=
  checkpoint_roundtrip crc32 state.enc deState s k t l (deState_enc s hs)
    (chkFits_crc32 k t l _ hl (lawful_state.enc_bytes s hs))

/-! ## single-byte damage is detected — no hypothesis on the checksum -/

/-- one byte of the record region of a segment changed (header and footer as written for the
    pristine records): the read is an error -/
theorem segment_record_byte_corruption_detected {δ : Type} (strict : Bool) (de : Bytes → Option δ)
    (hdr recs : Bytes) (i v : Nat) (hi : i < recs.length) (hb : ∀ x ∈ recs, x < 256) (hv : v < 256)
    (hne : recs[i]'hi ≠ v) :
    IsErr (readSegParts strict crc32 de hdr (recs.set i v) (segFooter crc32 recs)) := by
  apply readSegParts_err_of_data_crc
  have hf : (segFooter crc32 recs).take 4 = le 4 (crc32 recs) := by
    unfold segFooter; exact List.take_left' (le_length 4 _)
  rw [hf, leVal_le 4 _ (by simpa using Crc.crc32_lt recs hb)]
  exact Crc.crc32_detects_set recs i v hi hb hv hne

/-- one payload byte of a WAL entry changed (length, stamp and stored checksum as written): the
    entry does not decode, so recovery of its file ends before it -/
theorem wal_payload_byte_corruption_detected (seq : Nat) (es : List Entry) (e : Entry) (i v : Nat) (rest : Bytes)
    (hs : seq < 2 ^ 64) (hok : AllOk .v2 crc32 es) (he : e.Good .v2 crc32) (hb : ∀ x ∈ e.data, x < 256)
    (hi : i < e.data.length) (hv : v < 256) (hne : e.data[i]'hi ≠ v) :
    fileEntries .v2 crc32 (fileImage .v2 seq es ++ ((Entry.mk (e.data.set i v) e.ts e.crc).encode ++ rest)) = es := by
  apply C10.corruption_stops_payload .v2 crc32 seq es (e.data.set i v) e.ts e.crc rest hs hok
  · exact ⟨by simpa using he.1.1, he.1.2.1, he.1.2.2⟩
  · rw [← he.2.1, List.length_set, covered_set_data]
    have hall : ∀ x ∈ covered .v2 e.data.length e.ts e.data, x < 256 :=
      bytes_of_allBytes (allBytes_covered .v2 _ _ _ (allBytes_of_bytes hb))
    have hlen : 12 + i < (covered .v2 e.data.length e.ts e.data).length := by
      rw [covered_v2_eq]; simp [le_length]; omega
    apply Crc.crc32_detects_set _ (12 + i) v hlen hall hv
    rw [covered_getElem_data _ _ _ _ hi]; exact hne

/-- the stamp of a WAL entry changed within one byte (`ts'` and `e.ts` differ in exactly one of the 8
    little-endian bytes): the entry does not decode -/
theorem wal_stamp_byte_corruption_detected (seq : Nat) (es : List Entry) (e : Entry) (ts' j v : Nat) (rest : Bytes)
    (hs : seq < 2 ^ 64) (hok : AllOk .v2 crc32 es) (he : e.Good .v2 crc32) (hb : ∀ x ∈ e.data, x < 256)
    (ht : ts' < 2 ^ 64) (hj : j < 8) (hv : v < 256) (hle : le 8 ts' = (le 8 e.ts).set j v)
    (hne : (le 8 e.ts)[j]'(by simp [le_length]; exact hj) ≠ v) :
    fileEntries .v2 crc32 (fileImage .v2 seq es ++ ((Entry.mk e.data ts' e.crc).encode ++ rest)) = es := by
  apply C10.timestamp_corruption_stops_v2 crc32 seq es e ts' rest hs hok he ht
  rw [covered_set_stamp _ _ _ j v hj ts' hle]
  have hall : ∀ x ∈ covered .v2 e.data.length e.ts e.data, x < 256 :=
    bytes_of_allBytes (allBytes_covered .v2 _ _ _ (allBytes_of_bytes hb))
  have hlen : 4 + j < (covered .v2 e.data.length e.ts e.data).length := by
    simp [covered, le_length]; omega
  apply Crc.crc32_detects_set _ (4 + j) v hlen hall hv
  rw [covered_getElem_stamp _ _ _ j hj]; exact hne

/-! ## `CheckpointReader::load` without `validate` -/

/-- THE CODE AS IT IS: a written checkpoint cut right after its header (or anywhere before the end
    of its data section) passes `open`, and `load` panics -/
theorem checkpoint_load_unvalidated_crashes_counterexample :
    ∃ (img : Bytes) (n : Nat), n < img.length ∧
      readCheckpoint crc32 deState img = .ok [] ∧
      (loadCheckpoint false crc32 deState (img.take n)).isCrash = true := by
  refine ⟨writeCheckpoint crc32 0 1 1 (state.enc []), 48, by decide +kernel, by decide +kernel, ?_⟩
  decide +kernel

/-- every cut before the end of the data section crashes the unchecked `load` (all images whose
    header `open` accepts) -/
theorem checkpoint_load_unvalidated_crashes {σ : Type} (crc : Bytes → Nat) (de : Bytes → Option σ) (data : Bytes)
    (hopen : 48 ≤ data.length ∧ (data.take 48).take 4 = chkMagic ∧ ((data.take 48).drop 4).take 1 = [1] ∧
      crc ((data.take 48).take 6 ++ ((data.take 48).drop 8).take 24) = leVal (((data.take 48).drop 44).take 4))
    (hshort : data.length < 52 ∨ data.length < 52 + leVal ((data.drop 48).take 4)) :
    (loadCheckpoint false crc de data).isCrash = true := by
  obtain ⟨h48, hm, hv, hc⟩ := hopen
  unfold loadCheckpoint
  rw [if_neg (by omega)]
  simp only [hm, hv, hc, ne_eq, not_true_eq_false, if_false]
  rcases hshort with h | h
  · rw [if_pos h]; rfl
  · by_cases h52 : data.length < 52
    · rw [if_pos h52]; rfl
    · rw [if_neg h52, if_pos h]; rfl

/-- THE PROPOSED FIX (`checked = true`): `load` never panics, whatever the bytes -/
theorem checkpoint_load_checked_never_crashes {σ : Type} (crc : Bytes → Nat) (de : Bytes → Option σ) (data : Bytes) :
    (loadCheckpoint true crc de data).isCrash = false := by
  unfold loadCheckpoint
  simp only [if_true]
  repeat' split
  all_goals rfl

/-- … and on an intact image both variants return what the validated read returns -/
theorem checkpoint_load_agrees_after_validate (checked : Bool) :
    (loadCheckpoint checked crc32 deState (writeCheckpoint crc32 0 1 1 (state.enc []))).toOption = some [] := by
  cases checked <;> decide +kernel

end C14
end RedisVerif
