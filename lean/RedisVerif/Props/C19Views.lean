import RedisVerif.Props.C19

/-!
# C19 — routing with an OLD membership view while the ring changes (session 4)

Gossip of membership and gossip of data are independent: a sender routes a batch with the ring
it knows (`old`) while the cluster has already become `cur = old` + a sequence of `add_node` /
`remove_node`.  What the router then guarantees, and what it cannot:

* `stale_view_exact_for_uninvolved_keys` — every delta whose key is not involved in any of the
  changes (the leaving node is not one of its replicas when it leaves, the joining node is not one
  once it has joined) is handed to EXACTLY the owners under the CURRENT ring other than the sender:
  the stale view is invisible for those keys (consistent hashing: all but ≈ rf/n of the keys per
  change).
* `stale_view_starved_owner_is_new` — an owner under the current ring that is not handed a delta
  of the batch is never an owner under the old view: only nodes that BECAME owners through the
  changes (the joining node; the successor that takes over from a leaving owner) can miss an
  update, and `stale_view_starves_new_owner_witness` shows that they do.
* That gap is closed by anti-entropy, not by routing: `C18.update_held_by_one_reaches_all`
  (Props/C18Net.lean) — an update held by ANY node of an anti-entropy session (the sender always
  holds its own write) is held by every node after any interleaving followed by a fair round.
-/
namespace RedisVerif
namespace C19

open Ring

/-- **C19 (stale view, uninvolved keys)**: routed with `old`, owned under `cur` -/
theorem stale_view_exact_for_uninvolved_keys (hashV : Nat → Nat → Nat) (old : HashRing) (cs : List (Bool × Nat))
    (rt : Router) (deltas : List Nat) (t : Nat) (hr : Reachable hashV old) (hcov : PeersCoverMembers old rt)
    (hu : ∀ d ∈ deltas, Uninvolved hashV d old cs) :
    row (routeSelective old rt deltas) t
      = deltas.filter (fun d => decide (t ∈ getReplicas (cs.foldl (applyChange hashV) old) d) && (t != rt.self)) := by
  rw [route_covers_owners hashV old rt deltas t hr hcov]
  apply List.filter_congr
  intro d hd
  rw [minimal_disruption_sequence hashV d cs old hr (hu d hd)]

/-- **C19 (stale view, who can be starved)**: only a node that was not an owner under the old view -/
theorem stale_view_starved_owner_is_new (hashV : Nat → Nat → Nat) (old : HashRing) (cs : List (Bool × Nat))
    (rt : Router) (deltas : List Nat) (t d : Nat) (hr : Reachable hashV old) (hcov : PeersCoverMembers old rt)
    (hd : d ∈ deltas) (hself : t ≠ rt.self)
    (_hown : t ∈ getReplicas (cs.foldl (applyChange hashV) old) d)
    (hmiss : ¬ d ∈ row (routeSelective old rt deltas) t) :
    ¬ t ∈ getReplicas old d := by
  intro hold
  apply hmiss
  rw [route_covers_owners hashV old rt deltas t hr hcov, List.mem_filter]
  refine ⟨hd, ?_⟩
  simp [hold, hself]

/-- four nodes at positions 10 / 20 / 30 / 40 -/
def vwHash : Nat → Nat → Nat := fun n _ => n * 10

/-- node 1 routes the key at position 15 with the view {1,2,3,4}, rf 2 (owners 2, 3) while node 2
    has left (owners now 3, 4): node 4, an owner under the current ring, is handed nothing; node 2,
    which is gone, is still a target -/
theorem stale_view_starves_new_owner_witness :
    let old := newTB .joinOrder vwHash [1, 2, 3, 4] 1 2
    let cur := [(false, 2)].foldl (applyChange vwHash) old
    let rt : Router := { self := 1, peers := [(2, 0), (3, 1), (4, 2)], selective := true }
    getReplicas old 15 = [2, 3] ∧ getReplicas cur 15 = [3, 4]
    ∧ row (routeSelective old rt [15]) 4 = [] ∧ row (routeSelective old rt [15]) 2 = [15]
    ∧ row (routeSelective old rt [15]) 3 = [15] := by
  decide

-- non-vacuity of `stale_view_exact_for_uninvolved_keys`: the key at position 35 (owners 4, 1) is
-- not involved when node 2 leaves
example :
    let old := newTB .joinOrder vwHash [1, 2, 3, 4] 1 2
    Uninvolved vwHash 35 old [(false, 2)] ∧ PeersCoverMembers old { self := 1, peers := [(2, 0), (3, 1), (4, 2)], selective := true }
    ∧ getReplicas old 35 = [4, 1] := by
  refine ⟨?_, by decide, by decide⟩
  simp only [Uninvolved, and_true]
  decide

end C19
end RedisVerif
