import RedisVerif.Props.C02
import RedisVerif.Props.C03M7
import RedisVerif.Lemmas.Script7

/-!
# C02 over the M7 reference executor: every command type, Lua scripts, time

`Props/C02.lean` proves linearizability of the actor system w.r.t. whatever executor the shards run
and refines it to ONE store for the single-key commands of the SMALL executor (`ShardsStr`), with
scripts modelled as a single-key command.  This file does it for the M7 reference executor (the
model C01 validates against the real `CommandExecutor`) and for REAL multi-command scripts:

* `Redis.prog_localOn` (Lemmas/Script7) — a script (any deterministic program over `redis.call`,
  `Redis.Prog`) whose calls name only keys of `K` is local on `K`.
* `script_refines` — a script runs inside ONE shard-actor message (`execScript7`: the shard of
  `KEYS[1]` adopts the time, then the whole script runs on ITS store): if every key the script can
  name lives on that shard, the N-shard node answers like `runProg` on one store — the script is one
  atomic step.  `cmd_refines` — the same, with EQUAL replies, for every M7 command that names its
  keys and travels as one message (all five value types, expiry commands, same-shard two-key
  commands).
* `linearizable_m7_single_store` — every execution of the actor system (every interleaving, any
  number of shards / clients / pooled slots, abandoned requests) whose requests are such commands
  and scripts, and in which operations take effect at non-decreasing virtual times (`LinMono`,
  decidable on a log), is linearizable w.r.t. ONE store on which each command and each WHOLE
  script is one atomic step (`spec7`).  This is the composition that `linearizable_timed` +
  `shard_count_unobservable_timed` left open for the small model, here proved (under `LinMono`).
* `script_cross_shard_counterexample` / `script_cross_shard_not_linearizable` — a script that touches
  a key whose home is another shard (undeclared, or a second KEYS entry on another shard) is NOT
  atomic w.r.t. one store: the key is planted in the script's shard (known findings
  `C03:script-undeclared-key`, `C03:two-key:EVALSIE`, replayed on the real code on every run).

Scope against C05: MULTI/EXEC is NOT a request of this model.  `EXEC` replays the queued commands one
awaited `execute()` at a time; in this model that is a sequence of separate `Req7.cmd` requests of
one client, between which other clients' requests may take effect (no isolation: the C05 finding).
What C02 claims for a transaction is therefore exactly what it claims for its commands one by one.
-/
namespace RedisVerif
namespace C02
open Actors Shards NMap Shards.M7 C03
open Redis (Entry cmdKeys Prog runProg ProgKeys LocalOn)

/-- the requests the C02 claim over M7 is about -/
def ReqOk (R : Routes) : Req7 → Prop
  | .cmd _ c => CmdOk R c = true
  | .script _ k p => ∃ K, k ∈ K ∧ ProgKeys K p ∧ ∀ x ∈ K, R.bytes x = R.bytes k

/-- a transformer that is local on `K`, run on two stores that a reader at `now` cannot tell apart and
    that agree on `K` -/
theorem localOn_agree {K : List Nat} {f : Redis.State → Redis.State × Redis.Reply} (L : LocalOn K f) (now : Nat)
    (a p : Redis.State) (ha : WF a) (hp : WF p) (hK : ∀ k ∈ K, get a k = get p k)
    (hrel : ∀ t', now ≤ t' → ∀ k, lv t' (get a k) = lv t' (get p k)) :
    (f a).2 = (f p).2 ∧ ∀ t', now ≤ t' → ∀ k, lv t' (get (f a).1 k) = lv t' (get (f p).1 k) := by
  obtain ⟨e1, e2⟩ := L.loc a p ha hp hK
  refine ⟨e1, ?_⟩
  intro t' ht k
  by_cases hm : k ∈ K
  · rw [e2 k hm]
  · rw [L.frame a k ha hm, L.frame p k hp hm]; exact hrel t' ht k

theorem rel_after_sweep {R : Routes} {st : Shards Entry} {s1 : Redis.State} {t now : Nat}
    (h : Rel7 R st s1 t) (ht : t ≤ now) (W : Nat → Bool) :
    (∀ t', now ≤ t' → ∀ k, lv t' (get (abs (sweep W now st)) k) = lv t' (get (Redis.purge s1 now) k)) ∧
    (∀ k, W (R.bytes k) = true → get (abs (sweep W now st)) k = get (Redis.purge s1 now) k) := by
  have hget : ∀ k, get (abs (sweep W now st)) k =
      if W (R.bytes k) then lv now (get (abs st) k) else get (abs st) k := get_abs_sweep h.inv W now
  constructor
  · intro t' ht' k
    rw [hget k, get_purge_lv h.wf1, lv_lv ht']
    split
    · rw [lv_lv ht']; exact h.view t' (Nat.le_trans ht ht') k
    · exact h.view t' (Nat.le_trans ht ht') k
  · intro k hk
    rw [hget k, if_pos hk, get_purge_lv h.wf1]
    exact h.view now ht k

/-- **a script whose keys live on the shard of `KEYS[1]`** is one atomic local step: the N-shard
    node answers like `runProg` on one store and stays indistinguishable from it -/
theorem script_refines {R : Routes} (hv : R.Valid) {st : Shards Entry} {s1 : Redis.State} {t now : Nat}
    (h : Rel7 R st s1 t) (ht : t ≤ now) (k : Nat) (p : Prog) (K : List Nat)
    (hpk : ProgKeys K p) (hK : ∀ x ∈ K, R.bytes x = R.bytes k) :
    (execScript7 R now st k p).2 = (spec7 s1 (.script now k p)).2 ∧
    Rel7 R (execScript7 R now st k p).1 (spec7 s1 (.script now k p)).1 now := by
  have L := Redis.prog_localOn now hpk
  have hinv0 := inv_sweep h.inv (fun j => j == R.bytes k) now
  have hwp := Redis.wf_purge now h.wf1
  obtain ⟨hrel0, hswept⟩ := rel_after_sweep h ht (fun j => j == R.bytes k)
  obtain ⟨hi, ha, hq⟩ := refine_onShard hinv0 (R.bytes k) (hv k).2 (fun x => runProg x now p) K hK
    (fun x hx => L.wf x hx) (fun x k' hx hk' => L.frame x k' hx hk')
    (fun x y hx hy hxy => L.loc x y hx hy hxy)
  obtain ⟨e1, e2⟩ := localOn_agree L now _ _ hinv0.wf_abs hwp
    (fun x hx => hswept x (by simp [hK x hx])) hrel0
  refine ⟨?_, hi, L.wf _ hwp, ?_⟩
  · show Reply.one (.ext _) = Reply.one (.ext _)
    rw [hq, e1]
  · intro t' ht' x
    show lv t' (get (abs ((sweep (fun j => j == R.bytes k) now st).set (R.bytes k) _)) x) = _
    rw [ha]
    exact e2 t' ht' x


theorem keyList_inject (now : Nat) (c : Redis.Cmd) (K : List Nat) (hK : cmdKeys c = some K) :
    keyList (inject now c) = K ∧ Keyed (inject now c) = true := by
  cases c <;> simp only [cmdKeys, Option.some.injEq, reduceCtorEq] at hK <;> try subst hK
  all_goals first
    | exact ⟨rfl, rfl⟩
    | (rename_i st; cases st <;> simp only [Option.some.injEq] at hK <;> subst hK <;> exact ⟨rfl, rfl⟩)

theorem cmdOk_keys {R : Routes} {c : Redis.Cmd} (h : CmdOk R c = true) :
    Routable7 R c = true ∧ ∃ K, cmdKeys c = some K := by
  unfold CmdOk at h
  simp only [Bool.and_eq_true] at h
  refine ⟨h.1, ?_⟩
  cases c
  all_goals first
    | exact ⟨_, rfl⟩
    | (rename_i st; cases st <;> exact ⟨_, rfl⟩)
    | (exfalso; revert h; simp [cmdKeys, Routable7])

theorem keyed_reply (s : Store sig7.Val) (sc : Cmd sig7) (hk : Keyed sc = true) :
    (∀ l, (exec7.exec s sc).2 ≠ .keys l) ∧ (∀ o, (exec7.exec s sc).2 ≠ .rkey o) := by
  cases sc <;> simp only [Keyed, reduceCtorEq] at hk
  case single k op =>
    show (∀ l, (exec7.exec1 s k op).2 ≠ _) ∧ (∀ o, (exec7.exec1 s k op).2 ≠ _)
    by_cases h : cmdKeys op.2 = some [k]
    · rw [exec1_pos h]; exact ⟨fun _ e => (by cases e), fun _ e => (by cases e)⟩
    · rw [exec1_neg h]; exact ⟨fun _ e => (by cases e), fun _ e => (by cases e)⟩
  case two a b op =>
    show (∀ l, (exec7.exec2 s a b op).2 ≠ _) ∧ (∀ o, (exec7.exec2 s a b op).2 ≠ _)
    by_cases h : cmdKeys op.2 = some [a, b]
    · rw [exec2_pos h]; exact ⟨fun _ e => (by cases e), fun _ e => (by cases e)⟩
    · rw [exec2_neg h]; exact ⟨fun _ e => (by cases e), fun _ e => (by cases e)⟩
  case msetnx kvs =>
    rw [exec_msetnx]
    split <;> exact ⟨fun _ e => (by cases e), fun _ e => (by cases e)⟩
  all_goals exact ⟨fun _ e => (by cases e), fun _ e => (by cases e)⟩

theorem eq_of_replyEqv {x y : Reply} (h : replyEqv x y = true) (h1 : ∀ l, y ≠ .keys l) (h2 : ∀ o, y ≠ .rkey o) :
    x = y := by
  cases y with
  | keys l => exact absurd rfl (h1 l)
  | rkey o => exact absurd rfl (h2 o)
  | one r => cases x <;> simp only [replyEqv, beq_iff_eq, reduceCtorEq] at h <;> exact h
  | many l => cases x <;> simp only [replyEqv, beq_iff_eq, reduceCtorEq] at h <;> exact h
  | scan c l => cases x <;> simp only [replyEqv, beq_iff_eq, reduceCtorEq] at h <;> exact h

/-- **a command that names its keys and travels as one message**: the N-shard node answers EXACTLY
    like one executor on one store and stays indistinguishable from it -/
theorem cmd_refines {R : Routes} (hv : R.Valid) (hN : 0 < R.N) {st : Shards Entry} {s1 : Redis.State}
    {t now : Nat} (h : Rel7 R st s1 t) (ht : t ≤ now) (c : Redis.Cmd) (hok : CmdOk R c = true) :
    (execNT7code R now st c).2 = (spec7 s1 (.cmd now c)).2 ∧
    Rel7 R (execNT7code R now st c).1 (spec7 s1 (.cmd now c)).1 now := by
  obtain ⟨hr, K, hK⟩ := cmdOk_keys hok
  obtain ⟨hkl, hkeyed⟩ := keyList_inject now c K hK
  have hinv0 := inv_sweep h.inv (recv R (inject now c)) now
  have hwa := hinv0.wf_abs
  have hwp := Redis.wf_purge now h.wf1
  obtain ⟨hrel0, hswept⟩ := rel_after_sweep h ht (recv R (inject now c))
  obtain ⟨hi, ha, hq⟩ := shards_refine_single_m7 R hv hN hinv0 (inject now c) (routable_inject R now c hr)
  have hagree : ∀ k ∈ keyList (inject now c), get (abs (sweep (recv R (inject now c)) now st)) k =
      get (Redis.purge s1 now) k := by
    intro k hk
    rw [hkl] at hk
    exact hswept k (recv_covers R now c hr K hK k hk)
  obtain ⟨e1, e2⟩ := exec_local exec7_local (inject now c) hkeyed _ _ hwa hwp hagree
  obtain ⟨n1, n2⟩ := keyed_reply (abs (sweep (recv R (inject now c)) now st)) (inject now c) hkeyed
  refine ⟨?_, hi, exec_wf exec7_local _ _ hwp, ?_⟩
  · show (execN exec7 R true (sweep (recv R (inject now c)) now st) (inject now c)).2 = _
    rw [eq_of_replyEqv hq n1 n2]
    exact e1
  · intro t' ht' k
    show lv t' (get (abs (execN exec7 R true (sweep (recv R (inject now c)) now st) (inject now c)).1) k) =
      lv t' (get (exec7.exec (Redis.purge s1 now) (inject now c)).1 k)
    rw [ha]
    by_cases hm : k ∈ keyList (inject now c)
    · rw [e2 k hm]
    · rw [exec_frame exec7_local _ hkeyed _ hwa k hm, exec_frame exec7_local _ hkeyed _ hwp k hm]
      exact hrel0 t' ht' k

/-- one request of either kind -/
theorem req7_refines {R : Routes} (hv : R.Valid) (hN : 0 < R.N) {st : Shards Entry} {s1 : Redis.State}
    {t : Nat} (h : Rel7 R st s1 t) (req : Req7) (ht : t ≤ req.time) (hok : ReqOk R req) :
    (stepN7 R st req).2 = (spec7 s1 req).2 ∧ Rel7 R (stepN7 R st req).1 (spec7 s1 req).1 req.time := by
  cases req with
  | cmd now c => exact cmd_refines hv hN h ht c hok
  | script now k p =>
    obtain ⟨K, _, hpk, hK⟩ := hok
    exact script_refines hv h ht k p K hpk hK


/-! ## from the N-shard node to ONE store, along a whole log -/

theorem replay_sim7 {R : Routes} (hv : R.Valid) (hN : 0 < R.N) (log : List (Ev Req7 Reply))
    (t : Nat) (tm : NMap Nat)
    (rA rA' : RState (Shards Entry) Req7 Reply) (rB : RState Redis.State Req7 Reply)
    (hrel : Rel7 R rA.s rB.s t) (hp : rA.pend = rB.pend) (hd : rA.done = rB.done) (hn : rA.next = rB.next)
    (hwf : WF rA.pend)
    (hok : ∀ id req, get rA.pend id = some req → ReqOk R req ∧ get tm id = some req.time)
    (hlog : ∀ id req, (.inv id req) ∈ log → ReqOk R req)
    (hmono : LinMono tm t log)
    (h : replay (stepN7 R) rA log = some rA') :
    ∃ rB', replay spec7 rB log = some rB' := by
  induction log generalizing rA rB t tm with
  | nil => exact ⟨rB, rfl⟩
  | cons e es ih =>
    simp only [replay] at h ⊢
    cases he : stepEv (stepN7 R) rA e with
    | none => rw [he] at h; cases h
    | some rA1 =>
      rw [he] at h
      cases e with
      | inv id req =>
        simp only [stepEv] at he ⊢
        by_cases hle : rA.next ≤ id
        · rw [if_pos hle] at he
          rw [if_pos (by rw [← hn]; exact hle)]
          injection he with he
          subst he
          apply ih (t := t) (tm := NMap.insert id req.time tm)
            (rA := { rA with pend := NMap.insert id req rA.pend, next := id + 1 })
            (rB := { rB with pend := NMap.insert id req rB.pend, next := id + 1 })
          · exact hrel
          · show NMap.insert id req rA.pend = NMap.insert id req rB.pend; rw [hp]
          · exact hd
          · rfl
          · exact wf_insert hwf
          · intro id' req' hg
            rw [get_insert] at hg ⊢
            by_cases e1 : id' = id
            · rw [if_pos e1] at hg ⊢
              injection hg with hg; rw [← hg]
              exact ⟨hlog id req (by simp), rfl⟩
            · rw [if_neg e1] at hg ⊢
              exact hok id' req' hg
          · intro id' req' hm; exact hlog id' req' (by simp [hm])
          · exact hmono
          · exact h
        · rw [if_neg hle] at he; cases he
      | lin id resp =>
        simp only [stepEv] at he ⊢
        rw [← hp]
        cases hg : get rA.pend id with
        | none => rw [hg] at he; cases he
        | some req =>
          rw [hg] at he
          simp only at he ⊢
          obtain ⟨hokr, htm⟩ := hok id req hg
          have hm2 : t ≤ req.time ∧ LinMono tm req.time es := by
            have := hmono
            simp only [LinMono, htm] at this
            exact this
          obtain ⟨s2, s1⟩ := req7_refines hv hN hrel req hm2.1 hokr
          by_cases hr : (stepN7 R rA.s req).2 = resp
          · rw [if_pos hr] at he
            rw [if_pos (by rw [← s2]; exact hr)]
            injection he with he
            subst he
            apply ih (t := req.time) (tm := tm)
              (rA := { rA with s := (stepN7 R rA.s req).1, pend := NMap.erase id rA.pend, done := NMap.insert id resp rA.done })
              (rB := { rB with s := (spec7 rB.s req).1, pend := NMap.erase id rA.pend, done := NMap.insert id resp rB.done })
            · exact s1
            · rfl
            · show NMap.insert id resp rA.done = NMap.insert id resp rB.done; rw [hd]
            · exact hn
            · exact wf_erase hwf
            · intro id' req' hg'
              rw [get_erase hwf] at hg'
              by_cases e1 : id' = id
              · rw [if_pos e1] at hg'; cases hg'
              · rw [if_neg e1] at hg'; exact hok id' req' hg'
            · intro id' req' hm; exact hlog id' req' (by simp [hm])
            · exact hm2.2
            · exact h
          · rw [if_neg hr] at he; cases he
      | res id resp =>
        simp only [stepEv] at he ⊢
        rw [← hd]
        by_cases hg : get rA.done id = some resp
        · rw [if_pos hg] at he
          rw [if_pos hg]
          injection he with he
          subst he
          exact ih (t := t) (tm := tm) { rA with done := NMap.erase id rA.done } { rB with done := NMap.erase id rA.done }
            hrel hp rfl hn hwf hok
            (fun id' req' hm => hlog id' req' (by simp [hm])) hmono h
        · rw [if_neg hg] at he; cases he

/-- **C02 over M7, with scripts and with time**: every execution of the actor system whose shard
    actors run the N-shard M7 node (`stepN7`: timed commands of every type AND Lua scripts, one
    message each) — every interleaving, any number of shards, clients, slots, abandoned requests —
    in which operations take effect at non-decreasing virtual times is linearizable w.r.t. ONE store
    on which every command and every WHOLE SCRIPT is one atomic step (`spec7`) -/
theorem linearizable_m7_single_store (R : Routes) (hv : R.Valid) (hN : 0 < R.N) {pool : Nat}
    {s : Sys (Shards Entry) Req7 Reply}
    (hr : Reach (stepN7 R) (route7 R) (Shards.init Entry R.N) pool s)
    (hok : ∀ id req, (.inv id req) ∈ s.log → ReqOk R req)
    (hmono : LinMono [] 0 s.log) :
    ValidLog spec7 Redis.init s.log ∧ Linearizable spec7 Redis.init (history s.log) := by
  obtain ⟨hvl, _⟩ := linearizable (stepN7 R) (route7 R) (Shards.init Entry R.N) hr
  have hv2 : ValidLog spec7 Redis.init s.log := by
    unfold ValidLog at hvl ⊢
    cases hrep : replay (stepN7 R) (initR (Shards.init Entry R.N)) s.log with
    | none => rw [hrep] at hvl; cases hvl
    | some rA =>
      obtain ⟨rB, hb⟩ := replay_sim7 hv hN s.log 0 [] (initR (Shards.init Entry R.N)) rA (initR Redis.init)
        (rel7_init R) rfl rfl rfl wf_nil (by intro id req hg; cases hg) hok hmono hrep
      rw [hb]; rfl
  exact ⟨hv2, s.log, rfl, hv2⟩


/-! ### the response pool at and beyond its capacity

  `ResponsePool::acquire` pops a pooled slot or — when the pool is EXHAUSTED — allocates a new one
  (`Step.invokePooled` / `Step.invokeFresh`); `release` pushes the slot back or — when the pool is FULL
  — drops it (`Step.retRelease` / `Step.retDrop`).  The model leaves both choices to the scheduler, so
  every capacity (0, 1, …) and every fill level is among the executions the theorems quantify over. -/

section pool
variable {σ Req Resp : Type} [DecidableEq Resp] (step : σ → Req → σ × Resp) (route : Req → Nat) (s0 : σ)

/-- **no reply is lost**, whatever the pool does: once no mailbox holds the message of a waiting
    client any more, the response computed for ITS request is in ITS slot — also when the slot is a
    fall-back allocation of an exhausted pool, and whatever other clients abandoned -/
theorem reply_not_lost {pool : Nat} {s : Sys σ Req Resp} (hr : Reach step route s0 pool s)
    (c id : Nat) (req : Req) (sid : Nat) (hc : s.client c = .waiting id req sid)
    (hgone : ∀ i m, m ∈ s.mail i → m.id ≠ id) :
    ∃ resp, s.slot sid = some resp ∧ (.lin id resp) ∈ s.log ∧ sid ∉ s.pool := by
  obtain ⟨r, hi⟩ := reach_inv step route s0 hr
  obtain ⟨_, _, h3, _, h5⟩ := hi.cl c id req sid hc
  rcases h5 with ⟨b1, _, _⟩ | ⟨_, resp, b2, _, b4⟩
  · exact absurd rfl (hgone _ _ b1)
  · exact ⟨resp, b2, b4, h3⟩

end pool

/-- non-vacuity with an EMPTY pool (capacity exhausted from the start): two pooled requests both fall
    back to fresh slots, the shard answers both, each client takes its own reply; the second slot is
    released into the pool and REUSED by a third request, which again gets its own reply -/
theorem exhausted_pool_reach : ∃ s, Reach echo (fun _ => 0) () 0 s ∧
    history s.log = [.inv 0 10, .inv 1 20, .res 1 20, .res 0 10, .inv 2 30, .res 2 30] ∧ s.pool = [1] := by
  have r0 : Reach echo (fun _ => 0) () 0 (Sys.init () 0) := Reach.init
  have r1 := Reach.step r0 (Step.invokeFresh _ 0 10 rfl)
  have r2 := Reach.step r1 (Step.invokeFresh _ 1 20 rfl)
  have r3 := Reach.step r2 (Step.exec _ 0 ⟨0, 0, 10⟩ [⟨1, 1, 20⟩] rfl)
  have r4 := Reach.step r3 (Step.exec _ 0 ⟨1, 1, 20⟩ [] rfl)
  have r5 := Reach.step r4 (Step.retRelease _ 1 1 20 1 20 rfl rfl)
  have r6 := Reach.step r5 (Step.retDrop _ 0 0 10 0 10 rfl rfl)
  have r7 := Reach.step r6 (Step.invokePooled _ 0 30 1 [] rfl rfl)
  have r8 := Reach.step r7 (Step.exec _ 0 ⟨2, 1, 30⟩ [] rfl)
  have r9 := Reach.step r8 (Step.retRelease _ 0 2 30 1 30 rfl rfl)
  exact ⟨_, r9, rfl, rfl⟩

/-! ### decidability, non-vacuity, the refuted part -/

def decLinMono : (pend : NMap Nat) → (t : Nat) → (l : List (Ev Req7 Reply)) → Decidable (LinMono pend t l)
  | _, _, [] => isTrue trivial
  | pend, t, .inv id req :: es => decLinMono (NMap.insert id req.time pend) t es
  | pend, t, .lin id _ :: es =>
    match h : NMap.get pend id with
    | some tr =>
      match Nat.decLe t tr, decLinMono pend tr es with
      | isTrue h1, isTrue h2 => isTrue (by simp only [LinMono, h]; exact ⟨h1, h2⟩)
      | isFalse h1, _ => isFalse (by simp only [LinMono, h]; exact fun x => h1 x.1)
      | _, isFalse h2 => isFalse (by simp only [LinMono, h]; exact fun x => h2 x.2)
    | none =>
      match decLinMono pend t es with
      | isTrue h2 => isTrue (by simp only [LinMono, h]; exact h2)
      | isFalse h2 => isFalse (by simp only [LinMono, h]; exact h2)
  | pend, t, .res _ _ :: es => decLinMono pend t es

instance (pend : NMap Nat) (t : Nat) (l : List (Ev Req7 Reply)) : Decidable (LinMono pend t l) :=
  decLinMono pend t l

/-- `local v = redis.call('GET', KEYS[1]); redis.call('SET', KEYS[1], ARGV[1]); return v` (a
    WRONGTYPE error of the GET aborts the script) -/
def swapProg (k : Nat) (v : Redis.BS) : Prog :=
  .call (.get k) (fun r => match r with
    | .err e => .ret (.err e)
    | r => .call (.set k v .always .none false) (fun _ => .ret r))

theorem swapProg_keys (k : Nat) (v : Redis.BS) : ProgKeys [k] (swapProg k v) :=
  .call _ _ [k] rfl (by simp) (fun r => by
    cases r <;> first | exact .ret _ | exact .call _ _ [k] rfl (by simp) (fun _ => .ret _))

/-- non-vacuity: client 0's script on key 1 and client 1's SET of key 1 are both in flight at the
    shard of key 1; the script runs first, the SET second; then client 1 reads key 2 on the other
    shard.  The hypotheses of `linearizable_m7_single_store` hold and its conclusion follows. -/
theorem script_reach : ∃ s, Reach (stepN7 routes7) (route7 routes7) (Shards.init Entry 2) 0 s ∧
    history s.log = [.inv 0 (.script 5 1 (swapProg 1 [119])), .inv 1 (.cmd 6 (.set 1 [120] .always (.px 10) false)),
      .res 0 (.one (.ext .nil)), .res 1 (.one (.ext .ok)), .inv 2 (.cmd 30 (.get 1)), .res 2 (.one (.ext .nil))] ∧
    (∀ id req, (.inv id req) ∈ s.log → ReqOk routes7 req) ∧ LinMono [] 0 s.log := by
  have r0 : Reach (stepN7 routes7) (route7 routes7) (Shards.init Entry 2) 0 (Sys.init _ 0) := Reach.init
  have r1 := Reach.step r0 (Step.invokeFresh _ 0 (.script 5 1 (swapProg 1 [119])) rfl)
  have r2 := Reach.step r1 (Step.invokeFresh _ 1 (.cmd 6 (.set 1 [120] .always (.px 10) false)) rfl)
  have r3 := Reach.step r2 (Step.exec _ 0 ⟨0, 0, .script 5 1 (swapProg 1 [119])⟩ [⟨1, 1, .cmd 6 (.set 1 [120] .always (.px 10) false)⟩] rfl)
  have r4 := Reach.step r3 (Step.exec _ 0 ⟨1, 1, .cmd 6 (.set 1 [120] .always (.px 10) false)⟩ [] rfl)
  have r5 := Reach.step r4 (Step.retDrop _ 0 0 (.script 5 1 (swapProg 1 [119])) 0 (.one (.ext .nil)) rfl rfl)
  have r6 := Reach.step r5 (Step.retDrop _ 1 1 (.cmd 6 (.set 1 [120] .always (.px 10) false)) 1 (.one (.ext .ok)) rfl rfl)
  have r7 := Reach.step r6 (Step.invokeFresh _ 0 (.cmd 30 (.get 1)) rfl)
  have r8 := Reach.step r7 (Step.exec _ 0 ⟨2, 2, .cmd 30 (.get 1)⟩ [] rfl)
  have r9 := Reach.step r8 (Step.retDrop _ 0 2 (.cmd 30 (.get 1)) 2 (.one (.ext .nil)) rfl rfl)
  refine ⟨_, r9, rfl, ?_, by decide⟩
  intro id req hm
  simp only [List.mem_append, List.mem_cons, List.not_mem_nil, or_false, reduceCtorEq,
    Ev.inv.injEq] at hm
  rcases hm with ((hm | ⟨_, rfl⟩) | ⟨_, rfl⟩) | ⟨_, rfl⟩
  · cases hm
  · exact ⟨[1], by simp, swapProg_keys 1 [119], by simp⟩
  · show CmdOk routes7 _ = true; decide
  · show CmdOk routes7 _ = true; decide

example : Linearizable spec7 Redis.init
    ([.inv 0 (.script 5 1 (swapProg 1 [119])), .inv 1 (.cmd 6 (.set 1 [120] .always (.px 10) false)),
      .res 0 (.one (.ext .nil)), .res 1 (.one (.ext .ok)), .inv 2 (.cmd 30 (.get 1)),
      .res 2 (.one (.ext .nil))] : List (Ev Req7 Reply)) := by
  obtain ⟨s, hr, hh, hok, hm⟩ := script_reach
  rw [← hh]
  exact (linearizable_m7_single_store routes7 routes7_valid (by decide) hr hok hm).2

/-- a script with `KEYS[1] = 1` (home: shard 0) that writes key 2 (home: shard 1) -/
def strayProg : Prog := .call (.set 2 [118] .always .none false) (fun r => .ret r)

/-- **a script that touches a key of another shard is not one atomic step of one store**: it
    plants key 2 in shard 0; the next GET of key 2 asks shard 1 and finds nothing -/
theorem script_cross_shard_counterexample :
    (stepN7 routes7 (stepN7 routes7 (Shards.init Entry 2) (.script 0 1 strayProg)).1 (.cmd 0 (.get 2))).2
      = .one (.ext .nil) ∧
    (spec7 (spec7 Redis.init (.script 0 1 strayProg)).1 (.cmd 0 (.get 2))).2 = .one (.ext (.bulk [118])) ∧
    ¬ (∀ x ∈ [2], routes7.bytes x = routes7.bytes 1) := by decide

/-- … and the history one client observes of it (script answered OK, then GET answered nil) has no
    linearization on one store -/
theorem script_cross_shard_not_linearizable :
    ¬ Linearizable spec7 Redis.init
      (seqHist [(0, Req7.script 0 1 strayProg, Reply.one (.ext .ok)), (1, .cmd 0 (.get 2), .one (.ext .nil))]) := by
  intro h
  have := seq_lin_legal spec7 Redis.init _ h
  exact absurd this.2.1 (by decide)

end C02
end RedisVerif
