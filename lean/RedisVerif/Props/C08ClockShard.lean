import RedisVerif.Props.C08Clock

/-!
# C08: the u64 clock of a SHARD below the bound

`Props/C08Clock.lean` proves that the machine clock (wrapping or checked u64 arithmetic) equals the
exact `Nat` clock for any sequence of `tick` / `update` operations that stays below 2^64.  Here
that is lifted to whole shard histories: `clockOps s op` is the exact sequence of clock
operations one step of the shard model performs — a SET ticks once, a DEL ticks once when it finds
a string or a hash, an HSET ticks once per field/value pair, an HDEL once per NAMED field that is
stored (tombstoned fields included: the entry stays in the map), a delivered or recovered value
`update`s once with its outer time — and

* `step_clock` / `run_clock`: the shard's Lamport time after any history IS `clockRun` of those
  operations (the only places the model moves the clock; `stamp_sites` of the harness counts the
  same places in the source);
* `shard_clock_u64_exact`: as long as `max(start, every stamp handed in) + number of clock
  operations < 2^64`, a u64 clock driven through the same history — wrapping (release profile) or
  checked (`overflow-checks`) — shows exactly the model's time at the end (and at every prefix), so
  every theorem of `Props/C08.lean` (`Nat` times) is a theorem about the machine for such histories;
  at the bound: `clock_u64_overflow_counterexample` (known finding `C08:clock:u64-overflow`).
-/
namespace RedisVerif
namespace C08

open Shard

/-- named fields that are stored (live or tombstoned): each costs one tick -/
def hdelTicks (h : NMap Lww) (fs : List Nat) : Nat := fs.countP (fun f => (NMap.get h f).isSome)

/-- the clock operations of one step of the shard -/
def clockOps (s : Shard) : Op → List ClockOp
  | .write _ _ _ => [.tick]
  | .delete k =>
    match NMap.get s.keys k with
    | some rv => (match rv.crdt with | .lww _ => [.tick] | .hash _ => [.tick] | _ => [])
    | none => []
  | .hwrite _ fs => List.replicate fs.length .tick
  | .hdelete k fs =>
    match NMap.get s.keys k with
    | some rv => (match rv.crdt with | .hash h => List.replicate (hdelTicks h fs) .tick | _ => [])
    | none => []
  | .remote _ d => [.update d.ts.time]
  | .recovered _ v => [.update v.ts.time]

theorem clockRun_ticks (c n : Nat) : clockRun c (List.replicate n .tick) = c + n := by
  induction n generalizing c with
  | zero => rfl
  | succ n ih =>
    simp only [List.replicate_succ, clockRun, List.foldl_cons] at ih ⊢
    rw [ih]
    simp only [clockStep]
    omega

theorem clockRun_append (c : Nat) (a b : List ClockOp) :
    clockRun c (a ++ b) = clockRun (clockRun c a) b := by
  simp [clockRun, List.foldl_append]

/-- deleting keeps every entry in the map: presence of a field does not change along the fold -/
theorem hashDelStep_present (acc : Stamp × NMap Lww) (f g : Nat) :
    (NMap.get (hashDelStep acc f).2 g).isSome = (NMap.get acc.2 g).isSome := by
  unfold hashDelStep
  cases hf : NMap.get acc.2 f with
  | none => rfl
  | some x =>
    simp only
    rw [NMap.get_insert]
    by_cases hg : g = f
    · subst hg; simp [hf]
    · simp [hg]

theorem hashDel_fold_time (fs : List Nat) (c : Stamp) (h : NMap Lww) :
    (fs.foldl hashDelStep (c, h)).1.time = c.time + hdelTicks h fs := by
  induction fs generalizing c h with
  | nil => simp [hdelTicks]
  | cons f fs ih =>
    simp only [List.foldl_cons]
    have hstep : hashDelStep (c, h) f = ((hashDelStep (c, h) f).1, (hashDelStep (c, h) f).2) := rfl
    rw [hstep, ih]
    have hp : hdelTicks (hashDelStep (c, h) f).2 fs = hdelTicks h fs := by
      unfold hdelTicks
      congr 1
      funext g
      exact hashDelStep_present (c, h) f g
    rw [hp]
    simp only [hdelTicks, List.countP_cons]
    unfold hashDelStep
    cases hf : NMap.get h f with
    | none => simp [hf]
    | some x => simp [hf]; omega

/-- **one step moves the clock exactly by its clock operations** -/
theorem step_clock (s : Shard) (op : Op) :
    (step s op).1.clock.time = clockRun s.clock.time (clockOps s op) := by
  cases op with
  | write k v e => simp [step, recordWrite, clockOps, clockRun, clockStep]
  | delete k =>
    simp only [step, clockOps]
    cases hg : NMap.get s.keys k with
    | none => rw [recordDelete_none hg]; rfl
    | some rv =>
      simp only
      by_cases hc0 : rv.crdt.kind = 0
      · obtain ⟨r, hr⟩ := kind_lww hc0
        rw [recordDelete_lww hg hr, hr]
        simp [clockRun, clockStep]
      · by_cases hc5 : rv.crdt.kind = 5
        · obtain ⟨m, hm⟩ := kind_hash hc5
          rw [recordDelete_hash hg hm, hm]
          simp [clockRun, clockStep]
        · rw [recordDelete_other hg hc0 hc5]
          cases hc : rv.crdt <;> rw [hc] at hc0 hc5 <;> simp [Crdt.kind] at hc0 hc5 <;> rfl
  | hwrite k fs =>
    simp only [step, clockOps]
    rw [(hwrite_clock s k fs).1, clockRun_ticks]
  | hdelete k fs =>
    simp only [step, clockOps]
    cases hg : NMap.get s.keys k with
    | none => rw [recordHashDelete_none hg]; rfl
    | some rv =>
      simp only
      by_cases hc5 : rv.crdt.kind = 5
      · obtain ⟨m, hm⟩ := kind_hash hc5
        rw [recordHashDelete_hash hg hm, hm]
        simp only
        rw [hashDel_fold_time, clockRun_ticks]
      · rw [recordHashDelete_other hg hc5]
        cases hc : rv.crdt <;> rw [hc] at hc5 <;> simp [Crdt.kind] at hc5 <;> rfl
  | remote k d => simp [step, applyRemote, clockOps, clockRun, clockStep]
  | recovered k v =>
    simp [step, applyRecovered, applyRecoveredWith, clockOps, clockRun, clockStep]

/-- the clock operations of a whole history -/
def opsClock : Shard → List Op → List ClockOp
  | _, [] => []
  | s, o :: ops => clockOps s o ++ opsClock (step s o).1 ops

/-- **the shard's Lamport time after any history is `clockRun` of its clock operations** -/
theorem run_clock (s : Shard) (ops : List Op) :
    (run s ops).clock.time = clockRun s.clock.time (opsClock s ops) := by
  induction ops generalizing s with
  | nil => rfl
  | cons o ops ih =>
    show (run (step s o).1 ops).clock.time = _
    rw [ih, opsClock, clockRun_append, step_clock]

/-- **below the bound the u64 clock of a shard is the model's clock**, wrapping or checked -/
theorem shard_clock_u64_exact (s : Shard) (ops : List Op)
    (h : Max.max s.clock.time (maxIn (opsClock s ops)) + (opsClock s ops).length < u64Bound) :
    clockRunWrap s.clock.time (opsClock s ops) = (run s ops).clock.time ∧
    clockRunChecked s.clock.time (opsClock s ops) = some (run s ops).clock.time := by
  rw [run_clock]
  exact clock_u64_exact (opsClock s ops) s.clock.time h

/-- non-vacuity: SET, HSET of two fields, a delta stamped 2^32 from a peer, HDEL naming a stored and
    an absent field, DEL: 1 + 2 + (update) + 1 + 1 operations, far below the bound -/
example :
    let ops : List Op := [.write 7 [1] none, .hwrite 8 [(1, [2]), (2, [3])],
      .remote 7 (RV.withValue [9] ⟨4294967296, 2⟩), .hdelete 8 [1, 5], .delete 7]
    let s := Shard.init 1 false
    opsClock s ops = [.tick, .tick, .tick, .update 4294967296, .tick, .tick] ∧
      (run s ops).clock.time = 4294967299 ∧
      Max.max s.clock.time (maxIn (opsClock s ops)) + (opsClock s ops).length < u64Bound := by
  decide

end C08
end RedisVerif
