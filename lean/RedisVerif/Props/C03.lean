import RedisVerif.Model.Shards
import RedisVerif.Model.ShardsStr
import RedisVerif.Model.ShardsClock
import RedisVerif.Lemmas.Shards
import RedisVerif.Lemmas.ShardsStr
import RedisVerif.Lemmas.ShardsClock

/-!
# C03 — Shard count is unobservable: N shards answer exactly like one shard

Model: `RedisVerif.Shards` (`Model/Shards.lean`) = the routing / fan-out / aggregation logic of
`ShardedActorState` (`execute`, `fast_*`, `pooled_fast_*`, `fast_batch_*_pipeline`) over an ABSTRACT
per-shard executor `E` of which only locality is assumed (`Exec.Local`: a command reads and writes
only the keys it names), with the two routing hashes of the code as two functions
`Routes.str` / `Routes.bytes`, and a flag `fixed` (`hash_key` delegates to `hash_key_bytes`).

* `shards_refine_single` — one step: for every command in the decidable class `Routable`, under
  consistent routing, the union of the shards after `execN` is what ONE executor makes of the
  union before, the replies agree up to permutation inside KEYS replies, and the invariant
  (`R.N` canonical stores, every key in its home shard) is kept.
* `shards_refine_single_seq` — lifted to command sequences by induction (any length).
* `home_unique` — every reachable state stores key `k` only in shard `hash_key_bytes(k)`.
* `shard_count_unobservable_partial` — two servers with different shard counts (e.g. `N` and 1)
  give equivalent replies to, and end with the same keyspace after, every routable sequence;
  `shard_count_unobservable_repaired` is the same for the repaired routing, with no hypothesis
  on the hashes.
* `shard_count_unobservable_timed` — the timed model (`Model/ShardsClock.lean`: per-shard clocks,
  PX / EX deadlines, eviction, every entry path incl. the batch pipelines): when every message
  kind carries the virtual time, N shards and one shard give the same replies for every run with
  monotone time; `stale_clock_*_counterexample` for a kind that does not adopt the time.
* `route_same_on_all_paths`, `one_message_goes_to_cmdShard`, `routed_by_first_key_refines` — one
  route function of the whole key for every path and command kind; every one-message command goes
  to the home of its first key.  `path_dependent_route_counterexample` (ANY two route functions
  that differ on a key), `routed_to_shard0_counterexample`.
* `…_counterexample` — what the pinned code does outside these hypotheses (all replayed on the
  real code by the harness on every run): the two hashes differ (`fast_set` then generic `STRLEN`),
  two-key commands run on the first key's shard (RENAME), MSETNX likewise, SCAN drops the shards'
  cursors.  Both `fix:` commits are in: 872671c (one routing hash: `fixed = true` is the code now)
  and 4d9bd05 (RANDOMKEY asks every shard: `randomkey_refines`; the pinned arm survives as
  `randomkeyPinned` / `randomkey_counterexample`).
-/
namespace RedisVerif
namespace C03

open Shards NMap

/-! ## observational equivalence of replies -/

/-- equal up to permutation inside an unordered (KEYS) reply; RANDOMKEY replies are compared as a
    client can: nil or not (which key is named is legitimately arbitrary — that it IS a key of the
    keyspace is `randomkey_refines`) -/
def replyEqv : Reply → Reply → Bool
  | .keys l, .keys l' => l.isPerm l'
  | .rkey a, .rkey b => a.isSome == b.isSome
  | r, r' => r == r'

def repliesEqv : List Reply → List Reply → Bool
  | [], [] => true
  | r :: rs, r' :: rs' => replyEqv r r' && repliesEqv rs rs'
  | _, _ => false

theorem replyEqv_refl (r : Reply) : replyEqv r r = true := by
  cases r <;> simp [replyEqv, List.isPerm_iff]

theorem replyEqv_of_eq {r r' : Reply} (h : r = r') : replyEqv r r' = true := h ▸ replyEqv_refl r

theorem replyEqv_symm {r r' : Reply} (h : replyEqv r r' = true) : replyEqv r' r = true := by
  cases r <;> cases r' <;> simp_all [replyEqv, List.isPerm_iff] <;>
    first | exact h.symm | (obtain ⟨a, b⟩ := h; exact ⟨a.symm, b.symm⟩)

theorem replyEqv_trans {a b c : Reply} (h1 : replyEqv a b = true) (h2 : replyEqv b c = true) :
    replyEqv a c = true := by
  cases a <;> cases b <;> simp_all [replyEqv, List.isPerm_iff] <;> cases c <;>
    simp_all [List.isPerm_iff] <;> exact h1.trans h2

theorem repliesEqv_symm {l l' : List Reply} (h : repliesEqv l l' = true) : repliesEqv l' l = true := by
  induction l generalizing l' with
  | nil => cases l' <;> simp_all [repliesEqv]
  | cons r rs ih =>
    cases l' with
    | nil => simp [repliesEqv] at h
    | cons r' rs' =>
      simp only [repliesEqv, Bool.and_eq_true] at h ⊢
      exact ⟨replyEqv_symm h.1, ih h.2⟩

theorem repliesEqv_trans {a b c : List Reply} (h1 : repliesEqv a b = true)
    (h2 : repliesEqv b c = true) : repliesEqv a c = true := by
  induction a generalizing b c with
  | nil => cases b <;> cases c <;> simp_all [repliesEqv]
  | cons r rs ih =>
    cases b with
    | nil => simp [repliesEqv] at h1
    | cons r' rs' =>
      cases c with
      | nil => simp [repliesEqv] at h2
      | cons r'' rs'' =>
        simp only [repliesEqv, Bool.and_eq_true] at h1 h2 ⊢
        exact ⟨replyEqv_trans h1.1 h2.1, ih h1.2 h2.2⟩

/-! ## the class of commands the sharding layer handles correctly -/

/-- decidable: everything except two-key commands / MSETNX whose keys live on different shards
    and SCAN (RANDOMKEY is in since fix 4d9bd05) -/
def Routable {S : Sig} (R : Routes) (fixed : Bool) : Cmd S → Bool
  | .two a b _ => R.gen fixed a == R.gen fixed b
  | .msetnx kvs =>
    match kvs with
    | [] => true
    | kv :: rest => rest.all (fun x => R.gen fixed x.1 == R.gen fixed kv.1)
  | .scan _ _ _ => false
  | _ => true

/-- the two hashes agree (what `hash_key` → `hash_key_bytes(key.as_bytes())` establishes) -/
def RouteConsistent (R : Routes) : Prop := ∀ k, R.str k = R.bytes k

/-- decidable form for table routes (the driver's): every row has equal columns -/
def RouteConsistentTbl (tbl : NMap (Nat × Nat)) : Bool := tbl.all (fun e => e.2.1 == e.2.2)

theorem routeConsistent_ofTable (n : Nat) (tbl : NMap (Nat × Nat)) (h : RouteConsistentTbl tbl = true) :
    RouteConsistent (Routes.ofTable n tbl) := by
  intro k
  show (match get tbl k with | some e => e.1 | none => 0) = (match get tbl k with | some e => e.2 | none => 0)
  cases hg : get tbl k with
  | none => rfl
  | some e =>
    have hm := mem_of_get hg
    have := List.all_eq_true.mp h _ hm
    simpa using this

/-- decidable validity of table routes -/
theorem ofTable_valid (n : Nat) (tbl : NMap (Nat × Nat)) (hn : 0 < n)
    (h : tbl.all (fun e => decide (e.2.1 < n) && decide (e.2.2 < n)) = true) :
    (Routes.ofTable n tbl).Valid := by
  intro k
  show (match get tbl k with | some e => e.1 | none => 0) < n ∧ (match get tbl k with | some e => e.2 | none => 0) < n
  cases hg : get tbl k with
  | none => exact ⟨hn, hn⟩
  | some e =>
    have := List.all_eq_true.mp h _ (mem_of_get hg)
    simpa using this

/-! ## full-strength statements -/

section statements
variable {S : Sig} (E : Exec S)

/-- what a client can observe of a server: the replies, and the final keyspace -/
def observe (R : Routes) (fixed : Bool) (cmds : List (Cmd S)) : Store S.Val × List Reply :=
  let r := runN E R fixed (Shards.init S.Val R.N) cmds
  (abs r.1, r.2)

def obsEqv (a b : Store S.Val × List Reply) : Prop := a.1 = b.1 ∧ repliesEqv a.2 b.2 = true

/-- the one-shard server -/
def oneShard : Routes := { N := 1, str := fun _ => 0, bytes := fun _ => 0 }

/-- **C03, full strength**: for every command sequence, `N` shards are indistinguishable from one
    shard — for the routing with the given `fixed` flag, whatever the two hashes are -/
def C03_statement (fixed : Bool) : Prop :=
  ∀ (R : Routes), R.Valid → 0 < R.N → ∀ cmds : List (Cmd S),
    obsEqv (observe E R fixed cmds) (observe E oneShard fixed cmds)

/-- every key has exactly one home in every reachable state, whichever commands ran -/
def C03_home_unique (fixed : Bool) : Prop :=
  ∀ (R : Routes), R.Valid → 0 < R.N → ∀ (cmds : List (Cmd S)) (i j k : Nat),
    (get (shard (runN E R fixed (Shards.init S.Val R.N) cmds).1 i) k).isSome →
    (get (shard (runN E R fixed (Shards.init S.Val R.N) cmds).1 j) k).isSome → i = j

end statements

/-! ## the refinement step -/

section step
variable {S : Sig} {E : Exec S}

theorem sum_cast_length {ν : Type} (l : List (List ν)) :
    (l.map (fun s => ((s.length : Nat) : Int))).sum = (((l.map List.length).sum : Nat) : Int) := by
  induction l with
  | nil => rfl
  | cons s l ih => simp only [List.map_cons, List.sum_cons, ih]; omega

theorem routePrimary_refine (hL : E.Local) {R : Routes} {fixed : Bool} (hv : R.Valid) (hN : 0 < R.N)
    (hc : Consistent R fixed) {st : Shards S.Val} (h : Inv R st) (c : Cmd S) (hk : Keyed c = true)
    (hK : ∀ k0, primaryKey c = some k0 → ∀ k ∈ keyList c, R.bytes k = R.bytes k0)
    (hnone : primaryKey c = none → keyList c = []) :
    Inv R (routePrimary E R fixed st c).1 ∧
    abs (routePrimary E R fixed st c).1 = (E.exec (abs st) c).1 ∧
    (routePrimary E R fixed st c).2 = (E.exec (abs st) c).2 := by
  unfold routePrimary
  cases hp : primaryKey c with
  | none =>
    exact refine_keyed hL h c hk 0 hN (by rw [hnone hp]; simp)
  | some k0 =>
    simp only [hc k0]
    exact refine_keyed hL h c hk (R.bytes k0) (hv k0).2 (hK k0 hp)

/-- EXISTS: one `EXISTS [k]` per key on the key's shard -/
theorem exists_fold {R : Routes} {st : Shards S.Val} (h : Inv R st)
    (ks : List Key) (acc : Int) :
    ks.foldl (fun (a : Shards S.Val × Int) k =>
        let x := onShard E a.1 (R.bytes k) (.exists [k])
        (x.1, a.2 + replyInt x.2)) (st, acc) =
      (st, acc + ((existsCount (abs st) ks : Nat) : Int)) := by
  induction ks generalizing acc with
  | nil => simp [existsCount]
  | cons k ks ih =>
    rw [List.foldl_cons]
    have h1 : (onShard E st (R.bytes k) (.exists [k])).1 = st := by
      show st.set (R.bytes k) (shard st (R.bytes k)) = st
      exact shard_set_self st _
    have h2 : replyInt (onShard E st (R.bytes k) (.exists [k])).2 =
        ((if present (abs st) k then 1 else 0 : Nat) : Int) := by
      show ((existsCount (shard st (R.bytes k)) [k] : Nat) : Int) = _
      rw [existsCount_cons, present_congr (h.get_abs k).symm]
      simp [existsCount]
    simp only [h1, h2]
    rw [ih, existsCount_cons]
    congr 1
    omega

/-- **one step**: a routable command on `R.N` consistently routed shards does to the union of
    the shards what one executor does to one store, and answers the same -/
theorem shards_refine_single (hL : E.Local) (R : Routes) (fixed : Bool) (hv : R.Valid)
    (hN : 0 < R.N) (hc : Consistent R fixed) {st : Shards S.Val} (h : Inv R st) (c : Cmd S)
    (hr : Routable R fixed c = true) :
    Inv R (execN E R fixed st c).1 ∧
    abs (execN E R fixed st c).1 = (E.exec (abs st) c).1 ∧
    replyEqv (execN E R fixed st c).2 (E.exec (abs st) c).2 = true := by
  have hgen : R.gen fixed = R.bytes := funext hc
  cases c with
  | single k op =>
    have := routePrimary_refine hL hv hN hc h (.single k op) rfl
      (by intro k0 hk0 k' hk'
          have e1 : k = k0 := by simpa [primaryKey] using hk0
          have e2 : k' = k := by simpa [keyList] using hk'
          rw [e2, e1])
      (by intro hp; simp [primaryKey] at hp)
    exact ⟨this.1, this.2.1, replyEqv_of_eq this.2.2⟩
  | two a b op =>
    have hab : R.bytes a = R.bytes b := by
      have : R.gen fixed a = R.gen fixed b := by simpa [Routable] using hr
      rwa [hc a, hc b] at this
    have := routePrimary_refine hL hv hN hc h (.two a b op) rfl
      (by intro k0 hk0 k' hk'
          have e1 : a = k0 := by simpa [primaryKey] using hk0
          simp only [keyList, List.mem_cons, List.not_mem_nil, or_false] at hk'
          rcases hk' with rfl | rfl
          · rw [e1]
          · rw [← e1, hab])
      (by intro hp; simp [primaryKey] at hp)
    exact ⟨this.1, this.2.1, replyEqv_of_eq this.2.2⟩
  | msetnx kvs =>
    have := routePrimary_refine hL hv hN hc h (.msetnx kvs) rfl
      (by intro k0 hk0 k hk
          cases kvs with
          | nil => simp [primaryKey] at hk0
          | cons kv rest =>
            have e1 : kv.1 = k0 := by simpa [primaryKey] using hk0
            simp only [keyList, List.map_cons, List.mem_cons, List.mem_map] at hk
            rcases hk with rfl | ⟨x, hx, rfl⟩
            · rw [e1]
            · have hall : rest.all (fun x => R.gen fixed x.1 == R.gen fixed kv.1) = true := by
                simpa [Routable] using hr
              have := List.all_eq_true.mp hall x hx
              have : R.gen fixed x.1 = R.gen fixed kv.1 := by simpa using this
              rw [hc x.1, hc kv.1] at this
              rw [this, e1])
      (by intro hp
          cases kvs with
          | nil => rfl
          | cons kv rest => simp [primaryKey] at hp)
    exact ⟨this.1, this.2.1, replyEqv_of_eq this.2.2⟩
  | randomkey =>
    obtain ⟨h1, o, h2, h3, _⟩ := randomkey_spec (E := E) h
    have hex : execN E R fixed st .randomkey = randomkeyFrom E st (List.range R.N) := rfl
    rw [hex, h1, h2]
    refine ⟨h, rfl, ?_⟩
    show (o.isSome == ((NMap.keys (abs st)).head?).isSome) = true
    cases o with
    | none => rw [h3.mp rfl]; rfl
    | some k =>
      cases hk : (NMap.keys (abs st)).head? with
      | none => have := h3.mpr hk; cases this
      | some _ => rfl
  | scan _ _ _ => simp [Routable] at hr
  | fastGet k =>
    have := refine_keyed hL h (.fastGet k) rfl (R.bytes k) (hv k).2 (by simp [keyList])
    exact ⟨this.1, this.2.1, replyEqv_of_eq this.2.2⟩
  | fastSet k v =>
    have := refine_keyed hL h (.fastSet k v) rfl (R.bytes k) (hv k).2 (by simp [keyList])
    exact ⟨this.1, this.2.1, replyEqv_of_eq this.2.2⟩
  | flush =>
    refine ⟨inv_all_empty h, abs_all_empty st, replyEqv_of_eq rfl⟩
  | keys p =>
    have hst : (fanAll E st (.keys p)).1 = st := List.map_id' st
    refine ⟨by show Inv R (fanAll E st (.keys p)).1; rw [hst]; exact h,
            by show abs (fanAll E st (.keys p)).1 = abs st; rw [hst], ?_⟩
    show replyEqv (.keys ((fanAll E st (.keys p)).2.flatMap replyKeys))
      (.keys ((NMap.keys (abs st)).filter (E.glob p))) = true
    have : (fanAll E st (.keys p)).2.flatMap replyKeys =
        (st.flatMap NMap.keys).filter (E.glob p) := by
      show (st.map (fun s => Reply.keys ((NMap.keys s).filter (E.glob p)))).flatMap replyKeys = _
      rw [List.flatMap_map, List.filter_flatMap]
      rfl
    rw [this]
    exact List.isPerm_iff.mpr ((keys_abs_perm h).filter _)
  | dbsize =>
    have hst : (fanAll E st .dbsize).1 = st := List.map_id' st
    refine ⟨by show Inv R (fanAll E st .dbsize).1; rw [hst]; exact h,
            by show abs (fanAll E st .dbsize).1 = abs st; rw [hst], ?_⟩
    apply replyEqv_of_eq
    show Reply.one (.int ((fanAll E st .dbsize).2.map replyInt).sum) = Reply.one (.int (abs st).length)
    have : (fanAll E st .dbsize).2.map replyInt = st.map (fun s => ((s.length : Nat) : Int)) := by
      show (st.map (fun s => Reply.one (.int s.length))).map replyInt = _
      rw [List.map_map]; rfl
    rw [this, sum_cast_length, length_abs h]
  | mget ks =>
    refine ⟨h, rfl, ?_⟩
    apply replyEqv_of_eq
    show Reply.many (gatherN E R.N (R.gen fixed) st .mget ks) = Reply.many (ks.map (mgetSlot E (abs st)))
    rw [hgen, gatherN_spec E R.N R.bytes st .mget (mgetSlot E) (fun _ _ => rfl) ks (fun k _ => (hv k).2)]
    congr 1
    apply List.map_congr_left
    intro k _
    exact mgetSlot_congr E (h.get_abs k).symm
  | batchGet ks =>
    refine ⟨h, rfl, ?_⟩
    apply replyEqv_of_eq
    show Reply.many (gatherN E R.N R.bytes st .batchGet ks) = Reply.many (ks.map (getDirect E (abs st)))
    rw [gatherN_spec E R.N R.bytes st .batchGet (getDirect E) (fun _ _ => rfl) ks (fun k _ => (hv k).2)]
    congr 1
    apply List.map_congr_left
    intro k _
    exact getDirect_congr E (h.get_abs k).symm
  | mset kvs =>
    have := grouped_refine hL h hv (fun kv : Key × Bytes => kv.1) .mset (fun _ => rfl) (fun _ => rfl)
      (fun a _ xs P k hP => get_foldl_setStr_filter E xs a P k hP) kvs
    refine ⟨?_, ?_, replyEqv_of_eq rfl⟩
    · show Inv R (groupedN E R.N (fun kv => R.gen fixed kv.1) st .mset kvs).1
      rw [hgen]; exact this.1
    · show abs (groupedN E R.N (fun kv => R.gen fixed kv.1) st .mset kvs).1 = _
      rw [hgen]; exact this.2
  | batchSet kvs =>
    have := grouped_refine hL h hv (fun kv : Key × Bytes => kv.1) .batchSet (fun _ => rfl) (fun _ => rfl)
      (fun a _ xs P k hP => get_foldl_setStr_filter E xs a P k hP) kvs
    exact ⟨this.1, this.2, replyEqv_of_eq rfl⟩
  | «exists» ks =>
    have hf := exists_fold (E := E) h ks 0
    show Inv R (ks.foldl _ (st, (0 : Int))).1 ∧ abs (ks.foldl _ (st, (0 : Int))).1 = abs st ∧
      replyEqv (.one (.int (ks.foldl _ (st, (0 : Int))).2)) (.one (.int (existsCount (abs st) ks))) = true
    simp only [hgen]
    rw [hf]
    refine ⟨h, rfl, ?_⟩
    apply replyEqv_of_eq
    simp
  | del ks =>
    by_cases hlen : ks.length > 1
    · have hg := grouped_refine hL h hv (fun k : Key => k) .del (fun _ => rfl) (fun l => by simp [keyList])
        (fun a ha xs P k hP => get_delKeys_filter xs a ha P k hP) ks
      have hex : execN E R fixed st (.del ks) =
          ((groupedN E R.N R.bytes st .del ks).1,
           .one (.int ((groupedN E R.N R.bytes st .del ks).2.map replyInt).sum)) := by
        show (if ks.length > 1 then _ else _) = _
        rw [if_pos hlen, hgen]
      rw [hex]
      refine ⟨hg.1, hg.2, ?_⟩
      apply replyEqv_of_eq
      show Reply.one (.int _) = Reply.one (.int ((delKeys (abs st) ks).2))
      rw [groupedN_eq, (groupedPrefix_spec E R.N R.bytes st .del ks).2.2]
      have hfun : (fun i => if ks.filter (fun x => R.bytes x == i) = [] then (0 : Int)
            else replyInt (E.exec (shard st i) (.del (ks.filter (fun x => R.bytes x == i)))).2) =
          (fun i => (((delKeys (shard st i) (ks.filter (fun x => R.bytes x == i))).2 : Nat) : Int)) := by
        funext i
        split
        · rename_i he; rw [he]; rfl
        · rfl
      rw [hfun, del_count_sum ks h hv]
    · have hex : execN E R fixed st (.del ks) = routePrimary E R fixed st (.del ks) := by
        show (if ks.length > 1 then _ else _) = _
        rw [if_neg hlen]
      rw [hex]
      have := routePrimary_refine hL hv hN hc h (.del ks) rfl
        (by intro k0 hk0 k hk
            cases ks with
            | nil => simp [keyList] at hk
            | cons a rest =>
              cases rest with
              | nil =>
                have e1 : a = k0 := by simpa [primaryKey] using hk0
                have : k = a := by simpa [keyList] using hk
                rw [this, e1]
              | cons b rest' => simp at hlen)
        (by intro hp
            cases ks with
            | nil => rfl
            | cons a rest => simp [primaryKey] at hp)
      exact ⟨this.1, this.2.1, replyEqv_of_eq this.2.2⟩

/-- **RANDOMKEY** (repaired code): the N-shard reply is nil iff the one-store reply is nil, a
    non-nil reply names a key of the union of the shards, and nothing changes -/
theorem randomkey_refines {R : Routes} {fixed : Bool} {st : Shards S.Val} (h : Inv R st) :
    (execN E R fixed st .randomkey).1 = st ∧
    ∃ o, (execN E R fixed st .randomkey).2 = .rkey o ∧
      (o = none ↔ (E.exec (abs st) .randomkey).2 = .rkey none) ∧
      (∀ k, o = some k → present (abs st) k = true) := by
  obtain ⟨h1, o, h2, h3, h4⟩ := randomkey_spec (E := E) h
  refine ⟨h1, o, h2, ?_, h4⟩
  rw [h3]
  show _ ↔ Reply.rkey (NMap.keys (abs st)).head? = Reply.rkey none
  constructor
  · intro e; rw [e]
  · intro e; injection e

/-- **two-key commands whose keys share a shard** (RENAME, RENAMENX, RPOPLPUSH, LMOVE, SORT … STORE,
    a two-key script — any `exec2` that is local): the command runs whole on that shard and does
    to the union what it does to one store; same reply.  A cross-shard pair is outside this
    hypothesis (listed findings `C03:two-key:*`, `two_key_counterexample`). -/
theorem same_shard_two_key_refines (hL : E.Local) (R : Routes) (fixed : Bool) (hv : R.Valid)
    (hN : 0 < R.N) (hc : Consistent R fixed) {st : Shards S.Val} (h : Inv R st) (a b : Key)
    (op : S.Op2) (hab : R.gen fixed a = R.gen fixed b) :
    Inv R (execN E R fixed st (.two a b op)).1 ∧
    abs (execN E R fixed st (.two a b op)).1 = (E.exec (abs st) (.two a b op)).1 ∧
    (execN E R fixed st (.two a b op)).2 = (E.exec (abs st) (.two a b op)).2 := by
  have hab' : R.bytes a = R.bytes b := by rwa [hc a, hc b] at hab
  exact routePrimary_refine hL hv hN hc h (.two a b op) rfl
    (by intro k0 hk0 k' hk'
        have e1 : a = k0 := by simpa [primaryKey] using hk0
        simp only [keyList, List.mem_cons, List.not_mem_nil, or_false] at hk'
        rcases hk' with rfl | rfl
        · rw [e1]
        · rw [← e1, hab'])
    (by intro hp; simp [primaryKey] at hp)

/-- every command that travels as one message is executed on `cmdShard`: the home of its first key -/
theorem one_message_goes_to_cmdShard (R : Routes) (fixed : Bool) (st : Shards S.Val) (c : Cmd S)
    (h : OneMessage c = true) : execN E R fixed st c = onShard E st (cmdShard R fixed c) c := by
  cases c with
  | single k op => rfl
  | two a b op => rfl
  | fastGet k => rfl
  | fastSet k v => rfl
  | msetnx kvs =>
    cases kvs with
    | nil => simp [OneMessage] at h
    | cons kv rest => rfl
  | del ks =>
    match ks, h with
    | [k], _ => rfl
  | _ => simp [OneMessage] at h

/-- **a command routed by its first key refines the single store**, provided all the keys it
    names live on that shard (always true of single-key commands) -/
theorem routed_by_first_key_refines (hL : E.Local) (R : Routes) (fixed : Bool)
    {st : Shards S.Val} (h : Inv R st) (c : Cmd S)
    (h1 : OneMessage c = true) (hk : Keyed c = true) (hi : cmdShard R fixed c < R.N)
    (hall : ∀ k ∈ keyList c, R.bytes k = cmdShard R fixed c) :
    Inv R (execN E R fixed st c).1 ∧ abs (execN E R fixed st c).1 = (E.exec (abs st) c).1 ∧
    (execN E R fixed st c).2 = (E.exec (abs st) c).2 := by
  rw [one_message_goes_to_cmdShard R fixed st c h1]
  exact refine_keyed hL h c hk _ hi hall

/-- MSETNX whose keys all live on the first key's shard -/
theorem same_shard_msetnx_refines (hL : E.Local) (R : Routes) (fixed : Bool) (hv : R.Valid)
    (hN : 0 < R.N) (hc : Consistent R fixed) {st : Shards S.Val} (h : Inv R st)
    (kvs : List (Key × Bytes)) (hr : Routable R fixed (.msetnx kvs : Cmd S) = true) :
    abs (execN E R fixed st (.msetnx kvs)).1 = (E.exec (abs st) (.msetnx kvs)).1 ∧
    replyEqv (execN E R fixed st (.msetnx kvs)).2 (E.exec (abs st) (.msetnx kvs)).2 = true :=
  (shards_refine_single hL R fixed hv hN hc h (.msetnx kvs) hr).2

end step

/-! ## sequences, reachable states, two shard counts -/

section seq
variable {S : Sig} {E : Exec S}

/-- **any command sequence**: by induction on the sequence -/
theorem shards_refine_single_seq (hL : E.Local) (R : Routes) (fixed : Bool) (hv : R.Valid)
    (hN : 0 < R.N) (hc : Consistent R fixed) (cmds : List (Cmd S))
    (hr : ∀ c ∈ cmds, Routable R fixed c = true) {st : Shards S.Val} (h : Inv R st) :
    Inv R (runN E R fixed st cmds).1 ∧
    abs (runN E R fixed st cmds).1 = (run1 E (abs st) cmds).1 ∧
    repliesEqv (runN E R fixed st cmds).2 (run1 E (abs st) cmds).2 = true := by
  induction cmds generalizing st with
  | nil => exact ⟨h, rfl, rfl⟩
  | cons c cs ih =>
    obtain ⟨hi, ha, hq⟩ := shards_refine_single hL R fixed hv hN hc h c (hr c (by simp))
    obtain ⟨hi', ha', hq'⟩ := ih (fun x hx => hr x (by simp [hx])) hi
    refine ⟨hi', ?_, ?_⟩
    · show abs (runN E R fixed (execN E R fixed st c).1 cs).1 = (run1 E (E.exec (abs st) c).1 cs).1
      rw [ha', ha]
    · show repliesEqv ((execN E R fixed st c).2 :: (runN E R fixed (execN E R fixed st c).1 cs).2)
        ((E.exec (abs st) c).2 :: (run1 E (E.exec (abs st) c).1 cs).2) = true
      simp only [repliesEqv, Bool.and_eq_true]
      refine ⟨hq, ?_⟩
      rw [← ha]; exact hq'

/-- **every key has exactly one home**: in every state reachable by routable commands under
    consistent routing, a key is stored at most in shard `hash_key_bytes(k)` -/
theorem home_unique (hL : E.Local) (R : Routes) (fixed : Bool) (hv : R.Valid) (hN : 0 < R.N)
    (hc : Consistent R fixed) (cmds : List (Cmd S)) (hr : ∀ c ∈ cmds, Routable R fixed c = true)
    (i k : Nat)
    (hk : (get (shard (runN E R fixed (Shards.init S.Val R.N) cmds).1 i) k).isSome) :
    i = R.bytes k :=
  ((shards_refine_single_seq hL R fixed hv hN hc cmds hr (inv_init R)).1.home i k hk).symm

/-- **N shards answer like one executor** (from the empty server) -/
theorem observe_eq_single (hL : E.Local) (R : Routes) (fixed : Bool) (hv : R.Valid) (hN : 0 < R.N)
    (hc : Consistent R fixed) (cmds : List (Cmd S)) (hr : ∀ c ∈ cmds, Routable R fixed c = true) :
    obsEqv (observe E R fixed cmds) (run1 E [] cmds) := by
  have := shards_refine_single_seq hL R fixed hv hN hc cmds hr (inv_init (ν := S.Val) R)
  rw [abs_init] at this
  exact ⟨this.2.1, this.2.2⟩

/-- **C03, proved form**: two servers with any two shard counts / consistent routings answer every
    sequence that is routable on both alike (up to order inside KEYS replies) and end with the
    same keyspace.  Hypotheses: locality of the executor, `Routable` (decidable), consistency. -/
theorem shard_count_unobservable_partial (hL : E.Local) (R R' : Routes) (fixed : Bool)
    (hv : R.Valid) (hN : 0 < R.N) (hc : Consistent R fixed)
    (hv' : R'.Valid) (hN' : 0 < R'.N) (hc' : Consistent R' fixed)
    (cmds : List (Cmd S)) (hr : ∀ c ∈ cmds, Routable R fixed c = true)
    (hr' : ∀ c ∈ cmds, Routable R' fixed c = true) :
    obsEqv (observe E R fixed cmds) (observe E R' fixed cmds) := by
  obtain ⟨a1, a2⟩ := observe_eq_single hL R fixed hv hN hc cmds hr
  obtain ⟨b1, b2⟩ := observe_eq_single hL R' fixed hv' hN' hc' cmds hr'
  exact ⟨a1.trans b1.symm, repliesEqv_trans a2 (repliesEqv_symm b2)⟩

theorem oneShard_valid : oneShard.Valid := fun _ => ⟨Nat.zero_lt_one, Nat.zero_lt_one⟩

theorem routable_oneShard (fixed : Bool) (c : Cmd S) (R : Routes) (h : Routable R fixed c = true) :
    Routable oneShard fixed c = true := by
  cases c with
  | two a b op => cases fixed <;> rfl
  | msetnx kvs =>
    cases kvs with
    | nil => rfl
    | cons kv rest =>
      cases fixed <;> simp [Routable, Routes.gen, oneShard]
  | scan _ _ _ => simp [Routable] at h
  | _ => rfl

/-- **the repaired routing** (`hash_key` delegates to `hash_key_bytes`): `N` shards vs ONE shard,
    no hypothesis on the hash functions at all -/
theorem shard_count_unobservable_repaired (hL : E.Local) (R : Routes) (hv : R.Valid) (hN : 0 < R.N)
    (cmds : List (Cmd S)) (hr : ∀ c ∈ cmds, Routable R true c = true) :
    obsEqv (observe E R true cmds) (observe E oneShard true cmds) :=
  shard_count_unobservable_partial hL R oneShard true hv hN (consistent_fixed R)
    oneShard_valid Nat.zero_lt_one (consistent_fixed _) cmds hr
    (fun c hc => routable_oneShard true c R (hr c hc))

/-- the pinned routing, under the hypothesis that the two hashes agree -/
theorem shard_count_unobservable_pinned_partial (hL : E.Local) (R : Routes) (hv : R.Valid)
    (hN : 0 < R.N) (hrc : RouteConsistent R) (cmds : List (Cmd S))
    (hr : ∀ c ∈ cmds, Routable R false c = true) :
    obsEqv (observe E R false cmds) (observe E oneShard false cmds) :=
  shard_count_unobservable_partial hL R oneShard false hv hN
    (consistent_of_routeConsistent R hrc false)
    oneShard_valid Nat.zero_lt_one (consistent_of_routeConsistent _ (fun _ => rfl) false) cmds hr
    (fun c hc => routable_oneShard false c R (hr c hc))

end seq

/-! ## node-global state: the script cache -/

section scriptcache
variable {S : Sig} {E : Exec S}

/-- the sequential specification of the script commands: ONE cache, ONE store -/
def specS (E : Exec S) (getOp : S.Op) (cache : NSet) (s : Store S.Val) : SCmd → (NSet × Store S.Val) × Reply
  | .load i => ((NSet.insert i cache, s), .one .ok)
  | .exists i => ((cache, s), .one (.int (if cache.contains i then 1 else 0)))
  | .flush => (([], s), .one .ok)
  | .eval i k => let r := E.exec s (.single k getOp); ((NSet.insert i cache, r.1), r.2)
  | .evalsha i k =>
    if cache.contains i then (let r := E.exec s (.single k getOp); ((cache, r.1), r.2))
    else ((cache, s), .one (.err errNoScript))

/-- **the script cache is node-global** (the code: one shared cache): SCRIPT LOAD / EXISTS / FLUSH,
    EVAL and EVALSHA on `R.N` shards — whichever shards the scripts' keys live on — do to (cache,
    union of the shards) what they do to one cache and one store, with the same reply -/
theorem script_cache_global_refines (hL : E.Local) (getOp : S.Op) (R : Routes) (hv : R.Valid)
    (hN : 0 < R.N) (g : GState S.Val) (h : Inv R g.st) (c : SCmd) :
    Inv R (execS E getOp R true g c).1.st ∧
    ((execS E getOp R true g c).1.cache, abs (execS E getOp R true g c).1.st) =
      (specS E getOp g.cache (abs g.st) c).1 ∧
    (execS E getOp R true g c).2 = (specS E getOp g.cache (abs g.st) c).2 := by
  have hk : ∀ k, Inv R (execN E R true g.st (.single k getOp)).1 ∧
      abs (execN E R true g.st (.single k getOp)).1 = (E.exec (abs g.st) (.single k getOp)).1 ∧
      (execN E R true g.st (.single k getOp)).2 = (E.exec (abs g.st) (.single k getOp)).2 := by
    intro k
    exact routed_by_first_key_refines hL R true h (.single k getOp) rfl rfl (hv k).2
      (by intro k' hk'; have : k' = k := by simpa [keyList] using hk'
          rw [this]; rfl)
  have _ := hN
  cases c with
  | load i => exact ⟨h, rfl, rfl⟩
  | «exists» i =>
    refine ⟨h, rfl, ?_⟩
    simp only [execS, specS, Bool.not_true, Bool.false_and, Bool.or_false]
  | flush => exact ⟨h, rfl, rfl⟩
  | eval i k =>
    obtain ⟨a1, a2, a3⟩ := hk k
    refine ⟨a1, ?_, a3⟩
    show (NSet.insert i g.cache, abs (execN E R true g.st (.single k getOp)).1) = _
    rw [a2]; rfl
  | evalsha i k =>
    obtain ⟨a1, a2, a3⟩ := hk k
    cases hc : g.cache.contains i with
    | true =>
      simp only [execS, specS, hc, Bool.not_true, Bool.false_and, Bool.or_false, if_true]
      exact ⟨a1, by rw [a2], a3⟩
    | false =>
      simp only [execS, specS, hc, Bool.not_true, Bool.false_and, Bool.or_false, Bool.false_eq_true,
        if_false]
      refine ⟨h, ?_, ?_⟩ <;> first | rfl | trivial

end scriptcache


/-! ## non-vacuity: the concrete executor is local; a non-trivial routable run on 2 shards -/

open Shards.Str in
/-- keys 1,2 ↦ shard 0, key 3 ↦ shard 1 (both hashes) -/
def exRoutes : Routes := Routes.ofTable 2 [(1, (0, 0)), (2, (0, 0)), (3, (1, 1))]

open Shards.Str in
def exCmds : List (Cmd Str.sig) :=
  [.single 1 (.set [97]), .fastSet 3 [98], .mset [(2, [99]), (3, [100])], .two 1 2 .rename,
   .mget [1, 2, 3], .del [1, 3], .keys [42], .dbsize]

theorem exRoutes_valid : exRoutes.Valid := ofTable_valid 2 _ (by decide) (by decide)

example : obsEqv (observe Str.exec exRoutes false exCmds) (observe Str.exec oneShard false exCmds) :=
  shard_count_unobservable_pinned_partial Str.exec_local exRoutes exRoutes_valid (by decide)
    (routeConsistent_ofTable 2 _ (by decide)) exCmds (by decide)

example : obsEqv (observe Str.exec exRoutes true (exCmds ++ [.randomkey]))
    (observe Str.exec oneShard true (exCmds ++ [.randomkey])) :=
  shard_count_unobservable_repaired Str.exec_local exRoutes exRoutes_valid (by decide) _ (by decide)

/-- … and the run is not trivial: both shards end up non-empty, the replies are not constant -/
example : (observe Str.exec exRoutes false exCmds).2 =
    [.one .ok, .one .ok, .one .ok, .one .ok, .many [.nil, .bulk [97], .bulk [100]], .one (.int 1),
     .keys [2], .one (.int 1)] := by decide

/-! ## what the pinned code does outside the hypotheses (replayed by the harness on every run) -/

section counterexamples
open Shards.Str

/-- key 1: `hash_key` says shard 0, `hash_key_bytes` says shard 1 -/
def mismatchRoutes : Routes := Routes.ofTable 2 [(1, (0, 1))]

/-- `fast_set k v` then generic `STRLEN k`: 0 on two shards, 1 on one shard -/
theorem route_hash_mismatch_counterexample :
    (observe Str.exec mismatchRoutes false [.fastSet 1 [104], .single 1 .strlen]).2
        = [.one .ok, .one (.int 0)] ∧
    (observe Str.exec oneShard false [.fastSet 1 [104], .single 1 .strlen]).2
        = [.one .ok, .one (.int 1)] := by decide

theorem C03_statement_pinned_counterexample : ¬ C03_statement Str.exec false := by
  intro h
  have := (h mismatchRoutes (ofTable_valid 2 _ (by decide) (by decide)) (by decide) [.fastSet 1 [104], .single 1 .strlen]).2
  revert this
  decide

/-- … and the key then has two homes: `SET` through the generic path stores it in shard 0 too -/
theorem home_unique_pinned_counterexample : ¬ C03_home_unique Str.exec false := by
  intro h
  have := h mismatchRoutes (ofTable_valid 2 _ (by decide) (by decide)) (by decide)
    [.fastSet 1 [104], .single 1 (.set [105])] 0 1 1 (by decide) (by decide)
  exact absurd this (by decide)

/-- routes with consistent hashes: key 1 ↦ shard 0, key 2 ↦ shard 1 -/
def twoRoutes : Routes := Routes.ofTable 2 [(1, (0, 0)), (2, (1, 1))]

/-- even with the REPAIRED routing: `RENAME a b` runs on `a`'s shard and plants `b` there;
    `GET b` then asks `b`'s own shard -/
theorem two_key_counterexample :
    (observe Str.exec twoRoutes true [.single 1 (.set [49]), .two 1 2 .rename, .single 2 .get]).2
        = [.one .ok, .one .ok, .one .nil] ∧
    (observe Str.exec oneShard true [.single 1 (.set [49]), .two 1 2 .rename, .single 2 .get]).2
        = [.one .ok, .one .ok, .one (.bulk [49])] := by decide

/-- MSETNX runs whole on its first key's shard: it does not see that key 2 exists -/
theorem msetnx_counterexample :
    (observe Str.exec twoRoutes true [.single 2 (.set [49]), .msetnx [(1, [50]), (2, [51])]]).2
        = [.one .ok, .one (.int 1)] ∧
    (observe Str.exec oneShard true [.single 2 (.set [49]), .msetnx [(1, [50]), (2, [51])]]).2
        = [.one .ok, .one (.int 0)] := by decide

/-- the PINNED code (before fix 4d9bd05) sent RANDOMKEY to shard 0 only: nil although key 2 exists -/
theorem randomkey_counterexample :
    (randomkeyPinned Str.exec [[], [(2, SVal.str [49])]]).2 = .rkey none ∧
    (Str.exec.exec (abs [[], [(2, SVal.str [49])]]) .randomkey).2 = .rkey (some 2) ∧
    (execN Str.exec twoRoutes true [[], [(2, SVal.str [49])]] .randomkey).2 = .rkey (some 2) := by
  decide

/-- SCAN: every shard is asked for `SCAN 0 … COUNT 1`, the non-zero cursors are dropped, and the
    reply says "iteration complete": 2 keys from two shards, 1 key from one shard, both with cursor 0 -/
theorem scan_cursor_counterexample :
    (observe Str.exec twoRoutes true
        [.mset [(1, [49]), (2, [50])], .scan 0 none (some 1)]).2 = [.one .ok, .scan 0 [1, 2]] ∧
    (observe Str.exec oneShard true
        [.mset [(1, [49]), (2, [50])], .scan 0 none (some 1)]).2 = [.one .ok, .scan 0 [1]] := by decide

theorem C03_statement_repaired_counterexample : ¬ C03_statement Str.exec true := by
  intro h
  have := (h twoRoutes (ofTable_valid 2 _ (by decide) (by decide)) (by decide)
    [.single 1 (.set [49]), .two 1 2 .rename, .single 2 .get]).2
  revert this
  decide

/-- **one route for all paths** (the model of the current code, `fixed = true`; no hypothesis on
    the hash functions): the generic route, the fast / pooled route and the batch route of a key are
    the same function of the WHOLE key, whatever the command kind -/
theorem route_same_on_all_paths {S : Sig} (R : Routes) (k k2 : Key) (v : Bytes) (op : S.Op) (op2 : S.Op2) :
    R.gen true k = R.bytes k ∧
    cmdShard R true (.single k op : Cmd S) = R.bytes k ∧
    cmdShard R true (.two k k2 op2 : Cmd S) = R.bytes k ∧
    cmdShard R true (.fastGet k : Cmd S) = R.bytes k ∧
    cmdShard R true (.fastSet k v : Cmd S) = R.bytes k ∧
    cmdShard R true (.batchGet [k] : Cmd S) = R.bytes k ∧
    cmdShard R true (.batchSet [(k, v)] : Cmd S) = R.bytes k ∧
    cmdShard R true (.del [k] : Cmd S) = R.bytes k ∧
    cmdShard R true (.msetnx [(k, v)] : Cmd S) = R.bytes k :=
  ⟨rfl, rfl, rfl, rfl, rfl, rfl, rfl, rfl, rfl⟩

theorem shard_init_empty (ν : Type) (n i : Nat) : shard (Shards.init ν n) i = [] := by
  unfold shard Shards.init
  rw [List.getD_eq_getElem?_getD]
  cases h : (List.replicate n ([] : Store ν))[i]? with
  | none => rfl
  | some x => exact List.eq_of_mem_replicate (List.mem_of_getElem? h)

/-- **a path-dependent route** — ANY two route functions that differ on some key `k` (the hashes
    before fix 872671c; `{tag}` hashing on the generic route only; …): `fast_set k v` stores the key in
    `bytes k`, a generic `STRLEN k` looks in `str k ≠ bytes k` and answers 0; one shard answers 1 -/
theorem path_dependent_route_counterexample (R : Routes) (k : Key) (hv : R.Valid)
    (hne : R.str k ≠ R.bytes k) :
    (observe Str.exec R false [.fastSet k [104], .single k .strlen]).2 = [.one .ok, .one (.int 0)] ∧
    (observe Str.exec oneShard false [.fastSet k [104], .single k .strlen]).2 =
      [.one .ok, .one (.int 1)] := by
  constructor
  · have hb : R.bytes k < (Shards.init SVal R.N).length := by simp [Shards.init]; exact (hv k).2
    show [_, (routePrimary Str.exec R false
        ((Shards.init SVal R.N).set (R.bytes k) (NMap.insert k (SVal.str [104]) (shard (Shards.init SVal R.N) (R.bytes k))))
        (.single k .strlen)).2] = _
    have hsh : shard ((Shards.init SVal R.N).set (R.bytes k)
        (NMap.insert k (SVal.str [104]) (shard (Shards.init SVal R.N) (R.bytes k)))) (R.str k) = [] := by
      rw [shard_set, if_neg (fun x => hne x.1.symm), shard_init_empty]
    show [Reply.one .ok, (Str.exec1 (shard _ (R.str k)) k .strlen).2] = _
    rw [hsh]
    rfl
  · show [Reply.one .ok, (Str.exec1 (shard ([([] : Str.St)].set 0 (NMap.insert k (SVal.str [104]) [])) 0) k .strlen).2] = _
    have : shard ([([] : Str.St)].set 0 (NMap.insert k (SVal.str [104]) [])) 0 = [(k, SVal.str [104])] := rfl
    rw [this]
    show [Reply.one .ok, (Str.slot1 .strlen (NMap.get [(k, SVal.str [104])] k)).2] = _
    simp [NMap.get, Str.slot1]

/-- **routed to shard 0 instead of the key's home** (seed C02-evalsha-routed-to-shard0: EVALSHA lost
    its primary key): key 2 lives on shard 1; `fast_set 2 v` then the same GET sent to shard 0
    answers nil, sent to `cmdShard` it answers `v` -/
theorem routed_to_shard0_counterexample :
    (onShard Str.exec (execN Str.exec twoRoutes true (Shards.init SVal 2) (.fastSet 2 [118])).1 0
      (.single 2 .get)).2 = .one .nil ∧
    (execN Str.exec twoRoutes true (execN Str.exec twoRoutes true (Shards.init SVal 2) (.fastSet 2 [118])).1
      (.single 2 .get)).2 = .one (.bulk [118]) ∧
    cmdShard twoRoutes true (.single 2 .get : Cmd Str.sig) = 1 := by decide

/-- a script with ZERO keys that writes key 2 (home: shard 1) runs on shard 0 (`execKeyless`): the
    key is planted there and a later GET (routed to its home) does not see it -/
theorem undeclared_key_counterexample :
    (execN Str.exec twoRoutes true
        (execKeyless Str.exec (Shards.init SVal 2) (.single 2 (.set [117]))).1 (.single 2 .get)).2 = .one .nil ∧
    (Str.exec.exec (Str.exec.exec ([] : Str.St) (.single 2 (.set [117]))).1 (.single 2 .get)).2 = .one (.bulk [117]) := by
  decide

end counterexamples

section scriptcex
open Shards.Str

/-- **a per-shard script cache** (seed C03-eval-caches-script-per-shard): EVAL script 7 on key 1
    (shard 0), then EVALSHA 7 on key 2 (shard 1) → NOSCRIPT on two shards, a result on one shard;
    SCRIPT EXISTS 7 (asked of shard 0) after an EVAL on shard 1 → 0 vs 1 -/
theorem per_shard_script_cache_counterexample :
    runS Str.exec .get twoRoutes false (ginit SVal 2) [.eval 7 1, .evalsha 7 2]
      = [.one .nil, .one (.err errNoScript)] ∧
    runS Str.exec .get oneShard false (ginit SVal 1) [.eval 7 1, .evalsha 7 2]
      = [.one .nil, .one .nil] ∧
    runS Str.exec .get twoRoutes false (ginit SVal 2) [.eval 7 2, .exists 7]
      = [.one .nil, .one (.int 0)] ∧
    runS Str.exec .get oneShard false (ginit SVal 1) [.eval 7 2, .exists 7]
      = [.one .nil, .one (.int 1)] := by decide

/-- … and with the shared cache (the code) the same runs agree, also after SCRIPT FLUSH (which is
    sent to shard 0 only but clears the one cache every shard uses) -/
example : runS Str.exec .get twoRoutes true (ginit SVal 2) [.eval 7 1, .evalsha 7 2, .exists 7, .flush, .evalsha 7 2]
    = runS Str.exec .get oneShard true (ginit SVal 1) [.eval 7 1, .evalsha 7 2, .exists 7, .flush, .evalsha 7 2] := by
  decide

end scriptcex

/-! ## per-shard clocks (timed streams; transcription in `Model/ShardsClock.lean`) -/

section clock
open Shards.Clock

/-- **shard count unobservable also when time passes and keys expire** (full statement, for a given
    assignment of which message kinds carry the virtual time): for every run with monotone virtual
    time the replies of `R.N` shards equal those of one shard -/
def C03_statement_timed (K : Carries) : Prop :=
  ∀ (R : Routes), R.Valid → 0 < R.N → ∀ steps : List (Nat × TCmd), Mono 0 steps →
    runNT R K (tinit R.N) steps = runNT oneShard K (tinit 1) steps

/-- **proved for the code as it is** (every `ShardMessage` kind carries the time and the shard
    adopts it before executing): TTLs (PX / EX), any passage of time, traffic to any shards in
    between, every entry path (generic, fast, pooled, batch pipelines, MGET / MSET, DBSIZE) -/
theorem shard_count_unobservable_timed : C03_statement_timed allCarry := by
  intro R hv _ steps hm
  exact runNT_refines hv steps (trel_init R) hm

/-- non-vacuity: a run in which a TTL runs out between two reads through different paths -/
example : runNT twoRoutes allCarry (tinit 2)
    [(0, .key .generic 1 (.setPx [118] 100)), (99, .batch .batchGet [(1, .get), (2, .get)]),
     (100, .key .generic 2 (.set [119])), (100, .key .pooledGet 1 .get), (100, .dbsize)]
    = [[.ok], [.bulk [118], .nil], [.ok], [.nil], [.int 1]] := by decide

/-- a message kind that does NOT carry the time, all others do -/
def allBut (k0 : Kind) : Carries := fun k => decide (k ≠ k0)

/-- the seeded / pre-ef50533 behaviour for one kind: `SET 1 v PX 100` at t = 0; at t = 500 a generic
    `GET 2` (another shard), then key 1 is read through the given path -/
def staleRun (read : TCmd) : List (Nat × TCmd) :=
  [(0, .key .generic 1 (.setPx [118] 100)), (500, .key .generic 2 .get), (500, read)]

/-- `fast_batch_get_pipeline` without `set_time` (seed C03-batch-get-skips-set-time): two shards
    serve the expired value, one shard answers nil -/
theorem stale_clock_batch_get_counterexample :
    runNT twoRoutes (allBut .batchGet) (tinit 2) (staleRun (.batch .batchGet [(1, .get)]))
      = [[.ok], [.nil], [.bulk [118]]] ∧
    runNT oneShard (allBut .batchGet) (tinit 1) (staleRun (.batch .batchGet [(1, .get)]))
      = [[.ok], [.nil], [.nil]] := by decide

/-- the same for `fast_get` and `pooled_fast_get` (the code before fix ef50533) -/
theorem stale_clock_counterexample :
    runNT twoRoutes (allBut .fastGet) (tinit 2) (staleRun (.key .fastGet 1 .get))
      = [[.ok], [.nil], [.bulk [118]]] ∧
    runNT oneShard (allBut .fastGet) (tinit 1) (staleRun (.key .fastGet 1 .get))
      = [[.ok], [.nil], [.nil]] ∧
    runNT twoRoutes (allBut .pooledGet) (tinit 2) (staleRun (.key .pooledGet 1 .get))
      = [[.ok], [.nil], [.bulk [118]]] := by decide

theorem C03_statement_timed_counterexample : ¬ C03_statement_timed (allBut .batchGet) := by
  intro h
  have := h twoRoutes (ofTable_valid 2 _ (by decide) (by decide)) (by decide)
    (staleRun (.batch .batchGet [(1, .get)])) (by decide)
  revert this
  decide

end clock

end C03
end RedisVerif
