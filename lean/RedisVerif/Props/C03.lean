import RedisVerif.Model.Shards
import RedisVerif.Model.ShardsStr
namespace RedisVerif
namespace C03
end C03
end RedisVerif
