import RedisVerif.Props.C05

/-!
# C05 — every schedule of the other clients is a PLACEMENT among EXEC's await points

The theorems of `Props/C05.lean` quantify over every schedule `sched : List (List γ)` of foreign
commands.  EXEC has exactly `w + n` store accesses (one GET per watched snapshot, one `execute` per
queued command), hence `w + n + 1` places where another client's command can be served: before
the first access, between two consecutive accesses, after the last.  This file proves that this
is ALL a schedule can express:

* `exec_sched_congr` — two schedules that agree on their first `w + n` slots and whose remainders
  flatten to the same command sequence give the same EXEC (state, store, reply);
* `exec_sched_normal_form` — every schedule is equivalent to its normal form `normSched (w + n)`:
  exactly `w + n + 1` slots;
* `placements_cover` — hence for `k` foreign commands the finitely many PLACEMENTS (monotone maps of
  the command sequence into the `w + n + 1` slots, `placements`) cover every schedule whose flattening
  is that sequence: the enumeration the harness runs against the real handler (`c05sched` in
  `harness/src/c05.rs`: all placements of ≤ 2 foreign commands for bodies with ≤ 3 accesses) is,
  for those bodies and command sequences, the WHOLE schedule space of the model.
-/
namespace RedisVerif
namespace C05
open Txn

section
variable {σ κ γ ρ : Type}

/-- `sc` and `sc'` agree on their first `m` slots and their remainders flatten alike -/
def SchedEq (m : Nat) (sc sc' : List (List γ)) : Prop :=
  (∀ i, i < m → sc.getD i [] = sc'.getD i []) ∧ (sc.drop m).flatten = (sc'.drop m).flatten

theorem SchedEq.refl (m : Nat) (sc : List (List γ)) : SchedEq m sc sc := ⟨fun _ _ => rfl, rfl⟩

theorem SchedEq.head {m : Nat} {sc sc' : List (List γ)} (h : SchedEq (m + 1) sc sc') :
    sc.headD [] = sc'.headD [] := by
  have := h.1 0 (Nat.succ_pos m)
  cases sc <;> cases sc' <;> simp at this ⊢ <;> exact this

theorem SchedEq.tail {m : Nat} {sc sc' : List (List γ)} (h : SchedEq (m + 1) sc sc') :
    SchedEq m sc.tail sc'.tail := by
  refine ⟨?_, ?_⟩
  · intro i hi
    have := h.1 (i + 1) (Nat.succ_lt_succ hi)
    cases sc <;> cases sc' <;> simp at this ⊢ <;> exact this
  · have := h.2
    cases sc <;> cases sc' <;> simp at this ⊢ <;> exact this

theorem getD_append_drop_flatten (sc : List (List γ)) : sc.headD [] ++ (sc.drop 1).flatten = sc.flatten := by
  cases sc <;> simp

/-- agreement up to `m` implies the whole flattenings agree -/
theorem SchedEq.flatten {m : Nat} {sc sc' : List (List γ)} (h : SchedEq m sc sc') :
    sc.flatten = sc'.flatten := by
  induction m generalizing sc sc' with
  | zero => simpa using h.2
  | succ m ih =>
    have e1 := h.head
    have e2 := ih h.tail
    have a := getD_append_drop_flatten sc
    have b := getD_append_drop_flatten sc'
    rw [List.drop_one] at a b
    rw [← a, ← b, e1, e2]

theorem drop_flatten_split (m : Nat) : ∀ (l : List (List γ)),
    (l.drop m).flatten = l.getD m [] ++ (l.drop (m + 1)).flatten := by
  induction m with
  | zero => intro l; cases l <;> simp
  | succ m ih =>
    intro l
    cases l with
    | nil => simp
    | cons a tl => simpa using ih tl

theorem SchedEq.mono {m : Nat} {sc sc' : List (List γ)} (h : SchedEq (m + 1) sc sc') : SchedEq m sc sc' := by
  refine ⟨fun i hi => h.1 i (Nat.lt_succ_of_lt hi), ?_⟩
  have hm := h.1 m (Nat.lt_succ_self m)
  rw [drop_flatten_split m sc, drop_flatten_split m sc', hm, h.2]

variable [DecidableEq ρ]

/-- phase 1 of EXEC looks at one slot per watched key; what is left is equivalent again -/
theorem checkWatch_congr (B : Backend σ κ γ ρ) (ws : List (κ × ρ)) :
    ∀ (r : Nat) (sc sc' : List (List γ)) (s : σ), SchedEq (ws.length + r) sc sc' →
      (checkWatch B sc s ws).2 = (checkWatch B sc' s ws).2 ∧
      SchedEq r (checkWatch B sc s ws).1 (checkWatch B sc' s ws).1 ∨
      ((checkWatch B sc s ws).2 = (checkWatch B sc' s ws).2 ∧ (checkWatch B sc s ws).2.2 = true ∧
        (checkWatch B sc s ws).1.flatten = (checkWatch B sc' s ws).1.flatten) := by
  induction ws with
  | nil =>
    intro r sc sc' s h
    left
    have h' : SchedEq r sc sc' := by simpa using h
    exact ⟨rfl, h'⟩
  | cons p rest ih =>
    intro r sc sc' s h
    obtain ⟨k, old⟩ := p
    have h' : SchedEq ((rest.length + r) + 1) sc sc' := by
      have : (k, old) :: rest = (k, old) :: rest := rfl
      simpa [List.length_cons, Nat.add_right_comm] using h
    have eh := h'.head
    have et := h'.tail
    simp only [checkWatch, eh]
    by_cases hg : B.getReply (foreign B s (sc'.headD [])) k = old
    · rw [if_pos hg, if_pos hg]
      exact ih r sc.tail sc'.tail _ et
    · rw [if_neg hg, if_neg hg]
      right
      exact ⟨rfl, rfl, et.flatten⟩

omit [DecidableEq ρ] in
/-- phase 2 of EXEC looks at one slot per queued command -/
theorem runQueue_congr (B : Backend σ κ γ ρ) (q : List γ) :
    ∀ (r : Nat) (sc sc' : List (List γ)) (s : σ), SchedEq (q.length + r) sc sc' →
      (runQueue B sc s q).2 = (runQueue B sc' s q).2 ∧
      SchedEq r (runQueue B sc s q).1 (runQueue B sc' s q).1 := by
  induction q with
  | nil =>
    intro r sc sc' s h
    have h' : SchedEq r sc sc' := by simpa using h
    exact ⟨rfl, h'⟩
  | cons c cs ih =>
    intro r sc sc' s h
    have h' : SchedEq ((cs.length + r) + 1) sc sc' := by
      simpa [List.length_cons, Nat.add_right_comm] using h
    have eh := h'.head
    obtain ⟨a, b⟩ := ih r sc.tail sc'.tail (B.exec (foreign B s (sc'.headD [])) c).1 h'.tail
    simp only [runQueue, eh]
    refine ⟨?_, b⟩
    rw [Prod.ext_iff] at a
    exact Prod.ext a.1 (by rw [a.2])

/-- **EXEC depends on a schedule only through its first `w + n` slots and the flattening of the
    rest** (`w` watched snapshots, `n` queued commands) -/
theorem exec_sched_congr (B : Backend σ κ γ ρ) (t : ConnTxn κ γ ρ) (s : σ) (sc sc' : List (List γ))
    (h : SchedEq (t.watched.length + t.queue.length) sc sc') :
    step B sc t s .exec = step B sc' t s .exec := by
  by_cases hin : t.inTxn = true
  · by_cases herr : t.errors = true
    · simp only [step, hin, herr, if_true]
      rw [h.flatten]
    · have herr' : t.errors = false := by simpa using herr
      simp only [step, hin, herr', if_true, Bool.false_eq_true, if_false]
      rcases checkWatch_congr B t.watched t.queue.length sc sc' s h with ⟨e, se⟩ | ⟨e, hf, fl⟩
      · rw [Prod.ext_iff] at e
        obtain ⟨e1, e2⟩ := e
        rw [e2]
        by_cases hw : (checkWatch B sc' s t.watched).2.2 = true
        · rw [if_pos hw, if_pos hw, e1, se.flatten]
        · rw [if_neg hw, if_neg hw, e1]
          obtain ⟨a, b⟩ := runQueue_congr B t.queue 0 _ _ (checkWatch B sc' s t.watched).2.1
            (by simpa using se)
          rw [Prod.ext_iff] at a
          rw [a.1, a.2, b.flatten]
      · rw [Prod.ext_iff] at e
        obtain ⟨e1, e2⟩ := e
        rw [← e2, hf, if_pos rfl, if_pos rfl, ← e1, fl]
  · have hin' : t.inTxn = false := by simpa using hin
    simp [step, hin']

/-- **all-or-nothing, under EVERY schedule, as one statement**: EXEC inside MULTI has exactly three
    outcomes — EXECABORT (a queue-time error was answered) and nil (a snapshot differs), both with
    a store that holds the other clients' commands and NOTHING of the transaction; or one result per
    queued command -/
theorem exec_all_or_nothing (B : Backend σ κ γ ρ) (sched : List (List γ)) (t : ConnTxn κ γ ρ) (s : σ)
    (hin : t.inTxn = true) :
    ((step B sched t s .exec).2.2 = .err .execAbort ∧ (step B sched t s .exec).2.1 = foreign B s sched.flatten) ∨
    ((step B sched t s .exec).2.2 = .nil ∧ (step B sched t s .exec).2.1 = foreign B s sched.flatten) ∨
    (∃ rs, (step B sched t s .exec).2.2 = .results rs ∧ rs.length = t.queue.length) := by
  by_cases herr : t.errors = true
  · left
    rw [execabort_leaves_store B sched t s hin herr]
    exact ⟨rfl, rfl⟩
  · have herr' : t.errors = false := by simpa using herr
    by_cases hf : (checkWatch B sched s t.watched).2.2 = true
    · right; left
      rw [watchfail_leaves_store B sched t s hin herr' hf]
      exact ⟨rfl, rfl⟩
    · right; right
      simp only [step, hin, herr', if_true, Bool.false_eq_true, if_false, hf]
      exact ⟨_, rfl, runQueue_length B t.queue _ _⟩

/-- the first `m` slots (missing ones empty) and ONE more slot holding everything else -/
def normSched (m : Nat) (sc : List (List γ)) : List (List γ) :=
  (List.range m).map (fun i => sc.getD i []) ++ [(sc.drop m).flatten]

omit [DecidableEq ρ] in
theorem normSched_length (m : Nat) (sc : List (List γ)) : (normSched m sc).length = m + 1 := by
  simp [normSched]

omit [DecidableEq ρ] in
theorem normSched_eq (m : Nat) (sc : List (List γ)) : SchedEq m sc (normSched m sc) := by
  refine ⟨?_, ?_⟩
  · intro i hi
    simp [normSched, List.getD_eq_getElem?_getD, List.getElem?_append_left, hi]
  · simp [normSched]

/-- **normal form**: every schedule is equivalent, for this EXEC, to one with exactly
    `w + n + 1` slots — a placement of its commands among EXEC's await points -/
theorem exec_sched_normal_form (B : Backend σ κ γ ρ) (t : ConnTxn κ γ ρ) (s : σ) (sc : List (List γ)) :
    step B sc t s .exec = step B (normSched (t.watched.length + t.queue.length) sc) t s .exec :=
  exec_sched_congr B t s sc _ (normSched_eq _ sc)

omit [DecidableEq ρ] in
theorem normSched_flatten (m : Nat) (sc : List (List γ)) : (normSched m sc).flatten = sc.flatten :=
  ((normSched_eq m sc).flatten).symm

/-- all ways to cut a command sequence into `m` consecutive (possibly empty) slots -/
def placements : Nat → List γ → List (List (List γ))
  | 0, l => if l.isEmpty then [[]] else []
  | m + 1, l => (splits l).flatMap (fun p => (placements m p.2).map (fun rest => p.1 :: rest))

omit [DecidableEq ρ] in
/-- every list of `m` slots is one of the placements of its flattening -/
theorem mem_placements (sc : List (List γ)) : sc ∈ placements sc.length sc.flatten := by
  induction sc with
  | nil => simp [placements]
  | cons a tl ih =>
    simp only [List.length_cons, placements, List.flatten_cons, List.mem_flatMap, List.mem_map]
    refine ⟨(a, tl.flatten), ?_, tl, ih, rfl⟩
    simp only [splits, List.mem_map, List.mem_range]
    exact ⟨a.length, by simp; omega, by simp⟩

/-- **the placements cover every schedule**: for a foreign command sequence `fs`, whatever
    schedule `sc` serves exactly `fs` (in that order) around and inside an EXEC with `w` snapshots
    and `n` queued commands, some PLACEMENT of `fs` among the `w + n + 1` await points gives the same
    EXEC.  The placements of `fs` are finitely many (`placements (w + n + 1) fs`): enumerating them
    is enumerating the whole schedule space for `fs`. -/
theorem placements_cover (B : Backend σ κ γ ρ) (t : ConnTxn κ γ ρ) (s : σ) (sc : List (List γ)) :
    ∃ pl ∈ placements (t.watched.length + t.queue.length + 1) sc.flatten,
      step B sc t s .exec = step B pl t s .exec := by
  refine ⟨normSched (t.watched.length + t.queue.length) sc, ?_, exec_sched_normal_form B t s sc⟩
  have := mem_placements (normSched (t.watched.length + t.queue.length) sc)
  rwa [normSched_length, normSched_flatten] at this

/-! ## WATCH takes its snapshots one awaited GET at a time

  `Command::Watch(keys)` outside MULTI: `for key in keys { snapshot = state.execute(GET key).await;
  watched_keys.push((key, snapshot)) }` — every one of those awaits is a point where the other
  clients are served.  `Txn.step` takes the snapshots of one WATCH at one store.  The two are the
  same thing: a multi-key WATCH with the other clients' commands between its GETs IS the sequence of
  single-key WATCHes with those commands between them. -/

/-- WATCH as the code runs it: `sc[i]` is served right before the GET of the (i+1)-th key -/
def watchSched (B : Backend σ κ γ ρ) : List (List γ) → σ → List κ → List (List γ) × σ × List (κ × ρ)
  | sc, s, [] => (sc, s, [])
  | sc, s, k :: ks =>
    let s1 := foreign B s (sc.headD [])
    let r := watchSched B sc.tail s1 ks
    (r.1, r.2.1, (k, B.getReply s1 k) :: r.2.2)

/-- the same as a trace of the atomic model: the other clients' commands of a slot, then a
    single-key WATCH, key by key -/
def watchTrace : List (List γ) → List κ → List (Event κ γ)
  | _, [] => []
  | sc, k :: ks => (sc.headD []).map Event.other ++ .inp (.watch [k]) [] :: watchTrace sc.tail ks

theorem runE_others (B : Backend σ κ γ ρ) (t : ConnTxn κ γ ρ) (cs : List γ) (rest : List (Event κ γ)) :
    ∀ (s : σ), runE B t s (cs.map Event.other ++ rest) = runE B t (foreign B s cs) rest := by
  induction cs with
  | nil => intro s; rfl
  | cons c cs ih => intro s; simp only [List.map_cons, List.cons_append, runE]; exact ih _

/-- **a WATCH whose GETs are interleaved with the other clients' commands = single-key WATCHes with
    those commands between them**: same snapshots (appended in order), same store — the atomic
    WATCH of `Txn.step` loses nothing -/
theorem watchSched_eq_trace (B : Backend σ κ γ ρ) (ks : List κ) :
    ∀ (sc : List (List γ)) (t : ConnTxn κ γ ρ) (s : σ), t.inTxn = false →
      runE B t s (watchTrace sc ks) =
        ({ t with watched := t.watched ++ (watchSched B sc s ks).2.2 }, (watchSched B sc s ks).2.1) := by
  induction ks with
  | nil => intro sc t s _; simp [watchTrace, watchSched, runE]
  | cons k ks ih =>
    intro sc t s hout
    simp only [watchTrace, watchSched]
    rw [runE_others]
    simp only [runE]
    rw [watch_snapshot_is_get B [] t (foreign B s (sc.headD [])) [k] hout]
    rw [ih sc.tail _ _ (by simpa using hout)]
    simp [List.append_assoc]

end

/-- how many placements: `k` commands among `m` slots = C(k + m − 1, k); two commands among the
    four await points of an EXEC with one snapshot and two queued commands: 10 -/
example : (placements 4 [KV.Cmd.set 1 [49], KV.Cmd.del 1]).length = 10 := by decide

/-- non-vacuity: a long, ragged schedule and its normal form (3 accesses → 4 slots) give the same
    EXEC on the concrete store -/
example :
    let t : ConnTxn Nat KV.Cmd KV.Rep :=
      { inTxn := true, queue := [.incr 1, .get 1], errors := false, watched := [(1, .bulk none)] }
    let sc : List (List KV.Cmd) := [[], [.set 2 [49]], [], [.set 1 [53]], [.del 2], [], [.incr 1]]
    normSched 3 sc = [[], [.set 2 [49]], [], [.set 1 [53], .del 2, .incr 1]] ∧
    (step KV.backend sc t [] .exec).2 = (step KV.backend (normSched 3 sc) t [] .exec).2 := by
  decide

end C05
end RedisVerif
