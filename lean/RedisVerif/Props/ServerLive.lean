import RedisVerif.Props.ServerConn

/-!
# ONE NODE, bytes in → bytes out, with the FAST PATH and the BATCH COLLECTORS ALIVE

`Props/ServerConn.lean` (`node_end_to_end`) is about the connection model with the recognisers dead
(`Conn.DeadCfg`: `HEADER_LEN = 14`, every well-formed frame takes the generic path — the code before
fix de38a13).  Since that fix the recognisers fire on well-formed frames (`Repaired13`: `HEADER_LEN = 13`,
the repaired recognisers and batching gate): WHICH entry point of `ShardedActorState` carries a frame —
generic `execute`, `pooled_fast_get/set` (`try_fast_get/set`, and the below-threshold branch of the
collectors), an item of `fast_batch_get/set_pipeline` — is decided by the bytes the connection holds
when it looks at its buffer: read segmentation, `min_pipeline_buffer`, `batch_threshold`, what precedes
the frame in the same read.  The path is therefore a property of the POSITION in the stream, not of the
frame: the same `GET k` may be a batch item once and a pooled request later.

* `runP` — the composed node on a pipeline in which every frame comes with the path that carried it;
  `server_refines_paths`: for EVERY such labelling the outputs are those of ONE M7 store (`specRun`), the
  shards stay indistinguishable from it, every key has one home.  (`server_refines_m7` quantified over
  classifications that are functions of the frame.)
* `encActs_paths` — the connection model's write side over ANY action list whose path-erasure is the
  pipeline (`(run cfg segs).map noPath = execAll cmds`, C04's `segmentation_independent_repaired`) is
  `runP` for the paths the actions carry.
* **`node_end_to_end_live`** — for every pipeline of `Supported`, `Answered` frames read at non-decreasing
  virtual times, every segmentation into network segments and reads, every partial-write script
  without failure, every REPAIRED batching configuration (any `min_pipeline_buffer`, `batch_threshold`,
  `read_size`), every `N ≥ 1` and routing table: the byte stream the client receives is
  `wire (specRun …)` — ONE M7 store, frame by frame, in order — whichever of the three paths carried
  which frame.

The model's batch item is a ONE-item batch (`Server.execVia`): the collectors' call with many items is
the small executor's `.batchSet kvs` / `.batchGet ks` (`C03.shards_refine_single`: the per-shard groups
keep the send order) and the harness classes `batch-order` / `srvc-fast` / C02 `conn-order`.
-/
namespace RedisVerif
namespace Server

open Shards Shards.M7 Resp NMap C03
open Conn (Cmd cmdFrame encCmd stream CmdOK Config Path Action execAll)
open ConnW (runW NoFail WEv encActs)

/-- the composed node on a pipeline in which every frame comes with the path that carried it -/
def runP (R : Routes) (st : Shards Redis.Entry) :
    List (Path × Nat × Frame) → Shards Redis.Entry × List Out
  | [] => (st, [])
  | (p, now, f) :: fs =>
    let r := handle R (fun _ => classOf p f) st now f
    let rs := runP R r.1 fs
    (rs.1, r.2 :: rs.2)

/-- **`server_refines_paths`** — whichever path carries which frame (a labelling of the POSITIONS) -/
theorem server_refines_paths (R : Routes) (hv : R.Valid) (hN : 0 < R.N)
    (fs : List (Path × Nat × Frame)) (hm : MonoF 0 (fs.map (·.2)))
    (hs : ∀ x ∈ fs, Supported R x.2.2 = true) :
    (runP R (Shards.init Redis.Entry R.N) fs).2 = (specRun Redis.init (fs.map (·.2))).2 ∧
    (∀ T, (∀ x ∈ fs, x.2.1 ≤ T) → ∀ k,
      lv T (get (abs (runP R (Shards.init Redis.Entry R.N) fs).1) k) =
      lv T (get (specRun Redis.init (fs.map (·.2))).1 k)) ∧
    (∀ i k, (get (shard (runP R (Shards.init Redis.Entry R.N) fs).1 i) k).isSome → i = R.bytes k) := by
  have key : ∀ (fs : List (Path × Nat × Frame)) (st : Shards Redis.Entry) (s1 : Redis.State) (t : Nat),
      Rel7 R st s1 t → MonoF t (fs.map (·.2)) → (∀ x ∈ fs, Supported R x.2.2 = true) →
      (runP R st fs).2 = (specRun s1 (fs.map (·.2))).2 ∧
      ∀ T, t ≤ T → (∀ x ∈ fs, x.2.1 ≤ T) → Rel7 R (runP R st fs).1 (specRun s1 (fs.map (·.2))).1 T := by
    intro fs
    induction fs with
    | nil => intro st s1 t h _ _; exact ⟨rfl, fun T hT _ => h.mono hT⟩
    | cons x xs ih =>
      intro st s1 t h hm hs
      obtain ⟨p, now, f⟩ := x
      have hm' : t ≤ now ∧ MonoF now (xs.map (·.2)) := hm
      obtain ⟨e1, e2⟩ := handle_refines hv hN (fun _ => classOf p f) h hm'.1 f (hs (p, now, f) (by simp))
      obtain ⟨e3, e4⟩ := ih _ _ now e2 hm'.2 (fun y hy => hs y (by simp [hy]))
      refine ⟨?_, fun T _ hx => e4 T (hx (p, now, f) (by simp)) (fun y hy => hx y (by simp [hy]))⟩
      show (handle R (fun _ => classOf p f) st now f).2 :: (runP R (handle R (fun _ => classOf p f) st now f).1 xs).2 =
        (specHandle s1 now f).2 :: (specRun (specHandle s1 now f).1 (xs.map (·.2))).2
      rw [e1, e3]
  obtain ⟨q, hrel⟩ := key fs _ _ 0 (rel7_init R) hm hs
  have hT : ∀ x ∈ fs, x.2.1 ≤ ((fs.map (·.2)).map (·.1)).sum := fun x hx =>
    le_sum_of_mem (List.mem_map_of_mem (f := fun (y : Nat × Frame) => y.1) (List.mem_map_of_mem (f := fun (y : Path × Nat × Frame) => y.2) hx))
  exact ⟨q, fun T hT' k => (hrel T (Nat.zero_le _) hT').view T (Nat.le_refl _) k,
    fun i k hk => ((hrel _ (Nat.zero_le _) hT).inv.home i k hk).symm⟩

/-- the paths an action list carries -/
def pathsOf : List Action → List Path
  | [] => []
  | .exec _ p :: rest => p :: pathsOf rest
  | _ :: rest => pathsOf rest

/-- the frames of a pipeline labelled with the paths of an action list -/
def labelled (acts : List Action) (frames : List (Nat × Frame)) : List (Path × Nat × Frame) :=
  (pathsOf acts).zip frames

theorem labelled_map_snd : ∀ (frames : List (Nat × Frame)) (acts : List Action),
    acts.map Action.noPath = execAll (frames.map (·.2)) → (labelled acts frames).map (·.2) = frames := by
  intro frames
  induction frames with
  | nil => intro acts _; simp [labelled]
  | cons x xs ih =>
    intro acts h
    cases acts with
    | nil => simp [execAll] at h
    | cons a as =>
      simp only [List.map_cons, execAll] at h
      injection h with h1 h2
      cases a with
      | exec f p =>
        have := ih as (by simpa [execAll] using h2)
        simp only [labelled, pathsOf, List.zip_cons_cons, List.map_cons] at this ⊢
        rw [this]
      | dropped _ => simp [Action.noPath] at h1
      | protoErr => simp [Action.noPath] at h1
      | overflow => simp [Action.noPath] at h1
      | crash => simp [Action.noPath] at h1

/-- **the write side over ANY paths**: an action list whose path-erasure is the pipeline, folded with the
    node as executor, writes what `runP` answers for the paths the actions carry and ends in `runP`'s shards -/
theorem encActs_paths (R : Routes) : ∀ (frames : List (Nat × Frame)) (acts : List Action)
    (st : Shards Redis.Entry) (last : Nat) (bs : Bytes),
    acts.map Action.noPath = execAll (frames.map (·.2)) →
    outBytes (runP R st (labelled acts frames)).2 = some bs →
    (encActs (srvExec R) ⟨st, frames.map (·.1), last⟩ acts).2 = bs ∧
    (encActs (srvExec R) ⟨st, frames.map (·.1), last⟩ acts).1.st = (runP R st (labelled acts frames)).1 := by
  intro frames
  induction frames with
  | nil =>
    intro acts st last bs h hb
    cases acts with
    | nil => simp [labelled, pathsOf, runP, outBytes] at hb; subst hb; exact ⟨rfl, rfl⟩
    | cons a as => simp [execAll] at h
  | cons x xs ih =>
    intro acts st last bs h hb
    obtain ⟨now, f⟩ := x
    cases acts with
    | nil => simp [execAll] at h
    | cons a as =>
      simp only [List.map_cons, execAll] at h
      injection h with h1 h2
      cases a with
      | exec fr p =>
        have hfr : fr = cmdFrame f := by
          simp only [Action.noPath] at h1
          injection h1
        subst hfr
        have h2' : as.map Action.noPath = execAll (xs.map (·.2)) := by simpa [execAll] using h2
        simp only [labelled, pathsOf, List.zip_cons_cons, runP] at hb
        cases ho : (handle R (fun _ => classOf p f) st now f).2 with
        | bytes b =>
          rw [ho] at hb
          simp only [outBytes] at hb
          cases hr : outBytes (runP R (handle R (fun _ => classOf p f) st now f).1 ((pathsOf as).zip xs)).2 with
          | none => rw [hr] at hb; cases hb
          | some rest =>
            rw [hr] at hb
            simp only [Option.map] at hb
            injection hb with hb
            obtain ⟨e1, e2⟩ := handle_replyOf R (fun _ => classOf p f) st now f b ho
            obtain ⟨i1, i2⟩ := ih as (handle R (fun _ => classOf p f) st now f).1 now rest h2' hr
            simp only [List.map_cons, encActs, srvExec, frameOf_cmdFrame, SrvSt.now, List.headD_cons,
              SrvSt.next, List.tail_cons, labelled, pathsOf, List.zip_cons_cons, runP]
            rw [e1, e2]
            exact ⟨by rw [i1, hb], i2⟩
        | crash => rw [ho] at hb; cases hb
        | outside => rw [ho] at hb; cases hb
        | unmapped => rw [ho] at hb; cases hb
      | dropped _ => simp [Action.noPath] at h1
      | protoErr => simp [Action.noPath] at h1
      | overflow => simp [Action.noPath] at h1
      | crash => simp [Action.noPath] at h1

/-- **`node_end_to_end_live`** — the fast path and the batch collectors alive -/
theorem node_end_to_end_live (R : Routes) (hv : R.Valid) (hN : 0 < R.N)
    (cfg : Config) (hR : Conn.Repaired13 cfg) (hck : cfg.checked = true) (hg : cfg.nameGuard = true)
    (hd : maxNesting + 1 ≤ cfg.env.depth) (hmb : cfg.maxBuffer < 72057594037927936)
    (frames : List (Nat × Frame)) (hm : MonoF 0 frames)
    (hs : ∀ x ∈ frames, Supported R x.2 = true) (ha : ∀ x ∈ frames, Answered x.2 = true)
    (segs : List Bytes) (hseg : segs.flatten = stream (frames.map (·.2)))
    (hsm : Small (stream (frames.map (·.2)))) (hmax : (stream (frames.map (·.2))).length ≤ cfg.maxBuffer)
    (script : List WEv) (hnf : NoFail script = true) :
    -- the bytes the client receives: ONE M7 store, frame by frame, whichever path carried which frame
    (runW cfg (srvExec R) (srvInit R frames) script segs none).out = wire (specRun Redis.init frames).2 ∧
    -- the paths really are a labelling of the positions, and the node's shards under THAT labelling
    -- are indistinguishable from the one store; every key has one home
    (∀ T, (∀ x ∈ frames, x.1 ≤ T) → ∀ k,
      lv T (get (abs (encActs (srvExec R) (srvInit R frames) (Conn.run cfg segs)).1.st) k) =
      lv T (get (specRun Redis.init frames).1 k)) ∧
    (∀ i k, (get (shard (encActs (srvExec R) (srvInit R frames) (Conn.run cfg segs)).1.st i) k).isSome →
      i = R.bytes k) := by
  have hrun := C04.segmentation_independent_repaired cfg hR.2.1 hR.1 hg hR.2.2.1 hR.2.2.2 hmb
    (frames.map (·.2)) segs hseg hsm hmax
  have hnc := Conn.run_no_crash cfg hck hg hR.2.2.1 hd hmb segs
  have hlab := labelled_map_snd frames (Conn.run cfg segs) hrun
  have hsup : ∀ x ∈ labelled (Conn.run cfg segs) frames, Supported R x.2.2 = true := by
    intro x hx
    have : x.2 ∈ (labelled (Conn.run cfg segs) frames).map (·.2) := List.mem_map_of_mem hx
    rw [hlab] at this
    exact hs x.2 this
  obtain ⟨q, hview, hhome⟩ := server_refines_paths R hv hN (labelled (Conn.run cfg segs) frames)
    (by rw [hlab]; exact hm) hsup
  rw [hlab] at q hview
  have hob : outBytes (runP R (Shards.init Redis.Entry R.N) (labelled (Conn.run cfg segs) frames)).2 =
      some (wire (specRun Redis.init frames).2) := by
    rw [q]; exact outBytes_of_answered frames Redis.init ha
  obtain ⟨b1, b2⟩ := encActs_paths R frames (Conn.run cfg segs) (Shards.init Redis.Entry R.N) 0 _ hrun hob
  refine ⟨?_, ?_, ?_⟩
  · rw [ConnW.runW_eq cfg (srvExec R) (srvInit R frames) script segs hnf hnc]
    exact b1
  · intro T hT k
    show lv T (get (abs (encActs (srvExec R) ⟨_, _, 0⟩ _).1.st) k) = _
    rw [b2]
    apply hview T _ k
    intro x hx
    have : x.2 ∈ (labelled (Conn.run cfg segs) frames).map (·.2) := List.mem_map_of_mem hx
    rw [hlab] at this
    exact hT x.2 this
  · intro i k hk
    have hk' : (get (shard (encActs (srvExec R) ⟨Shards.init Redis.Entry R.N, frames.map (·.1), 0⟩
      (Conn.run cfg segs)).1.st i) k).isSome := hk
    rw [b2] at hk'
    exact hhome i k hk'

end Server
end RedisVerif

namespace RedisVerif
namespace Server
open Conn (stream)

/-- non-vacuity: the default repaired configuration satisfies every configuration hypothesis of
    `node_end_to_end_live` -/
example : Conn.Repaired13 C04.cfgR ∧ C04.cfgR.checked = true ∧ C04.cfgR.nameGuard = true ∧
    Resp.maxNesting + 1 ≤ C04.cfgR.env.depth ∧ C04.cfgR.maxBuffer < 72057594037927936 :=
  ⟨⟨rfl, rfl, rfl, by decide⟩, rfl, rfl, by decide, by decide⟩

/-- … and under it the paths ARE alive: three pipelined SETs are one batch, the GET behind them takes the
    pooled fast path -/
example : pathsOf (Conn.run C04.cfgR [stream [C04.cmdSetKV, C04.cmdSetKV, C04.cmdSetKV, C04.cmdGetK]]) =
    [.batch, .batch, .batch, .fast] := by decide

/-- the path is a property of the POSITION, not of the frame: the same `GET k` is a pooled request in the
    first read and an item of a batch in the second; `PING` is generic, the `SET` behind it pooled -/
example : pathsOf (Conn.run C04.cfgR [stream [C04.cmdGetK, C04.cmdSetKV],
      stream [C04.cmdGetK, C04.cmdGetK, C04.cmdGetK, C04.cmdPing, C04.cmdSetKV]]) =
    [.fast, .fast, .batch, .batch, .batch, .generic, .fast] := by decide

end Server
end RedisVerif
