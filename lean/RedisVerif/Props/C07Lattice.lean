import RedisVerif.Props.C07
import RedisVerif.Model.Lattice
import RedisVerif.Lemmas.Converge

/-!
# C07, every merge and everything exposed

`Props/C07.lean` proves the laws of `ReplicatedValue::merge`.  This file covers the REST of the
public surface of lattice.rs / crdt_value.rs / replicated_value.rs (`Model/Lattice.lean`):

* the stand-alone `merge` of every lattice is idempotent, commutative, associative on canonical
  values: `lww_merge_*` (commutativity needs the tie hypothesis — `lww_tie_counterexample`),
  `vclock_merge_*`, `gcounter_merge_*`, `pncounter_merge_*`, `gset_merge_*`, `orset_merge_*`,
  `hash_merge_*`, `try_merge_*` (the `CrdtValue` level, same kind), the stamp order is a strict
  total order (`stamp_lt_total_order`) and `LamportClock::merge` is NOT commutative
  (`clock_merge_not_comm`, why the outer stamp uses `Ord::max`);
* **every accessor is a lattice homomorphism into its own order**, so a merged value shows the
  join of what the operands show and nothing else: `vclock_get_merge`, `gcounter_count_merge`,
  `gcounter_value_le_merge`, `gset_contains_merge`, `orset_contains_merge`, `hash_field_merge`;
  vector-clock comparison: `happens_before_irrefl`, `happens_before_asymm`,
  `vclock_le_merge` (an operand happens-before-or-equals the merge), `concurrent_symm`;
* `obs_all`: EVERY public accessor of `ReplicatedValue` / `CrdtValue` / the lattices as one
  observation record; `obs_all_idem/comm/assoc_partial` — corollaries of the value-level theorems,
  so a client or a peer using any accessor sees an idempotent, commutative, associative merge;
* what the API exposes that is NOT a lattice operation, with kernel-checked witnesses:
  `crdt_merge_deprecated_not_comm` (the deprecated `CrdtValue::merge` keeps `self` on a type
  mismatch — known finding, no caller), `orset_remove_not_inflationary` (a state merge with a
  replica that has not seen the removal brings the element back; removal is meant to travel as
  `apply_remove`), `orset_eq_ignores_next_sequence`.
-/
namespace RedisVerif
namespace C07

open RV

/-! ## the stamp order -/

/-- `impl Ord for LamportClock` is a strict total order -/
theorem stamp_lt_total_order :
    (∀ a : Stamp, a.lt a = false) ∧
    (∀ a b c : Stamp, a.lt b = true → b.lt c = true → a.lt c = true) ∧
    (∀ a b : Stamp, a.lt b = true ∨ a = b ∨ b.lt a = true) := by
  refine ⟨Stamp.lt_irrefl, fun a b c => Stamp.lt_trans, ?_⟩
  intro a b
  by_cases h1 : a.lt b = true
  · exact Or.inl h1
  · by_cases h2 : b.lt a = true
    · exact Or.inr (Or.inr h2)
    · exact Or.inr (Or.inl (Stamp.eq_of_not_lt (by simpa using h1) (by simpa using h2)))

theorem stamp_cmp_spec (a b : Stamp) :
    (Stamp.cmp a b = 0 ↔ a.lt b = true) ∧ (Stamp.cmp a b = 2 ↔ (a.lt b = false ∧ b.lt a = true)) := by
  unfold Stamp.cmp
  cases a.lt b <;> cases b.lt a <;> simp

theorem stamp_cmp_eq (a b : Stamp) : Stamp.cmp a b = 1 ↔ a = b := by
  constructor
  · intro h
    unfold Stamp.cmp at h
    cases h1 : a.lt b <;> cases h2 : b.lt a <;> simp [h1, h2] at h
    exact Stamp.eq_of_not_lt h1 h2
  · intro h; subst h; simp [Stamp.cmp, Stamp.lt_irrefl]

/-- `LamportClock::merge` keeps `self.replica_id`: not commutative (public API; the outer stamp of
    `ReplicatedValue::merge` uses `Ord::max` since the fix recorded in known_findings.json) -/
theorem clock_merge_not_comm : Stamp.mergeClock ⟨5, 1⟩ ⟨3, 2⟩ ≠ Stamp.mergeClock ⟨3, 2⟩ ⟨5, 1⟩ := by decide

theorem stamp_max_aci (a b c : Stamp) :
    Stamp.max a a = a ∧ Stamp.max a b = Stamp.max b a ∧ Stamp.max a (Stamp.max b c) = Stamp.max (Stamp.max a b) c :=
  ⟨Stamp.max_idem a, Stamp.max_comm a b, Stamp.max_assoc a b c⟩

/-! ## LwwRegister -/

theorem lww_merge_idem (a : Lww) : Lww.merge a a = a := Lww.merge_idem a

theorem lww_merge_comm (a b : Lww) (h : a.ts = b.ts → a = b) : Lww.merge a b = Lww.merge b a :=
  Lww.merge_comm h

theorem lww_merge_assoc (a b c : Lww) : Lww.merge a (Lww.merge b c) = Lww.merge (Lww.merge a b) c :=
  Lww.merge_assoc a b c

/-- `get()` of a merge is the `get()` of the operand with the greater stamp -/
theorem lww_get_merge (a b : Lww) :
    (Lww.merge a b).get = if a.ts.lt b.ts then b.get else a.get := by
  unfold Lww.merge; split <;> rfl

/-! ## VectorClock -/

theorem vclock_merge_idem (a : NMap Nat) (ha : NMap.WF a) : VClock.merge a a = a := Crdt.cmerge_idem ha

theorem vclock_merge_comm (a b : NMap Nat) (ha : NMap.WF a) (hb : NMap.WF b) :
    VClock.merge a b = VClock.merge b a := Crdt.cmerge_comm ha hb

theorem vclock_merge_assoc (a b c : NMap Nat) (ha : NMap.WF a) (hb : NMap.WF b) (hc : NMap.WF c) :
    VClock.merge a (VClock.merge b c) = VClock.merge (VClock.merge a b) c := Crdt.cmerge_assoc ha hb hc

theorem getD_optMerge_max (x y : Option Nat) :
    (optMerge Max.max x y).getD 0 = Max.max (x.getD 0) (y.getD 0) := by
  cases x <;> cases y <;> simp [optMerge]

/-- `get` is a homomorphism: the merged clock shows, per replica, the larger count -/
theorem vclock_get_merge (a b : NMap Nat) (ha : NMap.WF a) (hb : NMap.WF b) (r : Nat) :
    VClock.get (VClock.merge a b) r = Max.max (VClock.get a r) (VClock.get b r) := by
  simp only [VClock.get, VClock.merge, NMap.get_merge ha hb, getD_optMerge_max]

/-- `happens_before` in terms of `get` (canonical clocks) -/
theorem happensBefore_le {a b : NMap Nat} (ha : NMap.WF a) (h : VClock.happensBefore a b = true) :
    ∀ r, VClock.get a r ≤ VClock.get b r := by
  intro r
  simp only [VClock.happensBefore, Bool.and_eq_true, List.all_eq_true, decide_eq_true_eq] at h
  cases hg : NMap.get a r with
  | none => simp [VClock.get, hg]
  | some v =>
    have := h.1 (r, v) (NMap.mem_of_get hg)
    simpa [VClock.get, hg] using this

theorem happensBefore_strict {a b : NMap Nat} (ha : NMap.WF a) (hb : NMap.WF b)
    (h : VClock.happensBefore a b = true) : ∃ r, VClock.get a r < VClock.get b r := by
  simp only [VClock.happensBefore, Bool.and_eq_true, Bool.or_eq_true, List.any_eq_true,
    decide_eq_true_eq] at h
  rcases h.2 with ⟨p, hp, hlt⟩ | ⟨p, hp, hnone, hpos⟩
  · refine ⟨p.1, ?_⟩
    have := Crdt.get_of_mem ha hp
    simpa [VClock.get, this] using hlt
  · refine ⟨p.1, ?_⟩
    simp only [Option.isNone_iff_eq_none] at hnone
    have := Crdt.get_of_mem hb hp
    simp only [VClock.get, hnone, this, Option.getD_none, Option.getD_some]
    exact hpos

/-- a clock does not happen before itself -/
theorem happens_before_irrefl (a : NMap Nat) (ha : NMap.WF a) : VClock.happensBefore a a = false := by
  cases h : VClock.happensBefore a a with
  | false => rfl
  | true =>
    obtain ⟨r, hr⟩ := happensBefore_strict ha ha h
    omega

/-- `happens_before` is asymmetric -/
theorem happens_before_asymm (a b : NMap Nat) (ha : NMap.WF a) (hb : NMap.WF b)
    (h : VClock.happensBefore a b = true) : VClock.happensBefore b a = false := by
  cases h' : VClock.happensBefore b a with
  | false => rfl
  | true =>
    obtain ⟨r, hr⟩ := happensBefore_strict ha hb h
    have := happensBefore_le hb h' r
    omega

/-- `happens_before` is transitive -/
theorem happens_before_le_trans (a b c : NMap Nat) (ha : NMap.WF a) (hb : NMap.WF b)
    (h1 : VClock.happensBefore a b = true) (h2 : VClock.happensBefore b c = true) :
    (∀ r, VClock.get a r ≤ VClock.get c r) ∧ ∃ r, VClock.get a r < VClock.get c r := by
  refine ⟨fun r => Nat.le_trans (happensBefore_le ha h1 r) (happensBefore_le hb h2 r), ?_⟩
  obtain ⟨r, hr⟩ := happensBefore_strict ha hb h1
  exact ⟨r, Nat.lt_of_lt_of_le hr (happensBefore_le hb h2 r)⟩

/-- `concurrent_with` is symmetric whenever `==` is (it is: `vclock_eq_symm`) -/
theorem vclock_eq_symm (a b : NMap Nat) : VClock.eq a b = VClock.eq b a := by
  simp only [VClock.eq, Bool.and_comm]

theorem concurrent_symm (a b : NMap Nat) : VClock.concurrentWith a b = VClock.concurrentWith b a := by
  simp only [VClock.concurrentWith, vclock_eq_symm a b]
  cases VClock.happensBefore a b <;> cases VClock.happensBefore b a <;> rfl

/-- an operand never exceeds the merge, on any replica -/
theorem vclock_le_merge (a b : NMap Nat) (ha : NMap.WF a) (hb : NMap.WF b) (r : Nat) :
    VClock.get a r ≤ VClock.get (VClock.merge a b) r ∧ VClock.get b r ≤ VClock.get (VClock.merge a b) r := by
  rw [vclock_get_merge a b ha hb]
  exact ⟨Nat.le_max_left _ _, Nat.le_max_right _ _⟩

/-- … hence the merge never happens before an operand -/
theorem merge_not_before_operand (a b : NMap Nat) (ha : NMap.WF a) (hb : NMap.WF b) :
    VClock.happensBefore (VClock.merge a b) a = false := by
  cases h : VClock.happensBefore (VClock.merge a b) a with
  | false => rfl
  | true =>
    have hm : NMap.WF (VClock.merge a b) := NMap.wf_merge ha hb
    obtain ⟨r, hr⟩ := happensBefore_strict hm ha h
    have := (vclock_le_merge a b ha hb r).1
    omega

/-- comparison and merge fit together: an operand equals the merge or happens before it -/
theorem operand_le_merge (a b : NMap Nat) (ha : NMap.WF a) (hb : NMap.WF b) :
    VClock.eq a (VClock.merge a b) = true ∨ VClock.happensBefore a (VClock.merge a b) = true := by
  have hm : NMap.WF (VClock.merge a b) := NMap.wf_merge ha hb
  have hle : ∀ r, VClock.get a r ≤ VClock.get (VClock.merge a b) r := fun r => (vclock_le_merge a b ha hb r).1
  by_cases hex : ∃ r, VClock.get a r < VClock.get (VClock.merge a b) r
  · right
    obtain ⟨r, hr⟩ := hex
    simp only [VClock.happensBefore, Bool.and_eq_true, Bool.or_eq_true, List.all_eq_true, List.any_eq_true,
      decide_eq_true_eq]
    refine ⟨?_, ?_⟩
    · intro p hp
      have := hle p.1
      simpa [VClock.get, Crdt.get_of_mem ha hp] using this
    · cases hga : NMap.get a r with
      | some v =>
        left
        refine ⟨(r, v), NMap.mem_of_get hga, ?_⟩
        simpa [VClock.get, hga] using hr
      | none =>
        right
        cases hgm : NMap.get (VClock.merge a b) r with
        | none => simp [VClock.get, hga, hgm] at hr
        | some w =>
          refine ⟨(r, w), NMap.mem_of_get hgm, ?_, ?_⟩
          · simp [hga]
          · simpa [VClock.get, hga, hgm] using hr
  · left
    have heq : ∀ r, VClock.get a r = VClock.get (VClock.merge a b) r := by
      intro r
      have h1 := hle r
      have h2 : ¬ VClock.get a r < VClock.get (VClock.merge a b) r := fun h => hex ⟨r, h⟩
      omega
    simp only [VClock.eq, Bool.and_eq_true, List.all_eq_true, beq_iff_eq]
    refine ⟨?_, ?_⟩
    · intro p hp
      have := heq p.1
      simp only [VClock.get, Crdt.get_of_mem ha hp, Option.getD_some] at this
      simp only [VClock.get]; exact this.symm
    · intro p hp
      have := heq p.1
      simp only [VClock.get, Crdt.get_of_mem hm hp, Option.getD_some] at this
      simp only [VClock.get]; exact this

/-! ## GCounter / PNCounter -/

theorem gcounter_merge_idem (a : NMap Nat) (ha : NMap.WF a) : GCounter.merge a a = a := Crdt.cmerge_idem ha

theorem gcounter_merge_comm (a b : NMap Nat) (ha : NMap.WF a) (hb : NMap.WF b) :
    GCounter.merge a b = GCounter.merge b a := Crdt.cmerge_comm ha hb

theorem gcounter_merge_assoc (a b c : NMap Nat) (ha : NMap.WF a) (hb : NMap.WF b) (hc : NMap.WF c) :
    GCounter.merge a (GCounter.merge b c) = GCounter.merge (GCounter.merge a b) c :=
  Crdt.cmerge_assoc ha hb hc

/-- `get_replica_count` is a homomorphism -/
theorem gcounter_count_merge (a b : NMap Nat) (ha : NMap.WF a) (hb : NMap.WF b) (r : Nat) :
    GCounter.replicaCount (GCounter.merge a b) r =
      Max.max (GCounter.replicaCount a r) (GCounter.replicaCount b r) := by
  simp only [GCounter.replicaCount, GCounter.merge, NMap.get_merge ha hb, getD_optMerge_max]

theorem foldl_add_init (l : List Nat) (x : Nat) : l.foldl (· + ·) x = x + l.foldl (· + ·) 0 := by
  induction l generalizing x with
  | nil => simp
  | cons y l ih => simp only [List.foldl_cons]; rw [ih (x + y), ih (0 + y)]; omega

theorem value_cons (p : Nat × Nat) (m : NMap Nat) : GCounter.value (p :: m) = p.2 + GCounter.value m := by
  simp only [GCounter.value, List.map_cons, List.foldl_cons]
  rw [foldl_add_init]; omega

/-- the total is the sum of the per-replica counts: monotone in every count -/
theorem value_le_of_count_le : ∀ (a b : NMap Nat), NMap.WF a → NMap.WF b →
    (∀ r, GCounter.replicaCount a r ≤ GCounter.replicaCount b r) → GCounter.value a ≤ GCounter.value b := by
  intro a
  induction a with
  | nil => intro b _ _ _; simp [GCounter.value]
  | cons p a ih =>
    intro b ha hb h
    obtain ⟨k, v⟩ := p
    have ⟨hlb, hwa⟩ := NMap.wf_cons.mp ha
    -- split b at k
    have hk := h k
    simp only [GCounter.replicaCount, NMap.get_cons, if_true, Option.getD_some] at hk
    -- value b = count b k + value (erase k b)
    have hsplit : ∀ (m : NMap Nat), NMap.WF m →
        GCounter.value m = (NMap.get m k).getD 0 + GCounter.value (NMap.erase k m) := by
      intro m
      induction m with
      | nil => intro _; simp [GCounter.value, NMap.get, NMap.erase]
      | cons q m ihm =>
        intro hm
        have ⟨_, hwm⟩ := NMap.wf_cons.mp hm
        rw [NMap.get_cons]
        simp only [NMap.erase]
        by_cases hq : k = q.1
        · simp only [hq, if_true, Option.getD_some, value_cons]
        · simp only [hq, if_false, value_cons]
          rw [ihm hwm]; omega
    rw [value_cons, hsplit b hb]
    have hrest : GCounter.value a ≤ GCounter.value (NMap.erase k b) := by
      apply ih (NMap.erase k b) hwa (NMap.wf_erase hb)
      intro r
      have hr := h r
      simp only [GCounter.replicaCount, NMap.get_cons] at hr ⊢
      rw [NMap.get_erase hb]
      by_cases hrk : r = k
      · subst hrk
        have : NMap.get a r = none := NMap.get_eq_none_of_LB hlb (Nat.le_refl _)
        simp [this]
      · have hne : ¬ (k = r) := fun e => hrk e.symm
        simp only [hrk, hne, if_false] at hr ⊢
        exact hr
    omega

/-- `value()` never decreases under merge -/
theorem gcounter_value_le_merge (a b : NMap Nat) (ha : NMap.WF a) (hb : NMap.WF b) :
    GCounter.value a ≤ GCounter.value (GCounter.merge a b) ∧
    GCounter.value b ≤ GCounter.value (GCounter.merge a b) := by
  have hm : NMap.WF (GCounter.merge a b) := NMap.wf_merge ha hb
  constructor
  · apply value_le_of_count_le a _ ha hm
    intro r; rw [gcounter_count_merge a b ha hb]; exact Nat.le_max_left _ _
  · apply value_le_of_count_le b _ hb hm
    intro r; rw [gcounter_count_merge a b ha hb]; exact Nat.le_max_right _ _

theorem pncounter_merge_idem (p n : NMap Nat) (hp : NMap.WF p) (hn : NMap.WF n) :
    Crdt.tryMerge (.pncounter p n) (.pncounter p n) = some (.pncounter p n) := by
  simp [Crdt.tryMerge, Crdt.cmerge_idem hp, Crdt.cmerge_idem hn]

theorem pncounter_merge_comm (p n p' n' : NMap Nat) (hp : NMap.WF p) (hn : NMap.WF n)
    (hp' : NMap.WF p') (hn' : NMap.WF n') :
    Crdt.tryMerge (.pncounter p n) (.pncounter p' n') = Crdt.tryMerge (.pncounter p' n') (.pncounter p n) := by
  simp [Crdt.tryMerge, Crdt.cmerge_comm hp hp', Crdt.cmerge_comm hn hn']

/-- the two halves of a PN-counter are merged independently and both totals only grow: a merged
    `value()` lies between `pos(a) − neg(a ⊔ b)` and `pos(a ⊔ b) − neg(a)` -/
theorem pncounter_halves_le_merge (p n p' n' : NMap Nat) (hp : NMap.WF p) (hn : NMap.WF n)
    (hp' : NMap.WF p') (hn' : NMap.WF n') :
    GCounter.value p ≤ GCounter.value (GCounter.merge p p') ∧
    GCounter.value n ≤ GCounter.value (GCounter.merge n n') :=
  ⟨(gcounter_value_le_merge p p' hp hp').1, (gcounter_value_le_merge n n' hn hn').1⟩

/-! ## GSet -/

theorem gset_merge_idem (a : NSet) (ha : NSet.WF a) : GSet.merge a a = a := NSet.union_idem ha

theorem gset_merge_comm (a b : NSet) (ha : NSet.WF a) (hb : NSet.WF b) : GSet.merge a b = GSet.merge b a :=
  NSet.union_comm ha hb

theorem gset_merge_assoc (a b c : NSet) (ha : NSet.WF a) (hb : NSet.WF b) (hc : NSet.WF c) :
    GSet.merge a (GSet.merge b c) = GSet.merge (GSet.merge a b) c := NSet.union_assoc ha hb hc

theorem mem_nset_insert (k x : Nat) (s : NSet) : x ∈ NSet.insert k s ↔ x = k ∨ x ∈ s := by
  induction s with
  | nil => simp [NSet.insert]
  | cons y s ih =>
    simp only [NSet.insert]
    split
    · simp
    · split
      · rename_i _ h; subst h; simp
      · simp only [List.mem_cons, ih]
        constructor
        · rintro (h | h | h)
          · exact Or.inr (Or.inl h)
          · exact Or.inl h
          · exact Or.inr (Or.inr h)
        · rintro (h | h | h)
          · exact Or.inr (Or.inl h)
          · exact Or.inl h
          · exact Or.inr (Or.inr h)

theorem mem_nset_union (a b : NSet) (x : Nat) : x ∈ NSet.union a b ↔ x ∈ a ∨ x ∈ b := by
  induction a with
  | nil => simp [NSet.union]
  | cons y a ih =>
    show x ∈ NSet.insert y (NSet.union a b) ↔ _
    rw [mem_nset_insert, ih]
    simp only [List.mem_cons]
    constructor
    · rintro (h | h | h)
      · exact Or.inl (Or.inl h)
      · exact Or.inl (Or.inr h)
      · exact Or.inr h
    · rintro ((h | h) | h)
      · exact Or.inl h
      · exact Or.inr (Or.inl h)
      · exact Or.inr (Or.inr h)

/-- membership is a homomorphism: an element is in the merge iff it is in one of the operands -/
theorem gset_contains_merge (a b : NSet) (e : Nat) :
    GSet.contains (GSet.merge a b) e = (GSet.contains a e || GSet.contains b e) := by
  simp only [GSet.contains, GSet.merge]
  rw [Bool.eq_iff_iff]
  simp only [List.contains_iff_mem, Bool.or_eq_true]
  exact mem_nset_union a b e

/-! ## ORSet -/

theorem nset_union_eq_nil (a b : NSet) : NSet.union a b = [] ↔ a = [] ∧ b = [] := by
  cases a with
  | nil => simp [NSet.union]
  | cons x a =>
    constructor
    · intro h; exact absurd h (NSet.insert_ne_nil _ _)
    · intro h; cases h.1

theorem get_filter {ν : Type} (f : Nat × ν → Bool) : ∀ (m : NMap ν), NMap.WF m → ∀ k,
    NMap.get (m.filter f) k = (NMap.get m k).bind (fun v => if f (k, v) then some v else none) := by
  intro m
  induction m with
  | nil => intro _ k; rfl
  | cons p m ih =>
    intro hw k
    have ⟨hlb, hwm⟩ := NMap.wf_cons.mp hw
    simp only [List.filter_cons]
    by_cases hk : k = p.1
    · subst hk
      split
      · rename_i hf
        simp [NMap.get_cons, hf]
      · rename_i hf
        rw [ih hwm, NMap.get_cons]
        have : NMap.get m p.1 = none := NMap.get_eq_none_of_LB hlb (Nat.le_refl _)
        simp [this, hf]
    · split
      · rw [NMap.get_cons, NMap.get_cons]
        simp only [hk, if_false]
        exact ih hwm k
      · rw [ih hwm, NMap.get_cons]
        simp [hk]

/-- `contains` is a homomorphism: an element is in the merged OR-set iff one of the operands has
    it (with a live tag) -/
theorem orset_contains_merge (a b : NMap NSet) (ha : NMap.WF a) (hb : NMap.WF b) (e : Nat) :
    ORSet.contains (Crdt.orsetMergeElems a b) e = (ORSet.contains a e || ORSet.contains b e) := by
  simp only [ORSet.contains, Crdt.orsetMergeElems]
  rw [get_filter _ _ (NMap.wf_merge ha hb), NMap.get_merge ha hb]
  cases hga : NMap.get a e <;> cases hgb : NMap.get b e <;> simp only [optMerge, Option.bind]
  · rfl
  · rename_i y
    cases y <;> simp
  · rename_i x
    cases x <;> simp
  · rename_i x y
    by_cases hu : NSet.union x y = []
    · obtain ⟨rfl, rfl⟩ := (nset_union_eq_nil x y).mp hu
      simp [NSet.union]
    · have hne : (NSet.union x y).isEmpty = false := by
        cases h : NSet.union x y with
        | nil => exact absurd h hu
        | cons _ _ => rfl
      simp only [hne, Bool.not_false, if_true]
      have : ¬ (x = [] ∧ y = []) := fun h => hu ((nset_union_eq_nil x y).mpr h)
      cases x <;> cases y <;> simp_all

/-! ## the `CrdtValue` level -/

theorem try_merge_idem (a : Crdt) (ha : a.WF) : Crdt.tryMerge a a = some a := by
  have := rv_merge_idem (RV.withCrdt a 1) ⟨ha, by simp [RV.withCrdt, RV.vcWF]⟩
  have hc := congrArg RV.crdt this
  simp only [merge, mergeWith, RV.withCrdt, Crdt.mergeWithTimestamps] at hc
  cases a <;> simp only [Crdt.tryMerge] at hc ⊢ <;> simp_all

/-- `try_merge` of two values of one kind is commutative (registers tie-consistent) -/
theorem try_merge_comm (a b : Crdt) (ha : a.WF) (hb : b.WF) (hk : a.kind = b.kind)
    (ht : tieOk a b ⟨0, 1⟩ ⟨0, 2⟩ = true) : Crdt.tryMerge a b = Crdt.tryMerge b a := by
  have h := rv_merge_comm (RV.withCrdt a 1) (RV.withCrdt b 2) ⟨ha, by simp [RV.withCrdt, RV.vcWF]⟩
    ⟨hb, by simp [RV.withCrdt, RV.vcWF]⟩ ht
  have hc := congrArg RV.crdt h
  simp only [merge, mergeWith, RV.withCrdt, Crdt.mergeWithTimestamps] at hc
  obtain ⟨m, hm⟩ := tryMerge_some_of_kind hk
  obtain ⟨m', hm'⟩ := tryMerge_some_of_kind hk.symm
  rw [hm, hm'] at hc ⊢
  simp only at hc
  rw [hc]

/-- `try_merge` is associative within one kind -/
theorem try_merge_assoc (a b c : Crdt) (ha : a.WF) (hb : b.WF) (hc : c.WF)
    (hab : a.kind = b.kind) (hbc : b.kind = c.kind) :
    (Crdt.tryMerge b c).bind (Crdt.tryMerge a) = (Crdt.tryMerge a b).bind (fun m => Crdt.tryMerge m c) := by
  have h := rv_merge_assoc_partial (RV.withCrdt a 1) (RV.withCrdt b 2) (RV.withCrdt c 3)
    ⟨ha, by simp [RV.withCrdt, RV.vcWF]⟩ ⟨hb, by simp [RV.withCrdt, RV.vcWF]⟩
    ⟨hc, by simp [RV.withCrdt, RV.vcWF]⟩ ⟨hab, hbc⟩
  have hcr := congrArg RV.crdt h
  simp only [merge, mergeWith, RV.withCrdt, Crdt.mergeWithTimestamps] at hcr
  obtain ⟨mbc, hmbc⟩ := tryMerge_some_of_kind hbc
  obtain ⟨mab, hmab⟩ := tryMerge_some_of_kind hab
  have kbc : mbc.kind = b.kind := (kind_tryMerge hmbc).2
  have kab : mab.kind = a.kind := (kind_tryMerge hmab).2
  obtain ⟨l, hl⟩ := tryMerge_some_of_kind (a := a) (b := mbc) (by rw [kbc]; exact hab)
  obtain ⟨r, hr⟩ := tryMerge_some_of_kind (a := mab) (b := c) (by rw [kab, hab]; exact hbc)
  rw [hmbc, hmab] at hcr ⊢
  simp only [Option.bind_some] at hcr ⊢
  rw [hl, hr] at hcr ⊢
  simp only at hcr
  rw [hcr]

/-- `ORSet::merge` (elements and sequence counters), `Hash` merge (per-field registers): the laws
    at the lattice's own type are instances of `try_merge_*` -/
theorem orset_merge_comm (e e' : NMap NSet) (s s' : NMap Nat)
    (h : (Crdt.orset e s).WF) (h' : (Crdt.orset e' s').WF) :
    Crdt.orsetMergeElems e e' = Crdt.orsetMergeElems e' e ∧
    NMap.merge Max.max s s' = NMap.merge Max.max s' s := by
  have := try_merge_comm (.orset e s) (.orset e' s') h h' rfl rfl
  simpa [Crdt.tryMerge] using this

theorem orset_merge_idem (e : NMap NSet) (s : NMap Nat) (h : (Crdt.orset e s).WF) :
    Crdt.orsetMergeElems e e = e ∧ NMap.merge Max.max s s = s := by
  have := try_merge_idem (.orset e s) h
  simpa [Crdt.tryMerge] using this

theorem orset_merge_assoc (e1 e2 e3 : NMap NSet) (s1 s2 s3 : NMap Nat)
    (h1 : (Crdt.orset e1 s1).WF) (h2 : (Crdt.orset e2 s2).WF) (h3 : (Crdt.orset e3 s3).WF) :
    Crdt.orsetMergeElems e1 (Crdt.orsetMergeElems e2 e3) = Crdt.orsetMergeElems (Crdt.orsetMergeElems e1 e2) e3 := by
  have := try_merge_assoc (.orset e1 s1) (.orset e2 s2) (.orset e3 s3) h1 h2 h3 rfl rfl
  simp only [Crdt.tryMerge, Option.bind_some, Option.some.injEq, Crdt.orset.injEq] at this
  exact this.1

theorem hash_merge_idem (h : NMap Lww) (hw : NMap.WF h) : NMap.merge Lww.merge h h = h := by
  have := try_merge_idem (.hash h) hw
  simpa [Crdt.tryMerge] using this

theorem hash_merge_comm (h h' : NMap Lww) (hw : NMap.WF h) (hw' : NMap.WF h')
    (ht : tieOk (.hash h) (.hash h') ⟨0, 1⟩ ⟨0, 2⟩ = true) :
    NMap.merge Lww.merge h h' = NMap.merge Lww.merge h' h := by
  have := try_merge_comm (.hash h) (.hash h') hw hw' rfl ht
  simpa [Crdt.tryMerge] using this

theorem hash_merge_assoc (h1 h2 h3 : NMap Lww) (w1 : NMap.WF h1) (w2 : NMap.WF h2) (w3 : NMap.WF h3) :
    NMap.merge Lww.merge h1 (NMap.merge Lww.merge h2 h3) = NMap.merge Lww.merge (NMap.merge Lww.merge h1 h2) h3 := by
  have := try_merge_assoc (.hash h1) (.hash h2) (.hash h3) w1 w2 w3 rfl rfl
  simpa [Crdt.tryMerge] using this

/-- a field of a merged hash is the LWW merge of the operands' registers for that field -/
theorem hash_field_merge (h h' : NMap Lww) (hw : NMap.WF h) (hw' : NMap.WF h') (f : Nat) :
    NMap.get (NMap.merge Lww.merge h h') f = optMerge Lww.merge (NMap.get h f) (NMap.get h' f) :=
  NMap.get_merge hw hw' f

/-- the deprecated `CrdtValue::merge` agrees with `try_merge` on one kind and keeps `self`
    otherwise: it is not commutative (public, `#[deprecated]`, no caller in the crate) -/
theorem crdt_merge_deprecated_not_comm :
    Crdt.mergeDeprecated (.lww (Lww.set [1] ⟨1, 1⟩)) (.gcounter [(1, 1)]) ≠
      Crdt.mergeDeprecated (.gcounter [(1, 1)]) (.lww (Lww.set [1] ⟨1, 1⟩)) := by decide

theorem crdt_merge_deprecated_same_kind (a b : Crdt) (h : a.kind = b.kind) :
    some (Crdt.mergeDeprecated a b) = Crdt.tryMerge a b := by
  unfold Crdt.mergeDeprecated
  cases a <;> cases b <;> simp_all [Crdt.kind, Crdt.tryMerge]

/-! ## what is exposed that is not a lattice operation -/

/-- removing an element from an OR-set is not inflationary for the STATE merge: merged with a
    replica that has not seen the removal the element is back (removal travels as `apply_remove`) -/
theorem orset_remove_not_inflationary :
    let s := (ORSet.add [] [] 7 1)
    let r := ORSet.remove s.1 7
    Crdt.orsetMergeElems r.1 s.1 = s.1 ∧ ORSet.contains r.1 7 = false ∧
      ORSet.contains (Crdt.orsetMergeElems r.1 s.1) 7 = true ∧
      ORSet.contains (ORSet.applyRemove s.1 7 r.2) 7 = false := by decide

/-- `PartialEq for ORSet` does not look at `next_sequence` (two sets that will hand out different
    tags compare equal) -/
theorem orset_eq_ignores_next_sequence :
    let a := ORSet.add [] [] 7 1
    ORSet.eq a.1 a.1 = true ∧ a.2.1 ≠ ([] : NMap Nat) := by decide

/-! ## every accessor, one observation -/

/-- every public accessor of `ReplicatedValue`, `CrdtValue` and the lattices inside, applied to a
    value (accessors with an argument are given as the finite table of their non-default answers:
    the stored map / set itself, canonical) -/
structure ObsAll where
  get : Option Bytes                       -- ReplicatedValue::get
  isTombstone : Bool                       -- is_tombstone
  crdtType : String                        -- crdt_type / type_name
  isLww : Bool                             -- is_lww
  isHash : Bool                            -- is_hash
  lww : Option Lww                         -- lww / as_lww (value, timestamp, tombstone)
  hash : Option (NMap Lww)                 -- get_hash / as_hash (field registers)
  hashGet : List (Nat × Bytes)             -- hash_get for every field that answers
  gcounter : Option (NMap Nat)             -- as_gcounter → get_replica_count
  gcounterValue : Option Nat               -- GCounter::value
  gcounterEmpty : Option Bool              -- GCounter::is_empty
  pncounter : Option (NMap Nat × NMap Nat) -- as_pncounter
  pncounterValue : Option Int              -- PNCounter::value
  pncounterEmpty : Option Bool
  gset : Option NSet                       -- as_gset → contains / elements / len / is_empty
  orset : Option (NMap NSet × NMap Nat)    -- as_orset → get_tags, next_sequence
  orsetElements : Option (List Nat)        -- ORSet::elements / contains / len / is_empty
  vc : Option (NMap Nat)                   -- vector_clock → VectorClock::get
  expiry : Option Nat                      -- expiry_ms
  stamp : Stamp                            -- timestamp
  rf : Option Nat                          -- replication_factor / get_replication_factor
  deriving DecidableEq, Repr

def obsAll (a : RV) : ObsAll :=
  { get := a.get
    isTombstone := a.isTombstone
    crdtType := a.crdtType
    isLww := a.crdt.isLww
    isHash := a.isHash
    lww := a.lww
    hash := a.getHash
    hashGet := (a.crdt.hashOf).filterMap (fun p => p.2.get.map (fun v => (p.1, v)))
    gcounter := a.crdt.asGCounter
    gcounterValue := a.crdt.asGCounter.map GCounter.value
    gcounterEmpty := a.crdt.asGCounter.map GCounter.isEmpty
    pncounter := a.crdt.asPNCounter
    pncounterValue := a.crdt.asPNCounter.map (fun p => PNCounter.value p.1 p.2)
    pncounterEmpty := a.crdt.asPNCounter.map (fun p => PNCounter.isEmpty p.1 p.2)
    gset := a.crdt.asGSet
    orset := a.crdt.asORSet
    orsetElements := a.crdt.asORSet.map (fun p => ORSet.elements p.1)
    vc := a.vc
    expiry := a.expiry
    stamp := a.ts
    rf := a.rf }

/-- **C07 in all it exposes**: every accessor sees an idempotent, commutative (tie-consistent
    operands) and — for one kind — associative merge -/
theorem obs_all_idem (a : RV) (ha : a.WF) : obsAll (merge a a) = obsAll a := by
  rw [rv_merge_idem a ha]

theorem obs_all_comm (a b : RV) (ha : a.WF) (hb : b.WF) (ht : TieConsistent a b) :
    obsAll (merge a b) = obsAll (merge b a) := by
  rw [rv_merge_comm a b ha hb ht]

theorem obs_all_assoc_partial (a b c : RV) (ha : a.WF) (hb : b.WF) (hc : c.WF) (hk : SameKind a b c) :
    obsAll (merge a (merge b c)) = obsAll (merge (merge a b) c) := by
  rw [rv_merge_assoc_partial a b c ha hb hc hk]

/-- the old observation is a projection of the new one -/
theorem obs_of_obsAll (a b : RV) (h : obsAll a = obsAll b) :
    (obs a).value = (obs b).value ∧ (obs a).tombstone = (obs b).tombstone ∧
    (obs a).expiry = (obs b).expiry ∧ (obs a).stamp = (obs b).stamp := by
  have h1 := congrArg ObsAll.get h
  have h2 := congrArg ObsAll.isTombstone h
  have h3 := congrArg ObsAll.expiry h
  have h4 := congrArg ObsAll.stamp h
  exact ⟨h1, h2, h3, h4⟩

/-- the cross-kind finding seen through `hash_get`: field `f` of the two association orders -/
theorem assoc_cross_kind_seen_by_hash_get :
    (merge hashA (merge lwwB hashC)).hashGet 102 = some [49] ∧
    (merge (merge hashA lwwB) hashC).hashGet 102 = none := by decide

example : (obsAll exOr1).orsetElements = some [7] ∧ (obsAll (merge exOr1 exOr2)).orsetElements = some [7, 9] ∧
    (obsAll (merge exOr1 exOr2)).rf = some 3 ∧ (obsAll (merge exOr1 exOr2)).crdtType = "orset" := by decide

end C07
end RedisVerif
