import RedisVerif.Model.Ring
import RedisVerif.Lemmas.Ring
import RedisVerif.Lemmas.Crdt

/-!
# C19 — Key placement is a function of membership; selective gossip reaches every owner

Model: `RedisVerif.Ring` (M8, `Model/Ring.lean`) = `HashRing`, `GossipRouter`, `GossipState::queue_deltas`.
`hashV` (position of a virtual node) is an arbitrary function and a key is its ring position:
nothing below depends on SipHash.  Theorems quantify over every `HashRing` value reachable
through `new` / `add_node` / `remove_node` (`Reachable`), any number of nodes, virtual nodes,
any replication factor, any key position.

* `ring_order_independent_partial`, `replicas_order_independent_partial` — proved under
  `PosInjective` (distinct virtual nodes have distinct positions; checked at run time by the
  harness for every membership it uses).  The hypothesis is necessary
  (`ring_order_collision_counterexample`: the stable sort breaks a position tie by join order).
* `replicas_count_distinct` (`vnodes ≥ 1`), `replicas_vnodes_zero` (the degenerate
  configuration places nothing).
* `minimal_disruption_remove`, `minimal_disruption_add`.
* `targets_exact`, `route_selective_exact`, `route_covers_owners`, `route_nobody_else`,
  `queue_deltas_covers_owners`.
* `from_config_peer_ids` is proved for the corrected id arithmetic (`PeerIdArith.fixed`);
  the arithmetic of the code as it is (`.pinned`) violates it:
  `from_config_peer_ids_counterexample`, `from_config_pinned_starves_owner` (known finding
  `C19:from_config:peer-id-off-by-one`).
-/
namespace RedisVerif
namespace C19

open Ring

/-! ## full-strength statements -/

/-- every join order of the same membership yields the same ring (`tb` = the sort key of
    `add_node`: `.joinOrder` is the code as it is, `.total` the suggested patch) -/
def C19_ring_order_independent (tb : TieBreak) : Prop :=
  ∀ (hashV : Nat → Nat → Nat) (nodes nodes' : List Nat) (vnodes rf : Nat), nodes.Perm nodes' →
    (newTB tb hashV nodes vnodes rf).ring = (newTB tb hashV nodes' vnodes rf).ring

/-- … hence the same ordered replica list for every key -/
def C19_replicas_order_independent (tb : TieBreak) : Prop :=
  ∀ (hashV : Nat → Nat → Nat) (nodes nodes' : List Nat) (vnodes rf keyPos : Nat), nodes.Perm nodes' →
    getReplicas (newTB tb hashV nodes vnodes rf) keyPos = getReplicas (newTB tb hashV nodes' vnodes rf) keyPos

def C19_replicas_count_distinct : Prop :=
  ∀ (hashV : Nat → Nat → Nat) (r : HashRing) (keyPos rf : Nat), Reachable hashV r → 1 ≤ r.vnodes →
    (getReplicasWithRf r keyPos rf).length = min rf r.phys.length ∧ (getReplicasWithRf r keyPos rf).Nodup

def C19_minimal_disruption_remove : Prop :=
  ∀ (hashV : Nat → Nat → Nat) (r : HashRing) (x keyPos : Nat), Reachable hashV r →
    ¬ x ∈ getReplicas r keyPos → getReplicas (removeNode r x) keyPos = getReplicas r keyPos

def C19_minimal_disruption_add : Prop :=
  ∀ (hashV : Nat → Nat → Nat) (r : HashRing) (x keyPos : Nat), Reachable hashV r →
    ¬ x ∈ getReplicas (addNode hashV r x) keyPos →
    getReplicas (addNode hashV r x) keyPos = getReplicas r keyPos

def C19_targets_exact : Prop :=
  ∀ (r : HashRing) (keyPos sender t : Nat),
    t ∈ gossipTargets r keyPos sender ↔ t ∈ getReplicas r keyPos ∧ t ≠ sender

/-- the router knows an address for every other member -/
def PeersCoverMembers (ring : HashRing) (rt : Router) : Prop :=
  ∀ m ∈ ring.phys, m ≠ rt.self → (rt.peers.get m).isSome = true

instance (ring : HashRing) (rt : Router) : Decidable (PeersCoverMembers ring rt) := by
  unfold PeersCoverMembers; infer_instance

/-- every delta is handed to every responsible replica other than the sender, and to nobody
    else (in the order of the batch, once each) -/
def C19_route_covers_owners : Prop :=
  ∀ (hashV : Nat → Nat → Nat) (ring : HashRing) (rt : Router) (deltas : List Nat) (t : Nat),
    Reachable hashV ring → PeersCoverMembers ring rt →
    row (routeSelective ring rt deltas) t
      = deltas.filter (fun d => decide (t ∈ getReplicas ring d) && (t != rt.self))

/-- `from_config` registers exactly the other members `{1..n+1} \ {replica_id}` of a cluster
    of `n` peers + self with sequential ids -/
def C19_from_config_peer_ids (a : PeerIdArith) : Prop :=
  ∀ (replicaId npeers id : Nat), 1 ≤ replicaId → replicaId ≤ npeers + 1 →
    ((NMap.get (fromConfigPeers a replicaId npeers) id).isSome = true
      ↔ (1 ≤ id ∧ id ≤ npeers + 1 ∧ id ≠ replicaId))

/-! ## placement is a function of the membership set -/

/-- **C19 (join order), partial**: under `PosInjective` the ring does not depend on the order in
    which the members joined — for either sort key.  Missing for `C19_ring_order_independent .joinOrder`:
    memberships in which two distinct virtual nodes hash to the same position (a 64-bit SipHash
    collision) — there the statement is false for the code as it is: `ring_order_collision_counterexample`
    (abstract hash) and `ring_order_sip13_counterexample` (the REAL hash, two real node ids). -/
theorem ring_order_independent_tb_partial (tb : TieBreak) (hashV : Nat → Nat → Nat) (nodes nodes' : List Nat)
    (vnodes rf : Nat) (hp : nodes.Perm nodes') (hinj : PosInjective hashV nodes vnodes) :
    (newTB tb hashV nodes vnodes rf).ring = (newTB tb hashV nodes' vnodes rf).ring := by
  apply ring_eq_of_same_members (newTB_reachable tb hashV nodes vnodes rf) (newTB_reachable tb hashV nodes' vnodes rf)
  · rw [(newTB_vnodes tb hashV nodes vnodes rf).1, (newTB_vnodes tb hashV nodes' vnodes rf).1]
  · intro y; rw [mem_phys_newTB, mem_phys_newTB]; exact hp.mem_iff
  · rw [(newTB_vnodes tb hashV nodes vnodes rf).1]
    intro a ha b hb
    exact hinj a (mem_phys_newTB.mp ha) b (mem_phys_newTB.mp hb)

theorem ring_order_independent_partial (hashV : Nat → Nat → Nat) (nodes nodes' : List Nat)
    (vnodes rf : Nat) (hp : nodes.Perm nodes') (hinj : PosInjective hashV nodes vnodes) :
    (new hashV nodes vnodes rf).ring = (new hashV nodes' vnodes rf).ring :=
  ring_order_independent_tb_partial _ hashV nodes nodes' vnodes rf hp hinj

/-- equal rings of two reachable values with the same membership set give equal replica lists -/
theorem replicas_eq_of_ring_eq {hashV : Nat → Nat → Nat} {r₁ r₂ : HashRing} (h1 : Reachable hashV r₁)
    (h2 : Reachable hashV r₂) (hm : ∀ y, y ∈ r₁.phys ↔ y ∈ r₂.phys) (hring : r₁.ring = r₂.ring) (keyPos rf : Nat) :
    getReplicasWithRf r₁ keyPos rf = getReplicasWithRf r₂ keyPos rf := by
  have hlen : r₁.phys.length = r₂.phys.length := by
    apply Nat.le_antisymm
    · exact nodup_subset_length h1.wf.physNodup (fun a ha => (hm a).mp ha)
    · exact nodup_subset_length h2.wf.physNodup (fun a ha => (hm a).mpr ha)
  rw [getReplicasWithRf_eq h1.wf.sorted, getReplicasWithRf_eq h2.wf.sorted, hring, hlen]

/-- **C19 (same replica list on every node), partial** (same hypothesis) -/
theorem replicas_order_independent_tb_partial (tb : TieBreak) (hashV : Nat → Nat → Nat) (nodes nodes' : List Nat)
    (vnodes rf keyPos : Nat) (hp : nodes.Perm nodes') (hinj : PosInjective hashV nodes vnodes) :
    getReplicas (newTB tb hashV nodes vnodes rf) keyPos = getReplicas (newTB tb hashV nodes' vnodes rf) keyPos := by
  unfold getReplicas
  rw [(newTB_vnodes tb hashV nodes vnodes rf).2, (newTB_vnodes tb hashV nodes' vnodes rf).2]
  exact replicas_eq_of_ring_eq (newTB_reachable tb hashV nodes vnodes rf) (newTB_reachable tb hashV nodes' vnodes rf)
    (fun y => by rw [mem_phys_newTB, mem_phys_newTB]; exact hp.mem_iff)
    (ring_order_independent_tb_partial tb hashV nodes nodes' vnodes rf hp hinj) keyPos rf

theorem replicas_order_independent_partial (hashV : Nat → Nat → Nat) (nodes nodes' : List Nat)
    (vnodes rf keyPos : Nat) (hp : nodes.Perm nodes') (hinj : PosInjective hashV nodes vnodes) :
    getReplicas (new hashV nodes vnodes rf) keyPos = getReplicas (new hashV nodes' vnodes rf) keyPos :=
  replicas_order_independent_tb_partial _ hashV nodes nodes' vnodes rf keyPos hp hinj

/-- **C19 (join order), FULL statement, for the patched sort key**: when `add_node` sorts by
    (position, node id, virtual index) the ring is a function of the membership SET — for EVERY
    hash function (colliding or not), every membership, every two join orders, every vnode count.
    No hypothesis about SipHash is left. -/
theorem ring_order_independent_total : C19_ring_order_independent .total := by
  intro hashV nodes nodes' vnodes rf hp
  apply ring_eq_of_same_members_total (newTB_reachable .total hashV nodes vnodes rf)
    (newTB_reachable .total hashV nodes' vnodes rf) (newTB_tb ..) (newTB_tb ..)
  · rw [(newTB_vnodes .total hashV nodes vnodes rf).1, (newTB_vnodes .total hashV nodes' vnodes rf).1]
  · intro y; rw [mem_phys_newTB, mem_phys_newTB]; exact hp.mem_iff

/-- … hence every node computes the same ordered replica list for every key (FULL statement) -/
theorem replicas_order_independent_total : C19_replicas_order_independent .total := by
  intro hashV nodes nodes' vnodes rf keyPos hp
  unfold getReplicas
  rw [(newTB_vnodes .total hashV nodes vnodes rf).2, (newTB_vnodes .total hashV nodes' vnodes rf).2]
  exact replicas_eq_of_ring_eq (newTB_reachable .total hashV nodes vnodes rf) (newTB_reachable .total hashV nodes' vnodes rf)
    (fun y => by rw [mem_phys_newTB, mem_phys_newTB]; exact hp.mem_iff)
    (ring_order_independent_total hashV nodes nodes' vnodes rf hp) keyPos rf

/-- the same for ANY two reachable rings (any history of `add_node` / `remove_node`, not only
    `new`) that hold the same membership set: with the patched sort key the ring is determined -/
theorem ring_determined_by_members_total (hashV : Nat → Nat → Nat) (r₁ r₂ : HashRing)
    (h1 : Reachable hashV r₁) (h2 : Reachable hashV r₂) (ht1 : r₁.tb = .total) (ht2 : r₂.tb = .total)
    (hv : r₁.vnodes = r₂.vnodes) (hm : ∀ y, y ∈ r₁.phys ↔ y ∈ r₂.phys) (keyPos rf : Nat) :
    r₁.ring = r₂.ring ∧ getReplicasWithRf r₁ keyPos rf = getReplicasWithRf r₂ keyPos rf :=
  ⟨ring_eq_of_same_members_total h1 h2 ht1 ht2 hv hm,
   replicas_eq_of_ring_eq h1 h2 hm (ring_eq_of_same_members_total h1 h2 ht1 ht2 hv hm) keyPos rf⟩

/-- **C19 (join order), for the positions the code computes**: `hash_virtual_node(node, i) =
    sip(node as 8 LE bytes, i as 4 LE bytes)`; for every collision-free byte hash `sip`, every
    membership, every two join orders, every vnode count: the same ring, hence (next theorem) the
    same replica list for every key on every node.  NOTE (session 4): the hypothesis is a property
    of the hash function — and the REAL function does not have it (`sip13_vnode_collision`,
    `sip13_not_injective`): for SipHash-1-3 these two theorems say nothing; what holds for the real
    hash is `_partial` (per membership) and, for the patched sort key, `ring_order_independent_total`. -/
theorem ring_order_independent_sip (sip : List Nat → Nat) (hs : ∀ a b, sip a = sip b → a = b)
    (nodes nodes' : List Nat) (vnodes rf : Nat) (hp : nodes.Perm nodes') :
    (new (vnodePos sip) nodes vnodes rf).ring = (new (vnodePos sip) nodes' vnodes rf).ring :=
  ring_order_independent_partial (vnodePos sip) nodes nodes' vnodes rf hp (posInjective_vnodePos hs nodes vnodes)

theorem replicas_order_independent_sip (sip : List Nat → Nat) (hs : ∀ a b, sip a = sip b → a = b)
    (kb : Nat → List Nat) (nodes nodes' : List Nat) (vnodes rf key : Nat) (hp : nodes.Perm nodes') :
    getReplicas (new (vnodePos sip) nodes vnodes rf) (keyPosOf sip kb key)
      = getReplicas (new (vnodePos sip) nodes' vnodes rf) (keyPosOf sip kb key) :=
  replicas_order_independent_partial (vnodePos sip) nodes nodes' vnodes rf _ hp (posInjective_vnodePos hs nodes vnodes)

/-- the hypothesis is necessary for the code as it is: with colliding positions the stable sort
    by position alone keeps join order -/
theorem ring_order_collision_counterexample :
    (newTB .joinOrder (fun _ _ => 7) [1, 2] 1 1).ring ≠ (newTB .joinOrder (fun _ _ => 7) [2, 1] 1 1).ring
    ∧ getReplicas (newTB .joinOrder (fun _ _ => 7) [1, 2] 1 1) 0 ≠ getReplicas (newTB .joinOrder (fun _ _ => 7) [2, 1] 1 1) 0 := by
  decide

theorem C19_ring_order_independent_false : ¬ C19_ring_order_independent .joinOrder := by
  intro h
  exact ring_order_collision_counterexample.1
    (h (fun _ _ => 7) [1, 2] [2, 1] 1 1 (List.Perm.swap 2 1 []))

/-! ### a REAL collision of `hash_virtual_node` (session 4)

  Found by a distinguished-point collision search over `node ↦ SipHash-1-3(node as u64 LE ++ 0u32 LE)`
  (≈ 2³² evaluations, one minute): two replica ids whose FIRST virtual node lands on the same ring
  position.  The kernel evaluates `Sip.sip13` (the transcription of `DefaultHasher`) on both. -/

def collA : Nat := 8995953703207198936
def collB : Nat := 7408622316112464113
def collPos : Nat := 10313838947909466769

/-- `hash_virtual_node(ReplicaId(collA), 0) = hash_virtual_node(ReplicaId(collB), 0)` -/
theorem sip13_vnode_collision :
    vnodePos Sip.sip13 collA 0 = collPos ∧ vnodePos Sip.sip13 collB 0 = collPos ∧ collA ≠ collB
    ∧ collA < 2 ^ 64 ∧ collB < 2 ^ 64 := by
  decide

/-- the 64-bit function is not collision-free on the inputs of `hash_virtual_node` (of course: it
    maps 2⁹⁶ inputs to 2⁶⁴ values — but here are two): the hypothesis of `ring_order_independent_sip`
    is false for the real hash, `PosInjective` fails for a real two-node membership -/
theorem sip13_not_injective : ¬ (∀ a b, Sip.sip13 a = Sip.sip13 b → a = b) := by
  intro h
  have := h (HB.le64 collA ++ HB.le32 0) (HB.le64 collB ++ HB.le32 0)
    (by have := sip13_vnode_collision; unfold vnodePos at this; rw [this.1, this.2.1])
  revert this; decide

theorem sip13_not_posInjective : ¬ PosInjective (vnodePos Sip.sip13) [collA, collB] 1 := by
  intro h
  have := (h collA (by simp) collB (by simp) 0 (by omega) 0 (by omega)
    (by rw [sip13_vnode_collision.1, sip13_vnode_collision.2.1])).1
  exact sip13_vnode_collision.2.2.1 this

/-- **the code as it is, the real hash, a real membership**: `HashRing::new(vec![A, B], 1, 1)` and
    `HashRing::new(vec![B, A], 1, 1)` are different rings, and EVERY key is placed on `A` by the
    first and on `B` by the second — two nodes that learnt the same two members in different
    orders disagree about the owner of every key (known finding
    `C19:order:position-collision:join-order-decides`, replayed on the real code on every run) -/
theorem ring_order_sip13_counterexample :
    (newTB .joinOrder (vnodePos Sip.sip13) [collA, collB] 1 1).ring
      ≠ (newTB .joinOrder (vnodePos Sip.sip13) [collB, collA] 1 1).ring
    ∧ ∀ keyPos, getReplicas (newTB .joinOrder (vnodePos Sip.sip13) [collA, collB] 1 1) keyPos = [collA]
        ∧ getReplicas (newTB .joinOrder (vnodePos Sip.sip13) [collB, collA] 1 1) keyPos = [collB] := by
  have e1 : newTB .joinOrder (vnodePos Sip.sip13) [collA, collB] 1 1
      = { ring := [⟨collPos, collA, 0⟩, ⟨collPos, collB, 0⟩], vnodes := 1, rf := 1, phys := [collA, collB], tb := .joinOrder } := by
    decide
  have e2 : newTB .joinOrder (vnodePos Sip.sip13) [collB, collA] 1 1
      = { ring := [⟨collPos, collB, 0⟩, ⟨collPos, collA, 0⟩], vnodes := 1, rf := 1, phys := [collB, collA], tb := .joinOrder } := by
    decide
  rw [e1, e2]
  refine ⟨by decide, ?_⟩
  intro keyPos
  have hs : ∀ (x y : Nat), startIdx [⟨collPos, x, 0⟩, ⟨collPos, y, 0⟩] keyPos = 0 := by
    intro x y
    unfold startIdx
    by_cases h : keyPos ≤ collPos <;> simp [List.findIdx_cons, h]
  constructor <;>
  · unfold getReplicas getReplicasWithRf
    simp only [List.length_cons, List.length_nil, Nat.zero_add, hs]
    decide

/-- … and with the patched sort key the same two memberships give ONE ring -/
theorem ring_order_sip13_total :
    (newTB .total (vnodePos Sip.sip13) [collA, collB] 1 1).ring
      = (newTB .total (vnodePos Sip.sip13) [collB, collA] 1 1).ring :=
  ring_order_independent_total _ _ _ _ _ (List.Perm.swap _ _ [])

/-! ## exactly min(rf, cluster size) distinct replicas -/

/-- **C19 (count)**: for every reachable ring with at least one virtual node per physical node,
    every key position and every (per-key) replication factor -/
theorem replicas_count_distinct : C19_replicas_count_distinct := by
  intro hashV r keyPos rf hr hv
  exact ⟨replicas_length hr.wf (hr.covered hv) keyPos rf, replicas_nodup hr.wf keyPos rf⟩

/-- … and they are members -/
theorem replicas_are_members (hashV : Nat → Nat → Nat) (r : HashRing) (keyPos rf : Nat)
    (hr : Reachable hashV r) : ∀ a ∈ getReplicasWithRf r keyPos rf, a ∈ r.phys :=
  replicas_subset_phys hr.wf keyPos rf

theorem ring_empty_of_vnodes_zero {hashV : Nat → Nat → Nat} {r : HashRing} (hr : Reachable hashV r)
    (hv : r.vnodes = 0) : r.ring = [] := by
  cases hring : r.ring with
  | nil => rfl
  | cons s ss =>
    have hs : s ∈ r.ring := by rw [hring]; exact List.mem_cons_self
    obtain ⟨_, _, i, hi, _⟩ := (hr.exact.mem s).mp hs
    omega

/-- `virtual_nodes_per_physical = 0`: the ring stays empty and no key is placed anywhere,
    whatever the membership (a configuration the property does not cover) -/
theorem replicas_vnodes_zero (hashV : Nat → Nat → Nat) (r : HashRing) (keyPos rf : Nat)
    (hr : Reachable hashV r) (hv : r.vnodes = 0) : getReplicasWithRf r keyPos rf = [] := by
  unfold getReplicasWithRf
  rw [dif_neg]
  rw [ring_empty_of_vnodes_zero hr hv]; simp

/-! ## membership changes move only the keys that gain or lose the node -/

theorem removeNode_vnodes (r : HashRing) (x : Nat) :
    (removeNode r x).vnodes = r.vnodes ∧ (removeNode r x).rf = r.rf := ⟨rfl, rfl⟩

/-- **C19 (remove)**: a key whose replica list does not contain `x` keeps its list when `x` leaves -/
theorem minimal_disruption_remove : C19_minimal_disruption_remove := by
  intro hashV r x keyPos hr hx
  unfold getReplicas at hx ⊢
  rw [(removeNode_vnodes r x).2]
  by_cases hv : 1 ≤ r.vnodes
  · exact replicas_removeNode hr.wf (hr.covered hv) x keyPos r.rf hx
  · rw [replicas_vnodes_zero hashV r keyPos r.rf hr (by omega),
      replicas_vnodes_zero hashV _ keyPos r.rf (Reachable.remove x hr) (by simp [removeNode]; omega)]

/-- **C19 (add)**: a key whose new replica list does not contain the joining node `x` kept its list -/
theorem minimal_disruption_add : C19_minimal_disruption_add := by
  intro hashV r x keyPos hr hx
  by_cases hmem : x ∈ r.phys
  · rw [addNode_of_mem hmem]
  · have hr' := Reachable.add (hashV := hashV) x hr
    have h := minimal_disruption_remove hashV (addNode hashV r x) x keyPos hr' hx
    rw [removeNode_addNode hr.wf hmem] at h
    exact h.symm

/-! ## selective gossip -/

/-- **C19 (targets)**: `get_gossip_targets k sender = get_replicas k \ {sender}` -/
theorem targets_exact : C19_targets_exact := by
  intro r keyPos sender t
  unfold gossipTargets
  simp [List.mem_filter]

/-- what `route_selective` hands to `t`, with no assumption on the address book: the deltas whose
    key `t` is responsible for, `t` not being the sender, *and* `t` having a known address -/
theorem route_selective_exact (hashV : Nat → Nat → Nat) (ring : HashRing) (rt : Router)
    (deltas : List Nat) (t : Nat) (hr : Reachable hashV ring) :
    row (routeSelective ring rt deltas) t
      = deltas.filter (fun d => decide (t ∈ gossipTargets ring d rt.self) && (rt.peers.get t).isSome) := by
  unfold routeSelective
  rw [route_outer hr.wf deltas [] NMap.wf_nil t]
  simp [row, NMap.get]

/-- **C19 (coverage)**: provided `peer_addresses ⊇ members \ {self}` -/
theorem route_covers_owners : C19_route_covers_owners := by
  intro hashV ring rt deltas t hr hcov
  rw [route_selective_exact hashV ring rt deltas t hr]
  apply List.filter_congr
  intro d _
  by_cases ht : t ∈ gossipTargets ring d rt.self
  · have ht' := (targets_exact ring d rt.self t).mp ht
    have hmem := replicas_are_members hashV ring d ring.rf hr t ht'.1
    have := hcov t hmem ht'.2
    simp [ht, this, ht'.1, ht'.2]
  · have : ¬ (t ∈ getReplicas ring d ∧ t ≠ rt.self) := fun h => ht ((targets_exact ring d rt.self t).mpr h)
    simp only [ht, decide_false, Bool.false_and]
    by_cases h1 : t ∈ getReplicas ring d
    · have h2 : t = rt.self := by
        apply Classical.byContradiction; intro h2; exact this ⟨h1, h2⟩
      simp [h2]
    · simp [h1]

/-- **C19 (nobody else)**, unconditionally: whoever is handed a delta is a responsible replica
    other than the sender -/
theorem route_nobody_else (hashV : Nat → Nat → Nat) (ring : HashRing) (rt : Router)
    (deltas : List Nat) (t d : Nat) (hr : Reachable hashV ring)
    (h : d ∈ row (routeSelective ring rt deltas) t) :
    d ∈ deltas ∧ t ∈ getReplicas ring d ∧ t ≠ rt.self := by
  rw [route_selective_exact hashV ring rt deltas t hr, List.mem_filter] at h
  obtain ⟨hd, hc⟩ := h
  simp only [Bool.and_eq_true, decide_eq_true_eq] at hc
  exact ⟨hd, (targets_exact ring d rt.self t).mp hc.1⟩

/-- `GossipState::queue_deltas` below the queue capacity: one `TargetedDelta` per replica that
    is responsible for at least one key of the batch, carrying exactly that replica's deltas -/
theorem queue_deltas_covers_owners (hashV : Nat → Nat → Nat) (cap : Nat) (ring : HashRing)
    (rt : Router) (deltas : List Nat) (t : Nat) (ds : List Nat) (hr : Reachable hashV ring)
    (hcov : PeersCoverMembers ring rt) (hsel : rt.selective = true) (hne : deltas ≠ [])
    (hcap : (routeSelective ring rt deltas).length ≤ cap) :
    Msg.targeted t ds ∈ queueDeltas cap ring (some rt) [] deltas
      ↔ ds = deltas.filter (fun d => decide (t ∈ getReplicas ring d) && (t != rt.self)) ∧ ds ≠ [] := by
  have hwf : NMap.WF (routeSelective ring rt deltas) := by
    unfold routeSelective
    have : ∀ (ds : List Nat) (tbl : NMap (List Nat)), NMap.WF tbl →
        NMap.WF (ds.foldl (fun tbl d => (gossipTargets ring d rt.self).foldl (fun t target =>
          if (rt.peers.get target).isSome then pushDelta t target d else t) tbl) tbl) := by
      intro ds
      induction ds with
      | nil => intro tbl h; exact h
      | cons d ds ih =>
        intro tbl h
        simp only [List.foldl_cons]
        apply ih
        have hnd : (gossipTargets ring d rt.self).Nodup := by
          unfold gossipTargets getReplicas
          exact List.Pairwise.filter _ (replicas_nodup hr.wf d ring.rf)
        exact (route_inner (peers := rt.peers) (d := d) _ tbl h hnd).1
    exact this deltas [] NMap.wf_nil
  have hemp : deltas.isEmpty = false := by
    cases deltas with
    | nil => exact absurd rfl hne
    | cons _ _ => rfl
  unfold queueDeltas
  simp only [hemp, Bool.false_eq_true, if_false, hsel, if_true, routeDeltas, List.nil_append]
  have hdrop : ∀ l : List Msg, l.length ≤ cap → enforceCap cap l = l := by
    intro l hl; unfold enforceCap
    have : l.length - cap = 0 := by omega
    rw [this, List.drop_zero]
  rw [hdrop]
  · simp only [List.mem_map, List.mem_filter]
    rw [← route_covers_owners hashV ring rt deltas t hr hcov]
    constructor
    · rintro ⟨p, ⟨hp, hpne⟩, heq⟩
      injection heq with h1 h2
      subst h1; subst h2
      have := Crdt.get_of_mem hwf hp
      refine ⟨by simp [row, this], ?_⟩
      intro h; simp [h] at hpne
    · rintro ⟨hds, hdne⟩
      have hget : NMap.get (routeSelective ring rt deltas) t = some ds := by
        unfold row at hds
        cases hg : NMap.get (routeSelective ring rt deltas) t with
        | none => rw [hg] at hds; simp at hds; exact absurd hds hdne
        | some v => rw [hg] at hds; simp at hds; rw [hds]
      refine ⟨(t, ds), ⟨Crdt.mem_of_get hget, ?_⟩, rfl⟩
      cases ds with
      | nil => exact absurd rfl hdne
      | cons _ _ => rfl
  · rw [List.length_map]
    exact Nat.le_trans (List.length_filter_le _ _) hcap

/-! ## `GossipRouter::from_config` -/

/-- **C19 (peer ids), corrected arithmetic** `i + 1 >= replica_id`: exactly the other members,
    for every cluster size and every position of self -/
theorem from_config_peer_ids : C19_from_config_peer_ids .fixed := by
  intro r n id h1 h2
  rw [get_fromConfigPeers_fixed]
  split
  · simp; omega
  · split
    · simp; omega
    · simp; omega

/-- … and the `i`-th configured address goes to the `i`-th other member in id order -/
theorem from_config_addresses_fixed (replicaId npeers id : Nat) (h1 : 1 ≤ replicaId)
    (h2 : replicaId ≤ npeers + 1) (hid : 1 ≤ id ∧ id ≤ npeers + 1 ∧ id ≠ replicaId) :
    NMap.get (fromConfigPeers .fixed replicaId npeers) id
      = some (if id < replicaId then id - 1 else id - 2) := by
  rw [get_fromConfigPeers_fixed]
  split
  · rename_i h; rw [if_pos h.2.1]
  · split
    · rename_i h; rw [if_neg (by omega)]
    · omega

/-- what the code as it is registers: ids `1..replica_id` (*including self*) and
    `replica_id+2..n+1` — the member `replica_id + 1` is never given an address -/
theorem from_config_pinned_ids (replicaId npeers id : Nat) :
    (NMap.get (fromConfigPeers .pinned replicaId npeers) id).isSome = true
      ↔ (1 ≤ id ∧ id ≤ replicaId ∧ id ≤ npeers) ∨ (replicaId + 2 ≤ id ∧ id ≤ npeers + 1) := by
  rw [get_fromConfigPeers_pinned]
  split
  · simp; omega
  · split
    · simp; omega
    · simp; omega

/-- **Known finding C19:from_config:peer-id-off-by-one.**  Replica 1 of a 3-node cluster with
    peers `[n2, n3]` registers the ids `{1, 3}`: node 2 has no address. -/
theorem from_config_peer_ids_counterexample : ¬ C19_from_config_peer_ids .pinned := by
  intro h
  have := (h 1 2 2 (by decide) (by decide)).mpr (by decide)
  revert this
  decide

/-- the peer-id table of the witness, as registered by the code as it is / as corrected -/
theorem from_config_witness :
    fromConfigPeers .pinned 1 2 = [(1, 0), (3, 1)] ∧ fromConfigPeers .fixed 1 2 = [(2, 0), (3, 1)] := by
  decide

/-- positions used by the end-to-end witness below (3 nodes, 1 virtual node each) -/
def exHash : Nat → Nat → Nat := fun node i => node * 10 + i

/-- … and its consequence for the property: on a 3-node ring with rf = 3 every node owns every
    key, replica 1 routes a delta for a key at position 5, and node 2 — an owner — is handed
    nothing, silently. -/
theorem from_config_pinned_starves_owner :
    2 ∈ getReplicas (new exHash [1, 2, 3] 1 3) 5
    ∧ row (routeSelective (new exHash [1, 2, 3] 1 3) (fromConfigWith .pinned 1 2 true) [5]) 2 = []
    ∧ row (routeSelective (new exHash [1, 2, 3] 1 3) (fromConfigWith .fixed 1 2 true) [5]) 2 = [5] := by
  decide

/-- with the corrected arithmetic the hypothesis of `route_covers_owners` is discharged for
    every cluster with sequential ids `1..n+1` -/
theorem from_config_fixed_covers_members (ring : HashRing) (replicaId npeers : Nat) (sel : Bool)
    (h1 : 1 ≤ replicaId) (h2 : replicaId ≤ npeers + 1)
    (hm : ∀ m ∈ ring.phys, 1 ≤ m ∧ m ≤ npeers + 1) :
    PeersCoverMembers ring (fromConfigWith .fixed replicaId npeers sel) := by
  intro m hmem hne
  exact (from_config_peer_ids replicaId npeers m h1 h2).mpr ⟨(hm m hmem).1, (hm m hmem).2, hne⟩

/-! ## replication factor: a larger RF extends the list (hot-key promotion / demotion) -/

/-- **C19 (per-key RF)**: for `rf₁ ≤ rf₂` the replica list for `rf₁` is a prefix of the list for
    `rf₂` — `AdaptiveReplicationManager::get_rf_for_key` raising a hot key from `base_rf` to
    `hot_key_rf` only ADDS owners (no owner loses the key), demotion drops only the added ones -/
theorem replicas_rf_prefix (hashV : Nat → Nat → Nat) (r : HashRing) (keyPos rf₁ rf₂ : Nat)
    (hr : Reachable hashV r) (hle : rf₁ ≤ rf₂) :
    getReplicasWithRf r keyPos rf₁ <+: getReplicasWithRf r keyPos rf₂ := by
  rw [replicas_rf_take hr.wf keyPos rf₁ rf₂ hle]
  exact List.take_prefix _ _

/-- … in particular the primary never depends on the replication factor (`rf ≥ 1`) -/
theorem primary_rf_independent (hashV : Nat → Nat → Nat) (r : HashRing) (keyPos rf₁ rf₂ : Nat)
    (hr : Reachable hashV r) (h1 : 1 ≤ rf₁) (h2 : 1 ≤ rf₂) (hv : 1 ≤ r.vnodes) (hne : r.phys ≠ []) :
    (getReplicasWithRf r keyPos rf₁).head? = (getReplicasWithRf r keyPos rf₂).head? := by
  have key : ∀ rf, 1 ≤ rf → (getReplicasWithRf r keyPos rf).head? = (getReplicasWithRf r keyPos 1).head? := by
    intro rf h
    have hp := replicas_rf_prefix hashV r keyPos 1 rf hr h
    have hl := (replicas_count_distinct hashV r keyPos 1 hr hv).1
    have hpos : 0 < r.phys.length := List.length_pos_iff.mpr hne
    obtain ⟨t, ht⟩ := hp
    cases h1l : getReplicasWithRf r keyPos 1 with
    | nil => rw [h1l] at hl; simp at hl; omega
    | cons a as => rw [← ht, h1l]; rfl
  rw [key rf₁ h1, key rf₂ h2]

/-! ## sequences of membership changes -/

/-- a membership change: `(true, x)` = `add_node(x)`, `(false, x)` = `remove_node(x)` -/
def applyChange (hashV : Nat → Nat → Nat) (r : HashRing) (c : Bool × Nat) : HashRing :=
  if c.1 then addNode hashV r c.2 else removeNode r c.2

/-- no change of the sequence involves the key: a leaving node is not in the key's list when it
    leaves, a joining node is not in the key's list once it has joined -/
def Uninvolved (hashV : Nat → Nat → Nat) (keyPos : Nat) : HashRing → List (Bool × Nat) → Prop
  | _, [] => True
  | r, c :: cs =>
    (if c.1 then ¬ c.2 ∈ getReplicas (addNode hashV r c.2) keyPos else ¬ c.2 ∈ getReplicas r keyPos)
      ∧ Uninvolved hashV keyPos (applyChange hashV r c) cs

/-- **C19 (minimal disruption, any number of changes)**: by induction over the sequence -/
theorem minimal_disruption_sequence (hashV : Nat → Nat → Nat) (keyPos : Nat) (cs : List (Bool × Nat)) :
    ∀ (r : HashRing), Reachable hashV r → Uninvolved hashV keyPos r cs →
      getReplicas (cs.foldl (applyChange hashV) r) keyPos = getReplicas r keyPos := by
  induction cs with
  | nil => intro r _ _; rfl
  | cons c cs ih =>
    intro r hr hu
    obtain ⟨h1, h2⟩ := hu
    rw [List.foldl_cons]
    have hr' : Reachable hashV (applyChange hashV r c) := by
      unfold applyChange; split
      · exact Reachable.add _ hr
      · exact Reachable.remove _ hr
    rw [ih _ hr' h2]
    unfold applyChange
    cases hc : c.1 with
    | true =>
      rw [hc] at h1
      simp only [if_true] at h1 ⊢
      exact minimal_disruption_add hashV r c.2 keyPos hr h1
    | false =>
      rw [hc] at h1
      simp only [Bool.false_eq_true, if_false] at h1 ⊢
      exact minimal_disruption_remove hashV r c.2 keyPos hr h1

/-- the ring with its version counter refines the ring: every theorem above applies to it -/
theorem vring_new_ring (hashV : Nat → Nat → Nat) (nodes : List Nat) (vnodes rf : Nat) :
    (VRing.new hashV nodes vnodes rf).ring = new hashV nodes vnodes rf := by
  unfold VRing.new new
  have : ∀ (l : List Nat) (v : VRing), (l.foldl (VRing.add hashV) v).ring = l.foldl (addNode hashV) v.ring := by
    intro l
    induction l with
    | nil => intro v; rfl
    | cons x xs ih =>
      intro v
      rw [List.foldl_cons, List.foldl_cons, ih]
      congr 1
      unfold VRing.add
      split
      · rename_i h; unfold addNode; rw [if_pos h]
      · rfl
  exact this nodes _

/-! ## `GossipState` with epochs, and the gossip loops of `production/gossip_manager.rs` -/

/-- the epoch-carrying queue refines the plain queue of `queue_deltas_covers_owners` -/
theorem gstate_queue_refines (cap : Nat) (ring : HashRing) (g : GState) (deltas : List Nat) :
    (g.queueDeltas cap ring deltas).queue.map (·.1) = queueDeltas cap ring g.router (g.queue.map (·.1)) deltas := by
  have hcap : ∀ (q : List (Msg × Nat)), (capQ cap q).map (·.1) = enforceCap cap (q.map (·.1)) := by
    intro q; unfold capQ enforceCap; rw [List.map_drop, List.length_map]
  unfold GState.queueDeltas queueDeltas
  split
  · rfl
  · cases hr : g.router with
    | none => simp only [hcap, List.map_append, List.map_cons, List.map_nil]
    | some rt =>
      simp only []
      split
      · simp only [hcap, List.map_append, List.map_map]
        rfl
      · simp only [hcap, List.map_append, List.map_cons, List.map_nil]

/-- a targeted message is written to exactly the address the loop's map holds for its target —
    and to NOBODY when the map has no entry (the loop logs at debug level and goes on) -/
theorem dispatch_targeted (pm : NMap Nat) (npeers : Nat) (q : List (Msg × Nat)) (i t e : Nat) (ds : List Nat) :
    (i, (Msg.targeted t ds, e)) ∈ dispatch pm npeers q ↔ (Msg.targeted t ds, e) ∈ q ∧ pm.get t = some i := by
  unfold dispatch
  rw [List.mem_flatMap]
  constructor
  · rintro ⟨m, hm, h⟩
    obtain ⟨msg, ep⟩ := m
    cases msg with
    | targeted t' ds' =>
      simp only at h
      cases hg : pm.get t' with
      | none => rw [hg] at h; simp at h
      | some a =>
        rw [hg] at h
        simp only [List.mem_cons, List.mem_nil_iff, or_false, Prod.mk.injEq, Msg.targeted.injEq] at h
        obtain ⟨h1, ⟨h2, h3⟩, h4⟩ := h
        subst h1; subst h2; subst h3; subst h4
        exact ⟨hm, hg⟩
    | broadcast ds' =>
      simp only [List.mem_map, Prod.mk.injEq] at h
      obtain ⟨_, _, _, h, _⟩ := h
      cases h
    | heartbeat =>
      simp only [List.mem_map, Prod.mk.injEq] at h
      obtain ⟨_, _, _, h, _⟩ := h
      cases h
  · rintro ⟨hm, hg⟩
    exact ⟨(Msg.targeted t ds, e), hm, by simp [hg]⟩

/-- with the corrected arithmetic the map sends a target id to the peer index that stands for
    that member -/
theorem loop_address_fixed (replicaId npeers t : Nat) (h1 : 1 ≤ replicaId) (h2 : replicaId ≤ npeers + 1)
    (ht : 1 ≤ t ∧ t ≤ npeers + 1 ∧ t ≠ replicaId) :
    ∃ i, NMap.get (fromConfigPeers .fixed replicaId npeers) t = some i ∧ i < npeers ∧ memberOfIndex replicaId i = t := by
  have hget := from_config_addresses_fixed replicaId npeers t h1 h2 ht
  by_cases hlt : t < replicaId
  · rw [if_pos hlt] at hget
    refine ⟨t - 1, hget, by omega, ?_⟩
    unfold memberOfIndex peerId
    simp only []
    rw [if_neg (by omega)]; omega
  · rw [if_neg hlt] at hget
    refine ⟨t - 2, hget, by omega, ?_⟩
    unfold memberOfIndex peerId
    simp only []
    rw [if_pos (by omega)]; omega

/-- **C19 (the gossip loop reaches every owner), corrected address arithmetic**: one tick of a
    gossip loop of replica `me` in a sequentially numbered cluster `1..n+1`, router from
    `from_config`, empty queue, below the queue capacity: for every delta of the batch and every
    responsible replica `t ≠ me` a `TargetedDelta` carrying that delta is written to the configured
    peer that IS member `t`. -/
theorem loop_reaches_every_owner_fixed (hashV : Nat → Nat → Nat) (cap : Nat) (ring : HashRing)
    (me npeers : Nat) (deltas : List Nat) (d t : Nat) (hr : Reachable hashV ring)
    (h1 : 1 ≤ me) (h2 : me ≤ npeers + 1) (hm : ∀ m ∈ ring.phys, 1 ≤ m ∧ m ≤ npeers + 1)
    (hcap : (routeSelective ring (fromConfigWith .fixed me npeers true) deltas).length ≤ cap)
    (hd : d ∈ deltas) (ht : t ∈ getReplicas ring d) (hne : t ≠ me) :
    ∃ i ds, memberOfIndex me i = t ∧ d ∈ ds
      ∧ (i, (Msg.targeted t ds, 1)) ∈ (loopTick .fixed cap ring me npeers (GState.new me (some (fromConfigWith .fixed me npeers true))) deltas).1 := by
  have hmem := replicas_are_members hashV ring d ring.rf hr t ht
  obtain ⟨i, hi, _, hmi⟩ := loop_address_fixed me npeers t h1 h2 ⟨(hm t hmem).1, (hm t hmem).2, hne⟩
  let rt := fromConfigWith .fixed me npeers true
  have hcov : PeersCoverMembers ring rt := from_config_fixed_covers_members ring me npeers true h1 h2 hm
  have hdne : deltas ≠ [] := by intro h; rw [h] at hd; cases hd
  let ds := deltas.filter (fun d => decide (t ∈ getReplicas ring d) && (t != rt.self))
  have hdin : d ∈ ds := by
    simp only [ds, List.mem_filter, Bool.and_eq_true, decide_eq_true_eq, bne_iff_ne]
    exact ⟨hd, ht, hne⟩
  have hq := (queue_deltas_covers_owners hashV cap ring rt deltas t ds hr hcov rfl hdne hcap).mpr
    ⟨rfl, by intro h; rw [h] at hdin; cases hdin⟩
  refine ⟨i, ds, hmi, hdin, ?_⟩
  unfold loopTick
  simp only [GState.drain]
  rw [dispatch_targeted]
  refine ⟨?_, hi⟩
  -- the queue of the state after the tick, projected, is the plain queue
  have href := gstate_queue_refines cap ring ((GState.new me (some rt)).advanceEpoch) deltas
  have hmemq : Msg.targeted t ds ∈ ((GState.new me (some rt)).advanceEpoch.queueDeltas cap ring deltas).queue.map (·.1) := by
    rw [href]; exact hq
  rw [List.mem_map] at hmemq
  obtain ⟨⟨m, e⟩, hme, hm1⟩ := hmemq
  simp only at hm1
  subst hm1
  -- every entry queued by this tick carries epoch 1
  have hep : ∀ x ∈ ((GState.new me (some rt)).advanceEpoch.queueDeltas cap ring deltas).queue, x.2 = 1 := by
    intro x hx
    unfold GState.queueDeltas at hx
    have hemp : deltas.isEmpty = false := by
      cases deltas with
      | nil => exact absurd rfl hdne
      | cons _ _ => rfl
    simp only [hemp, Bool.false_eq_true, if_false, GState.advanceEpoch, GState.new, rt, fromConfigWith, if_true,
      List.nil_append] at hx
    have := List.mem_of_mem_drop hx
    rw [List.mem_map] at this
    obtain ⟨p, _, rfl⟩ := this
    rfl
  have := hep _ hme
  simp only at this
  subst this
  exact hme

/-- **C19 (broadcast mode)**: with a router that is not selective (or none at all) one tick writes
    the whole batch, as one `DeltaBatch`, to EVERY configured peer — whatever address arithmetic the
    loop uses (the address map is only consulted for targeted messages) -/
theorem loop_broadcast_reaches_everyone (a : PeerIdArith) (cap : Nat) (ring : HashRing) (me npeers : Nat)
    (router : Option Router) (deltas : List Nat) (i : Nat) (hcap : 1 ≤ cap) (hne : deltas ≠ [])
    (hsel : ∀ rt, router = some rt → rt.selective = false) (hi : i < npeers) :
    deliveredTo (loopTick a cap ring me npeers (GState.new me router) deltas).1 i = deltas := by
  have hemp : deltas.isEmpty = false := by
    cases deltas with
    | nil => exact absurd rfl hne
    | cons _ _ => rfl
  have hq : ((GState.new me router).advanceEpoch.queueDeltas cap ring deltas).queue = [(Msg.broadcast deltas, 1)] := by
    unfold GState.queueDeltas
    simp only [hemp, Bool.false_eq_true, if_false, GState.advanceEpoch, GState.new, List.nil_append]
    have hc : capQ cap [(Msg.broadcast deltas, 0 + 1)] = [(Msg.broadcast deltas, 1)] := by
      unfold capQ
      have : ([(Msg.broadcast deltas, 0 + 1)] : List (Msg × Nat)).length - cap = 0 := by simp; omega
      rw [this]; rfl
    cases router with
    | none => simp only [hc]
    | some rt =>
      have := hsel rt rfl
      simp only [this, Bool.false_eq_true, if_false, hc]
  unfold loopTick GState.drain
  simp only [hq, dispatch, List.flatMap_cons, List.flatMap_nil, List.append_nil, deliveredTo]
  have : ((List.range npeers).map fun j => (j, (Msg.broadcast deltas, 1))).filter (fun e => e.1 == i)
      = [(i, (Msg.broadcast deltas, 1))] := by
    rw [List.filter_map]
    have hf : (List.range npeers).filter ((fun e : Nat × Msg × Nat => e.1 == i) ∘ fun j => (j, (Msg.broadcast deltas, 1))) = [i] := by
      have : ((fun e : Nat × Msg × Nat => e.1 == i) ∘ fun j => (j, (Msg.broadcast deltas, 1))) = fun j => j == i := rfl
      rw [this]
      clear this
      induction npeers with
      | zero => omega
      | succ n ih =>
        rw [List.range_succ, List.filter_append]
        by_cases hin : i < n
        · rw [ih hin]
          have : ([n].filter fun j => j == i) = [] := by simp; omega
          rw [this]; rfl
        · have hin' : i = n := by omega
          subst hin'
          have h1 : ((List.range i).filter fun j => j == i) = [] := by
            rw [List.filter_eq_nil_iff]; intro x hx; rw [List.mem_range] at hx; simp; omega
          rw [h1]; simp
    rw [hf]; rfl
  rw [this]
  simp

/-- **Fixed defect C19:gossip-loop:peer-map:off-by-one** (9dce37c).  The loops of
    `production/gossip_manager.rs` still build their address map with the arithmetic that fix
    faccb9f corrected in `GossipRouter::from_config`.  Replica 1 of a 3-node cluster (rf 3, peers
    `[n2, n3]`, router from `from_config`) queues a `TargetedDelta` for owner 2 — and the loop finds
    no address for id 2 (it registered ids {1, 3}): node 2 (peer index 0) is sent nothing, silently.
    With the corrected arithmetic it is sent the delta. -/
theorem loop_pinned_starves_owner :
    2 ∈ getReplicas (new exHash [1, 2, 3] 1 3) 5
    ∧ memberOfIndex 1 0 = 2
    ∧ deliveredTo (loopTick .pinned 10000 (new exHash [1, 2, 3] 1 3) 1 2 (GState.new 1 (some (fromConfig 1 2 true))) [5]).1 0 = []
    ∧ deliveredTo (loopTick .fixed 10000 (new exHash [1, 2, 3] 1 3) 1 2 (GState.new 1 (some (fromConfig 1 2 true))) [5]).1 0 = [5]
    ∧ loopArith = .fixed := by
  decide

/-- **Fixed defect C19:gossip-loop:config:gossip_interval_ms=0:panics** (0da3af9).  `gossip_interval_ms`
    is an unvalidated `u64`; with 0 both gossip loops panic in `tokio::time::interval` before the
    first tick and no update is ever sent; with the period clamped to at least 1 ms every
    configured value starts a ticking loop -/
theorem gossip_interval_zero_panics :
    loopStart false 0 = .panicZeroPeriod ∧ loopStart false 1 = .ticksEvery 1
    ∧ (∀ ms, loopStart true ms ≠ .panicZeroPeriod) ∧ currentIntervalClamped = true := by
  refine ⟨rfl, rfl, ?_, rfl⟩
  intro ms h
  simp [loopStart] at h

/-! ## non-vacuity: concrete non-trivial values satisfy the hypotheses -/

/-- an injective placement of 3 × 2 virtual nodes, interleaved on the ring -/
def exHash2 : Nat → Nat → Nat := fun node i => (node * 37 + i * 53) % 101

example : PosInjective exHash2 [1, 2, 3] 2
    ∧ (new exHash2 [1, 2, 3] 2 2).ring = (new exHash2 [3, 1, 2] 2 2).ring
    ∧ (new exHash2 [1, 2, 3] 2 2).ring.map Slot.node = [3, 2, 1, 3, 2, 1]
    ∧ getReplicas (new exHash2 [1, 2, 3] 2 2) 20 = [2, 1]
    ∧ getReplicas (new exHash2 [1, 2, 3] 2 2) 30 = [1, 3]
    ∧ getReplicas (new exHash2 [1, 2, 3] 2 2) 100 = [3, 2] := by
  decide

-- a key that does not involve node 3 keeps its placement when 3 leaves; one that does, changes
example : ¬ 3 ∈ getReplicas (new exHash2 [1, 2, 3] 2 2) 20
    ∧ getReplicas (removeNode (new exHash2 [1, 2, 3] 2 2) 3) 20 = [2, 1]
    ∧ getReplicas (removeNode (new exHash2 [1, 2, 3] 2 2) 3) 30 = [1, 2] := by
  decide

-- an address book that covers the members, and a non-empty routing result
example : PeersCoverMembers (new exHash2 [1, 2, 3] 2 2) (fromConfigWith .fixed 2 2 true)
    ∧ routeSelective (new exHash2 [1, 2, 3] 2 2) (fromConfigWith .fixed 2 2 true) [30, 100, 60]
        = [(1, [30]), (3, [30, 100, 60])] := by
  decide

example : (1 : Nat) ≤ 2 ∧ 2 ≤ 2 + 1 ∧ (NMap.get (fromConfigPeers .fixed 2 2) 3).isSome = true := by
  decide

end C19
end RedisVerif
