import Lean
import RedisVerif.Model.RouteTable
import RedisVerif.Model.Shards7

/-
  The routing table (`Model/RouteTable.lean`: one row per `Command` variant — arm of
  `ShardedActorState::execute`, field `get_primary_key` returns; derived from the source AND from the
  binary on every run and compared with the model's) IS the routing of the sharding model.
  Registered under C03.

  * `route_table_is_model_routing`: for EVERY rendered command `gc` the composed node knows
    (`toCmd7 gc = some c`: ~75 constructors, every field value) the row of `gc.ctor` exists and,
    read on `gc`'s fields, selects exactly the shards `M7.recv R (inject now c)` — the shards the
    sharding model sends a message to (and lets adopt the clock) for `c`.
  * `route_table_routes_by_first_key`: whenever that row is a default-arm row (`primary`), the key it
    routes by is the FIRST key the M7 command names (`Redis.cmdKeys`): no command of the composed
    node is routed by an argument that is not one of its keys.
  * `handle_sweeps_table_shards`: the table inside the end-to-end node — when `Server.handle` takes a frame down the
    generic path, the shards that adopt the frame's time are the ones the row of the parsed command selects.
  * `route_table_rows_distinct`, `route_table_size`: one row per constructor, 127 rows.
-/
namespace RedisVerif
namespace Shards
namespace RouteTable

open Grammar (Tok)
open Server (toCmd7 keyCode)
open M7 (recv inject)

theorem strToks_strs : ∀ (ts : List Tok) (ks : List Nat), Server.strs ts = some ks → strToks ts = ks := by
  intro ts
  induction ts with
  | nil => intro ks h; simp [Server.strs] at h; simp [strToks, h]
  | cons t ts ih =>
    intro ks h
    cases t <;> simp [Server.strs] at h
    obtain ⟨a, ha, rfl⟩ := h
    simp [strToks, ih a ha]

theorem strToks_strSds : ∀ (n : Nat) (ts : List Tok) (kvs : List (Nat × List Nat)), ts.length ≤ n →
    Server.strSds ts = some kvs → strToks ts = kvs.map (·.1) := by
  intro n
  induction n with
  | zero =>
    intro ts kvs hl h
    cases ts with
    | nil => simp [Server.strSds] at h; simp [strToks, ← h]
    | cons t ts => simp at hl
  | succ n ih =>
    intro ts kvs hl h
    match ts, h with
    | [], h => simp [Server.strSds] at h; simp [strToks, ← h]
    | .s k :: .d v :: rest, h =>
      simp [Server.strSds] at h
      obtain ⟨a, ha, rfl⟩ := h
      have hl' : rest.length ≤ n := by simp at hl; omega
      simp [strToks, ih rest a hl' ha]
    | [.s _], h => simp [Server.strSds] at h
    | .s _ :: .s _ :: _, h => simp [Server.strSds] at h
    | .s _ :: .i _ :: _, h => simp [Server.strSds] at h
    | .s _ :: .n _ :: _, h => simp [Server.strSds] at h
    | .s _ :: .f _ :: _, h => simp [Server.strSds] at h
    | .s _ :: .b _ :: _, h => simp [Server.strSds] at h
    | .s _ :: .none :: _, h => simp [Server.strSds] at h
    | .s _ :: .len _ :: _, h => simp [Server.strSds] at h
    | .d _ :: _, h => simp [Server.strSds] at h
    | .i _ :: _, h => simp [Server.strSds] at h
    | .n _ :: _, h => simp [Server.strSds] at h
    | .f _ :: _, h => simp [Server.strSds] at h
    | .b _ :: _, h => simp [Server.strSds] at h
    | .none :: _, h => simp [Server.strSds] at h
    | .len _ :: _, h => simp [Server.strSds] at h

theorem selKey_first_strs (n : Nat) (ts : List Tok) (ks : List Nat) (h : Server.strs ts = some ks) :
    selKey (.first 0) (.len n :: ts) = ks.head? := by
  cases ts with
  | nil => simp [Server.strs] at h; subst h; simp [selKey]
  | cons t ts =>
    cases t <;> simp [Server.strs] at h
    obtain ⟨a, _, rfl⟩ := h
    simp [selKey]

theorem selKey_first_strSds (n : Nat) (ts : List Tok) (kvs : List (Nat × List Nat)) (h : Server.strSds ts = some kvs) :
    selKey (.first 0) (.len n :: ts) = kvs.head?.map (·.1) := by
  match ts, h with
  | [], h => simp [Server.strSds] at h; subst h; simp [selKey]
  | .s k :: .d v :: rest, h =>
    simp [Server.strSds] at h
    obtain ⟨a, _, rfl⟩ := h
    simp [selKey]
  | [.s _], h => simp [Server.strSds] at h
  | .s _ :: .s _ :: _, h => simp [Server.strSds] at h
  | .s _ :: .i _ :: _, h => simp [Server.strSds] at h
  | .s _ :: .n _ :: _, h => simp [Server.strSds] at h
  | .s _ :: .f _ :: _, h => simp [Server.strSds] at h
  | .s _ :: .b _ :: _, h => simp [Server.strSds] at h
  | .s _ :: .none :: _, h => simp [Server.strSds] at h
  | .s _ :: .len _ :: _, h => simp [Server.strSds] at h
  | .d _ :: _, h => simp [Server.strSds] at h
  | .i _ :: _, h => simp [Server.strSds] at h
  | .n _ :: _, h => simp [Server.strSds] at h
  | .f _ :: _, h => simp [Server.strSds] at h
  | .b _ :: _, h => simp [Server.strSds] at h
  | .none :: _, h => simp [Server.strSds] at h
  | .len _ :: _, h => simp [Server.strSds] at h

/-- the row of `gc`'s constructor, read on `gc`'s fields, is the routing of the M7 command `c` -/
def Agrees (R : Routes) (now : Nat) (gc : Grammar.Cmd) (c : Redis.Cmd) : Prop :=
  ∃ arm sel, (lookup gc.ctor).map (fun r => (r.arm, r.sel)) = some (arm, sel) ∧
    (∀ i, recvOf R arm sel gc.toks i = recv R (inject now c) i) ∧
    (arm = .primary → selKey sel gc.toks = (Redis.cmdKeys c).bind List.head?)

open Lean Elab Tactic Meta in
/-- `peel_ite h`: `h : (if c then a else b) = rhs` — case split on `c` (hypothesis `hc`) -/
elab "peel_ite " h:ident : tactic => withMainContext do
  let hDecl ← getLocalDeclFromUserName h.getId
  let ty ← instantiateMVars hDecl.type
  match ty.eq? with
  | some (_, lhs, _) =>
    match lhs.getAppFnArgs with
    | (``ite, #[_, c, _, _, _]) =>
      let cStx ← Term.exprToSyntax c
      let hcId := mkIdent `hc
      evalTactic (← `(tactic| by_cases $hcId : $cStx))
    | _ => throwError "peel_ite: no ite"
  | none => throwError "peel_ite: not an equation"

set_option hygiene false in
macro "route_finish" : tactic => `(tactic| (
  unfold Agrees
  dsimp only
  first
    | (refine ⟨.primary, .tok 0, by decide +kernel, fun i => ?_, fun _ => ?_⟩
       · simp [recvOf, selKey, recv, inject, Redis.cmdKeys, cmdShard, Routes.gen]
       · simp [selKey, Redis.cmdKeys])
    | (refine ⟨.allShards, .none, by decide +kernel, fun i => ?_, fun hh => ?_⟩
       · simp [recvOf, recv, inject]
       · cases hh)))

theorem agrees_of_toCmd7 (R : Routes) (now : Nat) (ctor : List Nat) (toks : List Tok) (c : Redis.Cmd)
    (h : toCmd7 ⟨ctor, toks⟩ = some c) : Agrees R now ⟨ctor, toks⟩ c := by
  unfold toCmd7 at h
  simp only [] at h
  split at h
  all_goals (
    repeat (
      peel_ite h
      case pos =>
        rw [if_pos hc] at h
        have hcc := eq_of_beq hc
        subst hcc
        first
          | (cases h; route_finish)
          | (obtain ⟨x, hx, rfl⟩ := Option.map_eq_some_iff.mp h; route_finish)
          | ((repeat' split at h) <;> first | (cases h; route_finish) | cases h)
      rw [if_neg hc] at h
      clear hc))
  all_goals (first | cases h | skip)
  -- the multi-key family `.len _ :: rest`: MGET, DEL, EXISTS, MSET, MSETNX
  rename_i n rest
  peel_ite h
  case pos =>
    rw [if_pos hc] at h; have hcc := eq_of_beq hc; subst hcc
    obtain ⟨ks, hx, rfl⟩ := Option.map_eq_some_iff.mp h
    unfold Agrees; dsimp only
    refine ⟨.eachKey, .first 0, by decide +kernel, fun i => ?_, fun hh => by cases hh⟩
    simp [recvOf, recv, inject, strToks, strToks_strs _ _ hx]
  rw [if_neg hc] at h; clear hc
  peel_ite h
  case pos =>
    rw [if_pos hc] at h; have hcc := eq_of_beq hc; subst hcc
    obtain ⟨ks, hx, rfl⟩ := Option.map_eq_some_iff.mp h
    unfold Agrees; dsimp only
    refine ⟨.eachKeyIfMany, .first 0, by decide +kernel, fun i => ?_, fun hh => by cases hh⟩
    simp only [recvOf, recv, inject, strToks, strToks_strs _ _ hx, selKey_first_strs n _ _ hx]
    match ks with
    | [] => simp [cmdShard]
    | [a] => simp [cmdShard, Routes.gen]
    | a :: b :: t => simp
  rw [if_neg hc] at h; clear hc
  peel_ite h
  case pos =>
    rw [if_pos hc] at h; have hcc := eq_of_beq hc; subst hcc
    obtain ⟨ks, hx, rfl⟩ := Option.map_eq_some_iff.mp h
    unfold Agrees; dsimp only
    refine ⟨.eachKey, .first 0, by decide +kernel, fun i => ?_, fun hh => by cases hh⟩
    simp [recvOf, recv, inject, strToks, strToks_strs _ _ hx]
  rw [if_neg hc] at h; clear hc
  peel_ite h
  case pos =>
    rw [if_pos hc] at h; have hcc := eq_of_beq hc; subst hcc
    obtain ⟨kvs, hx, rfl⟩ := Option.map_eq_some_iff.mp h
    unfold Agrees; dsimp only
    refine ⟨.eachKey, .first 0, by decide +kernel, fun i => ?_, fun hh => by cases hh⟩
    simp [recvOf, recv, inject, strToks, strToks_strSds _ _ _ (Nat.le_refl _) hx, List.any_map]
    rfl
  rw [if_neg hc] at h; clear hc
  peel_ite h
  case pos =>
    rw [if_pos hc] at h; have hcc := eq_of_beq hc; subst hcc
    obtain ⟨kvs, hx, rfl⟩ := Option.map_eq_some_iff.mp h
    unfold Agrees; dsimp only
    refine ⟨.primary, .first 0, by decide +kernel, fun i => ?_, fun _ => ?_⟩
    · simp only [recvOf, recv, inject, selKey_first_strSds n _ _ hx]
      match kvs with
      | [] => simp [cmdShard]
      | kv :: t => simp [cmdShard, Routes.gen]
    · simp [selKey_first_strSds n _ _ hx, Redis.cmdKeys]
  rw [if_neg hc] at h
  cases h

/-- **the routing table is the model's routing**: for every rendered command the composed node knows,
    the row of its constructor exists and, read on the command's fields, selects exactly the shards
    the sharding model sends a message to -/
theorem route_table_is_model_routing (R : Routes) (now : Nat) (gc : Grammar.Cmd) (c : Redis.Cmd)
    (h : toCmd7 gc = some c) :
    ∃ r, lookup gc.ctor = some r ∧ ∀ i, recvOf R r.arm r.sel gc.toks i = recv R (inject now c) i := by
  obtain ⟨arm, sel, hl, hr, _⟩ := agrees_of_toCmd7 R now gc.ctor gc.toks c h
  cases hlk : lookup gc.ctor with
  | none => simp [hlk] at hl
  | some r =>
    simp [hlk] at hl
    exact ⟨r, rfl, by rw [hl.1, hl.2]; exact hr⟩

/-- **no command is routed by a non-key argument**: a default-arm row routes by the FIRST key the M7
    command names -/
theorem route_table_routes_by_first_key (gc : Grammar.Cmd) (c : Redis.Cmd) (h : toCmd7 gc = some c)
    (r : Row) (hr : lookup gc.ctor = some r) (hp : r.arm = .primary) :
    selKey r.sel gc.toks = (Redis.cmdKeys c).bind List.head? := by
  obtain ⟨arm, sel, hl, _, hk⟩ := agrees_of_toCmd7 (Routes.ofTable 1 []) 0 gc.ctor gc.toks c h
  simp [hr] at hl
  obtain ⟨h1, h2⟩ := hl
  subst h1; subst h2
  exact hk hp

/-- **the table inside the end-to-end node**: when the composed node (`Server.handle`) takes a frame down the
    generic path, the shards that adopt the frame's time are exactly the ones the row of the parsed
    command selects, and the command runs on them as the sharding model says -/
theorem handle_sweeps_table_shards (R : Routes) (classify : Server.Classify) (st : Shards Redis.Entry) (now : Nat)
    (f : Server.Frame) (gc : Grammar.Cmd) (c : Redis.Cmd) (hp : Grammar.parseCmdZc f = .ok gc)
    (hc : toCmd7 gc = some c) (hg : dispatch (classify f) = .execute) :
    ∃ r, lookup gc.ctor = some r ∧
      (Server.handle R classify st now f).1 =
        (execN M7.exec7 R true (M7.sweep (recvOf R r.arm r.sel gc.toks) now st) (inject now c)).1 := by
  obtain ⟨r, hr, hrecv⟩ := route_table_is_model_routing R now gc c hc
  refine ⟨r, hr, ?_⟩
  have hfun : recvOf R r.arm r.sel gc.toks = recv R (inject now c) := funext hrecv
  rw [hfun]
  unfold Server.handle
  simp only [hp, hc]
  have : Server.execVia R (classify f) now st c = M7.execNT7code R now st c := by
    unfold Server.execVia
    rw [hg]
  rw [this]
  cases M7.toM7 (M7.execNT7code R now st c).2 <;> rfl

/-- one row per constructor; 127 variants -/
theorem route_table_rows_distinct : (routeTable.map (·.ctor)).Nodup := by decide +kernel

theorem route_table_size : routeTable.length = 127 := by decide +kernel

/-- every fan-out arm row belongs to a command whose answer is NOT a function of the keys it names
    alone or that names several keys; every other row is a default-arm row — the six arms partition
    the table -/
theorem route_table_explicit_arms :
    (routeTable.filter (fun r => r.arm != .primary)).map (·.ctor) =
      ["MGet", "MSet", "Del", "Exists", "Keys", "FlushDb", "FlushAll", "Time", "Scan", "Info", "Ping",
       "DbSize", "RandomKey"] := by decide +kernel

/-! non-vacuity and sensitivity: on two shards with `a ↦ 0`, `b ↦ 1` -/

def R2 : Routes := Routes.ofTable 2
  (NMap.ofList [(keyCode (Grammar.s2b "a"), (0, 0)), (keyCode (Grammar.s2b "b"), (1, 1))])

def renameAB : Grammar.Cmd := ⟨Grammar.s2b "Rename", [.s (Grammar.s2b "a"), .s (Grammar.s2b "b")]⟩

example : (toCmd7 renameAB).map Redis.cmdKeys =
    some (some [keyCode (Grammar.s2b "a"), keyCode (Grammar.s2b "b")]) := by decide +kernel

/-- the row of RENAME sends `RENAME a b` to shard 0 (the home of `a`) only … -/
example : (List.range 2).map (recvOf R2 .primary (.tok 0) renameAB.toks) = [true, false] := by decide +kernel

/-- … a row that routed by the SECOND field (a non-primary argument) would send it to shard 1: such a
    table is not the model's routing (the hypothesis of `route_table_is_model_routing` for RENAME
    could not be proved) -/
theorem route_by_second_field_counterexample :
    ∃ i, recvOf R2 .primary (.tok 1) renameAB.toks i ≠
      recv R2 (inject 0 (.rename (keyCode (Grammar.s2b "a")) (keyCode (Grammar.s2b "b")))) i :=
  ⟨0, by decide +kernel⟩

/-- `DEL a b` goes to both homes, `DEL a` to one -/
example : (List.range 2).map (recvOf R2 .eachKeyIfMany (.first 0)
    [.len 2, .s (Grammar.s2b "a"), .s (Grammar.s2b "b")]) = [true, true] := by decide +kernel
example : (List.range 2).map (recvOf R2 .eachKeyIfMany (.first 0) [.len 1, .s (Grammar.s2b "b")]) = [false, true] := by
  decide +kernel

end RouteTable
end Shards
end RedisVerif
