import RedisVerif.Props.C06Sim
import RedisVerif.Props.C18
import RedisVerif.Lemmas.Flow

/-!
# C06 ∘ C18 — loss, then anti-entropy ⇒ converged reads

The property's "loss followed by … anti-entropy, partitions that heal", discharged: the delivery
hypothesis of `sim_converges_among` is not assumed but *produced* by the repair mechanism the
code has.

* `sync_round_joins` (C18's `sync_merges` + `divergent_buckets_complete` +
  `digest_never_false_in_sync_wrt_proj` + the injectivity of the hashed byte stream): with a
  collision-free hash and `max_keys_per_sync` at least the number of keys either side holds, one
  `run_anti_entropy_sync` leaves BOTH sides with `merge(own, other's)` for EVERY key — the keys of
  the divergent buckets because they were exchanged, all others because they were equal.
* `sync_step_xch` — hence, key by key, one exchange of the simulator cluster is an exchange in the
  join-semilattice of the key's carrier (`Lemmas/Flow.lean`).
* `anti_entropy_pass_converges` — **after ANY history** (any writes, any loss, delay, partitions,
  earlier exchanges) a list of exchanges whose knowledge flow is complete makes ALL nodes hold the
  same value for every key; `full_anti_entropy_converges`: `run_full_anti_entropy` on a cluster
  without partitions is such a list, for every cluster size — ONE pass suffices.
-/
namespace RedisVerif
namespace C06

open Cluster ACluster SimC AE

/-! ## one exchange, at the level of the two key maps -/

theorem optMerge_self {x : Option RV} (h : ∀ v, x = some v → v.WF) : optMerge RV.merge x x = x := by
  cases x with
  | none => rfl
  | some v => simp only [optMerge]; rw [C07.rv_merge_idem v (h v rfl)]

/-- values that hash alike are equal (well-formed, UTF-8 strings) -/
theorem get_eq_of_stream_eq {A B : NMap RV} (k : Nat)
    (hvA : ∀ v, NMap.get A k = some v → v.WF ∧ StrSafe HB.keyStr v)
    (hvB : ∀ v, NMap.get B k = some v → v.WF ∧ StrSafe HB.keyStr v)
    (h : (NMap.get A k).map currentStream = (NMap.get B k).map currentStream) : NMap.get A k = NMap.get B k := by
  cases ha : NMap.get A k with
  | none =>
    cases hb : NMap.get B k with
    | none => rfl
    | some w => rw [ha, hb] at h; cases h
  | some v =>
    cases hb : NMap.get B k with
    | none => rw [ha, hb] at h; cases h
    | some w =>
      rw [ha, hb] at h
      simp only [Option.map_some, Option.some.injEq] at h
      rw [C18.byte_stream_injective HB.keyStr keyStr_inj v w (hvA v ha).1 (hvB w hb).1 (hvA v ha).2 (hvB w hb).2 h]

theorem candidates_length_le (H : Hasher) (depth : Nat) (s : NMap RV) (div : List Nat) (hs : NMap.WF s) :
    (candidates H depth (NMap.keys s) s div).length ≤ s.length := by
  unfold candidates
  rw [iter_keys hs]
  exact List.length_filter_le _ _

/-- **one `run_anti_entropy_sync` leaves both sides with the merge, for every key** -/
theorem sync_round_joins (H : Hasher) (hI : Ideal H) (le : Nat → Nat → Bool) (depth limit : Nat) (A B : NMap RV)
    (hA : NMap.WF A) (hB : NMap.WF B)
    (hvA : ∀ k v, NMap.get A k = some v → v.WF ∧ StrSafe HB.keyStr v)
    (hvB : ∀ k v, NMap.get B k = some v → v.WF ∧ StrSafe HB.keyStr v)
    (hlA : A.length ≤ limit) (hlB : B.length ≤ limit) (k : Nat) :
    NMap.get (syncRound le H depth limit (NMap.keys A) (NMap.keys B) A B).1 k
        = optMerge RV.merge (NMap.get A k) (NMap.get B k) ∧
    NMap.get (syncRound le H depth limit (NMap.keys A) (NMap.keys B) A B).2 k
        = optMerge RV.merge (NMap.get B k) (NMap.get A k) := by
  have hπA : ValidOrder (NMap.keys A) A := List.Perm.refl _
  have hπB : ValidOrder (NMap.keys B) B := List.Perm.refl _
  have hvs : StreamOK currentStream := streamOK_byteStream HB.keyStr
  -- equal hashed streams on `k` ⇒ both sides hold the same value ⇒ "merge" is what they hold
  have heq : (NMap.get A k).map currentStream = (NMap.get B k).map currentStream →
      NMap.get A k = optMerge RV.merge (NMap.get A k) (NMap.get B k) ∧
      NMap.get B k = optMerge RV.merge (NMap.get B k) (NMap.get A k) := by
    intro h
    have := get_eq_of_stream_eq k (hvA k) (hvB k) h
    rw [← this, optMerge_self (fun v hv => (hvA k v hv).1)]
    exact ⟨rfl, rfl⟩
  unfold syncRound
  cases hd : differsFrom (fromState H currentSortBucket currentStream depth (NMap.keys A) A)
      (fromState H currentSortBucket currentStream depth (NMap.keys B) B) with
  | false =>
    have hr : syncRoundWith (arrangeOf currentSimOrder le) H currentSortBucket currentStream depth limit
        (NMap.keys A) (NMap.keys B) A B = (A, B) := by
      unfold syncRoundWith; simp [hd]
    rw [hr]
    have hproj := C18.digest_never_false_in_sync_wrt_proj currentSortBucket H currentStream depth _ _ A B hI hvs hA hB hπA hπB hd
    apply heq
    rw [← get_proj, ← get_proj, hproj]
  | true =>
    have hm := C18.sync_merges (arrangeOf currentSimOrder le) (arrOK_arrangeOf _ _) H currentSortBucket currentStream depth
      limit _ _ A B hA hB hπA hπB hd
      (Nat.le_trans (candidates_length_le H depth A _ hA) hlA)
      (Nat.le_trans (candidates_length_le H depth B _ hB) hlB) k
    simp only [] at hm
    by_cases hc : (divergentBuckets (fromState H currentSortBucket currentStream depth (NMap.keys A) A)
        (fromState H currentSortBucket currentStream depth (NMap.keys B) B)).contains (H.key k % 2 ^ depth) = true
    · exact hm.1 hc
    · have hc' : (divergentBuckets (fromState H currentSortBucket currentStream depth (NMap.keys A) A)
          (fromState H currentSortBucket currentStream depth (NMap.keys B) B)).contains (H.key k % 2 ^ depth) = false := by
        simpa using hc
      obtain ⟨e1, e2⟩ := hm.2 hc'
      rw [e1, e2]
      apply heq
      -- the bucket of `k` is not divergent: the hashed streams of its keys agree
      apply Classical.byContradiction
      intro hne
      apply hc
      rw [List.contains_iff_mem]
      apply C18.divergent_buckets_complete currentSortBucket H currentStream depth _ _ A B _ hI hvs hA hB hπA hπB
        (Nat.mod_lt _ (Nat.two_pow_pos depth))
      intro hpb
      have := congrArg (fun m => NMap.get m k) hpb
      simp only [get_projBucket, beq_self_eq_true, if_true] at this
      exact hne this

/-! ## the simulator cluster: one exchange is an exchange in the key's join-semilattice -/

/-- the (stripped) value node `i` holds for key `k` -/
def valv (c : Sim) (k : Nat) (i : Nat) : Option RV :=
  (c.nodes[i]?).bind (fun nd => (NMap.get nd.ps.sh.keys k).map RV.strip)

theorem valv_of_get (c : Sim) (k i : Nat) (nd : SNode) (h : c.nodes[i]? = some nd) :
    valv c k i = (NMap.get nd.ps.sh.keys k).map RV.strip := by simp [valv, h]

/-- the join of the key's carrier, lifted to "no value yet" -/
def oj : Option RV → Option RV → Option RV := optMerge RV.merge

/-- the lifted carrier -/
def OCar (K : Nat) (R : List (Nat × Lww)) (x : Option RV) : Prop := ∀ v, x = some v → InCarrier K R v

theorem aci_opt (K : Nat) (R : List (Nat × Lww)) (hR : RegsConsistent R) : ACI oj (OCar K R) where
  closed := by
    intro a b ha hb v hv
    cases a <;> cases b <;> simp only [oj, optMerge] at hv
    · cases hv
    · exact hb v hv
    · exact ha v hv
    · rename_i x y
      simp only [Option.some.injEq] at hv
      rw [← hv]; exact (aci_rv K R hR).closed x y (ha x rfl) (hb y rfl)
  comm := by
    intro a b ha hb
    cases a <;> cases b <;> simp only [oj, optMerge]
    rename_i x y
    rw [(aci_rv K R hR).comm x y (ha x rfl) (hb y rfl)]
  assoc := by
    intro a b c ha hb hc
    cases a <;> cases b <;> cases c <;> simp only [oj, optMerge]
    rename_i x y z
    rw [(aci_rv K R hR).assoc x y z (ha x rfl) (hb y rfl) (hc z rfl)]
  idem := by
    intro a ha
    cases a <;> simp only [oj, optMerge]
    rename_i x
    rw [(aci_rv K R hR).idem x (ha x rfl)]

theorem strip_optMerge (x y : Option RV) :
    (optMerge RV.merge x y).map RV.strip = oj (x.map RV.strip) (y.map RV.strip) := by
  cases x <;> cases y <;> simp [oj, optMerge, strip_merge]

theorem applyAll_keys (src : Nat) (ds : List (Nat × RV)) : ∀ (s : Shard),
    (Gossip.MCluster.applyAll s (Sim.toMsgs src ds)).keys = applyDeltas s.keys ds := by
  induction ds with
  | nil => intro s; rfl
  | cons d ds ih =>
    intro s
    simp only [Sim.toMsgs, List.map_cons, Gossip.MCluster.applyAll, List.foldl_cons, applyDeltas] at ih ⊢
    rw [ih]
    congr 1
    simp only [Shard.applyRemote, applyDelta]
    cases NMap.get s.keys d.1 <;> rfl

theorem syncDeltas_round (H : Hasher) (cfg : Cfg) (A B : NMap RV) :
    syncRound Sim.keyLe H (effectiveDepth currentDepthBound cfg.depth) (effectiveLimit currentLimitAtLeastOne cfg.limit)
        (NMap.keys A) (NMap.keys B) A B =
      (match Sim.syncDeltas H cfg A B with
       | some dd => (applyDeltas A dd.2, applyDeltas B dd.1)
       | none => (A, B)) := by
  unfold syncRound syncRoundWith Sim.syncDeltas exchange digest
  simp only []
  split
  · split
    · rfl
    · rfl
  · rfl

/-- the states of the two nodes after `run_anti_entropy_sync(a, b)` are the two sides of the
    model's sync round; nobody else moves -/
theorem syncStep_nodes (H : Hasher) (cfg : Cfg) (c : Sim) (a b : Nat) (hab : a ≠ b) (na nb : SNode)
    (hna : c.nodes[a]? = some na) (hnb : c.nodes[b]? = some nb) :
    ∃ na' nb', (Sim.syncStep H cfg c a b).nodes[a]? = some na' ∧ (Sim.syncStep H cfg c a b).nodes[b]? = some nb' ∧
      (∀ i, i ≠ a → i ≠ b → (Sim.syncStep H cfg c a b).nodes[i]? = c.nodes[i]?) ∧
      (na'.ps.sh.keys, nb'.ps.sh.keys) =
        syncRound Sim.keyLe H (effectiveDepth currentDepthBound cfg.depth) (effectiveLimit currentLimitAtLeastOne cfg.limit)
          (NMap.keys na.ps.sh.keys) (NMap.keys nb.ps.sh.keys) na.ps.sh.keys nb.ps.sh.keys := by
  rw [syncDeltas_round]
  cases hsd : Sim.syncDeltas H cfg na.ps.sh.keys nb.ps.sh.keys with
  | none =>
    have : Sim.syncStep H cfg c a b = c := by simp only [Sim.syncStep, hna, hnb, hsd]
    rw [this]
    exact ⟨na, nb, hna, hnb, fun _ _ _ => rfl, rfl⟩
  | some dd =>
    obtain ⟨da, db⟩ := dd
    have hst : (Sim.syncStep H cfg c a b).nodes =
        (c.nodes.set b (nb.applyAll (Sim.toMsgs a da))).set a (na.applyAll (Sim.toMsgs b db)) := by
      simp only [Sim.syncStep, hna, hnb, hsd]
    have halt : a < c.nodes.length := (List.getElem?_eq_some_iff.mp hna).1
    have hblt : b < c.nodes.length := (List.getElem?_eq_some_iff.mp hnb).1
    refine ⟨na.applyAll (Sim.toMsgs b db), nb.applyAll (Sim.toMsgs a da), ?_, ?_, ?_, ?_⟩
    · rw [hst, List.getElem?_set_self (by simp; exact halt)]
    · rw [hst, List.getElem?_set_ne hab, List.getElem?_set_self hblt]
    · intro i hia hib
      rw [hst, List.getElem?_set_ne (Ne.symm hia), List.getElem?_set_ne (Ne.symm hib)]
    · simp only [(applyAll_sh _ na).1, (applyAll_sh _ nb).1, applyAll_keys]

/-- what is known of every state the simulator cluster can reach -/
structure Reach (H : Hasher) (cfg : Cfg) (n : Nat) (causal : Bool) (c : Sim) : Prop where
  ex : ∃ routers autoAE evs, c = (Sim.init n causal routers autoAE).run H cfg evs

theorem reach_run {H : Hasher} {cfg : Cfg} {n : Nat} {causal : Bool} {c : Sim} (h : Reach H cfg n causal c)
    (evs : List SEv) : Reach H cfg n causal (c.run H cfg evs) := by
  obtain ⟨routers, autoAE, evs0, rfl⟩ := h.ex
  exact ⟨routers, autoAE, evs0 ++ evs, by simp [Sim.run, List.foldl_append]⟩

theorem reach_abs {H : Hasher} {cfg : Cfg} {n : Nat} {causal : Bool} {c : Sim} (h : Reach H cfg n causal c) :
    ∃ es : List AEv, c.abs = (ACluster.init n causal).run es ∧ ∀ e ∈ es, StrEv e := by
  obtain ⟨routers, autoAE, evs, rfl⟩ := h.ex
  obtain ⟨es, h1, h2⟩ := sim_refines_cluster_ae H cfg n causal routers autoAE evs
  exact ⟨es, h1, strEv_of_filter evs es h2⟩

theorem reach_length {H : Hasher} {cfg : Cfg} {n : Nat} {causal : Bool} {c : Sim} (h : Reach H cfg n causal c) :
    c.nodes.length = n := by
  obtain ⟨es, h1, _⟩ := reach_abs h
  have h2 := (AInv_run _ es (AInv_init n causal)).rinv.rids
  have : c.abs.base.nodes.length = n := by
    rw [h1]
    -- the number of nodes never changes
    have hlen : ∀ (es : List AEv) (C : ACluster), (C.run es).base.nodes.length = C.base.nodes.length := by
      intro es
      induction es with
      | nil => intro C; rfl
      | cons e es ih =>
        intro C
        simp only [ACluster.run, List.foldl_cons] at ih ⊢
        rw [ih]
        cases e with
        | ev e =>
          cases e with
          | loc i op =>
            simp only [ACluster.step, Cluster.step]
            split
            · rfl
            · split <;> simp
          | deliver j idx =>
            simp only [ACluster.step, Cluster.step]
            split <;> simp
        | snapshot i k =>
          simp only [ACluster.step]
          split
          · rfl
          · split <;> rfl
        | applySnap j idx =>
          simp only [ACluster.step]
          split <;> simp
    rw [hlen]
    simp [ACluster.init, Cluster.init]
  simpa [Sim.abs] using this

/-- well-formedness of everything a reachable node holds -/
theorem reach_wf {H : Hasher} {cfg : Cfg} {n : Nat} {causal : Bool} {c : Sim} (h : Reach H cfg n causal c)
    (i : Nat) (nd : SNode) (hnd : c.nodes[i]? = some nd) :
    NMap.WF nd.ps.sh.keys ∧ ∀ k v, NMap.get nd.ps.sh.keys k = some v → v.WF ∧ StrSafe HB.keyStr v := by
  obtain ⟨es, h1, h2⟩ := reach_abs h
  have hmem : nd.ps.sh ∈ c.abs.base.nodes := List.mem_of_getElem? (abs_nodes_get c i nd hnd)
  rw [h1] at hmem
  have hw := (AInv_run _ es (AInv_init n causal)).rinv.wf _ hmem
  have hl := (lwwInv_run es _ (lwwInv_init n causal) h2).nodes _ hmem
  refine ⟨hw.2.1, ?_⟩
  intro k v hg
  refine ⟨hw.1.2 _ (NMap.mem_of_get hg), ?_⟩
  obtain ⟨r, hr⟩ := Shard.kind_lww (hl k v hg)
  simp [StrSafe, strSafeCrdt, hr]

/-- every value a reachable node holds for `k` lies in the key's carrier; the node holds a value
    only for keys that were written -/
theorem reach_carrier {H : Hasher} {cfg : Cfg} {n : Nat} {causal : Bool} {c : Sim} (h : Reach H cfg n causal c)
    (k : Nat) : RegsConsistent (regsOf c.issued k) ∧
      (∀ i, OCar 0 (regsOf c.issued k) (valv c k i)) ∧
      (∀ i v, valv c k i = some v → ∃ m ∈ c.issued, m.key = k) := by
  obtain ⟨routers, autoAE, evs, rfl⟩ := h.ex
  have hk := sim_kind_stable H cfg n causal routers autoAE evs k
  obtain ⟨es, h1, _⟩ := sim_refines_cluster_ae H cfg n causal routers autoAE evs
  have hiss : ((Sim.init n causal routers autoAE).run H cfg evs).issued
      = ((Sim.init n causal routers autoAE).run H cfg evs).abs.base.sent := rfl
  rw [hiss]
  have hval : ∀ i, valv ((Sim.init n causal routers autoAE).run H cfg evs) k i =
      (((Sim.init n causal routers autoAE).run H cfg evs).abs.base.nodes[i]?).bind
        (fun s => (NMap.get s.keys k).map RV.strip) := by
    intro i
    simp only [valv, Sim.abs, List.getElem?_map]
    cases ((Sim.init n causal routers autoAE).run H cfg evs).nodes[i]? <;> rfl
  rw [h1] at hk ⊢
  have hc := compat_of_kind_stable_ae n causal es k 0 hk
  have hj := (JA_of_kind_stable n causal es k 0 hk).base
  refine ⟨hc.1, ?_, ?_⟩
  · intro i v hv
    rw [hval i, h1] at hv
    cases hs : ((ACluster.init n causal).run es).base.nodes[i]? with
    | none => rw [hs] at hv; cases hv
    | some s =>
      rw [hs] at hv
      simp only [Option.bind_some] at hv
      rw [hj.value i s hs] at hv
      exact foldOpt_carrier hc.1 (absorbed_in_carrier hc hj i) hv
  · intro i v hv
    rw [hval i, h1] at hv
    cases hs : ((ACluster.init n causal).run es).base.nodes[i]? with
    | none => rw [hs] at hv; cases hv
    | some s =>
      rw [hs] at hv
      simp only [Option.bind_some] at hv
      rw [hj.value i s hs] at hv
      cases hab : ((ACluster.init n causal).run es).base.absorbed i k with
      | nil => rw [hab] at hv; cases hv
      | cons x xs =>
        have hx : x ∈ ((ACluster.init n causal).run es).base.absorbed i k := by rw [hab]; simp
        simp only [absorbed, List.mem_filterMap] at hx
        obtain ⟨a, ha, hcond⟩ := hx
        split at hcond
        · rename_i hc2
          obtain ⟨m, hm, hmk, _⟩ := hj.log_sent a ha
          exact ⟨m, hm, by rw [hmk]; exact hc2.2⟩
        · cases hcond

/-- a reachable node holds at most as many keys as were ever written -/
theorem reach_keys_le {H : Hasher} {cfg : Cfg} {n : Nat} {causal : Bool} {c : Sim} (h : Reach H cfg n causal c)
    (U : List Nat) (hU : ∀ m ∈ c.issued, m.key ∈ U) (i : Nat) (nd : SNode) (hnd : c.nodes[i]? = some nd) :
    nd.ps.sh.keys.length ≤ U.length := by
  have hwf := (reach_wf h i nd hnd).1
  have hsub : NMap.keys nd.ps.sh.keys ⊆ U := by
    intro k hk
    simp only [NMap.keys, List.mem_map] at hk
    obtain ⟨p, hp, rfl⟩ := hk
    have hg := NMap.get_of_mem hwf hp
    have hv : valv c p.1 i = some p.2.strip := by simp [valv, hnd, hg]
    obtain ⟨m, hm, hmk⟩ := (reach_carrier h p.1).2.2 i _ hv
    rw [← hmk]; exact hU m hm
  have := List.Nodup.length_le_of_subset (keys_nodup hwf) hsub
  simpa [NMap.keys] using this

/-! ## the pass -/

theorem syncStep_issued (H : Hasher) (cfg : Cfg) (c : Sim) (a b : Nat) :
    (Sim.syncStep H cfg c a b).issued = c.issued ∧ (Sim.syncStep H cfg c a b).parts = c.parts := by
  unfold Sim.syncStep
  split
  · split <;> exact ⟨rfl, rfl⟩
  · exact ⟨rfl, rfl⟩

/-- **one `run_anti_entropy_sync` of the cluster is, key by key, one exchange in the key's
    join-semilattice** — collision-free hash, `max_keys_per_sync` at least the number of keys ever
    written (`U`: any list that contains them) -/
theorem sync_step_xch (H : Hasher) (hI : Ideal H) (cfg : Cfg) (n : Nat) (causal : Bool) (c : Sim)
    (hr : Reach H cfg n causal c) (U : List Nat) (hU : ∀ m ∈ c.issued, m.key ∈ U)
    (hlen : U.length ≤ effectiveLimit currentLimitAtLeastOne cfg.limit)
    (a b : Nat) (hab : a ≠ b) (ha : a < n) (hb : b < n) (k : Nat) :
    valv (Sim.syncStep H cfg c a b) k = Flow.xch oj (valv c k) a b := by
  have hn := reach_length hr
  have halt : a < c.nodes.length := by omega
  have hblt : b < c.nodes.length := by omega
  have hna : c.nodes[a]? = some c.nodes[a] := List.getElem?_eq_getElem halt
  have hnb : c.nodes[b]? = some c.nodes[b] := List.getElem?_eq_getElem hblt
  obtain ⟨na', nb', h1, h2, h3, h4⟩ := syncStep_nodes H cfg c a b hab _ _ hna hnb
  obtain ⟨hwA, hvA⟩ := reach_wf hr a _ hna
  obtain ⟨hwB, hvB⟩ := reach_wf hr b _ hnb
  have hj := sync_round_joins H hI Sim.keyLe (effectiveDepth currentDepthBound cfg.depth)
    (effectiveLimit currentLimitAtLeastOne cfg.limit) _ _ hwA hwB hvA hvB
    (Nat.le_trans (reach_keys_le hr U hU a _ hna) hlen) (Nat.le_trans (reach_keys_le hr U hU b _ hnb) hlen) k
  rw [← h4] at hj
  simp only at hj
  obtain ⟨hR, hcar, _⟩ := reach_carrier hr k
  have hva := valv_of_get c k a _ hna
  have hvb := valv_of_get c k b _ hnb
  funext i
  simp only [Flow.xch]
  by_cases hia : i = a
  · subst hia
    simp only [true_or, if_true]
    rw [valv_of_get _ k _ _ h1, hj.1, strip_optMerge, ← hva, ← hvb]
  · by_cases hib : i = b
    · subst hib
      simp only [or_true, if_true]
      rw [valv_of_get _ k _ _ h2, hj.2, strip_optMerge, ← hva, ← hvb]
      exact (aci_opt 0 _ hR).comm _ _ (hcar i) (hcar a)
    · have : ¬ (i = a ∨ i = b) := fun h => h.elim hia hib
      simp only [this, if_false]
      simp only [valv, h3 i hia hib]

theorem run_syncs_valv (H : Hasher) (hI : Ideal H) (cfg : Cfg) (n : Nat) (causal : Bool) (U : List Nat)
    (hlen : U.length ≤ effectiveLimit currentLimitAtLeastOne cfg.limit) (k : Nat) (ps : List (Nat × Nat))
    (hps : ∀ p ∈ ps, p.1 < n ∧ p.2 < n ∧ p.1 ≠ p.2) : ∀ (c : Sim), Reach H cfg n causal c →
    (∀ m ∈ c.issued, m.key ∈ U) →
    valv (c.run H cfg (ps.map (fun p => SEv.sync p.1 p.2))) k = Flow.pass oj (valv c k) ps ∧
    (c.run H cfg (ps.map (fun p => SEv.sync p.1 p.2))).issued = c.issued := by
  induction ps with
  | nil => intro c _ _; exact ⟨rfl, rfl⟩
  | cons p ps ih =>
    intro c hr hU
    have hp := hps p (by simp)
    have hstep : c.step H cfg (SEv.sync p.1 p.2) = Sim.syncStep H cfg c p.1 p.2 := rfl
    have hr1 : Reach H cfg n causal (Sim.syncStep H cfg c p.1 p.2) := by
      have := reach_run hr [SEv.sync p.1 p.2]
      simpa [Sim.run, hstep] using this
    have hiss := (syncStep_issued H cfg c p.1 p.2).1
    obtain ⟨e1, e2⟩ := ih (fun q hq => hps q (List.mem_cons_of_mem _ hq)) _ hr1 (by rw [hiss]; exact hU)
    simp only [List.map_cons, Sim.run, List.foldl_cons, Flow.pass] at e1 e2 ⊢
    rw [hstep]
    refine ⟨?_, by rw [e2, hiss]⟩
    rw [e1, sync_step_xch H hI cfg n causal c hr U hU hlen p.1 p.2 hp.2.2 hp.1 hp.2.1 k]

/-- **C06 ∘ C18 (anti-entropy repairs whatever was lost)**: the simulator cluster in ANY reachable
    state — after any client writes on any nodes, any gossip rounds with any loss and delay, any
    partitions and heals, any earlier exchanges — followed by pairwise `run_anti_entropy_sync`s
    whose knowledge flow is complete (`Flow.FlowComplete`, decidable): every node holds the same
    content and stamp for every key.  Hypotheses: a collision-free hash (`Ideal`, as in C18) and
    `max_keys_per_sync` at least the number of keys ever written. -/
theorem anti_entropy_pass_converges (H : Hasher) (hI : Ideal H) (cfg : Cfg) (n : Nat) (causal : Bool) (c : Sim)
    (hr : Reach H cfg n causal c) (U : List Nat) (hU : ∀ m ∈ c.issued, m.key ∈ U)
    (hlen : U.length ≤ effectiveLimit currentLimitAtLeastOne cfg.limit)
    (ps : List (Nat × Nat)) (hne : ∀ p ∈ ps, p.1 ≠ p.2) (hf : Flow.FlowComplete n ps) (k : Nat) :
    Agree (c.run H cfg (ps.map (fun p => SEv.sync p.1 p.2))).abs.base k := by
  have hps : ∀ p ∈ ps, p.1 < n ∧ p.2 < n ∧ p.1 ≠ p.2 := fun p hp => ⟨(hf.1 p hp).1, (hf.1 p hp).2, hne p hp⟩
  obtain ⟨hv, _⟩ := run_syncs_valv H hI cfg n causal U hlen k ps hps c hr hU
  obtain ⟨hR, hcar, _⟩ := reach_carrier hr k
  have hagree := Flow.flow_agree (aci_opt 0 _ hR) n (valv c k) (fun i _ => hcar i) ps hf
  have hlenN := reach_length (reach_run hr (ps.map (fun p => SEv.sync p.1 p.2)))
  intro i j si sj hsi hsj
  have hil : i < n := by
    have := (List.getElem?_eq_some_iff.mp hsi).1
    simpa [Sim.abs, hlenN] using this
  have hjl : j < n := by
    have := (List.getElem?_eq_some_iff.mp hsj).1
    simpa [Sim.abs, hlenN] using this
  have e := hagree i j hil hjl
  rw [← hv] at e
  have tr : ∀ (x : Nat) (s : Shard), (c.run H cfg (ps.map (fun p => SEv.sync p.1 p.2))).abs.base.nodes[x]? = some s →
      valv (c.run H cfg (ps.map (fun p => SEv.sync p.1 p.2))) k x = (NMap.get s.keys k).map RV.strip := by
    intro x s hs
    simp only [Sim.abs, List.getElem?_map] at hs
    simp only [valv]
    cases hx : (c.run H cfg (ps.map (fun p => SEv.sync p.1 p.2))).nodes[x]? with
    | none => rw [hx] at hs; cases hs
    | some nd =>
      rw [hx] at hs
      simp only [Option.map_some, Option.some.injEq] at hs
      rw [← hs]; rfl
  rw [← tr i si hsi, ← tr j sj hsj]
  exact e

theorem fullSync_eq_syncs (H : Hasher) (cfg : Cfg) (ps : List (Nat × Nat)) : ∀ (c : Sim), c.parts = [] →
    ps.foldl (fun c p => if Sim.canComm c.parts p.1 p.2 then Sim.syncStep H cfg c p.1 p.2 else c) c
      = c.run H cfg (ps.map (fun p => SEv.sync p.1 p.2)) := by
  induction ps with
  | nil => intro c _; rfl
  | cons p ps ih =>
    intro c hp
    simp only [List.foldl_cons, List.map_cons, Sim.run]
    have hc : Sim.canComm c.parts p.1 p.2 = true := by rw [hp]; rfl
    simp only [hc, if_true]
    have := ih (Sim.syncStep H cfg c p.1 p.2) (by rw [(syncStep_issued H cfg c p.1 p.2).2]; exact hp)
    simp only [Sim.run] at this
    rw [this]
    rfl

theorem allPairs_ne (n : Nat) : ∀ p ∈ Sim.allPairs n, p.1 < n ∧ p.2 < n ∧ p.1 ≠ p.2 := by
  intro p hp
  simp only [Sim.allPairs, List.mem_flatMap, List.mem_map, List.mem_range, List.mem_range'_1] at hp
  obtain ⟨i, hi, j, hj, rfl⟩ := hp
  simp only
  omega

/-- **`run_full_anti_entropy` on a cluster without partitions: ONE pass and every node holds the
    same value for every key — for every cluster size, after any history** -/
theorem full_anti_entropy_converges (H : Hasher) (hI : Ideal H) (cfg : Cfg) (n : Nat) (causal : Bool) (c : Sim)
    (hr : Reach H cfg n causal c) (hparts : c.parts = []) (U : List Nat) (hU : ∀ m ∈ c.issued, m.key ∈ U)
    (hlen : U.length ≤ effectiveLimit currentLimitAtLeastOne cfg.limit) (k : Nat) :
    Agree (c.step H cfg .fullSync).abs.base k := by
  have hn := reach_length hr
  have hst : c.step H cfg .fullSync = c.run H cfg ((Sim.allPairs n).map (fun p => SEv.sync p.1 p.2)) := by
    simp only [Sim.step, hn]
    exact fullSync_eq_syncs H cfg _ c hparts
  rw [hst]
  have hps := allPairs_ne n
  obtain ⟨hv, _⟩ := run_syncs_valv H hI cfg n causal U hlen k _ hps c hr hU
  obtain ⟨hR, hcar, _⟩ := reach_carrier hr k
  have hagree := Flow.allPairs_agree (aci_opt 0 _ hR) n (valv c k) (fun i _ => hcar i)
  have hlenN := reach_length (reach_run hr ((Sim.allPairs n).map (fun p => SEv.sync p.1 p.2)))
  intro i j si sj hsi hsj
  have hil : i < n := by
    have := (List.getElem?_eq_some_iff.mp hsi).1
    simpa [Sim.abs, hlenN] using this
  have hjl : j < n := by
    have := (List.getElem?_eq_some_iff.mp hsj).1
    simpa [Sim.abs, hlenN] using this
  have e := hagree i j hil hjl
  have hap : Flow.allPairs n = Sim.allPairs n := rfl
  rw [hap, ← hv] at e
  have tr : ∀ (x : Nat) (s : Shard),
      (c.run H cfg ((Sim.allPairs n).map (fun p => SEv.sync p.1 p.2))).abs.base.nodes[x]? = some s →
      valv (c.run H cfg ((Sim.allPairs n).map (fun p => SEv.sync p.1 p.2))) k x = (NMap.get s.keys k).map RV.strip := by
    intro x s hs
    simp only [Sim.abs, List.getElem?_map] at hs
    simp only [valv]
    cases hx : (c.run H cfg ((Sim.allPairs n).map (fun p => SEv.sync p.1 p.2))).nodes[x]? with
    | none => rw [hx] at hs; cases hs
    | some nd =>
      rw [hx] at hs
      simp only [Option.map_some, Option.some.injEq] at hs
      rw [← hs]; rfl
  rw [← tr i si hsi, ← tr j sj hsj]
  exact e

/-- **loss, then anti-entropy ⇒ converged READS**: any execution of the simulator cluster (client
    writes on any nodes, gossip with any loss / delay, partitions, heals, exchanges) that has no
    partition left, followed by one `run_full_anti_entropy`: every node answers `GET k` alike, for
    every key — the nodes that accepted the writes included.  Hypotheses: a collision-free hash and
    `max_keys_per_sync` at least the number of keys ever written. -/
theorem full_anti_entropy_converged_reads (H : Hasher) (hI : Ideal H) (cfg : Cfg) (n : Nat) (causal : Bool)
    (routers : List (Option Gossip.Router)) (autoAE : Bool) (evs : List SEv)
    (hparts : ((Sim.init n causal routers autoAE).run H cfg evs).parts = []) (U : List Nat)
    (hU : ∀ m ∈ ((Sim.init n causal routers autoAE).run H cfg evs).issued, m.key ∈ U)
    (hlen : U.length ≤ effectiveLimit currentLimitAtLeastOne cfg.limit) (k : Nat) (i j : Nat) (ni nj : SNode)
    (hi : ((Sim.init n causal routers autoAE).run H cfg (evs ++ [.fullSync])).nodes[i]? = some ni)
    (hj : ((Sim.init n causal routers autoAE).run H cfg (evs ++ [.fullSync])).nodes[j]? = some nj) :
    NMap.get ni.kv k = NMap.get nj.kv k := by
  apply sim_reads_agree_of_agree H cfg n causal routers autoAE (evs ++ [.fullSync]) i j ni nj hi hj k
  have hr : Reach H cfg n causal ((Sim.init n causal routers autoAE).run H cfg evs) := ⟨routers, autoAE, evs, rfl⟩
  have hrun : (Sim.init n causal routers autoAE).run H cfg (evs ++ [.fullSync]) =
      ((Sim.init n causal routers autoAE).run H cfg evs).step H cfg .fullSync := by
    simp [Sim.run, List.foldl_append]
  have hag := full_anti_entropy_converges H hI cfg n causal _ hr hparts U hU hlen k
  rw [← hrun] at hag
  exact hag i j ni.ps.sh nj.ps.sh (abs_nodes_get _ i ni hi) (abs_nodes_get _ j nj hj)

/-! ## witnesses -/

set_option maxRecDepth 8000 in
/-- three nodes pairwise partitioned; every node accepts writes nobody else hears of (one key
    written on two nodes, one deleted); the partitions are removed WITHOUT anti-entropy and the
    queue is empty: nothing would ever repair this — one `run_full_anti_entropy` does, and every
    node serves the same: the greatest-stamp write of `x`, nothing for the deleted `y`, `z` -/
theorem loss_then_full_anti_entropy_witness :
    let c := (Sim.init 3 false [] false).run toyH cfg2
      [ .partition 0 1, .partition 0 2, .partition 1 2,
        .exec 0 (.set kX [97] none), .exec 1 (.set kX [98] none), .exec 1 (.set kX [99] none),
        .exec 2 (.set kY [1] none), .exec 2 (.del [kY]), .exec 2 (.set kZ [7] (some 10)),
        .gossip [], .heal 0 1, .heal 0 2, .heal 1 2, .advance 10, .gossip [] ]
    let c' := c.step toyH cfg2 .fullSync
    c.parts = [] ∧ c.queue = [] ∧ c.syncs = 0 ∧
    kvAt c 0 kX = some (some [97]) ∧ kvAt c 1 kX = some (some [99]) ∧ kvAt c 2 kX = some none ∧
    (∀ i, i < 3 → kvAt c' i kX = some (some [99]) ∧ kvAt c' i kY = some none ∧ kvAt c' i kZ = some (some [7])) ∧
    c'.syncs = 3 := by
  decide

end C06
end RedisVerif
