import RedisVerif.Model.ShardsStr
import RedisVerif.Lemmas.NMap
import RedisVerif.Lemmas.ShardsStr
import RedisVerif.Props.C01

/-!
# The small executor `ShardsStr` refines the M7 reference executor on its command subset

`Model/ShardsStr.lean` (strings + lists, no deadlines) is what the C03 / C02 drivers run for the untimed
streams and what the `…_counterexample` theorems of `Props/C03.lean` are stated about.  It duplicates a
slice of M7 (`Model/Redis.lean`, the model C01 compares with the real `CommandExecutor` on every run);
a duplicate that lags behind a repair of /repo raises a false alarm (that happened: its glob matcher).
What can be shared is now shared by definition (`globB` = `RedisX.globMatch` — `globB_eq`; `parseI64` =
`Redis.parseCanon`, `showInt` = `Redis.showInt`, `SORT` = `Redis.sortAll`); the rest is PROVED to be M7:

* `exec1_refines_m7`: for every single-key operation `op` of the small executor, every store without an
  empty list (`OkStore`: what the executor itself maintains — `okStore_exec1`), every key and time,
  `Redis.exec (embS s) now (op7 k op) = (embS (exec1 s k op).1, rep7 op (exec1 s k op).2)`:
  the M7 command `op7 k op` on the embedded store answers the embedded reply and leaves the embedded
  store.  (`OpOk`: RPUSH / LPUSH carry at least one element — the parser's arity rule.)
* `run1_refines_m7`: lifted to sequences.
* `exec2_refines_m7`: the two-key operations RENAME, RENAMENX, RPOPLPUSH, LMOVE (all four LEFT / RIGHT combinations,
  `src = dst` rotation included) and SORT … STORE are the M7 commands `op27 a b op` on the embedded store (the EVAL
  two-key script of the small executor is not an M7 command: scripts are `Model/Script7.lean`).
An edit of M7's GET / SET / SETNX / APPEND / STRLEN / INCR / GETDEL / GETSET / TYPE / RPUSH / LPUSH / LPOP /
RPOP / LLEN / LRANGE (someone following a repaired /repo) that is not mirrored in `ShardsStr` breaks
this proof at build time instead of raising `C03:model-mismatch` at run time.
-/
namespace RedisVerif.Shards.Str
open NMap

/-- a value of the small executor as an M7 entry (the small executor has no deadlines) -/
def emb : SVal → Redis.Entry
  | .str b => ⟨.str b, none⟩
  | .list l => ⟨.list l, none⟩

def embS (s : St) : Redis.State := NMap.mapVal emb s

/-- the M7 command a single-key operation of the small executor stands for -/
def op7 (k : Key) : Op1 → Redis.Cmd
  | .get => .get k
  | .set v => .set k v .always .none false
  | .setnx v => .setnx k v
  | .append v => .append k v
  | .strlen => .strlen k
  | .incr => .incr k
  | .getdel => .getdel k
  | .getset v => .getset k v
  | .typ => .type k
  | .rpush vs => .rpush k vs
  | .lpush vs => .lpush k vs
  | .lpop => .lpop k
  | .rpop => .rpop k
  | .llen => .llen k
  | .lrange => .lrange k 0 (-1)

def err7 (c : Nat) : Redis.Err :=
  if c = errWrongType then .wrongType else if c = errNotInt then .notInt else if c = errOverflow then .overflow
  else if c = errNoSuchKey then .noSuchKey else .notDouble

def r17 : R1 → Redis.Reply
  | .ok => .ok
  | .nil => .nil
  | .int i => .int i
  | .bulk b => .bulk b
  | .err c => .err (err7 c)
  | .ext r => r

def elem7 : R1 → Redis.Elem
  | .bulk b => .bulk b
  | .int i => .int i
  | _ => .nil

/-- the reply of the small executor as an M7 reply (TYPE answers a status line in M7) -/
def rep7 (op : Op1) (r : Reply) : Redis.Reply :=
  match op, r with
  | .typ, .one (.bulk b) => .simple (String.ofList (b.map Char.ofNat))
  | _, .one x => r17 x
  | _, .many l => .arr (l.map elem7)
  | _, _ => .nil

theorem get_embS (s : St) (k : Nat) : get (embS s) k = (get s k).map emb := get_mapVal emb s k

theorem wf_embS {s : St} (h : WF s) : WF (embS s) := wf_mapVal emb h

theorem embS_insert {s : St} (h : WF s) (k : Nat) (v : SVal) : embS (NMap.insert k v s) = NMap.insert k (emb v) (embS s) := by
  apply NMap.ext (wf_embS (wf_insert h)) (wf_insert (wf_embS h))
  intro k'
  rw [get_embS, get_insert, get_insert, get_embS]
  split <;> rfl

theorem embS_erase {s : St} (h : WF s) (k : Nat) : embS (NMap.erase k s) = NMap.erase k (embS s) := by
  apply NMap.ext (wf_embS (wf_erase h)) (wf_erase (wf_embS h))
  intro k'
  rw [get_embS, get_erase h, get_erase (wf_embS h), get_embS]
  split <;> rfl


def OkStore (s : St) : Prop := WF s ∧ ∀ k, get s k ≠ some (.list [])

def OpOk : Op1 → Prop
  | .rpush [] => False
  | .lpush [] => False
  | _ => True

theorem lookupStr_embS (s : St) (k : Nat) : Redis.lookupStr (embS s) k =
    match get s k with
    | none => .missing
    | some (.str b) => .found b none
    | some (.list _) => .wrong := by
  unfold Redis.lookupStr
  rw [get_embS]
  cases get s k with
  | none => rfl
  | some v => cases v <;> rfl

theorem lookupList_embS (s : St) (k : Nat) : Redis.lookupList (embS s) k =
    match get s k with
    | none => .missing
    | some (.list l) => .found l none
    | some (.str _) => .wrong := by
  unfold Redis.lookupList
  rw [get_embS]
  cases get s k with
  | none => rfl
  | some v => cases v <;> rfl

theorem put_same {s : St} (hw : WF s) (k : Nat) : put s k (get s k) = s := by
  cases hg : get s k with
  | none =>
    apply NMap.ext (wf_erase hw) hw
    intro k'; rw [get_erase hw]; split
    · rename_i h; rw [h, hg]
    · rfl
  | some v =>
    apply NMap.ext (wf_insert hw) hw
    intro k'; rw [get_insert]; split
    · rename_i h; rw [h, hg]
    · rfl

theorem embS_put {s : St} (hw : WF s) (k : Nat) (o : Option SVal) :
    embS (put s k o) = (match o with | none => NMap.erase k (embS s) | some v => NMap.insert k (emb v) (embS s)) := by
  cases o with
  | none => exact embS_erase hw k
  | some v => exact embS_insert hw k v

theorem putList_ne (s : Redis.State) (k : Nat) (l : List Redis.BS) (dl : Option Nat) (h : l ≠ []) :
    Redis.putList s k l dl = NMap.insert k ⟨.list l, dl⟩ s := by
  cases l with
  | nil => exact absurd rfl h
  | cons _ _ => rfl

theorem lrange_all (l : List Redis.BS) (h : l ≠ []) : Redis.slice l (Redis.lrangeNorm l.length 0 (-1)) = l := by
  have hl : 0 < l.length := List.length_pos_iff.mpr h
  unfold Redis.lrangeNorm Redis.normIdx Redis.clampEnd Redis.slice
  have h1 : ¬ ((0 : Int) < 0) := by omega
  have h2 : ((-1 : Int) < 0) := by omega
  simp only [h1, h2, if_true, if_false]
  have h3 : ¬ ((0 : Int) > -1 + (l.length : Int) ∨ (0 : Int) ≥ (l.length : Int)) := by omega
  rw [if_neg h3]
  have h4 : ¬ ((-1 : Int) + (l.length : Int) ≥ (l.length : Int)) := by omega
  rw [if_neg h4]
  have h5 : ((-1 : Int) + (l.length : Int) + 1).toNat = l.length := by omega
  simp [h5]

set_option maxRecDepth 2000 in
theorem exec1_refines_m7 (s : St) (hs : OkStore s) (now k : Nat) (op : Op1) (hop : OpOk op) :
    Redis.exec (embS s) now (op7 k op) = (embS (exec1 s k op).1, rep7 op (exec1 s k op).2) := by
  obtain ⟨hw, hne⟩ := hs
  have hps := put_same hw k
  cases op
  case incr =>
    simp only [op7, Redis.exec, Redis.execIncrBy, lookupStr_embS, exec1, slot1]
    rcases hg : get s k with _ | (b | l)
    · simp only [hg] at hps
      simp [embS_put hw, rep7, r17, emb, showInt]
    · simp only [hg] at hps
      simp only [parseI64]
      cases hpc : Redis.parseCanon b with
      | none => simp [hps, rep7, r17, err7, errNotInt, errWrongType]
      | some v =>
        have hin := C01.parseCanon_in_i64 b v hpc
        rw [C01.inI64_iff] at hin
        have hiff : Redis.inI64 (v + 1) = decide (v + 1 ≤ i64Max) := by
          by_cases hle : v + 1 ≤ i64Max
          · simp only [hle, decide_true]; rw [C01.inI64_iff]; unfold i64Max at hle; simp only [Redis.i64Min, Redis.i64Max] at *; omega
          · simp only [hle, decide_false]
            cases hq : Redis.inI64 (v + 1) with
            | false => rfl
            | true => rw [C01.inI64_iff] at hq; exact absurd hq.2 hle
        by_cases hle : v + 1 ≤ i64Max
        · simp [hiff, hle, embS_put hw, rep7, r17, emb, showInt]
        · simp [hiff, hle, hps, rep7, r17, err7, errOverflow, errWrongType, errNotInt]
    · simp only [hg] at hps
      simp [hps, rep7, r17, wrongType, err7, errWrongType]
  all_goals
    simp only [op7, Redis.exec, Redis.execGet, Redis.execSet, Redis.setPlan, Redis.setCore, Redis.execSetNx,
      Redis.execAppend, Redis.execStrLen, Redis.execGetDel, Redis.execGetSet, Redis.execType, Redis.execPush,
      Redis.execPop, Redis.execLLen, Redis.execLRange, lookupStr_embS, lookupList_embS, get_embS, exec1, slot1]
    rcases hg : get s k with _ | (b | l)
  all_goals (simp only [hg] at hps)
  all_goals try (simp [hps, embS_put hw, rep7, r17, elem7, emb, Redis.planDl, Redis.oldDl,
            get_embS, hg, Redis.putList, Redis.pushMany, Redis.wrongStr, lookupStr_embS, Redis.Reply.ok, wrongType, err7, errWrongType]; done)
  -- TYPE (two value kinds)
  · simp [hps, rep7, emb, Redis.typeName]
  · simp [hps, rep7, emb, Redis.typeName]
  -- RPUSH, LPUSH × (missing, string, list)
  all_goals try (
    rename_i vs
    cases vs with
    | nil => exact absurd hop (by simp [OpOk])
    | cons x xs =>
      simp [hps, embS_put hw, rep7, r17, emb, Redis.pushMany, putList_ne, wrongType, err7, errWrongType]
    done)
  -- LPOP on a list
  · have hl : l ≠ [] := fun e => hne k (by rw [hg, e])
    match l, hl, hg, hps with
    | [x], _, hg, hps => simp [embS_put hw, rep7, r17, Redis.popSide, Redis.putList]
    | x :: y :: r, _, hg, hps => simp [embS_put hw, rep7, r17, emb, Redis.popSide, Redis.putList]
  -- RPOP on a list
  · have hl : l ≠ [] := fun e => hne k (by rw [hg, e])
    have hx : ∃ x, l.getLast? = some x := by
      cases hq : l.getLast? with
      | none => exact absurd (List.getLast?_eq_none_iff.mp hq) hl
      | some x => exact ⟨x, rfl⟩
    obtain ⟨x, hx⟩ := hx
    simp only [Redis.popSide, hx]
    cases hd : l.dropLast with
    | nil => simp [hd, embS_put hw, rep7, r17, Redis.putList]
    | cons y r => simp [hd, embS_put hw, rep7, r17, emb, Redis.putList]
  -- LRANGE 0 -1 on a list
  · have hl : l ≠ [] := fun e => hne k (by rw [hg, e])
    simp [hps, rep7, elem7, lrange_all l hl, Function.comp_def]

/-- the slot an operation writes back is never an EMPTY list (given that the old one is not) -/
theorem slot1_ne (op : Op1) (old : Option SVal) (hop : OpOk op) (hold : old ≠ some (.list [])) :
    (slot1 op old).1 ≠ some (.list []) := by
  cases op <;> simp only [slot1]
  all_goals (rcases old with _ | (b | l))
  all_goals try (simp; done)
  all_goals try (simp at hold ⊢; try exact hold)
  -- INCR on a string: three outcomes
  · split
    · simp
    · split <;> simp
  -- RPUSH / LPUSH with ≥ 1 element
  all_goals try (
    rename_i vs
    cases vs with
    | nil => exact absurd hop (by simp [OpOk])
    | cons x xs => simp)
  -- LPOP: the rest of a list of ≥ 2 elements is not empty
  · match l, hold with
    | [x], _ => simp
    | x :: y :: r, _ => simp
  -- RPOP: `dropLast` is written back only when it is not empty
  · cases l.getLast? with
    | none => simp
    | some x =>
      simp only
      split
      · simp
      · rename_i hne; simp at hne ⊢; exact hne

/-- the executor keeps its stores free of empty lists -/
theorem okStore_exec1 (s : St) (hs : OkStore s) (k : Nat) (op : Op1) (hop : OpOk op) : OkStore (exec1 s k op).1 := by
  obtain ⟨hw, hne⟩ := hs
  refine ⟨wf_put s k _ hw, fun k' => ?_⟩
  show get (put s k (slot1 op (get s k)).1) k' ≠ _
  rw [get_put s k _ hw k']
  split
  · exact slot1_ne op _ hop (hne k)
  · exact hne k'

theorem okStore_nil : OkStore ([] : St) := ⟨List.Pairwise.nil, fun k h => by cases h⟩

/-- a sequence of single-key operations on the small executor -/
def runOps (s : St) : List (Nat × Op1) → St × List Reply
  | [] => (s, [])
  | (k, op) :: rest => let r := exec1 s k op; let t := runOps r.1 rest; (t.1, r.2 :: t.2)

/-- the same sequence as timed M7 commands on one M7 store (no deadline is ever set: time is irrelevant) -/
def runOps7 (s : Redis.State) (now : Nat) : List (Nat × Op1) → Redis.State × List Redis.Reply
  | [] => (s, [])
  | (k, op) :: rest =>
    let r := Redis.exec s now (op7 k op); let t := runOps7 r.1 now rest; (t.1, r.2 :: t.2)

/-- **the small executor refines M7 on every sequence** of its single-key operations -/
theorem run1_refines_m7 (now : Nat) : ∀ (ops : List (Nat × Op1)) (s : St), OkStore s → (∀ x ∈ ops, OpOk x.2) →
    runOps7 (embS s) now ops = (embS (runOps s ops).1, (ops.zip (runOps s ops).2).map (fun x => rep7 x.1.2 x.2)) := by
  intro ops
  induction ops with
  | nil => intro s _ _; rfl
  | cons x xs ih =>
    intro s hs hok
    obtain ⟨k, op⟩ := x
    have h1 := exec1_refines_m7 s hs now k op (hok (k, op) (by simp))
    have h2 := ih (exec1 s k op).1 (okStore_exec1 s hs k op (hok (k, op) (by simp))) (fun y hy => hok y (by simp [hy]))
    simp only [runOps7, runOps, h1, h2, List.zip_cons_cons, List.map_cons]

/-- non-vacuity: SET, APPEND, INCR (on a non-number: error), RPUSH, LPOP (the key vanishes), TYPE -/
example : (runOps [] [(1, .set [53]), (1, .append [48]), (1, .incr), (2, .rpush [[97]]), (2, .lpop), (2, .typ),
    (1, .get)]).2 =
  [.one .ok, .one (.int 2), .one (.int 51), .one (.int 1), .one (.bulk [97]), .one (.bulk [110, 111, 110, 101]),
   .one (.bulk [53, 49])] := by decide

/-! ## the two-key operations -/

def side7 (fromLeft : Bool) : Redis.Side := if fromLeft then .left else .right

/-- the M7 command a two-key operation of the small executor stands for (the EVAL two-key script is
    not an M7 command: `Model/Script7.lean`) -/
def op27 (a b : Key) : Op2 → Option Redis.Cmd
  | .rename => some (.rename a b)
  | .renamenx => some (.renamenx a b)
  | .rpoplpush => some (.rpoplpush a b)
  | .lmove fl tl => some (.lmove a b (side7 fl) (side7 tl))
  | .sortStore => some (.sort a (some b))
  | .evalSetIfExists _ => none

def rep27 (r : Reply) : Redis.Reply :=
  match r with
  | .one x => r17 x
  | .many l => .arr (l.map elem7)
  | _ => .nil

theorem put_put_same {s : St} (hw : WF s) (a b : Nat) : put (put s a (get s a)) b (get s b) = s := by
  rw [put_same hw a, put_same hw b]

theorem put_none_some_same {s : St} (hw : WF s) (a : Nat) (v : SVal) (hg : get s a = some v) :
    put (put s a none) a (some v) = s := by
  apply NMap.ext (wf_put _ _ _ (wf_put _ _ _ hw)) hw
  intro k'
  rw [get_put _ _ _ (wf_put _ _ _ hw), get_put _ _ _ hw]
  split
  · rename_i h; rw [h, hg]
  · rfl

theorem insert_erase_same {ν : Type} {m : NMap ν} (hw : WF m) (a : Nat) (v : ν) :
    NMap.insert a v (NMap.erase a m) = NMap.insert a v m := by
  apply NMap.ext (wf_insert (wf_erase hw)) (wf_insert hw)
  intro k
  rw [get_insert, get_insert, get_erase hw]
  split <;> rfl

theorem insert_insert_same {ν : Type} {m : NMap ν} (hw : WF m) (a : Nat) (v w : ν) :
    NMap.insert a v (NMap.insert a w m) = NMap.insert a v m := by
  apply NMap.ext (wf_insert (wf_insert hw)) (wf_insert hw)
  intro k
  rw [get_insert, get_insert, get_insert]
  split <;> rfl

theorem pushOne_ne (sd : Redis.Side) (l : List Redis.BS) (x : Redis.BS) : Redis.pushOne sd l x ≠ [] := by
  cases sd <;> simp [Redis.pushOne]

theorem exec2_rename (s : St) (hs : OkStore s) (now a b : Nat) :
    Redis.exec (embS s) now (.rename a b) = (embS (exec2 s a b .rename).1, rep27 (exec2 s a b .rename).2) := by
  obtain ⟨hw, hne⟩ := hs
  simp only [Redis.exec, Redis.execRename, exec2, slot2, get_embS]
  cases hg : get s a with
  | none =>
    have := put_put_same hw a b
    rw [hg] at this
    simp [this, rep27, r17, err7, errNoSuchKey, errWrongType, errNotInt, errOverflow]
  | some v =>
    by_cases hab : a = b
    · subst hab
      simp [put_none_some_same hw a v hg, rep27, r17]
    · simp [hab, embS_put (wf_put s a none hw), embS_put hw, rep27, r17]

theorem exec2_renamenx (s : St) (hs : OkStore s) (now a b : Nat) :
    Redis.exec (embS s) now (.renamenx a b) = (embS (exec2 s a b .renamenx).1, rep27 (exec2 s a b .renamenx).2) := by
  obtain ⟨hw, hne⟩ := hs
  simp only [Redis.exec, Redis.execRenameNx, exec2, slot2, get_embS]
  have hpp := put_put_same hw a b
  cases hg : get s a with
  | none =>
    rw [hg] at hpp
    simp [hpp, rep27, r17, err7, errNoSuchKey, errWrongType, errNotInt, errOverflow]
  | some v =>
    rw [hg] at hpp
    cases hb : get s b with
    | some w =>
      rw [hb] at hpp
      simp [hpp, rep27, r17]
    | none =>
      simp [embS_put (wf_put s a none hw), embS_put hw, rep27, r17]

theorem popEnd_popSide (fl : Bool) (l : List Bytes) : popEnd fl l = Redis.popSide (side7 fl) l := by
  cases fl <;> simp only [popEnd, Redis.popSide, side7] <;> rfl

theorem pushEnd_pushOne (tl : Bool) (x : Bytes) (d : List Bytes) : pushEnd tl x d = Redis.pushOne (side7 tl) d x := by
  cases tl <;> rfl

theorem exec2_lmove (s : St) (hs : OkStore s) (now a b : Nat) (fl tl : Bool) :
    Redis.exec (embS s) now (.lmove a b (side7 fl) (side7 tl)) =
      (embS (exec2 s a b (.lmove fl tl)).1, rep27 (exec2 s a b (.lmove fl tl)).2) := by
  obtain ⟨hw, hne⟩ := hs
  simp only [Redis.exec, Redis.execLMove, exec2, slot2, moveSlot, lookupList_embS, popEnd_popSide, pushEnd_pushOne]
  have hpp := put_put_same hw a b
  rcases hga : get s a with _ | (sa | la)
  · rw [hga] at hpp
    simp [hpp, rep27, r17]
  · rw [hga] at hpp
    simp [hpp, rep27, r17, wrongType, err7, errWrongType]
  · rw [hga] at hpp
    have hla : la ≠ [] := fun e => hne a (by rw [hga, e])
    obtain ⟨x, rest, hpop⟩ : ∃ x rest, Redis.popSide (side7 fl) la = some (x, rest) := by
      cases fl <;> simp only [side7, Redis.popSide]
      · cases hq : la.getLast? with
        | none => exact absurd (List.getLast?_eq_none_iff.mp hq) hla
        | some x => exact ⟨x, _, rfl⟩
      · cases la with
        | nil => exact absurd rfl hla
        | cons x r => exact ⟨x, r, rfl⟩
    have hwa : WF (put s a none) := wf_put s a none hw
    have hwe := wf_embS hw
    by_cases hab : a = b
    · subst hab
      simp only [hga, hpop, beq_self_eq_true, if_true]
      cases rest with
      | nil =>
        simp [embS_put hw, embS_put hwa, rep27, r17, emb, putList_ne _ _ _ _ (pushOne_ne _ _ _), Redis.pushOne,
          insert_erase_same hwe]
        cases tl <;> rfl
      | cons y r =>
        have hwi : WF (put s a (some (SVal.list (y :: r)))) := wf_put s a _ hw
        simp [embS_put hw, embS_put hwi, rep27, r17, emb, putList_ne _ _ _ _ (pushOne_ne _ _ _),
          insert_insert_same hwe]
    · simp only [hga, hpop, hab, if_false]
      have hbeq : (a == b) = false := by simp [hab]
      rcases hgb : get s b with _ | (sb | lb)
      · cases rest with
        | nil =>
          simp [hbeq, embS_put hw, embS_put hwa, rep27, r17, emb, Redis.putList]
        | cons y r =>
          have hwi : WF (put s a (some (SVal.list (y :: r)))) := wf_put s a _ hw
          simp [hbeq, embS_put hw, embS_put hwi, rep27, r17, emb, Redis.putList]
      · rw [hgb] at hpp
        simp [hpp, rep27, r17, wrongType, err7, errWrongType]
      · simp only [putList_ne _ _ _ _ (pushOne_ne (side7 tl) lb x)]
        cases rest with
        | nil =>
          simp [hbeq, embS_put hw, embS_put hwa, rep27, r17, emb, Redis.putList]
        | cons y r =>
          have hwi : WF (put s a (some (SVal.list (y :: r)))) := wf_put s a _ hw
          simp [hbeq, embS_put hw, embS_put hwi, rep27, r17, emb, Redis.putList]

theorem exec2_rpoplpush (s : St) (hs : OkStore s) (now a b : Nat) :
    Redis.exec (embS s) now (.rpoplpush a b) = (embS (exec2 s a b .rpoplpush).1, rep27 (exec2 s a b .rpoplpush).2) :=
  exec2_lmove s hs now a b false true

theorem put_put_over {s : St} (hw : WF s) (a : Nat) (o o' : Option SVal) : put (put s a o) a o' = put s a o' := by
  apply NMap.ext (wf_put _ _ _ (wf_put _ _ _ hw)) (wf_put _ _ _ hw)
  intro k
  rw [get_put _ _ _ (wf_put _ _ _ hw), get_put _ _ _ hw, get_put _ _ _ hw]
  split <;> rfl

theorem exec2_sortStore (s : St) (hs : OkStore s) (now a b : Nat) :
    Redis.exec (embS s) now (.sort a (some b)) = (embS (exec2 s a b .sortStore).1, rep27 (exec2 s a b .sortStore).2) := by
  obtain ⟨hw, hne⟩ := hs
  simp only [Redis.exec, Redis.execSort, Redis.sortSource, exec2, slot2, get_embS]
  have hpp := put_put_same hw a b
  have hps := put_same hw a
  rcases hga : get s a with _ | (sa | la)
  · rw [hga] at hps
    simp [hps, embS_put hw, rep27, r17, Redis.sortAll, Redis.putList]
  · rw [hga] at hpp
    simp [hpp, emb, rep27, r17, wrongType, err7, errWrongType]
  · rw [hga] at hpp hps
    simp only [Option.map_some, emb]
    by_cases hany : (la.any fun e => (Redis.sortNum e).isNone) = true
    · simp [hany, hpp, rep27, r17, err7, errNotDouble, errWrongType, errNotInt, errOverflow, errNoSuchKey]
    · simp only [hany, Bool.false_eq_true, if_false]
      cases hso : Redis.sortAll la with
      | nil => simp [hps, embS_put hw, rep27, r17, Redis.putList]
      | cons y r => simp [hps, embS_put hw, rep27, r17, emb, Redis.putList]

/-- **every two-key operation of the small executor that is an M7 command IS that command** -/
theorem exec2_refines_m7 (s : St) (hs : OkStore s) (now a b : Nat) (op : Op2) (c : Redis.Cmd) (hc : op27 a b op = some c) :
    Redis.exec (embS s) now c = (embS (exec2 s a b op).1, rep27 (exec2 s a b op).2) := by
  cases op <;> simp only [op27, Option.some.injEq, reduceCtorEq] at hc <;> subst hc
  · exact exec2_rename s hs now a b
  · exact exec2_renamenx s hs now a b
  · exact exec2_rpoplpush s hs now a b
  · exact exec2_lmove s hs now a b _ _
  · exact exec2_sortStore s hs now a b


/-- the small executor's KEYS / SCAN MATCH matcher IS the reference model's `stringmatchlen` (it is
    only evaluated differently: every recursive call bound once) -/
theorem glob_is_reference_glob (p k : List Nat) : globB p k = RedisX.globMatch p k := globB_eq p k

end RedisVerif.Shards.Str
