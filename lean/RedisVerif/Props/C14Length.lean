import RedisVerif.Props.C14Bytes

/-!
# C14 — the checkpoint's data-length field: the last excluded position

`checkpoint_single_byte_corruption` (Props/C14Bytes.lean) covers every byte of a written checkpoint except
the 4-byte data-length field (48..52): "a changed length moves the footer — the footer checksum is then
computed over other bytes", which no property of CRC-32 excludes.  It does not have to: a LONGER announced
length makes `validate` fail on the size of the image, and a SHORTER one hands `load` a proper prefix of the
bincode encoding of the state — and no proper prefix of an encoding decodes (`bincode_truncated_state_rejected`,
a consequence of the decoder's `exact` law).  So a damaged length is ALWAYS an error, whatever the checksums
say:

* `checkpoint_length_damage_detected` — any four bytes in place of the length field that announce another
  length: `Err`, for every payload codec without decodable proper prefixes (no hypothesis on the checksum);
* **`checkpoint_any_single_byte_corruption`** — ONE byte of a written checkpoint of a representable state replaced
  by any value at ANY position — header, padding, data length, bincode data, footer — reads as an error or
  exactly as the pristine image: never different data.  (The analogue for a WAL entry is FALSE:
  `C10.length_bit_flip_counterexample` — there the reader does not deserialise.)
-/
namespace RedisVerif
namespace C14

open Wal Codec Driver Concrete WalBytes Bincode

/-- an `Ok` of `readCheckpoint` means: the image is long enough for the announced length and the footer,
    and the announced slice deserialises -/
theorem readCheckpoint_ok {σ : Type} (crc : Bytes → Nat) (de : Bytes → Option σ) (data : Bytes) (s : σ)
    (h : readCheckpoint crc de data = .ok s) :
    52 + leVal ((data.drop 48).take 4) + 16 ≤ data.length ∧
    de ((data.drop 52).take (leVal ((data.drop 48).take 4))) = some s := by
  unfold readCheckpoint at h
  simp only at h
  repeat' split at h
  all_goals first
    | (rename_i hde; simp only [Except.ok.injEq] at h; subst h; exact ⟨by omega, hde⟩)
    | (cases h; done)

/-- four bytes in place of the data-length field that announce ANOTHER length: always an error — the
    image is too short for a longer length, and a shorter one cuts the payload to a proper prefix,
    which the payload codec never decodes -/
theorem checkpoint_length_damage_detected {σ : Type} (crc : Bytes → Nat) (de : Bytes → Option σ)
    (hdr len4' payload foot : Bytes) (hh : hdr.length = 48) (h4 : len4'.length = 4) (hf : foot.length = 16)
    (hne : leVal len4' ≠ payload.length) (hpf : ∀ n, n < payload.length → de (payload.take n) = none) :
    IsErr (readCheckpoint crc de (hdr ++ (len4' ++ (payload ++ foot)))) := by
  obtain ⟨plen, _, p3, _, _⟩ := chk_parts0 hdr len4' payload foot hh h4 hf
  cases hr : readCheckpoint crc de (hdr ++ (len4' ++ (payload ++ foot))) with
  | error e => exact ⟨e, rfl⟩
  | ok s =>
    exfalso
    obtain ⟨hlen, hde⟩ := readCheckpoint_ok crc de _ s hr
    rw [p3] at hlen hde
    rw [plen] at hlen
    have hlt : leVal len4' < payload.length := by omega
    have hdrop : (hdr ++ (len4' ++ (payload ++ foot))).drop 52 = payload ++ foot := by
      rw [← List.append_assoc]
      exact List.drop_left' (by simp [hh, h4])
    rw [hdrop, List.take_append_of_le_length (Nat.le_of_lt hlt)] at hde
    rw [hpf _ hlt] at hde
    cases hde

/-- MAIN: ONE byte of a written checkpoint of a representable state replaced by any value at ANY position:
    an error, or exactly what the pristine image reads as — never different data -/
theorem checkpoint_any_single_byte_corruption (s : WState) (hs : state.ok s) (k t l p v : Nat)
    (hl : (state.enc s).length < 2 ^ 32) (hv : v < 256)
    (hp : p < (writeCheckpoint crc32 k t l (state.enc s)).length) :
    IsErr (readCheckpoint crc32 deState ((writeCheckpoint crc32 k t l (state.enc s)).set p v)) ∨
      readCheckpoint crc32 deState ((writeCheckpoint crc32 k t l (state.enc s)).set p v)
        = readCheckpoint crc32 deState (writeCheckpoint crc32 k t l (state.enc s)) := by
  have hb : ∀ x ∈ state.enc s, x < 256 := bytes_of_allBytes (lawful_state.enc_bytes s hs)
  by_cases hnl : p < 48 ∨ 52 ≤ p
  · exact checkpoint_single_byte_corruption deState k t l (state.enc s) p v hl hb hv hp hnl
  · -- the data-length field
    have hh : (chkHeader crc32 k t l).length = 48 := by
      rw [chkHeader_eq]; exact chkHeader_length _ _ _ _ _ _ rfl (by simp)
    obtain ⟨j, rfl⟩ : ∃ j, p = 48 + j := ⟨p - 48, by omega⟩
    have hj : j < 4 := by omega
    unfold writeCheckpoint
    have h1 := set_append_right (chkHeader crc32 k t l)
      (le 4 (state.enc s).length ++ (state.enc s ++ chkFooter crc32 (state.enc s))) j v
    rw [hh] at h1
    rw [h1, set_append_left _ _ _ _ (by rw [le_length]; exact hj)]
    by_cases hsame : (le 4 (state.enc s).length).set j v = le 4 (state.enc s).length
    · right; rw [hsame]
    · left
      apply checkpoint_length_damage_detected crc32 deState _ _ _ _ hh (by rw [List.length_set, le_length])
        (chkFooter_length _ _) (leVal_set_ne _ j v hl hj hv hsame)
      intro n hn
      unfold deState
      rw [lawful_state.truncated_none s hs n hn]
      rfl

end C14
end RedisVerif
