import RedisVerif.Props.C08

/-!
# C08 at the u64 boundary of the Lamport time

`LamportClock.time` is a `u64`; `tick` is `self.time += 1`, `update` is
`self.time = self.time.max(other.time) + 1`.  The shard model (`Model/Replica.lean`) uses `Nat`.

* `clock_u64_exact` — as long as `max(start, every stamp handed in) + number of operations` stays
  below 2^64, the machine arithmetic (wrapping — the release profile — or checked — `overflow-checks`,
  the profile the harness builds /repo with) computes exactly the `Nat` clock at every step, so
  every theorem of `Props/C08.lean` is a theorem about the u64 clock for such histories.
* `clock_u64_overflow_counterexample` — ONE delta stamped `u64::MAX` from a peer (arbitrary
  stamps are in the property's quantifier): `update` overflows — the checked build panics (the
  shard actor dies), the release build wraps the clock to 0 and the node's next write is stamped
  (1, r): below the value it has just stored, it loses on every replica.  Known finding
  `C08:clock:u64-overflow`.
-/
namespace RedisVerif
namespace C08

def u64Bound : Nat := 18446744073709551616

/-- the two operations that move a Lamport clock -/
inductive ClockOp where
  | tick
  | update (t : Nat)
  deriving DecidableEq, Repr

/-- exact (`Nat`) clock -/
def clockStep (c : Nat) : ClockOp → Nat
  | .tick => c + 1
  | .update t => Max.max c t + 1

/-- release profile: wrapping `u64` arithmetic -/
def clockStepWrap (c : Nat) (o : ClockOp) : Nat := clockStep c o % u64Bound

/-- `overflow-checks = true`: `none` = panic "attempt to add with overflow" -/
def clockStepChecked (c : Nat) (o : ClockOp) : Option Nat :=
  if clockStep c o < u64Bound then some (clockStep c o) else none

def clockRun (c : Nat) (ops : List ClockOp) : Nat := ops.foldl clockStep c
def clockRunWrap (c : Nat) (ops : List ClockOp) : Nat := ops.foldl clockStepWrap c
def clockRunChecked (c : Nat) (ops : List ClockOp) : Option Nat :=
  ops.foldl (fun acc o => acc.bind (fun c => clockStepChecked c o)) (some c)

/-- the largest stamp handed in -/
def maxIn : List ClockOp → Nat
  | [] => 0
  | .tick :: ops => maxIn ops
  | .update t :: ops => Max.max t (maxIn ops)

theorem clockStep_le (c : Nat) (o : ClockOp) (ops : List ClockOp) :
    Max.max (clockStep c o) (maxIn ops) + ops.length ≤ Max.max c (maxIn (o :: ops)) + (o :: ops).length := by
  cases o with
  | tick => simp only [clockStep, maxIn, List.length_cons]; omega
  | update t => simp only [clockStep, maxIn, List.length_cons]; omega

/-- **below the bound the u64 clock is the exact clock**, wrapping or checked, at the end of every
    history (hence at every step: a prefix has a smaller bound) -/
theorem clock_u64_exact (ops : List ClockOp) : ∀ (c : Nat),
    Max.max c (maxIn ops) + ops.length < u64Bound →
    clockRunWrap c ops = clockRun c ops ∧ clockRunChecked c ops = some (clockRun c ops) := by
  induction ops with
  | nil => intro c _; exact ⟨rfl, rfl⟩
  | cons o ops ih =>
    intro c h
    have hle := clockStep_le c o ops
    have hstep : clockStep c o < u64Bound := by
      have : clockStep c o ≤ Max.max (clockStep c o) (maxIn ops) + ops.length := by omega
      omega
    have := ih (clockStep c o) (by omega)
    simp only [clockRunWrap, clockRun, clockRunChecked, List.foldl_cons] at this ⊢
    have hw : clockStepWrap c o = clockStep c o := by
      simp only [clockStepWrap]; exact Nat.mod_eq_of_lt hstep
    have hc : (some c).bind (fun c => clockStepChecked c o) = some (clockStep c o) := by
      simp [clockStepChecked, hstep]
    rw [hw, hc]
    exact this

/-- **known finding C08:clock:u64-overflow**: a peer's delta stamped `u64::MAX`, then a local write -/
theorem clock_u64_overflow_counterexample :
    clockRunChecked 0 [.update (u64Bound - 1)] = none ∧
    clockRunWrap 0 [.update (u64Bound - 1), .tick] = 1 ∧
    -- the exact clock would have stamped the write above what was seen
    clockRun 0 [.update (u64Bound - 1), .tick] = u64Bound + 1 ∧
    -- one step earlier nothing overflows yet: MAX − 2 → the write is stamped MAX
    clockRunChecked 0 [.update (u64Bound - 3), .tick] = some (u64Bound - 1) ∧
    clockRunChecked 0 [.update (u64Bound - 3), .tick, .tick] = none := by
  decide

/-- the shard's clock is driven by exactly these two operations: a local write ticks once per
    touched register, a delivered / recovered value updates once (`clock_monotone` gives the `≥`) -/
example : clockRun 0 [.tick, .update 5, .tick] = 7 ∧ maxIn [.tick, .update 5, .tick] = 5 := by decide

end C08
end RedisVerif
